package main

import (
	"fmt"
	"math"
	"regexp"
	"sort"
	"strconv"
	"strings"

	"golang.org/x/tools/go/ssa"
)

func init() {
	register(&Rule{
		ID:    "C09.kernels",
		Props: []string{"C09"},
		Doc:   "distance kernels interpreted on every lattice configuration: distBetweenXYAndLine equals the exact point-to-segment distance (clamping to endpoint a when the projection is negative, to b when it exceeds |ab|); distBetweenLineAndLine is the minimum over the four endpoint/segment pairs",
		Floor: 2,
		Run:   runC09Kernels,
	})
	register(&Rule{
		ID:    "C11.bulk",
		Props: []string{"C11"},
		Doc:   "bulk loading keeps every item exactly once: splitBulkItems2Ways (interpreted on a modelled slice) returns items[:k] and items[k:] for one k with 0 < k < n; BulkLoad records count = len(items); bulkNode/bulkInsert set every child's box from calculateBound(child); Extent is calculateBound(root)",
		Floor: 4,
		Run:   runC11Bulk,
	})
	register(&Rule{
		ID:    "C17.interp",
		Props: []string{"C17"},
		Doc:   "InterpolateEvenlySpacedPoints interpreted for n in {-2..5}: n <= 0 gives an empty MultiPoint of the receiver's coordinates type, n = 1 interpolates at 0.5, n >= 2 interpolates exactly at i/(n-1) for i = 0..n-1 in order; linearInterpolator.interpolate clamps the fraction to [0,1]",
		Floor: 2,
		Run:   runC17Interp,
	})
	register(&Rule{
		ID:    "C15.mod2",
		Props: []string{"C15"},
		Doc:   "LineString.Boundary interpreted over (empty, closed): empty MultiPoint iff empty or closed, otherwise exactly {StartPoint, EndPoint}",
		Floor: 1,
		Run:   runC15Mod2,
	})
	register(&Rule{
		ID:    "C12.expand",
		Props: []string{"C12"},
		Doc:   "ExpandToIncludeXY / ExpandToIncludeEnvelope interpreted on every lattice configuration and emptiness combination: the empty envelope is the identity, otherwise the result is the per-axis min of mins and max of maxes",
		Floor: 2,
		Run:   runC12Expand,
	})
}

func segDist(px, py, ax, ay, bx, by float64) float64 {
	dx, dy := bx-ax, by-ay
	l2 := dx*dx + dy*dy
	if l2 == 0 {
		return math.Hypot(px-ax, py-ay)
	}
	t := ((px-ax)*dx + (py-ay)*dy) / l2
	t = math.Max(0, math.Min(1, t))
	return math.Hypot(px-(ax+t*dx), py-(ay+t*dy))
}

func runC09Kernels(c *Ctx) {
	inl := inlineAllGeom("geom.(XY).Sub", "geom.(XY).Add", "geom.(XY).Dot", "geom.(XY).Cross", "geom.(XY).Length", "geom.(XY).Scale", "geom.(XY).lengthSq", "geom.distBetweenXYs", "geom.fastMin", "geom.distBetweenXYAndLine")
	f := c.P.Func("geom.distBetweenXYAndLine")
	if f == nil {
		c.Errorf("anchor distBetweenXYAndLine does not resolve")
		return
	}
	keys := []string{"$0.X", "$0.Y", "$1.a.X", "$1.a.Y", "$1.b.X", "$1.b.Y"}
	problem, undec := "", ""
	models := k4enumerate(keys, []float64{0, 1, 3}, nil, func(m *Model) bool {
		n := func(k string) float64 { return m.Num[k] }
		if n("$1.a.X") == n("$1.b.X") && n("$1.a.Y") == n("$1.b.Y") {
			return true // degenerate segments do not occur (validated lines)
		}
		m.Missing = map[string]bool{}
		res, err := k4run(c.P, f, m, inl)
		if err != nil || len(res) != 1 || res[0].kind != 2 {
			undec = fmt.Sprintf("%v %v %s", err, res, missingList(m))
			return false
		}
		want := segDist(n("$0.X"), n("$0.Y"), n("$1.a.X"), n("$1.a.Y"), n("$1.b.X"), n("$1.b.Y"))
		if math.Abs(res[0].f-want) > 1e-9 {
			problem = fmt.Sprintf("for point (%v %v) and segment (%v %v)-(%v %v) returns %v, the exact distance is %v", n("$0.X"), n("$0.Y"), n("$1.a.X"), n("$1.a.Y"), n("$1.b.X"), n("$1.b.Y"), res[0].f, want)
			return false
		}
		return true
	})
	reportK4(c, f, "point-to-segment distance", undec, problem, fmt.Sprintf("equals the exact distance in all %d lattice models", models))

	g := c.P.Func("geom.distBetweenLineAndLine")
	if g == nil {
		c.Errorf("anchor distBetweenLineAndLine does not resolve")
		return
	}
	keys2 := []string{"$0.a.X", "$0.a.Y", "$0.b.X", "$0.b.Y", "$1.a.X", "$1.a.Y", "$1.b.X", "$1.b.Y"}
	problem, undec = "", ""
	models = k4enumerate(keys2, []float64{0, 2, 3}, nil, func(m *Model) bool {
		n := func(k string) float64 { return m.Num[k] }
		if (n("$0.a.X") == n("$0.b.X") && n("$0.a.Y") == n("$0.b.Y")) || (n("$1.a.X") == n("$1.b.X") && n("$1.a.Y") == n("$1.b.Y")) {
			return true
		}
		m.Missing = map[string]bool{}
		res, err := k4run(c.P, g, m, inl)
		if err != nil || len(res) != 1 || res[0].kind != 2 {
			undec = fmt.Sprintf("%v %v %s", err, res, missingList(m))
			return false
		}
		want := math.Min(
			math.Min(segDist(n("$0.a.X"), n("$0.a.Y"), n("$1.a.X"), n("$1.a.Y"), n("$1.b.X"), n("$1.b.Y")),
				segDist(n("$0.b.X"), n("$0.b.Y"), n("$1.a.X"), n("$1.a.Y"), n("$1.b.X"), n("$1.b.Y"))),
			math.Min(segDist(n("$1.a.X"), n("$1.a.Y"), n("$0.a.X"), n("$0.a.Y"), n("$0.b.X"), n("$0.b.Y")),
				segDist(n("$1.b.X"), n("$1.b.Y"), n("$0.a.X"), n("$0.a.Y"), n("$0.b.X"), n("$0.b.Y"))))
		if math.Abs(res[0].f-want) > 1e-9 {
			problem = fmt.Sprintf("for %s returns %v, the minimum over the four endpoint/segment pairs is %v", modelString(m), res[0].f, want)
			return false
		}
		return true
	})
	reportK4(c, g, "segment-to-segment distance (non-crossing)", undec, problem, fmt.Sprintf("equals the minimum of the four endpoint/segment distances in all %d lattice models", models))
}

func reportK4(c *Ctx, f *ssa.Function, construct, undec, problem, ok string) {
	switch {
	case undec != "":
		c.Undecided(f.Pos(), FuncName(f), construct, "cannot interpret: "+undec)
	case problem != "":
		c.Bad(f.Pos(), FuncName(f), construct, problem)
	default:
		c.OK(f.Pos(), FuncName(f), construct, ok)
	}
}

func runC11Bulk(c *Ctx) {
	f := c.P.Func("rtree.splitBulkItems2Ways")
	if f == nil {
		c.Errorf("anchor splitBulkItems2Ways does not resolve")
		return
	}
	problem, undec := "", ""
	for n := 2; n <= 9; n++ {
		m := &Model{Num: map[string]float64{}, Bool: map[string]bool{"rtree.itemsAreHorizontal(I[0:" + strconv.Itoa(n) + "])": true}, Missing: map[string]bool{}}
		it := &k4interp{p: c.P, m: m, mem: map[string]k4val{}}
		res, err := it.call(f, []k4val{{kind: 8, s: "I", ln: n, cp: n}}, nil)
		if err != nil || len(res) != 2 || res[0].kind != 8 || res[1].kind != 8 {
			undec = fmt.Sprintf("%v %v %s", err, res, missingList(m))
			break
		}
		a, b := res[0], res[1]
		if a.s != "I" || b.s != "I" || a.off != 0 || a.ln < 1 || b.off != a.ln || b.off+b.ln != n || b.ln < 1 {
			problem = fmt.Sprintf("for %d items the two parts are [%d:%d] and [%d:%d]: they must be [0:k] and [k:%d] with 0 < k < %d (no item lost, none duplicated)", n, a.off, a.off+a.ln, b.off, b.off+b.ln, n, n)
			break
		}
	}
	reportK4(c, f, "two-way split is a partition", undec, problem, "returns items[:k] and items[k:] with 0 < k < n for n = 2..9")

	// count and boxes
	if bl := c.P.Func("rtree.BulkLoad"); bl != nil {
		ok := false
		eachInstr(bl, func(in ssa.Instruction) {
			st, isSt := in.(*ssa.Store)
			if !isSt {
				return
			}
			if fa, isFA := st.Addr.(*ssa.FieldAddr); isFA {
				if sn, fl := fieldOfAddr(fa); sn == "RTree" && fl == "count" {
					if lx, isLen := lenOf(st.Val); isLen && lx == ssa.Value(bl.Params[0]) {
						ok = true
					}
				}
			}
		})
		c.Check(ok, bl.Pos(), FuncName(bl), "count", "count = len(items)", "BulkLoad does not record len(items) as the tree's count")
	} else {
		c.Errorf("anchor rtree.BulkLoad does not resolve")
	}
	// the function that builds intermediate nodes: bulkNode, or the one it was inlined into (the function of
	// the bulk loader that stores an entry's box)
	bn := c.P.Func("rtree.bulkNode")
	if bn == nil {
		for _, g := range c.P.Funcs {
			if pkgOf(g) != "rtree" || !strings.Contains(c.P.File(g.Pos()), "bulk.go") {
				continue
			}
			eachInstr(g, func(in ssa.Instruction) {
				if st, ok := in.(*ssa.Store); ok {
					if fa, ok := st.Addr.(*ssa.FieldAddr); ok {
						if sn, fl := fieldOfAddr(fa); sn == "entry" && fl == "box" {
							if call, isCall := st.Val.(*ssa.Call); isCall && calleeName(call) == "rtree.calculateBound" {
								bn = g
							}
						}
					}
				}
			})
		}
	}
	if bn != nil {
		// the box stored for a child is calculateBound(that child)
		ok := false
		eachInstr(bn, func(in ssa.Instruction) {
			st, isSt := in.(*ssa.Store)
			if !isSt {
				return
			}
			if fa, isFA := st.Addr.(*ssa.FieldAddr); isFA {
				if sn, fl := fieldOfAddr(fa); sn == "entry" && fl == "box" {
					if call, isCall := st.Val.(*ssa.Call); isCall && calleeName(call) == "rtree.calculateBound" {
						ok = true
					}
				}
			}
		})
		c.Check(ok, bn.Pos(), FuncName(bn), "child box", "entry.box = calculateBound(child)", "an intermediate node's entry box is not computed from its child: searches prune with a wrong bound and miss records")
	} else {
		c.Errorf("anchor rtree.bulkNode does not resolve")
	}
	if ex := c.P.Func("rtree.(*RTree).Extent"); ex != nil {
		// Extent interpreted on modelled roots (nil, 0..3 entries with boxes from a
		// small family): the per-axis min of the minima / max of the maxima of the
		// root's entries, with the flag false exactly for an empty tree
		boxes := [][4]float64{{0, 0, 1, 1}, {2, -1, 3, 0}, {-2, 1, -1, 5}, {0, 0, 0, 0}, {-1, -3, 4, 2}}
		inl := func(g *ssa.Function) bool {
			switch FuncName(g) {
			case "rtree.calculateBound", "rtree.combine", "rtree.fastMin", "rtree.fastMax":
				return true
			}
			return false
		}
		problem, undec := "", ""
		models := 0
		var pick func(n int, chosen []int)
		pick = func(n int, chosen []int) {
			if problem != "" || undec != "" {
				return
			}
			if len(chosen) < n {
				for b := range boxes {
					pick(n, append(chosen, b))
				}
				return
			}
			models++
			m := &Model{Num: map[string]float64{}, Bool: map[string]bool{}, Missing: map[string]bool{}}
			it := &k4interp{p: c.P, m: m, mem: map[string]k4val{}, inline: inl}
			if n < 0 {
				it.mem["$0.root"] = k4val{kind: 3, s: "nil"}
			} else {
				it.mem["$0.root"] = k4val{kind: 3, s: "R", addr: true}
				m.Num["R.numEntries"] = float64(n)
				for i, b := range chosen {
					for j, fl := range []string{"MinX", "MinY", "MaxX", "MaxY"} {
						m.Num[fmt.Sprintf("R.entries[%d].box.%s", i, fl)] = boxes[b][j]
					}
				}
			}
			res, err := it.call(ex, []k4val{{kind: 3, s: "$0"}}, nil)
			if err != nil || len(res) != 2 || res[1].kind != 1 {
				undec = fmt.Sprintf("%v %v %s", err, res, trunc(missingList(m)))
				return
			}
			if res[1].b != (n > 0) {
				problem = fmt.Sprintf("for a root with %d entries Extent reports ok=%v", n, res[1].b)
				return
			}
			if n <= 0 {
				return
			}
			want := boxes[chosen[0]]
			for _, b := range chosen[1:] {
				want[0] = math.Min(want[0], boxes[b][0])
				want[1] = math.Min(want[1], boxes[b][1])
				want[2] = math.Max(want[2], boxes[b][2])
				want[3] = math.Max(want[3], boxes[b][3])
			}
			for j, fl := range []string{"MinX", "MinY", "MaxX", "MaxY"} {
				got, err := it.lookup(res[0].s+"."+fl, nil0)
				if err != nil || got.kind != 2 {
					undec = fmt.Sprintf("field %s of the result: %v %s", fl, err, trunc(missingList(m)))
					return
				}
				if got.f != want[j] {
					problem = fmt.Sprintf("for a root whose %d entries have boxes %v Extent gives %s=%v; the bound of the root is %v", n, chosenBoxes(boxes, chosen), fl, got.f, want)
					return
				}
			}
		}
		for n := -1; n <= 3; n++ {
			pick(n, nil)
		}
		reportK4(c, ex, "extent", undec, problem, fmt.Sprintf("the bound of the root's entries, false for an empty tree (%d modelled roots)", models))
	}
}

func chosenBoxes(boxes [][4]float64, chosen []int) [][4]float64 {
	var out [][4]float64
	for _, b := range chosen {
		out = append(out, boxes[b])
	}
	return out
}

var fracRe = regexp.MustCompile(`^geom\.\(linearInterpolator\)\.interpolate\(.*,([-0-9.e+]+)\)$`)

func runC17Interp(c *Ctx) {
	f := c.P.Func("geom.(LineString).InterpolateEvenlySpacedPoints")
	if f == nil {
		c.Errorf("anchor InterpolateEvenlySpacedPoints does not resolve")
		return
	}
	problem, undec := "", ""
	for _, n := range []int{-2, 0, 1, 2, 3, 5} {
		m := &Model{Num: map[string]float64{"$1": float64(n), "geom.(Sequence).Length(geom.(LineString).Coordinates($0))": 3, "geom.(LineString).CoordinatesType($0)": 0}, Bool: map[string]bool{}, Missing: map[string]bool{}}
		it := &k4interp{p: c.P, m: m, mem: map[string]k4val{}}
		res, err := it.call(f, []k4val{{kind: 3, s: "$0"}, {kind: 2, f: float64(n)}}, nil)
		if err != nil {
			undec = fmt.Sprintf("n=%d: %v %s", n, err, missingList(m))
			break
		}
		var fr []float64
		for _, cl := range it.calls {
			if mm := fracRe.FindStringSubmatch(cl); mm != nil {
				v, _ := strconv.ParseFloat(mm[1], 64)
				fr = append(fr, v)
			}
		}
		var want []float64
		switch {
		case n <= 0:
		case n == 1:
			want = []float64{0.5}
		default:
			for i := 0; i < n; i++ {
				want = append(want, float64(i)/float64(n-1))
			}
		}
		if fmt.Sprint(fr) != fmt.Sprint(want) {
			problem = fmt.Sprintf("for n=%d the line is interpolated at fractions %v, the contract is %v", n, fr, want)
			break
		}
		if n <= 0 && len(res) == 1 && !strings.Contains(res[0].String(), "ForceCoordinatesType") {
			problem = fmt.Sprintf("for n=%d the empty result %s does not carry the receiver's coordinates type", n, trunc(res[0].String()))
			break
		}
	}
	reportK4(c, f, "evenly spaced fractions", undec, problem, "fractions are {} / {0.5} / {i/(n-1)} for n = -2,0,1,2,3,5")

	g := c.P.Func("geom.(linearInterpolator).interpolate")
	if g == nil {
		c.Errorf("anchor interpolate does not resolve")
		return
	}
	// the point returned lies at arc length clamp(frac, 0, 1) * total: interpreted
	// on a three-point line with segment lengths 3 and 5 (cumulative [3, 8]); the
	// search, the segment length and the final interpolation are answered from
	// that model, and the position is read off the interpolation's arguments
	cum := []float64{3, 8}
	seg := []float64{3, 5}
	before := func(i int) float64 {
		if i <= 0 {
			return 0
		}
		if i > len(cum) {
			i = len(cum)
		}
		return cum[i-1]
	}
	idxRe := regexp.MustCompile(`\$0\.seq,(\d+)\)`)
	problem, undec = "", ""
	for _, frac := range []float64{-0.5, 0, 0.25, 0.375, 0.5, 0.9, 1, 1.5} {
		m := &Model{Num: map[string]float64{"$1": frac, "$0.total": 8, "geom.(Sequence).Length($0.seq)": 3}, Bool: map[string]bool{}, Missing: map[string]bool{}}
		it := &k4interp{p: c.P, m: m, mem: map[string]k4val{}}
		it.mem["$0.cumulative"] = k4val{kind: 8, s: "CUM", ln: 2, cp: 2}
		it.mem["CUM[0]"] = k4val{kind: 2, f: cum[0]}
		it.mem["CUM[1]"] = k4val{kind: 2, f: cum[1]}
		pos, have := 0.0, false
		it.onOpaque = func(name string, args []k4val) {
			if name == "sort.SearchFloat64s" && len(args) == 2 && args[1].kind == 2 {
				m.Num["search target"] = args[1].f
			}
			if name == "geom.interpolateCoords" && len(args) == 3 && args[2].kind == 2 {
				a, b := idxRe.FindStringSubmatch(args[0].String()), idxRe.FindStringSubmatch(args[1].String())
				if a != nil && b != nil {
					i0, _ := strconv.Atoi(a[1])
					i1, _ := strconv.Atoi(b[1])
					if i1 == i0+1 && i0 < len(seg) {
						pos, have = before(i0)+args[2].f*seg[i0], true
					}
				}
			}
		}
		it.answer = func(key string, isBool bool) (k4val, bool) {
			if isBool {
				return k4val{}, false
			}
			if strings.HasPrefix(key, "sort.SearchFloat64s(") {
				t, ok := m.Num["search target"]
				if !ok {
					return k4val{}, false
				}
				return k4val{kind: 2, f: float64(sort.SearchFloat64s(cum, t))}, true
			}
			if strings.Contains(key, "distanceTo(") {
				mm := idxRe.FindAllStringSubmatch(key, -1)
				if len(mm) == 2 {
					i0, _ := strconv.Atoi(mm[0][1])
					i1, _ := strconv.Atoi(mm[1][1])
					if i0 > i1 {
						i0, i1 = i1, i0
					}
					if i1 == i0+1 && i0 < len(seg) {
						return k4val{kind: 2, f: seg[i0]}, true
					}
				}
			}
			return k4val{}, false
		}
		res, err := it.call(g, []k4val{{kind: 3, s: "$0"}, {kind: 2, f: frac}}, nil)
		if err != nil || len(res) != 1 {
			undec = fmt.Sprintf("frac=%v: %v %s", frac, err, missingList(m))
			break
		}
		out := res[0].String()
		if !strings.Contains(out, "interpolateCoords(") || !have {
			mm := idxRe.FindStringSubmatch(out)
			if mm == nil {
				undec = fmt.Sprintf("frac=%v: the result %s is neither a control point nor an interpolation between neighbours", frac, trunc(out))
				break
			}
			k, _ := strconv.Atoi(mm[1])
			pos = before(k)
		}
		want := math.Max(0, math.Min(1, frac)) * 8
		if math.Abs(pos-want) > 1e-9 {
			problem = fmt.Sprintf("on a line of length 8 (segments 3 and 5) fraction %v yields the point at arc length %v; the contract (fraction clamped to [0, 1]) gives %v", frac, pos, want)
			break
		}
	}
	reportK4(c, g, "fraction clamp", undec, problem, "fractions -0.5..1.5 land at arc length clamp(frac)*total on the modelled three-point line")
}

func runC15Mod2(c *Ctx) {
	f := c.P.Func("geom.(LineString).Boundary")
	if f == nil {
		c.Errorf("anchor LineString.Boundary does not resolve")
		return
	}
	problem, undec := "", ""
	for _, e := range []bool{false, true} {
		for _, cl := range []bool{false, true} {
			if e && cl {
				continue // an empty line is not closed
			}
			// the line is modelled one level down (3 points, first and last equal iff closed), so that
			// IsEmpty / IsClosed may be called or written out
			m := &Model{Num: map[string]float64{}, Bool: map[string]bool{}, Missing: map[string]bool{}}
			ln := 3.0
			if e {
				ln = 0
			}
			m.Num["geom.(Sequence).Length($0.seq)"] = ln
			m.Num["geom.(Sequence).Length(geom.(LineString).Coordinates($0))"] = ln
			for _, acc := range []string{"geom.(Sequence).GetXY($0.seq,%d)", "geom.(Sequence).GetXY(geom.(LineString).Coordinates($0),%d)"} {
				m.Num[fmt.Sprintf(acc, 0)+".X"], m.Num[fmt.Sprintf(acc, 0)+".Y"] = 1, 2
				if cl {
					m.Num[fmt.Sprintf(acc, 2)+".X"], m.Num[fmt.Sprintf(acc, 2)+".Y"] = 1, 2
				} else {
					m.Num[fmt.Sprintf(acc, 2)+".X"], m.Num[fmt.Sprintf(acc, 2)+".Y"] = 5, 2
				}
			}
			it := &k4interp{p: c.P, m: m, mem: map[string]k4val{}, inline: func(g *ssa.Function) bool {
				n := FuncName(g)
				return n == "geom.(LineString).IsEmpty" || n == "geom.(LineString).IsClosed"
			}}
			// the points handed to NewMultiPoint, however the list was built (literal, make + stores, appends)
			var members []string
			it.onOpaque = func(name string, args []k4val) {
				if name == "geom.NewMultiPoint" && len(args) == 1 && args[0].kind == 8 {
					members = nil
					for i := 0; i < args[0].ln; i++ {
						members = append(members, it.mem[fmt.Sprintf("%s[%d]", args[0].s, args[0].off+i)].String())
					}
				}
			}
			res, err := it.call(f, []k4val{{kind: 3, s: "$0"}}, nil)
			if err != nil || len(res) != 1 {
				undec = fmt.Sprintf("%v %s", err, missingList(m))
				continue
			}
			got := res[0].String()
			if strings.HasPrefix(got, "geom.NewMultiPoint(") && members != nil {
				got = "geom.NewMultiPoint([" + strings.Join(members, "|") + "])"
			}
			if e || cl {
				if got != "zero" {
					problem = fmt.Sprintf("empty=%v closed=%v: boundary is %s, expected the empty MultiPoint", e, cl, trunc(got))
				}
			} else {
				want := `geom.NewMultiPoint(["geom.(LineString).StartPoint($0)"|"geom.(LineString).EndPoint($0)"])`
				want2 := `geom.NewMultiPoint([geom.(LineString).StartPoint($0)|geom.(LineString).EndPoint($0)])`
				if got != want && got != want2 {
					problem = fmt.Sprintf("open non-empty line: boundary is %s, expected exactly {StartPoint, EndPoint}", trunc(got))
				}
			}
		}
	}
	reportK4(c, f, "boundary of a line string", undec, problem, "empty iff empty or closed, otherwise {start, end}")
}

func runC12Expand(c *Ctx) {
	inl := []string{"geom.(Envelope).IsEmpty", "geom.fastMin", "geom.fastMax", "geom.newUncheckedEnvelope"}
	get := func(it *k4interp, base, p string) float64 {
		v, _ := it.lookup(base+p, nil0)
		return v.f
	}
	f := c.P.Func("geom.(Envelope).ExpandToIncludeEnvelope")
	g := c.P.Func("geom.(Envelope).ExpandToIncludeXY")
	if f == nil || g == nil {
		c.Errorf("anchors ExpandToInclude* do not resolve")
		return
	}
	inlf := func(h *ssa.Function) bool {
		for _, n := range inl {
			if FuncName(h) == n {
				return true
			}
		}
		return false
	}
	problem, undec := "", ""
	models := 0
	k4enumerate(envNum, []float64{0, 1, 2}, []string{"$0.nonEmpty", "$1.nonEmpty"}, func(m *Model) bool {
		if !envValid(m) {
			return true
		}
		models++
		m.Missing = map[string]bool{}
		it := &k4interp{p: c.P, m: m, mem: map[string]k4val{}, inline: inlf}
		res, err := it.call(f, []k4val{{kind: 3, s: "$0"}, {kind: 3, s: "$1"}}, nil)
		if err != nil || len(res) != 1 || res[0].kind != 3 {
			undec = fmt.Sprintf("%v %s", err, missingList(m))
			return false
		}
		out := res[0].s
		e0, e1 := m.Bool["$0.nonEmpty"], m.Bool["$1.nonEmpty"]
		n := func(k string) float64 { return m.Num[k] }
		switch {
		case !e0:
			if out != "$1" {
				problem = "empty receiver: the result must be the argument itself, got " + out
			}
		case !e1:
			if out != "$0" {
				problem = "empty argument: the result must be the receiver itself, got " + out
			}
		default:
			w := [4]float64{math.Min(n("$0.min.X"), n("$1.min.X")), math.Min(n("$0.min.Y"), n("$1.min.Y")), math.Max(n("$0.max.X"), n("$1.max.X")), math.Max(n("$0.max.Y"), n("$1.max.Y"))}
			gt := [4]float64{get(it, out, ".min.X"), get(it, out, ".min.Y"), get(it, out, ".max.X"), get(it, out, ".max.Y")}
			if w != gt {
				problem = fmt.Sprintf("for %s the join is %v, expected %v (per-axis min of mins / max of maxes)", modelString(m), gt, w)
			}
		}
		return problem == ""
	})
	reportK4(c, f, "join of two envelopes", undec, problem, fmt.Sprintf("identity on empties and per-axis min/max otherwise, in all %d models", models))

	problem, undec = "", ""
	models = 0
	k4enumerate([]string{"$0.min.X", "$0.min.Y", "$0.max.X", "$0.max.Y", "$1.X", "$1.Y"}, []float64{0, 1, 2}, []string{"$0.nonEmpty"}, func(m *Model) bool {
		if !envValid(m) {
			return true
		}
		models++
		m.Missing = map[string]bool{}
		// the join of two envelopes (specified above) may be what the point case delegates to
		it := &k4interp{p: c.P, m: m, mem: map[string]k4val{}, inline: func(h *ssa.Function) bool {
			return inlf(h) || FuncName(h) == "geom.(Envelope).ExpandToIncludeEnvelope"
		}}
		res, err := it.call(g, []k4val{{kind: 3, s: "$0"}, {kind: 3, s: "$1"}}, nil)
		if err != nil || len(res) != 1 || res[0].kind != 3 {
			undec = fmt.Sprintf("%v %s", err, missingList(m))
			return false
		}
		out := res[0].s
		n := func(k string) float64 { return m.Num[k] }
		w := [4]float64{n("$1.X"), n("$1.Y"), n("$1.X"), n("$1.Y")}
		if m.Bool["$0.nonEmpty"] {
			w = [4]float64{math.Min(n("$0.min.X"), n("$1.X")), math.Min(n("$0.min.Y"), n("$1.Y")), math.Max(n("$0.max.X"), n("$1.X")), math.Max(n("$0.max.Y"), n("$1.Y"))}
		}
		gt := [4]float64{get(it, out, ".min.X"), get(it, out, ".min.Y"), get(it, out, ".max.X"), get(it, out, ".max.Y")}
		ne, _ := it.lookup(out+".nonEmpty", boolT)
		if w != gt || !ne.b {
			problem = fmt.Sprintf("for %s the result is %v (nonEmpty=%v), expected %v", modelString(m), gt, ne.b, w)
			return false
		}
		return true
	})
	reportK4(c, g, "envelope expanded by a point", undec, problem, fmt.Sprintf("point envelope for an empty receiver, per-axis min/max otherwise, in all %d models", models))
}
