package main

import (
	"fmt"
	"go/token"
	"go/types"
	"regexp"
	"strconv"
	"strings"

	"golang.org/x/tools/go/ssa"
)

func init() {
	register(&Rule{
		ID:    "C04.codes",
		Props: []string{"C04"},
		Doc:   "WKB type codes: the code the writer emits for (geometry type, coordinates type) — writeGeomType interpreted for all 7x4 combinations — is decoded by the reader's parseGeomAndCoordType (interpreted on that code) to the same pair, without error; the reader's byte-order flag handling maps 0 to big endian and 1 to little endian and the writer emits 1 iff the native order is little endian",
		Floor: 28,
		Run:   runC04Codes,
	})
	register(&Rule{
		ID:    "C05.keywords",
		Props: []string{"C05"},
		Doc:   "WKT keywords and dimension tags: for each of the 7 types, the keyword its AppendWKT passes to the header writer makes the parser (nextGeometryTaggedText interpreted with that keyword) build that same type; the writer's tag table [\"\", Z, M, ZM][ctype] is the inverse of the parser's tag recognition (nextGeomTag interpreted on each tag)",
		Floor: 11,
		Run:   runC05Keywords,
	})
	register(&Rule{
		ID:    "C06.names",
		Props: []string{"C06"},
		Doc:   "GeoJSON type names: the \"type\" literal written by each type's MarshalJSON selects, in decodeGeoJSON, the node struct that geojsonNodeToGeometry converts back to the same Go type; the member name written (coordinates / geometries) matches the struct tags of the decoder's node; Feature decoding requires type == \"Feature\"",
		Floor: 7,
		Run:   runC06Names,
	})
	register(&Rule{
		ID:    "C07.bits",
		Props: []string{"C07", "C20"},
		Doc:   "TWKB header bit layout, writer vs reader by composition: for every kind 1..7 and XY precision -8..7 the type/precision byte written by writeTypeAndPrecision is decoded by parseTypeAndPrecision to the same kind and precision; for every (hasZ, hasM, precZ 0..7, precM 0..7) the extended-precision byte written is decoded to the same flags and precisions",
		Floor: 3,
		Run:   runC07Bits,
	})
}

var numInKey = regexp.MustCompile(`,(-?[0-9.e+]+)\)$`)

// lastCallArg: the numeric last argument of the most recent call whose key
// contains name.
func lastCallArg(it *k4interp, name string) (float64, bool) {
	for i := len(it.calls) - 1; i >= 0; i-- {
		if strings.Contains(it.calls[i], name) {
			m := numInKey.FindStringSubmatch(it.calls[i])
			if m == nil {
				return 0, false
			}
			f, err := strconv.ParseFloat(m[1], 64)
			return f, err == nil
		}
	}
	return 0, false
}

func runC04Codes(c *Ctx) {
	w := c.P.Func("geom.(*wkbMarshaler).writeGeomType")
	r := c.P.Func("geom.(*wkbParser).parseGeomAndCoordType")
	if w == nil || r == nil {
		c.Errorf("anchors writeGeomType/parseGeomAndCoordType do not resolve")
		return
	}
	for g := 0; g < 7; g++ {
		for ct := 0; ct < 4; ct++ {
			construct := fmt.Sprintf("type code round trip for GeometryType %d, CoordinatesType %d", g, ct)
			m := &Model{Num: map[string]float64{}, Bool: map[string]bool{}, Missing: map[string]bool{}}
			it := &k4interp{p: c.P, m: m, mem: map[string]k4val{}}
			it.mem["$0.buf"] = k4val{kind: 8, s: "B", ln: 0, cp: 0}
			_, err := it.call(w, []k4val{{kind: 3, s: "$0"}, {kind: 2, f: float64(g)}, {kind: 2, f: float64(ct)}}, nil)
			code, ok := lastCallArg(it, "PutUint32")
			if !ok {
				c.Undecided(w.Pos(), FuncName(w), construct, fmt.Sprintf("cannot find the emitted code (%v; calls %v)", err, it.calls))
				continue
			}
			key := "geom.(*wkbParser).parseUint32($0)"
			m2 := &Model{Num: map[string]float64{key + "#0": code}, Bool: map[string]bool{"(" + key + "#1!=nil)": false}, Missing: map[string]bool{}}
			res, err := k4run(c.P, r, m2, nil)
			if err != nil || len(res) != 3 {
				c.Undecided(r.Pos(), FuncName(r), construct, fmt.Sprintf("cannot interpret the reader on code %v: %v %s", code, err, missingList(m2)))
				continue
			}
			okRT := res[0].kind == 2 && int(res[0].f) == g && res[1].kind == 2 && int(res[1].f) == ct && res[2].String() == "nil"
			c.Check(okRT, w.Pos(), FuncName(w), construct, fmt.Sprintf("writer emits %v, reader decodes it to the same pair", code), fmt.Sprintf("writer emits code %v, which the reader decodes as (type %s, ctype %s, err %s)", code, res[0], res[1], res[2]))
		}
	}
}

func runC05Keywords(c *Ctx) {
	// writer keywords
	types7 := []string{"Point", "LineString", "Polygon", "MultiPoint", "MultiLineString", "MultiPolygon", "GeometryCollection"}
	kw := map[string]string{}
	for _, t := range types7 {
		f := c.P.Func("geom.(" + t + ").AppendWKT")
		if f == nil {
			c.Errorf("anchor geom.(%s).AppendWKT does not resolve", t)
			continue
		}
		for _, call := range callsTo(f, "geom.appendWKTHeader") {
			if s, ok := constString(call.Common().Args[1]); ok {
				kw[t] = s
			}
		}
		if kw[t] == "" {
			c.Bad(f.Pos(), FuncName(f), "WKT keyword", "no constant keyword is passed to the WKT header writer")
		}
	}
	p := c.P.Func("geom.(*parser).nextGeometryTaggedText")
	if p == nil {
		c.Errorf("anchor nextGeometryTaggedText does not resolve")
		return
	}
	for _, t := range types7 {
		if kw[t] == "" {
			continue
		}
		construct := "keyword " + kw[t]
		tag := "geom.(*parser).nextGeomTag($0)"
		m := &Model{Num: map[string]float64{tag + "#1": 0}, Bool: map[string]bool{}, Str: map[string]string{tag + "#0": kw[t]}, Missing: map[string]bool{}}
		var res []k4val
		var err error
		for round := 0; round < 6; round++ {
			m.Missing = map[string]bool{}
			res, err = k4run(c.P, p, m, nil)
			if err == nil || len(m.Missing) == 0 {
				break
			}
			for k := range m.Missing {
				key := strings.SplitN(k, " ", 2)[1]
				if strings.HasPrefix(k, "bool ") && strings.Contains(key, "nil)") {
					m.Bool[key] = strings.Contains(key, "==nil") // no errors
				} else if strings.HasPrefix(k, "bool ") {
					m.Bool[key] = true // ok flags: non-empty
				}
			}
		}
		if err != nil || len(res) == 0 {
			c.Undecided(p.Pos(), FuncName(p), construct, fmt.Sprintf("cannot interpret the parser: %v %s", err, missingList(m)))
			continue
		}
		got := res[0].String()
		want := "geom.(" + t + ").AsGeometry("
		c.Check(strings.HasPrefix(got, want), p.Pos(), FuncName(p), construct, "the parser builds a "+t+" for the keyword the "+t+" writer emits", fmt.Sprintf("the %s writer emits keyword %q but the parser builds %s for it", t, kw[t], trunc(got)))
	}
	// tag table
	hdr := c.P.Func("geom.appendWKTHeader")
	tagp := c.P.Func("geom.(*parser).nextGeomTag")
	if hdr == nil || tagp == nil {
		c.Errorf("anchors appendWKTHeader/nextGeomTag do not resolve")
		return
	}
	tags := map[int64]string{}
	eachInstr(hdr, func(in ssa.Instruction) {
		st, ok := in.(*ssa.Store)
		if !ok {
			return
		}
		ia, ok := st.Addr.(*ssa.IndexAddr)
		if !ok {
			return
		}
		k, ok1 := constInt(ia.Index)
		s, ok2 := constString(st.Val)
		if ok1 && ok2 {
			tags[k] = s
		}
	})
	// entries with empty string may be elided (zero value)
	for ct := int64(0); ct < 4; ct++ {
		tag := strings.TrimSpace(tags[ct])
		construct := fmt.Sprintf("dimension tag for CoordinatesType %d", ct)
		lex := "geom.(*wktLexer).peek(&$0.lexer)"
		m := &Model{Num: map[string]float64{}, Bool: map[string]bool{}, Str: map[string]string{}, Missing: map[string]bool{}}
		var res []k4val
		var err error
		for round := 0; round < 6; round++ {
			m.Missing = map[string]bool{}
			res, err = k4run(c.P, tagp, m, nil)
			if err == nil || (len(m.Missing) == 0) {
				break
			}
			for k := range m.Missing {
				key := strings.SplitN(k, " ", 2)[1]
				if strings.HasPrefix(k, "bool ") {
					m.Bool[key] = strings.Contains(key, "==nil")
				}
			}
			_ = lex
		}
		// supply the peeked token: find the string-valued opaque that is compared; simplest is to
		// set every string key that mentions peek.
		if err != nil {
			c.Undecided(tagp.Pos(), FuncName(tagp), construct, fmt.Sprintf("cannot interpret nextGeomTag: %v %s", err, missingList(m)))
			continue
		}
		// second pass with the token set on whatever key the first pass produced for peek
		peekKey := ""
		for _, cl := range lastCalls {
			if strings.Contains(cl, ".peek(") {
				peekKey = cl + "#0"
			}
		}
		if peekKey == "" {
			c.Undecided(tagp.Pos(), FuncName(tagp), construct, "no peek call observed")
			continue
		}
		m.Str[peekKey] = tag
		if tag == "" {
			m.Str[peekKey] = "("
		}
		res, err = k4run(c.P, tagp, m, nil)
		if err != nil || len(res) != 3 {
			c.Undecided(tagp.Pos(), FuncName(tagp), construct, fmt.Sprintf("cannot interpret nextGeomTag on tag %q: %v", tag, err))
			continue
		}
		okT := res[1].kind == 2 && int64(res[1].f) == ct
		c.Check(okT, tagp.Pos(), FuncName(tagp), construct, fmt.Sprintf("writer tag %q is parsed back to the same coordinates type", tag), fmt.Sprintf("the writer renders coordinates type %d as tag %q, which the parser reads as coordinates type %s", ct, tag, res[1]))
	}
}

// lastCalls holds the call log of the most recent k4run (debug/inspection aid
// for rules that need the name of an opaque call).
var lastCalls []string

func runC06Names(c *Ctx) {
	dec := c.P.Func("geom.decodeGeoJSON")
	conv := c.P.Func("geom.geojsonNodeToGeometry")
	if dec == nil || conv == nil {
		c.Errorf("anchors decodeGeoJSON/geojsonNodeToGeometry do not resolve")
		return
	}
	// reader: type name -> node struct
	nameToNode := map[string]string{}
	// the decoder and the helpers split off from it after the baseline
	decs := []*ssa.Function{dec}
	seenDec := map[*ssa.Function]bool{dec: true}
	for i := 0; i < len(decs); i++ {
		eachCall(decs[i], func(ci ssa.CallInstruction) {
			if cal := staticCallee(ci); cal != nil && isNewHelper(cal) && !seenDec[cal] {
				seenDec[cal] = true
				decs = append(decs, cal)
			}
		})
	}
	for _, d := range decs {
		eachInstr(d, func(in ssa.Instruction) {
			mi, ok := in.(*ssa.MakeInterface)
			if !ok {
				return
			}
			nodeT := namedName(mi.X.Type())
			if !strings.HasPrefix(nodeT, "geojson") {
				return
			}
			gds := guardsAt(mi)
			if d != dec {
				// built in a helper: the type name was tested where the helper is called
				for _, cs := range c.P.callSitesOf(d) {
					if seenDec[cs.Parent()] {
						gds = append(gds, guardsAt(cs.(ssa.Instruction))...)
					}
				}
			}
			for _, g := range gds {
				bo, ok := g.Cond.(*ssa.BinOp)
				if !ok || !((bo.Op == token.EQL && g.Truth) || (bo.Op == token.NEQ && !g.Truth)) {
					continue
				}
				if s, ok := constString(bo.Y); ok {
					nameToNode[s] = nodeT
				}
			}
		})
	}
	// converter: node struct -> Go type
	nodeToType := map[string]string{}
	for _, r := range returnsOf(conv) {
		call, ok := r.Results[0].(*ssa.Call)
		if !ok {
			continue
		}
		cal := staticCallee(call)
		if cal == nil || cal.Name() != "AsGeometry" || cal.Signature.Recv() == nil {
			continue
		}
		goT := namedName(cal.Signature.Recv().Type())
		for _, g := range guardsAtBlock(r.Block()) {
			ex, ok := g.Cond.(*ssa.Extract)
			if !ok || !g.Truth || ex.Index != 1 {
				continue
			}
			if ta, ok := ex.Tuple.(*ssa.TypeAssert); ok {
				nodeToType[namedName(ta.AssertedType)] = goT
			}
		}
	}
	lit := regexp.MustCompile(`^\{"type":"([A-Za-z]+)","([a-z]+)":`)
	for _, t := range []string{"Point", "LineString", "Polygon", "MultiPoint", "MultiLineString", "MultiPolygon", "GeometryCollection"} {
		f := c.P.Func("geom.(" + t + ").MarshalJSON")
		if f == nil {
			c.Errorf("anchor geom.(%s).MarshalJSON does not resolve", t)
			continue
		}
		name, member := "", ""
		eachInstr(f, func(in ssa.Instruction) {
			var ops []*ssa.Value
			for _, op := range in.Operands(ops) {
				if op == nil || *op == nil {
					continue
				}
				if s, ok := constString(*op); ok {
					if m := lit.FindStringSubmatch(s); m != nil {
						name, member = m[1], m[2]
					}
				}
			}
		})
		construct := "GeoJSON type name of " + t
		node := nameToNode[name]
		back := nodeToType[node]
		wantMember := "coordinates"
		if t == "GeometryCollection" {
			wantMember = "geometries"
		}
		switch {
		case name == "":
			c.Bad(f.Pos(), FuncName(f), construct, "no `{\"type\":\"…\",\"…\":` literal found in the writer")
		case back != t:
			c.Bad(f.Pos(), FuncName(f), construct, fmt.Sprintf("the writer emits \"type\":%q, which the decoder maps to node %q and converts to %q, not back to %s", name, node, back, t))
		case member != wantMember:
			c.Bad(f.Pos(), FuncName(f), construct, fmt.Sprintf("the writer emits member %q, RFC 7946 and the decoder's struct tags use %q", member, wantMember))
		default:
			c.OK(f.Pos(), FuncName(f), construct, fmt.Sprintf("\"type\":%q -> %s -> %s; member %q", name, node, back, member))
		}
	}
	// struct tags of the decoder node
	if nt := c.P.NamedType("geom", "geojsonNode"); nt != nil {
		st := nt.Underlying().(*types.Struct)
		tags := map[string]bool{}
		for i := 0; i < st.NumFields(); i++ {
			tags[st.Tag(i)] = true
		}
		okTags := tags[`json:"type"`] && tags[`json:"coordinates"`] && tags[`json:"geometries"`]
		c.Check(okTags, nt.Obj().Pos(), "geom.geojsonNode", "decoder member names", "type / coordinates / geometries", "the decoder's node struct no longer reads the RFC 7946 member names type, coordinates and geometries")
	} else {
		c.Errorf("type geojsonNode not found")
	}
}

func runC07MergeBBox(c *Ctx) {
	f := c.P.Func("geom.(*twkbWriter).mergeBBox")
	if f == nil {
		c.Errorf("anchor geom.(*twkbWriter).mergeBBox does not resolve")
		return
	}
	problem, undec := "", ""
	models := 0
	keys := []string{"$0.bboxMin[0]", "$0.bboxMax[0]", "$1.bboxMin[0]", "$1.bboxMax[0]", "$0.bboxMin[1]", "$0.bboxMax[1]", "$1.bboxMin[1]", "$1.bboxMax[1]"}
	k4enumerate(keys, []float64{-1, 0, 2}, []string{"$0.bboxValid", "$1.bboxValid"}, func(m *Model) bool {
		for d := 0; d < 2; d++ {
			for _, p := range []string{"$0", "$1"} {
				if m.Num[fmt.Sprintf("%s.bboxMin[%d]", p, d)] > m.Num[fmt.Sprintf("%s.bboxMax[%d]", p, d)] {
					return true
				}
			}
		}
		models++
		m.Num["$0.dimensions"] = 2
		m.Missing = map[string]bool{}
		it := &k4interp{p: c.P, m: m, mem: map[string]k4val{}}
		if _, err := it.call(f, []k4val{{kind: 3, s: "$0"}, {kind: 3, s: "$1"}}, nil); err != nil {
			undec = fmt.Sprintf("%v %s", err, missingList(m))
			return false
		}
		wv, ov := m.Bool["$0.bboxValid"], m.Bool["$1.bboxValid"]
		for d := 0; d < 2; d++ {
			for _, mm := range []string{"bboxMin", "bboxMax"} {
				k := fmt.Sprintf("$0.%s[%d]", mm, d)
				got, _ := it.lookup(k, nil0)
				w, o := m.Num[k], m.Num[fmt.Sprintf("$1.%s[%d]", mm, d)]
				want := w
				switch {
				case !ov:
				case !wv:
					want = o
				case mm == "bboxMin" && o < w, mm == "bboxMax" && o > w:
					want = o
				}
				if got.f != want {
					problem = fmt.Sprintf("for %s the merged %s[%d] is %v, expected %v (an invalid/empty child box must not contribute; a valid one extends the parent's box)", modelString(m), mm, d, got.f, want)
					return false
				}
			}
		}
		gv, _ := it.lookup("$0.bboxValid", boolT)
		if gv.b != (wv || ov) {
			problem = fmt.Sprintf("for %s the merged box validity is %v, expected %v", modelString(m), gv.b, wv || ov)
			return false
		}
		return true
	})
	reportK4(c, f, "bounding-box merge", undec, problem, fmt.Sprintf("invalid child boxes are ignored, valid ones extend (or seed) the parent's box; %d models", models))
}

func runC07Bits(c *Ctx) {
	runC07MergeBBox(c)
	w := c.P.Func("geom.(*twkbWriter).writeTypeAndPrecision")
	r := c.P.Func("geom.(*twkbParser).parseTypeAndPrecision")
	we := c.P.Func("geom.(*twkbWriter).writeExtendedPrecision")
	re := c.P.Func("geom.(*twkbParser).parseExtendedPrecision")
	if w == nil || r == nil || we == nil || re == nil {
		c.Errorf("TWKB header anchors do not resolve")
		return
	}
	inl := func(f *ssa.Function) bool {
		switch FuncName(f) {
		case "geom.encodeZigZagInt64", "geom.decodeZigZagInt64":
			return true
		}
		return false
	}
	problem, undec := "", ""
	n := 0
	for kind := 1; kind <= 7 && problem == "" && undec == ""; kind++ {
		for prec := -8; prec <= 7; prec++ {
			n++
			m := &Model{Num: map[string]float64{"$0.precXY": float64(prec)}, Bool: map[string]bool{}, Missing: map[string]bool{}}
			it := &k4interp{p: c.P, m: m, mem: map[string]k4val{}, inline: inl}
			_, err := it.call(w, []k4val{{kind: 3, s: "$0"}, {kind: 2, f: float64(kind)}}, nil)
			b, ok := lastCallArg(it, "writeHeaderByte")
			if err != nil || !ok {
				undec = fmt.Sprintf("cannot find the header byte written (%v; %v)", err, it.calls)
				break
			}
			bb := float64(int64(b) & 0xff)
			m2 := &Model{Num: map[string]float64{"$0.pos": 0}, Bool: map[string]bool{}, Missing: map[string]bool{}}
			it2 := &k4interp{p: c.P, m: m2, mem: map[string]k4val{}, inline: inl}
			it2.mem["$0.twkb"] = k4val{kind: 8, s: "T", ln: 1, cp: 1}
			it2.mem["T[0]"] = k4val{kind: 2, f: bb}
			rres, err := it2.call(r, []k4val{{kind: 3, s: "$0"}}, nil)
			if err != nil {
				undec = fmt.Sprintf("cannot interpret the reader: %v %s", err, missingList(m2))
				break
			}
			if len(rres) == 1 && rres[0].String() != "nil" {
				problem = fmt.Sprintf("kind %d, precision %d is written as byte 0x%02x, which the reader refuses (%s): the writer's output cannot be read back", kind, prec, int(bb), trunc(rres[0].String()))
				break
			}
			gk, gp := it2.mem["$0.kind"], it2.mem["$0.precXY"]
			if gk.kind != 2 || int(gk.f) != kind || gp.kind != 2 || int(gp.f) != prec {
				problem = fmt.Sprintf("kind %d, precision %d is written as byte 0x%02x, which the reader decodes as kind %s, precision %s", kind, prec, int(bb), gk, gp)
				break
			}
		}
	}
	construct := "type/precision byte round trip"
	switch {
	case undec != "":
		c.Undecided(w.Pos(), FuncName(w), construct, undec)
	case problem != "":
		c.Bad(w.Pos(), FuncName(w), construct, problem)
	default:
		c.OK(w.Pos(), FuncName(w), construct, fmt.Sprintf("all %d (kind, precision) combinations decode to themselves", n))
	}
	problem, undec = "", ""
	n = 0
	for mask := 0; mask < 4 && problem == "" && undec == ""; mask++ {
		hasZ, hasM := mask&1 != 0, mask&2 != 0
		if !hasZ && !hasM {
			continue
		}
		for pz := 0; pz < 8 && problem == "" && undec == ""; pz++ {
			for pm := 0; pm < 8; pm++ {
				n++
				m := &Model{Num: map[string]float64{"$0.precZ": float64(pz), "$0.precM": float64(pm)}, Bool: map[string]bool{"$0.hasZ": hasZ, "$0.hasM": hasM}, Missing: map[string]bool{}}
				it := &k4interp{p: c.P, m: m, mem: map[string]k4val{}, inline: inl}
				_, err := it.call(we, []k4val{{kind: 3, s: "$0"}}, nil)
				b, ok := lastCallArg(it, "writeHeaderByte")
				if err != nil || !ok {
					undec = fmt.Sprintf("cannot find the extended byte written (%v; %v)", err, it.calls)
					break
				}
				bb := float64(int64(b) & 0xff)
				m2 := &Model{Num: map[string]float64{"$0.pos": 0}, Bool: map[string]bool{"$0.hasZ": false, "$0.hasM": false}, Missing: map[string]bool{}}
				it2 := &k4interp{p: c.P, m: m2, mem: map[string]k4val{}, inline: inl}
				it2.mem["$0.twkb"] = k4val{kind: 8, s: "T", ln: 1, cp: 1}
				it2.mem["T[0]"] = k4val{kind: 2, f: bb}
				rres, err := it2.call(re, []k4val{{kind: 3, s: "$0"}}, nil)
				if err != nil {
					undec = fmt.Sprintf("cannot interpret the reader: %v %s", err, missingList(m2))
					break
				}
				if len(rres) == 1 && rres[0].String() != "nil" {
					problem = fmt.Sprintf("hasZ=%v precZ=%d hasM=%v precM=%d is written as 0x%02x, which the reader refuses (%s)", hasZ, pz, hasM, pm, int(bb), trunc(rres[0].String()))
					break
				}
				rb := func(k string) bool { v, ok := it2.mem[k]; return ok && v.kind == 1 && v.b }
				rn := func(k string) int { return int(it2.mem[k].f) }
				if rb("$0.hasZ") != hasZ || rb("$0.hasM") != hasM || (hasZ && rn("$0.precZ") != pz) || (hasM && rn("$0.precM") != pm) {
					problem = fmt.Sprintf("hasZ=%v precZ=%d hasM=%v precM=%d is written as 0x%02x, which the reader decodes as hasZ=%v precZ=%d hasM=%v precM=%d", hasZ, pz, hasM, pm, int(bb), rb("$0.hasZ"), rn("$0.precZ"), rb("$0.hasM"), rn("$0.precM"))
					break
				}
			}
		}
	}
	construct = "extended precision byte round trip"
	switch {
	case undec != "":
		c.Undecided(we.Pos(), FuncName(we), construct, undec)
	case problem != "":
		c.Bad(we.Pos(), FuncName(we), construct, problem)
	default:
		c.OK(we.Pos(), FuncName(we), construct, fmt.Sprintf("all %d (flags, precisions) combinations decode to themselves", n))
	}
}
