package main

import (
	_ "embed"
	"strings"

	"golang.org/x/tools/go/ssa"
)

// baseline_funcs.txt lists the functions of geom/rtree/carto on the tree the
// rule specifications were written against (sfcheck dump -names). A repository
// function that is NOT in the list is a helper introduced later (extracted from
// or renamed after a function the specifications know): the K4 interpreter
// inlines such helpers instead of treating them as opaque, so extracting part
// of an interpreted function into a new helper does not change what is decided.
//
//go:embed baseline_funcs.txt
var baselineFuncsText string

var baselineFuncs = func() map[string]bool {
	m := map[string]bool{}
	for _, l := range strings.Split(baselineFuncsText, "\n") {
		if l = strings.TrimSpace(l); l != "" {
			m[l] = true
		}
	}
	return m
}()

// isNewHelper: a repository function with a body that the baseline does not know.
func isNewHelper(f *ssa.Function) bool {
	if f == nil || f.Blocks == nil || f.Pkg == nil {
		return false
	}
	switch f.Pkg.Pkg.Name() {
	case "geom", "rtree", "carto":
	default:
		return false
	}
	root := f
	for root.Parent() != nil {
		root = root.Parent()
	}
	return !baselineFuncs[FuncName(root)]
}
