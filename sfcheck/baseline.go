package main

import (
	_ "embed"
	"fmt"
	"go/types"
	"sort"
	"strings"

	"golang.org/x/tools/go/ssa"
)

// baseline_funcs.txt describes the tree the rule specifications were written
// against (`sfcheck dump -baseline`):
//
//	F <canonical function name> <signature, types only>
//	S <pkg.Type> <field:type,field:type,…>
//
// It is used for two things, both of which make the checker indifferent to
// edits that do not change behaviour:
//
//   - helpers: a repository function that the baseline does not know is a
//     helper introduced later (extracted from a function the specifications
//     know); the K4 interpreter inlines it, and a few rules follow calls into it;
//   - renames: a baseline function that no longer exists and a new function with
//     the same package, receiver and signature (when the match is unique both
//     ways) are the same function under a new name; likewise for the fields of a
//     struct type. FuncName and fieldName report the baseline name, so anchors,
//     tables and model keys keep resolving.
//
//go:embed baseline_funcs.txt
var baselineFuncsText string

var (
	baselineFuncs   = map[string]bool{}     // canonical names (top-level functions and methods)
	baselineSigs    = map[string]string{}   // name -> signature
	baselineStructs = map[string][]string{} // pkg.Type -> ["field:type", …]
)

func init() {
	for _, l := range strings.Split(baselineFuncsText, "\n") {
		f := strings.SplitN(strings.TrimSpace(l), "\t", 3)
		switch {
		case len(f) == 3 && f[0] == "F":
			baselineFuncs[f[1]] = true
			baselineSigs[f[1]] = f[2]
		case len(f) == 3 && f[0] == "S":
			baselineStructs[f[1]] = strings.Split(f[2], ",")
		}
	}
}

// renamedFuncs: current function -> baseline name; renamedFields: field object
// -> baseline name. Filled by detectRenames for the program being analysed.
var (
	renamedFuncs  = map[*ssa.Function]string{}
	renamedFields = map[*types.Var]string{}
	renameNotes   []string
)

func sigString(sig *types.Signature) string {
	q := func(p *types.Package) string { return p.Name() }
	var ps, rs []string
	for i := 0; i < sig.Params().Len(); i++ {
		t := types.TypeString(sig.Params().At(i).Type(), q)
		if sig.Variadic() && i == sig.Params().Len()-1 {
			t = "..." + t
		}
		ps = append(ps, t)
	}
	for i := 0; i < sig.Results().Len(); i++ {
		rs = append(rs, types.TypeString(sig.Results().At(i).Type(), q))
	}
	return "(" + strings.Join(ps, ",") + ")(" + strings.Join(rs, ",") + ")"
}

// ownerOf splits a canonical name into its owner ("geom.(*wkbParser)" or
// "geom") and the bare function name.
func ownerOf(name string) string {
	if i := strings.LastIndex(name, "."); i >= 0 {
		return name[:i]
	}
	return ""
}

func structKey(nt *types.Named) string {
	if nt.Obj().Pkg() == nil {
		return nt.Obj().Name()
	}
	return nt.Obj().Pkg().Name() + "." + nt.Obj().Name()
}

func structFieldStrings(st *types.Struct) []string {
	q := func(p *types.Package) string { return p.Name() }
	var out []string
	for i := 0; i < st.NumFields(); i++ {
		out = append(out, st.Field(i).Name()+":"+types.TypeString(st.Field(i).Type(), q))
	}
	return out
}

// detectRenames matches vanished baseline names with new names of identical
// shape. Called once per loaded program, before names are indexed.
func detectRenames(p *Program) {
	renamedFuncs = map[*ssa.Function]string{}
	renamedFields = map[*types.Var]string{}
	renameNotes = nil
	if len(baselineFuncs) == 0 {
		return
	}
	// functions
	cur := map[string]*ssa.Function{}
	for _, f := range p.Funcs {
		if f.Parent() == nil {
			cur[rawFuncName(f)] = f
		}
	}
	type key struct{ owner, sig string }
	missing := map[key][]string{}
	for n := range baselineFuncs {
		if _, ok := cur[n]; !ok {
			k := key{ownerOf(n), baselineSigs[n]}
			missing[k] = append(missing[k], n)
		}
	}
	fresh := map[key][]*ssa.Function{}
	for n, f := range cur {
		if !baselineFuncs[n] {
			k := key{ownerOf(n), sigString(f.Signature)}
			fresh[k] = append(fresh[k], f)
		}
	}
	for k, ms := range missing {
		if fs := fresh[k]; len(ms) == 1 && len(fs) == 1 {
			renamedFuncs[fs[0]] = ms[0]
			renameNotes = append(renameNotes, fmt.Sprintf("function %s is treated as the baseline's %s (same owner and signature, renamed)", rawFuncName(fs[0]), ms[0]))
		}
	}
	// struct fields
	for _, pk := range p.Pkgs {
		scope := pk.Types.Scope()
		for _, n := range scope.Names() {
			tn, ok := scope.Lookup(n).(*types.TypeName)
			if !ok {
				continue
			}
			nt, ok := tn.Type().(*types.Named)
			if !ok {
				continue
			}
			st, ok := nt.Underlying().(*types.Struct)
			if !ok {
				continue
			}
			base, ok := baselineStructs[structKey(nt)]
			if !ok {
				continue
			}
			have := map[string]bool{}
			for i := 0; i < st.NumFields(); i++ {
				have[st.Field(i).Name()] = true
			}
			baseNames := map[string]bool{}
			missT := map[string][]string{} // type -> vanished baseline field names
			for _, ft := range base {
				parts := strings.SplitN(ft, ":", 2)
				baseNames[parts[0]] = true
				if !have[parts[0]] {
					missT[parts[1]] = append(missT[parts[1]], parts[0])
				}
			}
			q := func(p *types.Package) string { return p.Name() }
			freshT := map[string][]*types.Var{}
			for i := 0; i < st.NumFields(); i++ {
				fv := st.Field(i)
				if !baseNames[fv.Name()] {
					ts := types.TypeString(fv.Type(), q)
					freshT[ts] = append(freshT[ts], fv)
				}
			}
			for ts, ms := range missT {
				if fs := freshT[ts]; len(ms) == 1 && len(fs) == 1 {
					renamedFields[fs[0]] = ms[0]
					renameNotes = append(renameNotes, fmt.Sprintf("field %s.%s is treated as the baseline's %s (same type, renamed)", structKey(nt), fs[0].Name(), ms[0]))
				}
			}
		}
	}
	sort.Strings(renameNotes)
}

// canonFieldName: the baseline name of a struct field.
func canonFieldName(fv *types.Var) string {
	if n, ok := renamedFields[fv]; ok {
		return n
	}
	return fv.Name()
}

// isNewHelper: a repository function with a body that the baseline does not know.
func isNewHelper(f *ssa.Function) bool {
	if f == nil || f.Blocks == nil || f.Pkg == nil {
		return false
	}
	switch f.Pkg.Pkg.Name() {
	case "geom", "rtree", "carto":
	default:
		return false
	}
	root := f
	for root.Parent() != nil {
		root = root.Parent()
	}
	return !baselineFuncs[FuncName(root)]
}

// dumpBaseline prints the baseline description of the loaded program.
func dumpBaseline(p *Program) {
	var lines []string
	for _, f := range p.Funcs {
		if f.Parent() == nil {
			lines = append(lines, "F\t"+rawFuncName(f)+"\t"+sigString(f.Signature))
		}
	}
	for _, pk := range p.Pkgs {
		scope := pk.Types.Scope()
		for _, n := range scope.Names() {
			if tn, ok := scope.Lookup(n).(*types.TypeName); ok {
				if nt, ok := tn.Type().(*types.Named); ok {
					if st, ok := nt.Underlying().(*types.Struct); ok && st.NumFields() > 0 {
						lines = append(lines, "S\t"+structKey(nt)+"\t"+strings.Join(structFieldStrings(st), ","))
					}
				}
			}
		}
	}
	sort.Strings(lines)
	for _, l := range lines {
		fmt.Println(l)
	}
}
