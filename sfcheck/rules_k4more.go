package main

import (
	"fmt"
	"go/token"
	"math"
	"strings"

	"golang.org/x/tools/go/ssa"
)

func init() {
	register(&Rule{
		ID:    "C01.labels",
		Props: []string{"C01"},
		Doc:   "overlay labelling: (a) populateInSetLabels' per-edge closure, interpreted over all models of the flags, sets e.inSet = srcEdge OR incident.inSet OR twin.incident.inSet and origin.inSet |= e.inSet OR prev.inSet (closure: face <= edge <= vertex); (b) in assignFaces the flag that seeds a face's inSet and the flag whose absence lets the flood cross an edge are the same field (a face boundary of the operand stops the flood; nothing else does); (c) shouldExtractLine = !extracted AND include(edge) AND NOT include(either adjacent face); extractPoints selects include(vertex) AND NOT extracted",
		Floor: 4,
		Run:   runC01Labels,
	})
	register(&Rule{
		ID:    "C04.fields",
		Props: []string{"C04", "C08", "C16"},
		Doc:   "wkbParser.parsePoint interpreted over the 4 coordinate types x NaN-ness: on every non-error path it consumes exactly Dimension(ctype) float64s (X, Y, Z iff 3D, M iff measured) — also for the NaN/NaN empty point, whose Z/M bytes must be consumed or the next member is misparsed; flipEndianessStride8 interpreted on a modelled 16-byte slice reverses each 8-byte group exactly",
		Floor: 2,
		Run:   runC04Fields,
	})
	register(&Rule{
		ID:    "C12.fold",
		Props: []string{"C12"},
		Doc:   "Sequence.Envelope interpreted on a modelled 3-point sequence of every coordinate type and every lattice position: the result is exactly [min X, max X] x [min Y, max Y] over all control points (every stride-th point is visited, including the last; Z/M are not mixed in)",
		Floor: 1,
		Run:   runC12Fold,
	})
}

func runC01Labels(c *Ctx) {
	// (c) shouldExtractLine
	if f := c.P.Func("geom.shouldExtractLine"); f != nil {
		fn := FuncName(f)
		inc := func(k string) string { return "INC(" + k + ")" }
		atoms := []string{"$0.extracted", inc("$0.inSet"), inc("$0.incident.inSet"), inc("$0.twin.incident.inSet")}
		problem, undec := "", ""
		models := k4enumerate(nil, nil, atoms, func(m *Model) bool {
			m.Missing = map[string]bool{}
			it := &k4interp{p: c.P, m: m, mem: map[string]k4val{}}
			it.opaqueCall = func(args []k4val) (string, bool) {
				if len(args) == 1 && args[0].kind == 3 {
					return inc(args[0].s), true
				}
				return "", false
			}
			res, err := it.call(f, []k4val{{kind: 3, s: "$0"}, {kind: 3, s: "$include"}}, nil)
			if err != nil || len(res) != 1 || res[0].kind != 1 {
				undec = fmt.Sprintf("%v %s", err, missingList(m))
				return false
			}
			want := !m.Bool["$0.extracted"] && m.Bool[inc("$0.inSet")] && !m.Bool[inc("$0.incident.inSet")] && !m.Bool[inc("$0.twin.incident.inSet")]
			if res[0].b != want {
				problem = fmt.Sprintf("for %s returns %v, the definition gives %v", modelString(m), res[0].b, want)
				return false
			}
			return true
		})
		construct := "line extraction predicate"
		switch {
		case undec != "":
			c.Undecided(f.Pos(), fn, construct, undec)
		case problem != "":
			c.Bad(f.Pos(), fn, construct, problem+": a line is extracted although it was already extracted or is covered by an included face (duplicate lower-dimensional output), or a needed line is dropped")
		default:
			c.OK(f.Pos(), fn, construct, fmt.Sprintf("= !extracted AND include(edge) AND NOT include(face) AND NOT include(twin face) in all %d models", models))
		}
	} else {
		c.Errorf("anchor geom.shouldExtractLine does not resolve")
	}
	// (a) populateInSetLabels edge closure: the closure that stores into ....origin.inSet
	var edgeClo *ssa.Function
	if f := c.P.Func("geom.(*doublyConnectedEdgeList).populateInSetLabels"); f != nil {
		for _, a := range f.AnonFuncs {
			isEdge := false
			eachInstr(a, func(in ssa.Instruction) {
				if fa, ok := in.(*ssa.FieldAddr); ok {
					if _, fl := fieldOfAddr(fa); fl == "origin" {
						isEdge = true
					}
				}
			})
			if isEdge {
				edgeClo = a
			}
		}
	}
	// … or a method / function introduced since the baseline that took the closure's place:
	// it stores into ….origin.inSet and takes the operand as its last parameter
	edgeIsMethod := false
	if edgeClo == nil {
		for _, g := range c.P.Funcs {
			if pkgOf(g) != "geom" || g.Parent() != nil || !isNewHelper(g) || len(g.Params) != 2 || namedName(g.Params[1].Type()) != "operand" {
				continue
			}
			isEdge := false
			eachInstr(g, func(in ssa.Instruction) {
				if fa, ok := in.(*ssa.FieldAddr); ok {
					if _, fl := fieldOfAddr(fa); fl == "origin" {
						isEdge = true
					}
				}
			})
			if isEdge {
				edgeClo, edgeIsMethod = g, true
			}
		}
	}
	if edgeClo == nil {
		c.Errorf("anchor populateInSetLabels edge closure does not resolve")
	} else {
		fn := FuncName(edgeClo)
		e := "fv:e"
		if len(edgeClo.FreeVars) > 0 {
			e = "fv:" + edgeClo.FreeVars[0].Name()
		}
		problem, undec := "", ""
		models := 0
		for _, op := range []int{0, 1} {
			k := func(p string) string { return fmt.Sprintf("%s.%s[%d]", e, p, op) }
			atoms := []string{k("srcEdge"), k("incident.inSet"), k("twin.incident.inSet"), k("origin.inSet"), k("prev.inSet"), k("inSet")}
			k4enumerate(nil, nil, atoms, func(m *Model) bool {
				models++
				m.Missing = map[string]bool{}
				it := &k4interp{p: c.P, m: m, mem: map[string]k4val{}}
				var err error
				if edgeIsMethod {
					_, err = it.call(edgeClo, []k4val{{kind: 3, s: e}, {kind: 2, f: float64(op)}}, nil)
				} else {
					_, err = it.call(edgeClo, []k4val{{kind: 2, f: float64(op)}}, []k4val{{kind: 3, s: e}})
				}
				if err != nil {
					undec = fmt.Sprintf("%v %s", err, missingList(m))
					return false
				}
				rd := func(key string) (bool, bool) {
					v, ok := it.mem[key]
					return v.b, ok && v.kind == 1
				}
				wantE := m.Bool[k("srcEdge")] || m.Bool[k("incident.inSet")] || m.Bool[k("twin.incident.inSet")]
				gotE, okE := rd(k("inSet"))
				if !okE || gotE != wantE {
					problem = fmt.Sprintf("edge label for %s: stored %v (written=%v), the closure rule gives %v (source edge OR either adjacent face in the set)", modelString(m), gotE, okE, wantE)
					return false
				}
				wantV := m.Bool[k("origin.inSet")] || wantE || m.Bool[k("prev.inSet")]
				gotV, okV := rd(k("origin.inSet"))
				if !okV || gotV != wantV {
					problem = fmt.Sprintf("vertex label for %s: stored %v, expected %v (vertex label must include the labels of both edges meeting there)", modelString(m), gotV, wantV)
					return false
				}
				return true
			})
		}
		construct := "edge and vertex labels (closure face <= edge <= vertex)"
		switch {
		case undec != "":
			c.Undecided(edgeClo.Pos(), fn, construct, undec)
		case problem != "":
			c.Bad(edgeClo.Pos(), fn, construct, problem)
		default:
			c.OK(edgeClo.Pos(), fn, construct, fmt.Sprintf("every disjunct present, in all %d models", models))
		}
	}
	// (b) face labels count the members of an operand that cover the face
	checkFaceDepthLabels(c)
	// extractPoints selection
	if f := c.P.Func("geom.(*doublyConnectedEdgeList).extractPoints"); f != nil {
		var sel *ssa.Store
		for _, g := range withHelpersAndLiterals(f) {
			eachInstr(g, func(in ssa.Instruction) {
				if st, ok := in.(*ssa.Store); ok {
					if fa, ok := st.Addr.(*ssa.FieldAddr); ok {
						if sn, fl := fieldOfAddr(fa); sn == "vertexRecord" && fl == "extracted" {
							sel = st
						}
					}
				}
			})
		}
		good := false
		if sel != nil {
			notExtracted, included := false, false
			for _, gd := range guardsAt(sel) {
				if sn, fl, _, ok := fieldLoad(gd.Cond); ok && sn == "vertexRecord" && fl == "extracted" && !gd.Truth {
					notExtracted = true
				}
				if call, ok := gd.Cond.(*ssa.Call); ok && gd.Truth && call.Call.StaticCallee() == nil && !call.Call.IsInvoke() {
					included = true
				}
			}
			good = notExtracted && included
		}
		c.Check(good, f.Pos(), FuncName(f), "point extraction predicate", "include(vertex) AND NOT extracted", "extractPoints no longer selects exactly the included vertices that were not already extracted as part of a line or polygon")
	}
}

func runC04Fields(c *Ctx) {
	f := c.P.Func("geom.(*wkbParser).parsePoint")
	if f == nil {
		c.Errorf("anchor parsePoint does not resolve")
		return
	}
	fn := FuncName(f)
	problem, undec := "", ""
	models := 0
	for ct := 0; ct < 4; ct++ {
		for _, val := range []float64{1.5, math.NaN()} {
			m := &Model{Num: map[string]float64{"$1": float64(ct)}, Bool: map[string]bool{}, Missing: map[string]bool{}}
			it := &k4interp{p: c.P, m: m, mem: map[string]k4val{}}
			var res []k4val
			var err error
			for round := 0; round < 6; round++ {
				m.Missing = map[string]bool{}
				it = &k4interp{p: c.P, m: m, mem: map[string]k4val{}}
				res, err = it.call(f, []k4val{{kind: 3, s: "$0"}, {kind: 2, f: float64(ct)}}, nil)
				if err == nil || len(m.Missing) == 0 {
					break
				}
				for k := range m.Missing {
					key := strings.SplitN(k, " ", 2)[1]
					switch {
					case strings.HasPrefix(k, "num ") && strings.Contains(key, "parseFloat64"):
						m.Num[key] = val
					case strings.HasPrefix(k, "bool ") && strings.Contains(key, "parseFloat64") && strings.Contains(key, "nil"):
						m.Bool[key] = strings.Contains(key, "==") // err == nil true, err != nil false
					default:
						undec = "term outside the rule's vocabulary: " + k
					}
				}
			}
			if undec != "" || err != nil {
				if undec == "" {
					undec = fmt.Sprintf("%v %s", err, missingList(m))
				}
				break
			}
			models++
			reads := 0
			for _, cl := range it.calls {
				if strings.Contains(cl, "parseFloat64") {
					reads++
				}
			}
			want := 2 + ct&1 + (ct>>1)&1
			if len(res) == 2 && res[1].String() == "nil" && reads != want {
				problem = fmt.Sprintf("for coordinates type %d (ordinates %v) the success path consumes %d float64s, the encoding has %d: the remaining bytes are misread as the next member's header", ct, val, reads, want)
			}
		}
	}
	construct := "ordinates consumed per point"
	switch {
	case undec != "":
		c.Undecided(f.Pos(), fn, construct, undec)
	case problem != "":
		c.Bad(f.Pos(), fn, construct, problem)
	default:
		c.OK(f.Pos(), fn, construct, fmt.Sprintf("exactly Dimension(ctype) reads on every success path, in all %d models (incl. the NaN/NaN empty point)", models))
	}
	// flipEndianessStride8
	g := c.P.Func("geom.flipEndianessStride8")
	if g == nil {
		c.Errorf("anchor flipEndianessStride8 does not resolve")
		return
	}
	m := &Model{Num: map[string]float64{}, Bool: map[string]bool{}, Missing: map[string]bool{}}
	it := &k4interp{p: c.P, m: m, mem: map[string]k4val{}}
	for i := 0; i < 16; i++ {
		it.mem[fmt.Sprintf("P[%d]", i)] = k4val{kind: 2, f: float64(i)}
	}
	_, err := it.call(g, []k4val{{kind: 8, s: "P", ln: 16, cp: 16}}, nil)
	bad := ""
	if err != nil {
		c.Undecided(g.Pos(), FuncName(g), "byte reversal per 8-byte group", err.Error())
		return
	}
	for i := 0; i < 16; i++ {
		want := float64((i/8)*8 + 7 - i%8)
		if v := it.mem[fmt.Sprintf("P[%d]", i)]; v.kind != 2 || v.f != want {
			bad = fmt.Sprintf("byte %d of the output is input byte %v, a full reversal of each 8-byte group requires input byte %v", i, v.f, want)
			break
		}
	}
	c.Check(bad == "", g.Pos(), FuncName(g), "byte reversal per 8-byte group", "each group of 8 bytes is exactly reversed", bad+": non-native byte order float64s are decoded with scrambled mantissa bytes")
}

func runC12Fold(c *Ctx) {
	f := c.P.Func("geom.(Sequence).Envelope")
	if f == nil {
		c.Errorf("anchor geom.(Sequence).Envelope does not resolve")
		return
	}
	fn := FuncName(f)
	inl := func(g *ssa.Function) bool {
		switch FuncName(g) {
		case "geom.fastMin", "geom.fastMax", "geom.(CoordinatesType).Dimension", "geom.(Sequence).Length", "geom.newUncheckedEnvelope", "geom.(Sequence).GetXY",
			"geom.(Envelope).ExpandToIncludeXY", "geom.(Envelope).IsEmpty", "geom.NewEnvelope", "geom.(Sequence).Get":
			return true
		}
		return false
	}
	problem, undec := "", ""
	models := 0
	dims := []int{2, 3, 3, 4}
	const npts = 3
	for ct := 0; ct < 4 && problem == "" && undec == ""; ct++ {
		d := dims[ct]
		var keys []string
		for i := 0; i < npts*d; i++ {
			keys = append(keys, fmt.Sprintf("F[%d]", i))
		}
		// enumerate X,Y of each point over {0,1,2}; Z/M fixed to distinct out-of-range values
		var xy []string
		k4ValsFor = map[string][]float64{}
		for i := 0; i < npts; i++ {
			xy = append(xy, keys[i*d], keys[i*d+1])
		}
		k4enumerate(xy, []float64{0, 1, 2}, nil, func(m *Model) bool {
			models++
			m.Num["$0.ctype"] = float64(ct)
			m.Missing = map[string]bool{}
			it := &k4interp{p: c.P, m: m, mem: map[string]k4val{}, inline: inl}
			for i := 0; i < npts*d; i++ {
				v, isXY := m.Num[keys[i]]
				if !isXY {
					v = 100 + float64(i) // Z/M ordinates: must never leak into the envelope
				}
				it.mem[keys[i]] = k4val{kind: 2, f: v}
			}
			it.mem["$0.floats"] = k4val{kind: 8, s: "F", ln: npts * d, cp: npts * d}
			res, err := it.call(f, []k4val{{kind: 3, s: "$0"}}, nil)
			if err != nil || len(res) != 1 || res[0].kind != 3 {
				undec = fmt.Sprintf("%v %v %s", err, res, missingList(m))
				return false
			}
			env := res[0].s
			get := func(p string) (float64, bool) {
				v, err := it.lookup(env+p, nil0)
				return v.f, err == nil && v.kind == 2
			}
			minX, minY, maxX, maxY := math.Inf(1), math.Inf(1), math.Inf(-1), math.Inf(-1)
			for i := 0; i < npts; i++ {
				x, y := m.Num[keys[i*d]], m.Num[keys[i*d+1]]
				minX, maxX = math.Min(minX, x), math.Max(maxX, x)
				minY, maxY = math.Min(minY, y), math.Max(maxY, y)
			}
			for _, w := range []struct {
				p string
				v float64
			}{{".min.X", minX}, {".min.Y", minY}, {".max.X", maxX}, {".max.Y", maxY}} {
				got, ok := get(w.p)
				if !ok || got != w.v {
					problem = fmt.Sprintf("for a %d-dimensional sequence with points %s the envelope has %s = %v, the exact bound over all control points is %v", d, pointsString(m, keys, d, npts), w.p[1:], got, w.v)
					return false
				}
			}
			return true
		})
	}
	construct := "envelope of a sequence"
	switch {
	case undec != "":
		c.Undecided(f.Pos(), fn, construct, "cannot interpret: "+undec)
	case problem != "":
		c.Bad(f.Pos(), fn, construct, problem)
	default:
		c.OK(f.Pos(), fn, construct, fmt.Sprintf("exactly the min/max of X and Y over every control point, for all 4 coordinate types, in all %d models", models))
	}
}

func pointsString(m *Model, keys []string, d, n int) string {
	var p []string
	for i := 0; i < n; i++ {
		p = append(p, fmt.Sprintf("(%v %v)", m.Num[keys[i*d]], m.Num[keys[i*d+1]]))
	}
	return strings.Join(p, ",")
}

// checkFaceDepthLabels: the members of one operand may overlap (collections),
// so a face is in an operand iff the NUMBER of areal members covering it is
// positive. Structural obligations:
//
//	(1) wherever a half edge is flagged as bordering an input face of an operand
//	    (srcFace[op] = true), the per-edge member count of the same half edge and
//	    operand is incremented by 1 in the same block, and nothing else writes it;
//	(2) in assignFaces the count of the face across an edge e is obtained from the
//	    count of the near face by adding count(e.twin) - count(e) (entering minus
//	    leaving), both read from the same count field;
//	(3) a face's inSet is assigned `count > 0`; no face label is set to the
//	    constant true under "edge is not an input face border" (a Boolean flood
//	    cannot enter the hole of one member that a sibling member covers);
//	(4) counting starts at the face chosen by a strict minimum of the cycles'
//	    signed areas (the unbounded face is the only one not wound
//	    counter-clockwise around a positive area).
func checkFaceDepthLabels(c *Ctx) {
	af := c.P.Func("geom.(*doublyConnectedEdgeList).assignFaces")
	if af == nil {
		c.Errorf("anchor assignFaces does not resolve")
		return
	}
	fn := FuncName(af)
	isFieldPath := func(v ssa.Value, structName string, fields ...string) (base ssa.Value, ok bool) {
		// v is the address X.f1.f2…[i]; returns X
		if ia, isIA := v.(*ssa.IndexAddr); isIA {
			v = ia.X
		}
		for k := len(fields) - 1; k >= 0; k-- {
			fa, isFA := v.(*ssa.FieldAddr)
			if !isFA {
				return nil, false
			}
			_, fl := fieldOfAddr(fa)
			if fl != fields[k] {
				return nil, false
			}
			v = fa.X
			if k > 0 {
				ld, isLd := v.(*ssa.UnOp)
				if !isLd || ld.Op != token.MUL {
					return nil, false
				}
				v = ld.X
			}
		}
		return v, true
	}
	// (1) flag and count are written together
	var countField string
	flagStores, countStores, lone := 0, 0, ""
	condCount := ""
	for _, g := range c.P.Funcs {
		if pkgOf(g) != "geom" || strings.Contains(c.P.File(g.Pos()), "dcel_debug.go") {
			continue
		}
		eachInstr(g, func(in ssa.Instruction) {
			st, ok := in.(*ssa.Store)
			if !ok {
				return
			}
			ia, ok := st.Addr.(*ssa.IndexAddr)
			if !ok {
				return
			}
			fa, ok := ia.X.(*ssa.FieldAddr)
			if !ok {
				return
			}
			sn, fl := fieldOfAddr(fa)
			if sn != "halfEdgeRecord" {
				return
			}
			if fl == "srcFace" {
				flagStores++
				// a sibling store in the same block to an int array field of the same half edge, same index
				found := false
				for _, in2 := range st.Block().Instrs {
					st2, ok := in2.(*ssa.Store)
					if !ok || st2 == st {
						continue
					}
					ia2, ok := st2.Addr.(*ssa.IndexAddr)
					if !ok || !sameValue(ia2.Index, ia.Index) {
						continue
					}
					fa2, ok := ia2.X.(*ssa.FieldAddr)
					if !ok || !sameValue(fa2.X, fa.X) {
						continue
					}
					bo, ok := st2.Val.(*ssa.BinOp)
					if !ok || bo.Op != token.ADD {
						continue
					}
					if k, isC := constInt(bo.Y); isC && k == 1 {
						_, countField = fieldOfAddr(fa2)
						found = true
					}
				}
				if !found {
					lone = c.P.Pos(st.Pos())
				}
			}
		})
	}
	if countField != "" {
		for _, g := range c.P.Funcs {
			if pkgOf(g) != "geom" {
				continue
			}
			eachInstr(g, func(in ssa.Instruction) {
				if st, ok := in.(*ssa.Store); ok {
					if ia, ok := st.Addr.(*ssa.IndexAddr); ok {
						if fa, ok := ia.X.(*ssa.FieldAddr); ok {
							if sn, fl := fieldOfAddr(fa); sn == "halfEdgeRecord" && fl == countField {
								countStores++
								// the increment must not depend on what the edge already carries
								for _, g0 := range guardsAt(st) {
									for _, gd := range expandGuard(g0) {
										if readsHalfEdgeField(gd.Cond, map[string]bool{"srcFace": true, countField: true}, 0) {
											condCount = c.P.Pos(st.Pos())
										}
									}
								}
							}
						}
					}
				}
			})
		}
	}
	switch {
	case flagStores == 0:
		c.Errorf("no store to halfEdgeRecord.srcFace found")
	case condCount != "":
		c.Bad(af.Pos(), fn, "members bordering an edge are counted", "the member count is incremented at "+condCount+" only under a test of the edge's own face flag/count: an edge shared (in the same direction) by two overlapping members of one operand is counted once, so the coverage depth across it is wrong and a face that one member's hole leaves uncovered but a sibling covers is labelled outside the operand")
	case lone != "" || countField == "":
		c.Bad(af.Pos(), fn, "members bordering an edge are counted", "the half edge is flagged as bordering an input face at "+lone+" without incrementing a per-edge member count: overlapping members of one operand cannot be told apart, so a face in the hole of one member that a sibling covers is labelled outside the operand (UnaryUnion keeps the hole)")
	case countStores != flagStores:
		c.Bad(af.Pos(), fn, "members bordering an edge are counted", fmt.Sprintf("the member count %s is written at %d sites but the face-border flag at %d", countField, countStores, flagStores))
	default:
		c.OK(af.Pos(), fn, "members bordering an edge are counted", fmt.Sprintf("%s[op]++ next to srcFace[op] = true at all %d site(s)", countField, flagStores))
	}
	if countField == "" {
		return
	}
	// (2) entering minus leaving
	okDelta, badDelta := 0, ""
	floodTrue := ""
	gtZero := 0
	scope := withHelpersAndLiterals(af)
	for _, g := range scope {
		eachInstr(g, func(in ssa.Instruction) {
			switch x := in.(type) {
			case *ssa.BinOp:
				if x.Op != token.SUB {
					return
				}
				lx, okx := x.X.(*ssa.UnOp)
				ly, oky := x.Y.(*ssa.UnOp)
				if !okx || !oky || lx.Op != token.MUL || ly.Op != token.MUL {
					return
				}
				bx, farX := isFieldPath(lx.X, "halfEdgeRecord", "twin", countField)
				by, nearY := isFieldPath(ly.X, "halfEdgeRecord", countField)
				if farX && nearY {
					// same edge on both sides
					if ld, ok := bx.(*ssa.UnOp); ok {
						bx = ld.X
					}
					_ = by
					okDelta++
					return
				}
				if _, nearX := isFieldPath(lx.X, "halfEdgeRecord", countField); nearX {
					if _, farY := isFieldPath(ly.X, "halfEdgeRecord", "twin", countField); farY {
						badDelta = "the count changes by count(e) - count(e.twin) at " + c.P.Pos(x.Pos()) + ": leaving and entering are swapped"
					}
				}
			case *ssa.Store:
				ia, ok := x.Addr.(*ssa.IndexAddr)
				if !ok {
					return
				}
				fa, ok := ia.X.(*ssa.FieldAddr)
				if !ok {
					return
				}
				if sn, fl := fieldOfAddr(fa); sn != "faceRecord" || fl != "inSet" {
					return
				}
				if bo, ok := x.Val.(*ssa.BinOp); ok && bo.Op == token.GTR {
					if k, isC := constInt(bo.Y); isC && k == 0 {
						gtZero++
						return
					}
				}
				if b, isB := constBool(x.Val); isB && b {
					for _, gd := range guardsAt(x) {
						if ld, ok := gd.Cond.(*ssa.UnOp); ok && ld.Op == token.MUL && !gd.Truth {
							if _, isFlag := isFieldPath(ld.X, "halfEdgeRecord", "srcFace"); isFlag {
								floodTrue = c.P.Pos(x.Pos())
							}
						}
					}
				}
			}
		})
	}
	switch {
	case badDelta != "":
		c.Bad(af.Pos(), fn, "count across an edge", badDelta)
	case okDelta == 0:
		c.Bad(af.Pos(), fn, "count across an edge", "assignFaces never computes count(e.twin) - count(e): the number of covering members is not propagated across edges")
	default:
		c.OK(af.Pos(), fn, "count across an edge", "far face = near face + count(e.twin) - count(e)")
	}
	switch {
	case floodTrue != "":
		c.Bad(af.Pos(), fn, "face label from the count", "a face is labelled `true` under `edge is not an input face border` at "+floodTrue+" (Boolean flood): it cannot enter the hole of a member that a sibling member covers")
	case gtZero == 0:
		c.Bad(af.Pos(), fn, "face label from the count", "no face label is assigned as `count > 0`")
	default:
		c.OK(af.Pos(), fn, "face label from the count", "inSet[op] = count[op] > 0")
	}
	// (4) the anchor is the strict minimum of the signed areas
	uf := c.P.Func("geom.(*doublyConnectedEdgeList).unboundedFace")
	if uf == nil {
		c.Bad(af.Pos(), fn, "counting starts at the unbounded face", "no unboundedFace routine: the face with count 0 is not identified")
		return
	}
	minSel := false
	eachInstr(uf, func(in ssa.Instruction) {
		if bo, ok := in.(*ssa.BinOp); ok && bo.Op == token.LSS && isFloat(bo.X.Type()) {
			for _, r := range *bo.Referrers() {
				if _, isIf := r.(*ssa.If); isIf {
					minSel = true
				}
			}
			if _, isPhi := bo.Y.(*ssa.Phi); !isPhi {
				// comparison against the running minimum expected on the right
			}
		}
	})
	crossUsed, aboutRef := false, true
	for _, g := range append([]*ssa.Function{uf}, allAnon(uf)...) {
		for _, call := range callsTo(g, "geom.(XY).Cross") {
			crossUsed = true
			// both operands are differences to a reference vertex: sums about the
			// origin lose the area of a small geometry far from the origin
			for _, a := range call.Common().Args {
				sub, ok := stripLoad(a).(*ssa.Call)
				if !ok || calleeName(sub) != "geom.(XY).Sub" {
					aboutRef = false
				}
			}
		}
	}
	if crossUsed && !aboutRef {
		c.Bad(uf.Pos(), FuncName(uf), "counting starts at the unbounded face", "the signed areas are accumulated from absolute coordinates (shoelace about the origin): for a geometry that is small compared to the magnitude of its coordinates the area is lost to rounding, the wrong face is taken as unbounded, and the result depends on map iteration order")
		return
	}
	c.Check(minSel && crossUsed, uf.Pos(), FuncName(uf), "counting starts at the unbounded face", "the face whose cycle has the smallest signed area (shoelace sum) is taken as covered by no member", "unboundedFace does not select the cycle of minimal signed area (shoelace sum with a `<` running minimum)")
}

// readsHalfEdgeField: the expression reads one of the named fields of a halfEdgeRecord
func readsHalfEdgeField(v ssa.Value, fields map[string]bool, d int) bool {
	if d > 6 || v == nil {
		return false
	}
	switch x := v.(type) {
	case *ssa.UnOp:
		if x.Op == token.MUL {
			addr := x.X
			if ia, ok := addr.(*ssa.IndexAddr); ok {
				addr = ia.X
			}
			if fa, ok := addr.(*ssa.FieldAddr); ok {
				if sn, fl := fieldOfAddr(fa); sn == "halfEdgeRecord" && fields[fl] {
					return true
				}
			}
			return false
		}
		return readsHalfEdgeField(x.X, fields, d+1)
	case *ssa.BinOp:
		return readsHalfEdgeField(x.X, fields, d+1) || readsHalfEdgeField(x.Y, fields, d+1)
	case *ssa.Index:
		if f, ok := x.X.(*ssa.Field); ok {
			if sn, fl := fieldOfField(f); sn == "halfEdgeRecord" && fields[fl] {
				return true
			}
		}
	case *ssa.Phi:
		for _, e := range x.Edges {
			if readsHalfEdgeField(e, fields, d+1) {
				return true
			}
		}
	}
	return false
}

// withHelpersAndLiterals: f, its function literals, the helpers introduced
// since the baseline that any of them calls, their literals, and so on — the
// code that used to be f's body.
func withHelpersAndLiterals(f *ssa.Function) []*ssa.Function {
	out := []*ssa.Function{f}
	seen := map[*ssa.Function]bool{f: true}
	for i := 0; i < len(out) && i < 64; i++ {
		g := out[i]
		for _, a := range g.AnonFuncs {
			if !seen[a] {
				seen[a] = true
				out = append(out, a)
			}
		}
		eachCall(g, func(call ssa.CallInstruction) {
			if h := staticCallee(call); h != nil && !seen[h] && isNewHelper(h) && len(h.Blocks) > 0 {
				seen[h] = true
				out = append(out, h)
			}
		})
	}
	return out
}
