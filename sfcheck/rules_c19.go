package main

import (
	"fmt"
	"go/token"
	"go/types"
	"math"
	"sort"
	"strings"

	"golang.org/x/tools/go/ssa"
)

// ---- K11: dimension (power of length) inference for carto ----

// dim is the power of length of a float value. poly = numeric constant
// (adapts in +,-,comparisons; counts as 0 in *,/). unk = not inferable.
type dim struct {
	kind int // 0 known, 1 poly, 2 unknown
	num  int // power * 2 (so that sqrt of odd powers is representable)
}

var (
	dimPoly = dim{kind: 1}
	dimUnk  = dim{kind: 2}
)

func dimOf(p int) dim { return dim{0, 2 * p} }

func (d dim) String() string {
	switch d.kind {
	case 1:
		return "number"
	case 2:
		return "?"
	}
	if d.num%2 == 0 {
		return fmt.Sprintf("L^%d", d.num/2)
	}
	return fmt.Sprintf("L^%d/2", d.num)
}

type dimClash struct {
	pos  token.Pos
	what string
}

type dimEnv struct {
	c        *Ctx
	fieldDim map[*types.Var]dim
	paramDim map[*ssa.Parameter]dim
	memo     map[ssa.Value]dim
	clashes  []dimClash
	visiting map[ssa.Value]bool
	depth    int
}

func (e *dimEnv) clash(pos token.Pos, format string, a ...interface{}) {
	e.clashes = append(e.clashes, dimClash{pos, fmt.Sprintf(format, a...)})
}

// join for + - comparisons and phi.
func (e *dimEnv) same(pos token.Pos, op string, a, b dim, av, bv ssa.Value) dim {
	if a.kind == 2 || b.kind == 2 {
		return dimUnk
	}
	if a.kind == 1 {
		return b
	}
	if b.kind == 1 {
		return a
	}
	if a.num != b.num {
		as, _ := accessPath(av)
		bs, _ := accessPath(bv)
		e.clash(pos, "operands of %s have different dimensions: %s is %s but %s is %s", op, trunc(as), a, trunc(bs), b)
		return dimUnk
	}
	return a
}

func trunc(s string) string {
	if len(s) > 70 {
		return s[:67] + "..."
	}
	return s
}

func (e *dimEnv) needZero(pos token.Pos, fn string, a dim, av ssa.Value) {
	if a.kind == 0 && a.num != 0 {
		as, _ := accessPath(av)
		e.clash(pos, "argument of %s must be dimensionless but %s is %s", fn, trunc(as), a)
	}
}

var dimlessFuncs = map[string]bool{
	"carto.sin": true, "carto.cos": true, "carto.tan": true, "carto.asin": true, "carto.acos": true, "carto.atan": true,
	"carto.ln": true, "carto.exp": true, "carto.sec": true, "carto.cot": true, "carto.dtor": true, "carto.rtod": true,
	"math.Sin": true, "math.Cos": true, "math.Tan": true, "math.Asin": true, "math.Acos": true, "math.Atan": true,
	"math.Log": true, "math.Exp": true, "math.Sinh": true, "math.Cosh": true, "math.Tanh": true, "math.Log10": true, "math.Log2": true,
}

func (e *dimEnv) of(v ssa.Value) dim {
	if d, ok := e.memo[v]; ok {
		return d
	}
	if e.visiting[v] {
		return dimPoly // cycle through phi: neutral
	}
	e.visiting[v] = true
	d := e.compute(v)
	delete(e.visiting, v)
	e.memo[v] = d
	return d
}

func (e *dimEnv) fieldRootDim(v ssa.Value) (dim, bool) {
	// v is an address/value selected from a struct; find the outermost field
	// of a carto struct, or the local it is rooted in.
	for i := 0; i < 10; i++ {
		switch x := v.(type) {
		case *ssa.FieldAddr:
			if fv := fieldVar(x.X.Type(), x.Field); fv != nil && fv.Pkg() != nil && fv.Pkg().Name() == "carto" {
				if d, ok := e.fieldDim[fv]; ok {
					return d, true
				}
				return dimUnk, true
			}
			v = x.X
		case *ssa.Field:
			if fv := fieldVar(x.X.Type(), x.Field); fv != nil && fv.Pkg() != nil && fv.Pkg().Name() == "carto" {
				if d, ok := e.fieldDim[fv]; ok {
					return d, true
				}
				return dimUnk, true
			}
			v = x.X
		case *ssa.IndexAddr:
			v = x.X
		case *ssa.Index:
			v = x.X
		case *ssa.UnOp:
			if x.Op != token.MUL {
				return e.of(x), true
			}
			v = x.X
		case *ssa.Alloc:
			// local struct/array: dimension of what is stored into it
			return e.allocDim(x), true
		case *ssa.FreeVar:
			// a variable of the enclosing function captured by a function literal: its cell there
			fn := x.Parent()
			mc, ok := makeClosureOf(fn).(*ssa.MakeClosure)
			if !ok {
				return dimUnk, true
			}
			var bind ssa.Value
			for k, fv := range fn.FreeVars {
				if fv == x && k < len(mc.Bindings) {
					bind = mc.Bindings[k]
				}
			}
			if bind == nil {
				return dimUnk, true
			}
			v = bind
		default:
			return e.of(v), true
		}
	}
	return dimUnk, false
}

// allocDim: join of the dims of every value stored into the cell or its fields.
func (e *dimEnv) allocDim(a *ssa.Alloc) dim {
	res := dimPoly
	first := true
	var visit func(addr ssa.Value)
	visit = func(addr ssa.Value) {
		for _, r := range *addr.Referrers() {
			switch y := r.(type) {
			case *ssa.Store:
				if y.Addr == addr {
					d := e.of(y.Val)
					if first {
						res, first = d, false
					} else {
						res = e.same(y.Pos(), "assignment", res, d, a, y.Val)
					}
				}
			case *ssa.FieldAddr:
				visit(y)
			case *ssa.IndexAddr:
				visit(y)
			}
		}
	}
	visit(a)
	return res
}

func (e *dimEnv) compute(v ssa.Value) dim {
	switch x := v.(type) {
	case *ssa.Const:
		return dimPoly
	case *ssa.Parameter:
		if d, ok := e.paramDim[x]; ok {
			return d
		}
		return dimOf(0)
	case *ssa.UnOp:
		switch x.Op {
		case token.MUL:
			d, _ := e.fieldRootDim(x.X)
			return d
		case token.SUB:
			return e.of(x.X)
		}
		return dimUnk
	case *ssa.Field, *ssa.Index:
		d, _ := e.fieldRootDim(v)
		return d
	case *ssa.Convert:
		if isFloat(x.X.Type()) {
			return e.of(x.X)
		}
		return dimPoly // integer converted to float: a pure number
	case *ssa.ChangeType:
		return e.of(x.X)
	case *ssa.Phi:
		res := dimPoly
		for i, ed := range x.Edges {
			d := e.of(ed)
			if i == 0 {
				res = d
			} else {
				res = e.same(x.Pos(), "phi", res, d, x.Edges[0], ed)
			}
		}
		return res
	case *ssa.BinOp:
		a, b := e.of(x.X), e.of(x.Y)
		switch x.Op {
		case token.ADD, token.SUB:
			return e.same(x.Pos(), x.Op.String(), a, b, x.X, x.Y)
		case token.LSS, token.LEQ, token.GTR, token.GEQ, token.EQL, token.NEQ:
			e.same(x.Pos(), x.Op.String(), a, b, x.X, x.Y)
			return dimPoly
		case token.MUL, token.QUO:
			if a.kind == 2 || b.kind == 2 {
				return dimUnk
			}
			an, bn := 0, 0
			if a.kind == 0 {
				an = a.num
			}
			if b.kind == 0 {
				bn = b.num
			}
			if a.kind == 1 && b.kind == 1 {
				return dimPoly
			}
			if x.Op == token.MUL {
				return dim{0, an + bn}
			}
			return dim{0, an - bn}
		}
		return dimPoly
	case *ssa.Call:
		name := calleeName(x)
		args := x.Call.Args
		switch {
		case dimlessFuncs[name]:
			e.needZero(x.Pos(), name, e.of(args[0]), args[0])
			return dimOf(0)
		case name == "carto.sqrt" || name == "math.Sqrt":
			a := e.of(args[0])
			if a.kind != 0 {
				return a
			}
			return dim{0, a.num / 2}
		case name == "carto.sq":
			a := e.of(args[0])
			if a.kind != 0 {
				return a
			}
			return dim{0, a.num * 2}
		case name == "carto.sign" || name == "math.Copysign" || name == "math.Signbit":
			return dimOf(0)
		case name == "math.Abs" || name == "math.Floor" || name == "math.Ceil" || name == "math.Round":
			return e.of(args[0])
		case name == "carto.atan2" || name == "math.Atan2":
			e.same(x.Pos(), "atan2", e.of(args[0]), e.of(args[1]), args[0], args[1])
			return dimOf(0)
		case name == "math.Hypot":
			return e.same(x.Pos(), "hypot", e.of(args[0]), e.of(args[1]), args[0], args[1])
		case name == "math.Max" || name == "math.Min":
			return e.same(x.Pos(), name, e.of(args[0]), e.of(args[1]), args[0], args[1])
		case name == "carto.pow" || name == "math.Pow":
			e.needZero(x.Pos(), name+" exponent", e.of(args[1]), args[1])
			a := e.of(args[0])
			if k, ok := constInt(args[1]); ok && a.kind == 0 {
				return dim{0, a.num * int(k)}
			}
			e.needZero(x.Pos(), name+" base (non-constant exponent)", a, args[0])
			return dimOf(0)
		case name == "carto.rtodxy":
			e.needZero(x.Pos(), name, e.of(args[0]), args[0])
			e.needZero(x.Pos(), name, e.of(args[1]), args[1])
			return dimOf(0)
		case name == "geom.(XY).Length":
			return e.of(args[0])
		case name == "geom.(XY).Dot" || name == "geom.(XY).Cross":
			a, b := e.of(args[0]), e.of(args[1])
			if a.kind == 0 && b.kind == 0 {
				return dim{0, a.num + b.num}
			}
			return dimUnk
		case name == "geom.(XY).Sub" || name == "geom.(XY).Add":
			return e.same(x.Pos(), name, e.of(args[0]), e.of(args[1]), args[0], args[1])
		case name == "geom.(XY).Scale":
			a, b := e.of(args[0]), e.of(args[1])
			if a.kind == 0 && b.kind == 0 {
				return dim{0, a.num + b.num}
			}
			if a.kind == 0 && b.kind == 1 {
				return a
			}
			return dimUnk
		}
		if ds := e.calleeDims(x); len(ds) == 1 {
			return ds[0]
		}
		return dimUnk
	case *ssa.Extract:
		if call, ok := x.Tuple.(*ssa.Call); ok {
			if ds := e.calleeDims(call); x.Index < len(ds) {
				return ds[x.Index]
			}
		}
		return dimUnk
	case *ssa.Alloc:
		return e.allocDim(x)
	}
	return dimUnk
}

// calleeDims: the dimensions of the results of a call to a carto function with
// a body (a helper of the projection, e.g. one that computes the cone
// constants): its parameters take the dimensions of the arguments, its fields
// the projection's field dimensions; nil when the callee is not analysable.
func (e *dimEnv) calleeDims(call *ssa.Call) []dim {
	cal := staticCallee(call)
	if cal == nil || cal.Blocks == nil || pkgOf(cal) != "carto" || e.depth >= 3 {
		return nil
	}
	args := call.Call.Args
	if len(args) != len(cal.Params) {
		return nil
	}
	var argDims []dim
	for _, a := range args {
		if isFloat(a.Type()) {
			argDims = append(argDims, e.of(a))
		} else {
			argDims = append(argDims, dimOf(0))
		}
	}
	saveMemo, saveVis := e.memo, e.visiting
	e.memo, e.visiting = map[ssa.Value]dim{}, map[ssa.Value]bool{}
	e.depth++
	defer func() { e.memo, e.visiting = saveMemo, saveVis; e.depth-- }()
	for i, par := range cal.Params {
		if isFloat(par.Type()) {
			e.paramDim[par] = argDims[i]
		}
	}
	var out []dim
	for ri, r := range returnsOf(cal) {
		for i, res := range r.Results {
			d := dimOf(0)
			if isFloat(res.Type()) {
				d = e.of(res)
			} else if _, isStruct := res.Type().Underlying().(*types.Struct); isStruct {
				d = e.of(res)
			}
			if ri == 0 {
				out = append(out, d)
			} else if i < len(out) {
				out[i] = e.same(r.Pos(), "results of "+FuncName(cal), out[i], d, res, res)
			}
		}
	}
	return out
}

// projection describes one carto projection type.
type projection struct {
	named   *types.Named
	forward *ssa.Function
	reverse *ssa.Function
	ctor    *ssa.Function
	methods []*ssa.Function
}

func cartoProjections(c *Ctx) []*projection {
	var out []*projection
	sp := c.P.SPkgs["carto"]
	var names []string
	for n := range sp.Members {
		names = append(names, n)
	}
	sort.Strings(names)
	for _, n := range names {
		t, ok := sp.Members[n].(*ssa.Type)
		if !ok {
			continue
		}
		nt, ok := t.Type().(*types.Named)
		if !ok {
			continue
		}
		p := &projection{named: nt}
		p.forward = c.P.Func("carto.(*" + n + ").Forward")
		p.reverse = c.P.Func("carto.(*" + n + ").Reverse")
		if p.forward == nil || p.reverse == nil {
			continue
		}
		p.ctor = c.P.Func("carto.New" + n)
		for _, f := range c.P.methodsOf("carto", n) {
			p.methods = append(p.methods, f)
		}
		out = append(out, p)
	}
	return out
}

// newDimEnv builds the field dimensions of a projection by fixpoint from the
// seeds: float parameters of the constructor are lengths; every other
// parameter is dimensionless; Reverse's parameter is a length iff the
// projection has a length-valued field.
func newDimEnv(c *Ctx, p *projection) (*dimEnv, bool) {
	e := &dimEnv{c: c, fieldDim: map[*types.Var]dim{}, paramDim: map[*ssa.Parameter]dim{}, memo: map[ssa.Value]dim{}, visiting: map[ssa.Value]bool{}}
	hasLen := false
	if p.ctor != nil {
		for _, par := range p.ctor.Params {
			if isFloat(par.Type()) {
				e.paramDim[par] = dimOf(1)
				hasLen = true
			}
		}
	}
	if hasLen {
		e.paramDim[p.reverse.Params[1]] = dimOf(1)
	}
	st, _ := p.named.Underlying().(*types.Struct)
	if st == nil {
		return e, hasLen
	}
	funcs := append([]*ssa.Function{}, p.methods...)
	if p.ctor != nil {
		funcs = append(funcs, p.ctor)
	}
	for iter := 0; iter < 4; iter++ {
		next := map[*types.Var]dim{}
		seen := map[*types.Var]bool{}
		for _, f := range funcs {
			if f == p.forward || f == p.reverse {
				continue
			}
			eachInstr(f, func(in ssa.Instruction) {
				s, ok := in.(*ssa.Store)
				if !ok {
					return
				}
				// find the outermost carto field being written
				addr := s.Addr
				var fv *types.Var
				for k := 0; k < 6; k++ {
					switch a := addr.(type) {
					case *ssa.FieldAddr:
						if v := fieldVar(a.X.Type(), a.Field); v != nil && v.Pkg() != nil && v.Pkg().Name() == "carto" {
							fv = v
						}
						addr = a.X
						continue
					case *ssa.IndexAddr:
						addr = a.X
						continue
					}
					break
				}
				if fv == nil {
					return
				}
				e.memo = map[ssa.Value]dim{}
				d := e.of(s.Val)
				if !seen[fv] {
					seen[fv] = true
					next[fv] = d
				} else {
					next[fv] = e.same(s.Pos(), "stores into field "+fv.Name(), next[fv], d, s.Val, s.Val)
				}
			})
		}
		for i := 0; i < st.NumFields(); i++ {
			fv := st.Field(i)
			if d, ok := next[fv]; ok {
				if d.kind == 1 {
					d = dimOf(0)
				}
				e.fieldDim[fv] = d
			} else if _, ok := e.fieldDim[fv]; !ok {
				e.fieldDim[fv] = dimOf(0)
			}
		}
	}
	e.memo = map[ssa.Value]dim{}
	e.clashes = nil
	return e, hasLen
}

// returnedXY: the X and Y values stored into the returned XY literal, or the
// returned call.
func returnedComponents(r *ssa.Return) []ssa.Value {
	v := r.Results[0]
	if u, ok := v.(*ssa.UnOp); ok && u.Op == token.MUL {
		if a, ok := u.X.(*ssa.Alloc); ok {
			var out []ssa.Value
			for _, ref := range *a.Referrers() {
				if fa, ok := ref.(*ssa.FieldAddr); ok {
					for _, rr := range *fa.Referrers() {
						if st, ok := rr.(*ssa.Store); ok && st.Addr == fa {
							out = append(out, st.Val)
						}
					}
				}
			}
			return out
		}
	}
	return []ssa.Value{v}
}

func init() {
	register(&Rule{
		ID:    "C19.dim",
		Props: []string{"C19"},
		Doc:   "dimensional homogeneity of every Forward/Reverse body in carto: lengths are the constructor's float parameter and Reverse's argument; + - comparisons and atan2 need equal powers of length; trig/log/exp arguments are dimensionless; Forward returns length^1 and Reverse returns an angle (length^0) — hence each projection is homogeneous of degree 1 in the radius",
		Floor: 18,
		Run:   runC19Dim,
	})
	register(&Rule{
		ID:    "C19.centre",
		Props: []string{"C19"},
		Doc:   "in a Reverse, a division by the radial distance of the argument from the projected centre (sqrt(x²+y²) or xy.Length()) needs a dominating != 0 guard: the centre itself maps to rho = 0 and 0/0 is NaN",
		Floor: 2,
		Run:   runC19Centre,
	})
	register(&Rule{
		ID:    "C19.quadrant",
		Props: []string{"C19"},
		Doc:   "a projection with a settable centre (SetCenter) can be centred near a pole, where longitude differences of nearby points span (-180,180]: its Reverse must recover longitude with atan2(num, den), not atan(num/den) which folds into (-90,90)",
		Floor: 2,
		Run:   runC19Quadrant,
	})
}

func runC19Dim(c *Ctx) {
	projs := cartoProjections(c)
	if len(projs) < 9 {
		c.Errorf("found %d projections with Forward and Reverse, expected 9", len(projs))
	}
	for _, p := range projs {
		for _, f := range []*ssa.Function{p.forward, p.reverse} {
			e, hasLen := newDimEnv(c, p)
			fn := FuncName(f)
			want := dimOf(0)
			if f == p.forward && hasLen {
				want = dimOf(1)
			}
			// evaluate every float value in the body so that internal clashes are found
			eachInstr(f, func(in ssa.Instruction) {
				if v, ok := in.(ssa.Value); ok && (isFloat(v.Type()) || isBoolT(v.Type())) {
					e.of(v)
				}
			})
			var retProblems []string
			unk := false
			for _, r := range returnsOf(f) {
				for _, comp := range returnedComponents(r) {
					d := e.of(comp)
					switch {
					case d.kind == 2:
						unk = true
					case d.kind == 0 && d.num != want.num:
						cs, _ := accessPath(comp)
						retProblems = append(retProblems, fmt.Sprintf("returns %s of dimension %s, expected %s", trunc(cs), d, want))
					}
				}
			}
			construct := "dimensional homogeneity"
			switch {
			case len(e.clashes) > 0:
				cl := e.clashes[0]
				c.Bad(cl.pos, fn, construct, cl.what+fmt.Sprintf(" (%d clash(es) in this body; the result is not homogeneous in the earth radius, so it cannot invert for R != 1)", len(e.clashes)))
			case len(retProblems) > 0:
				c.Bad(f.Pos(), fn, construct, retProblems[0])
			case unk:
				c.Undecided(f.Pos(), fn, construct, "a returned component has a dimension the inference cannot determine (unrecognised callee)")
			default:
				c.OK(f.Pos(), fn, construct, fmt.Sprintf("all additions/comparisons homogeneous, transcendental arguments dimensionless, result is %s", want))
			}
		}
	}
}

func isBoolT(t types.Type) bool {
	b, ok := t.Underlying().(*types.Basic)
	return ok && b.Info()&types.IsBoolean != 0
}

// radialDistance: v is sqrt(x*x + y*y) / sqrt(sq(x)+sq(y)) of the two
// components of the parameter, or param.Length().
func radialDistance(v ssa.Value, par *ssa.Parameter) bool {
	v = stripLoad(v)
	call, ok := v.(*ssa.Call)
	if !ok {
		return false
	}
	name := calleeName(call)
	if name == "geom.(XY).Length" {
		b, _ := baseObject(call.Call.Args[0])
		return b == par
	}
	// hypot(x, y) of the two ordinates of the argument (math.Hypot, or a helper introduced
	// after the baseline that wraps it)
	isHypot := name == "math.Hypot"
	if cal := staticCallee(call); cal != nil && isNewHelper(cal) && len(call.Call.Args) == 2 {
		eachCall(cal, func(ci ssa.CallInstruction) {
			if calleeName(ci) == "math.Hypot" {
				isHypot = true
			}
		})
	}
	if isHypot && len(call.Call.Args) == 2 {
		ord := func(t ssa.Value) string {
			base, path := baseObject(stripLoad(t))
			if base == par && len(path) == 1 {
				return path[0]
			}
			return ""
		}
		a, b := ord(call.Call.Args[0]), ord(call.Call.Args[1])
		return a != "" && b != "" && a != b
	}
	if name != "carto.sqrt" && name != "math.Sqrt" {
		return false
	}
	sum, ok := stripLoad(call.Call.Args[0]).(*ssa.BinOp)
	if !ok || sum.Op != token.ADD {
		return false
	}
	comp := func(t ssa.Value) string {
		t = stripLoad(t)
		var a, b ssa.Value
		switch y := t.(type) {
		case *ssa.BinOp:
			if y.Op != token.MUL {
				return ""
			}
			a, b = stripLoad(y.X), stripLoad(y.Y)
		case *ssa.Call:
			if calleeName(y) != "carto.sq" {
				return ""
			}
			a, b = stripLoad(y.Call.Args[0]), stripLoad(y.Call.Args[0])
		default:
			return ""
		}
		if !(a == b || sameValue(a, b)) {
			return ""
		}
		base, path := baseObject(a)
		if base == par && len(path) == 1 {
			return path[0]
		}
		return ""
	}
	cx, cy := comp(sum.X), comp(sum.Y)
	return cx != "" && cy != "" && cx != cy
}

func runC19Centre(c *Ctx) {
	n := 0
	for _, p := range cartoProjections(c) {
		f := p.reverse
		fn := FuncName(f)
		par := f.Params[1]
		eachInstr(f, func(in ssa.Instruction) {
			bo, ok := in.(*ssa.BinOp)
			if !ok || bo.Op != token.QUO || !isFloat(bo.Type()) {
				return
			}
			if !radialDistance(bo.Y, par) {
				return
			}
			n++
			den := stripLoad(bo.Y)
			construct := "divide by the radial distance from the projected centre"
			for _, g := range guardsAt(in) {
				gb, ok := g.Cond.(*ssa.BinOp)
				if !ok {
					continue
				}
				isDen := func(v ssa.Value) bool { v = stripLoad(v); return v == den || sameValue(v, den) }
				zero := func(v ssa.Value) bool {
					cst, ok := v.(*ssa.Const)
					return ok && cst.Value != nil && cst.Value.String() == "0"
				}
				if (gb.Op == token.EQL && !g.Truth || gb.Op == token.NEQ && g.Truth || gb.Op == token.GTR && g.Truth && isDen(gb.X)) &&
					((isDen(gb.X) && zero(gb.Y)) || (isDen(gb.Y) && zero(gb.X))) {
					c.OK(in.Pos(), fn, construct, "dominating guard excludes rho == 0")
					return
				}
			}
			c.Bad(in.Pos(), fn, construct, "Reverse divides by rho = |xy| with no guard: at the projection centre (xy = 0,0) this is 0/0 and the result is NaN instead of the centre's longitude/latitude")
		})
	}
	// the same division inside a helper introduced since the baseline that is handed the radial
	// distance: guarded in the helper on its parameter, or at the call site on the argument
	excludesZero := func(at ssa.Instruction, den ssa.Value) bool {
		den = stripLoad(den)
		for _, g := range guardsAt(at) {
			gb, ok := g.Cond.(*ssa.BinOp)
			if !ok {
				continue
			}
			isDen := func(v ssa.Value) bool { v = stripLoad(v); return v == den || sameValue(v, den) }
			zero := func(v ssa.Value) bool {
				cst, ok := v.(*ssa.Const)
				return ok && cst.Value != nil && cst.Value.String() == "0"
			}
			if (gb.Op == token.EQL && !g.Truth || gb.Op == token.NEQ && g.Truth || gb.Op == token.GTR && g.Truth && isDen(gb.X)) &&
				((isDen(gb.X) && zero(gb.Y)) || (isDen(gb.Y) && zero(gb.X))) {
				return true
			}
		}
		return false
	}
	for _, p := range cartoProjections(c) {
		f := p.reverse
		par := f.Params[1]
		eachCall(f, func(ci ssa.CallInstruction) {
			h := staticCallee(ci)
			if h == nil || !isNewHelper(h) || len(h.Blocks) == 0 {
				return
			}
			for ai, a := range ci.Common().Args {
				if ai >= len(h.Params) || !isFloat(a.Type()) || !radialDistance(a, par) {
					continue
				}
				hp := h.Params[ai]
				eachInstr(h, func(in ssa.Instruction) {
					bo, ok := in.(*ssa.BinOp)
					if !ok || bo.Op != token.QUO || !isFloat(bo.Type()) || stripLoad(bo.Y) != ssa.Value(hp) {
						return
					}
					n++
					construct := "divide by the radial distance from the projected centre"
					if excludesZero(in, hp) || excludesZero(ci, a) {
						c.OK(in.Pos(), FuncName(h), construct, "a dominating guard (in the helper or at its call in Reverse) excludes rho == 0")
					} else {
						c.Bad(in.Pos(), FuncName(h), construct, "Reverse divides by rho = |xy| (inside "+FuncName(h)+") with no guard: at the projection centre (xy = 0,0) this is 0/0 and the result is NaN instead of the centre's longitude/latitude")
					}
				})
			}
		})
	}
	if n < 2 {
		c.Errorf("found %d divisions by the radial distance in Reverse bodies, expected >= 2 (AzimuthalEquidistant, Orthographic)", n)
	}
	// Forward: a division by a norm (hypot / square root of a sum) vanishes where the vector does — at the centre
	// of an azimuthal projection — and needs the same guard
	for _, p := range cartoProjections(c) {
		f := p.forward
		if f == nil {
			continue
		}
		fn := FuncName(f)
		eachInstr(f, func(in ssa.Instruction) {
			bo, ok := in.(*ssa.BinOp)
			if !ok || bo.Op != token.QUO || !isFloat(bo.Type()) {
				return
			}
			den := stripLoad(bo.Y)
			call, ok := den.(*ssa.Call)
			if !ok {
				return
			}
			switch calleeName(call) {
			case "math.Hypot", "carto.hypot":
			case "math.Sqrt", "carto.sqrt":
				if sum, ok := stripLoad(call.Call.Args[0]).(*ssa.BinOp); !ok || sum.Op != token.ADD {
					return
				}
			default:
				return
			}
			construct := "divide by the norm of a direction vector"
			for _, g := range guardsAt(in) {
				gb, ok := g.Cond.(*ssa.BinOp)
				if !ok {
					continue
				}
				isDen := func(v ssa.Value) bool { v = stripLoad(v); return v == den || sameValue(v, den) }
				zero := func(v ssa.Value) bool {
					cst, ok := v.(*ssa.Const)
					return ok && cst.Value != nil && cst.Value.String() == "0"
				}
				if (gb.Op == token.EQL && !g.Truth || gb.Op == token.NEQ && g.Truth || gb.Op == token.GTR && g.Truth && isDen(gb.X)) &&
					((isDen(gb.X) && zero(gb.Y)) || (isDen(gb.Y) && zero(gb.X))) {
					c.OK(in.Pos(), fn, construct, "dominating guard excludes a zero norm")
					return
				}
			}
			c.Bad(in.Pos(), fn, construct, "Forward divides by the length of a vector with no guard: where the vector vanishes (the projection centre, its antipode) this is 0/0 and the projected point is NaN instead of the origin")
		})
	}
}

func runC19Quadrant(c *Ctx) {
	n := 0
	for _, p := range cartoProjections(c) {
		hasCentre := false
		for _, m := range p.methods {
			if m.Name() == "SetCenter" {
				hasCentre = true
			}
		}
		if !hasCentre {
			continue
		}
		n++
		f := p.reverse
		fn := FuncName(f)
		usesAtan2 := false
		var atanQuot ssa.CallInstruction
		eachCall(f, func(call ssa.CallInstruction) {
			switch calleeName(call) {
			case "carto.atan2", "math.Atan2":
				usesAtan2 = true
			case "carto.atan", "math.Atan":
				if q, ok := stripLoad(call.Common().Args[0]).(*ssa.BinOp); ok && q.Op == token.QUO {
					// a quotient whose denominator is a difference (can change sign)
					if d, ok := stripLoad(q.Y).(*ssa.BinOp); ok && d.Op == token.SUB {
						atanQuot = call
					}
				}
			}
		})
		construct := "longitude recovery in a centred projection"
		// the longitude handed back: the first argument of rtodxy, or what is stored into the result's X
		var lons []ssa.Value
		eachCall(f, func(call ssa.CallInstruction) {
			if calleeName(call) == "carto.rtodxy" && len(call.Common().Args) == 2 {
				lons = append(lons, call.Common().Args[0])
			}
		})
		for _, r := range returnsOf(f) {
			if len(r.Results) != 1 {
				continue
			}
			if ld, ok := r.Results[0].(*ssa.UnOp); ok && ld.Op == token.MUL {
				if al, ok := ld.X.(*ssa.Alloc); ok {
					for _, ref := range *al.Referrers() {
						if fa, ok := ref.(*ssa.FieldAddr); ok && fieldName(fa.X.Type(), fa.Field) == "X" {
							for _, rr := range *fa.Referrers() {
								if st, ok := rr.(*ssa.Store); ok && st.Addr == ssa.Value(fa) {
									lons = append(lons, st.Val)
								}
							}
						}
					}
				}
			}
		}
		isCallTo := func(names ...string) func(ssa.Value) bool {
			return func(x ssa.Value) bool {
				call, ok := x.(*ssa.Call)
				if !ok {
					return false
				}
				for _, nm := range names {
					if calleeName(call) == nm {
						return true
					}
				}
				return false
			}
		}
		folded := ""
		for _, lon := range lons {
			viaAtan2 := computedFrom(lon, isCallTo("carto.atan2", "math.Atan2"))
			viaHalf := computedFrom(lon, isCallTo("carto.asin", "math.Asin", "carto.acos", "math.Acos"))
			if viaHalf && !viaAtan2 {
				folded = c.P.Pos(lon.Pos())
			}
		}
		switch {
		case folded != "":
			c.Bad(f.Pos(), fn, construct, "the longitude returned (at "+folded+") comes from an arc sine / arc cosine, whose values span 180° only: for a centre near a pole the true longitude offset exceeds ±90° and the result is mirrored (atan2 of the two components is needed)")
		case atanQuot != nil:
			c.Bad(atanQuot.Pos(), fn, construct, "uses atan(num/den) with a signed denominator: for a centre near a pole the true longitude offset exceeds ±90° and the result is folded by 180° (the sibling centred projection uses atan2)")
		case usesAtan2:
			c.OK(f.Pos(), fn, construct, "uses atan2(num, den)")
		default:
			c.Undecided(f.Pos(), fn, construct, "neither atan2 nor atan(quotient) found in Reverse of a projection with SetCenter")
		}
	}
	if n < 2 {
		c.Errorf("found %d projections with SetCenter, expected >= 2", n)
	}
	_ = strings.TrimSpace
}

func init() {
	register(&Rule{
		ID:    "C19.clamp",
		Props: []string{"C19"},
		Doc:   "inverse trigonometric functions in Forward are well conditioned on the domain: (a) the argument of an acos/asin that depends on angles only is clamped to [-1,1] (rounding is the only way out of the domain, e.g. exactly at the centre, and gives NaN); (b) a projection whose Reverse special-cases the centre does not measure the distance from the centre as the arc cosine of its cosine (flat at 0: the centre and its neighbourhood lose all precision) — atan2 of sine and cosine is used instead",
		Floor: 9,
		Run:   runC19Clamp,
	})
}

func runC19Clamp(c *Ctx) {
	n := 0
	for _, p := range cartoProjections(c) {
		f := p.forward
		fn := FuncName(f)
		n++
		// does Reverse special-case the centre (rho == 0)? then Forward measures a
		// distance from a centre, and must do so accurately AT the centre
		hasCentre := false
		eachInstr(p.reverse, func(in ssa.Instruction) {
			if bo, ok := in.(*ssa.BinOp); ok && (bo.Op == token.EQL || bo.Op == token.NEQ) && isFloat(bo.X.Type()) {
				if k, isC := bo.Y.(*ssa.Const); isC && k.Value != nil && k.Value.String() == "0" {
					for _, r := range *bo.Referrers() {
						if _, isIf := r.(*ssa.If); isIf {
							hasCentre = true
						}
					}
				}
			}
		})
		uses := 0
		eachCall(f, func(call ssa.CallInstruction) {
			name := calleeName(call)
			if name != "carto.acos" && name != "carto.asin" && name != "math.Acos" && name != "math.Asin" {
				return
			}
			uses++
			if hasCentre && strings.HasSuffix(strings.ToLower(name), "acos") {
				c.Bad(call.Pos(), fn, "distance from the centre", "the angular distance from the projection centre is taken as the arc cosine of its cosine, which is flat at 0: at and near the centre all precision is lost (the centre itself does not map to the origin within 1e-9 degrees); use atan2 of sine and cosine")
				return
			}
			arg := stripLoad(call.Common().Args[0])
			construct := "argument of " + name
			// clamp: Max(-1, Min(1, x)) or Min(1, Max(-1, x))
			isClamp := func(v ssa.Value) bool {
				outer, ok := v.(*ssa.Call)
				if !ok {
					return false
				}
				on := calleeName(outer)
				if on != "math.Max" && on != "math.Min" {
					return false
				}
				for _, a := range outer.Call.Args {
					inner, ok := stripLoad(a).(*ssa.Call)
					if !ok {
						continue
					}
					in := calleeName(inner)
					if (in == "math.Max" || in == "math.Min") && in != on {
						return true
					}
				}
				return false
			}
			if isClamp(arg) {
				c.OK(call.Pos(), fn, construct, "clamped to [-1, 1] with math.Max/math.Min")
			} else {
				as, _ := accessPath(arg)
				c.Bad(call.Pos(), fn, construct, "angular expression "+trunc(as)+" is passed to "+name+" unclamped: rounding can push it just outside [-1,1] (e.g. exactly at the projection centre), giving NaN for an in-domain point")
			}
		})
		if uses == 0 {
			c.OK(f.Pos(), fn, "inverse trigonometric functions", "Forward takes no arc sine / arc cosine of an angular expression")
		}
	}
	if n < 9 {
		c.Errorf("only %d projections found, expected 9", n)
	}
}

func init() {
	register(&Rule{
		ID:    "C19.pair",
		Props: []string{"C19"},
		Doc:   "Forward and Reverse of each projection use the same configuration constants: every maximal configuration-only subexpression of Reverse that is passed to a function or combined with the argument (cone constant n, C, F, G, rho0, origin/centre in radians, P) is structurally identical to one of Forward's — a Reverse that computes n from the wrong parallel, or rho0 from a different formula, cannot invert Forward",
		Floor: 9,
		Run:   runC19Pair,
	})
	register(&Rule{
		ID:    "C19.angle",
		Props: []string{"C19"},
		Doc:   "angle units: values in degrees (the lon/lat argument of Forward, and configuration fields stored straight from a setter's parameter) reach a trigonometric function or are combined with radian values only through dtor; results of Reverse pass through rtod/rtodxy (or are computed from degree-scaled constants)",
		Floor: 18,
		Run:   runC19Angle,
	})
}

// configOnly: v depends only on receiver fields and constants (not on the
// function's argument).
func configOnly(v ssa.Value, arg *ssa.Parameter, memo map[ssa.Value]int) bool {
	if r, ok := memo[v]; ok {
		return r == 1
	}
	memo[v] = 1
	res := true
	switch x := v.(type) {
	case *ssa.Parameter:
		res = x != arg
	case *ssa.Const, *ssa.Global, *ssa.Function:
	case *ssa.Alloc:
		// local holding a copy of the argument?
		for _, r := range *x.Referrers() {
			if st, ok := r.(*ssa.Store); ok && st.Addr == x && !configOnly(st.Val, arg, memo) {
				res = false
			}
		}
	default:
		var ops []*ssa.Value
		if in, ok := v.(ssa.Instruction); ok {
			for _, op := range in.Operands(ops) {
				if op != nil && *op != nil && !configOnly(*op, arg, memo) {
					res = false
				}
			}
		}
	}
	if res {
		memo[v] = 1
	} else {
		memo[v] = 2
	}
	return res
}

// handedBackThroughPhi: every use of the phi (through further phis) is a store
// into the result or an argument of the output conversion rtod/rtodxy: the
// values it selects between are returned as they are, never combined with
// anything.
func handedBackThroughPhi(phi *ssa.Phi, d int) bool {
	if d > 4 || len(*phi.Referrers()) == 0 {
		return false
	}
	for _, r := range *phi.Referrers() {
		switch x := r.(type) {
		case *ssa.Store:
			if x.Val != ssa.Value(phi) {
				return false
			}
		case *ssa.Phi:
			if !handedBackThroughPhi(x, d+1) {
				return false
			}
		case *ssa.Call:
			if n := calleeName(x); n != "carto.rtodxy" && n != "carto.rtod" {
				return false
			}
		case *ssa.DebugRef:
		default:
			return false
		}
	}
	return true
}

func runC19Pair(c *Ctx) {
	pathInlineClosures = true
	defer func() { pathInlineClosures = false }()
	for _, p := range cartoProjections(c) {
		collect := func(f *ssa.Function) map[string]ssa.Value {
			arg := f.Params[1]
			memo := map[ssa.Value]int{}
			out := map[string]ssa.Value{}
			eachInstr(f, func(in ssa.Instruction) {
				v, ok := in.(ssa.Value)
				if !ok || !isFloat(v.Type()) {
					return
				}
				if !configOnly(v, arg, memo) {
					return
				}
				// maximal: some user is not config-only (it meets the argument) — or it is a call result
				maximal := false
				for _, r := range *v.Referrers() {
					if phi, isPhi := r.(*ssa.Phi); isPhi && handedBackThroughPhi(phi, 0) {
						// selected (not combined) on one branch and handed back through
						// the output conversion, like the stored case below
						continue
					}
					if rv, ok := r.(ssa.Value); ok {
						if !configOnly(rv, arg, memo) {
							maximal = true
						}
					} else if _, isStore := r.(*ssa.Store); isStore {
						// stored (into the returned XY): a configuration value handed
						// back as is, e.g. the centre for the projected origin — nothing
						// is combined with the argument
					} else {
						maximal = true
					}
				}
				if !maximal {
					return
				}
				if _, isLoad := v.(*ssa.UnOp); isLoad {
					return // plain field reads are not constants worth comparing
				}
				s, ok := accessPath(v)
				if ok {
					out[s] = v
				}
			})
			return out
		}
		rv := collect(p.reverse)
		// every configuration-only float expression of Forward (not only the maximal ones)
		fwAll := map[string]bool{}
		{
			memo := map[ssa.Value]int{}
			eachInstr(p.forward, func(in ssa.Instruction) {
				if v, ok := in.(ssa.Value); ok && isFloat(v.Type()) && configOnly(v, p.forward.Params[1], memo) {
					if s, ok := accessPath(v); ok {
						fwAll[s] = true
					}
				}
			})
		}
		// covered: equal to a Forward expression, or trivial glue (sign, 1/x, -x, scaling by a plain
		// field or constant) around a covered expression
		var covered func(v ssa.Value, d int) bool
		isPlain := func(v ssa.Value) bool {
			v = stripLoad(v)
			switch x := v.(type) {
			case *ssa.Const:
				return true
			case *ssa.UnOp:
				_, isFA := x.X.(*ssa.FieldAddr)
				_, isIA := x.X.(*ssa.IndexAddr)
				return x.Op == token.MUL && (isFA || isIA)
			case *ssa.Field:
				return true
			}
			return false
		}
		covered = func(v ssa.Value, d int) bool {
			v = stripLoad(v)
			if d > 6 {
				return false
			}
			if isPlain(v) {
				return true
			}
			if s, ok := accessPath(v); ok && fwAll[s] {
				return true
			}
			switch x := v.(type) {
			case *ssa.BinOp:
				if x.Op == token.MUL || x.Op == token.QUO {
					if isPlain(x.X) {
						return covered(x.Y, d+1)
					}
					if isPlain(x.Y) {
						return covered(x.X, d+1)
					}
				}
			case *ssa.UnOp:
				if x.Op == token.SUB {
					return covered(x.X, d+1)
				}
			case *ssa.Call:
				if calleeName(x) == "carto.sign" {
					return covered(x.Call.Args[0], d+1)
				}
			}
			return false
		}
		var missing []string
		for s, v := range rv {
			if !covered(v, 0) {
				missing = append(missing, s)
			}
		}
		sort.Strings(missing)
		fn := FuncName(p.reverse)
		if len(missing) == 0 {
			c.OK(p.reverse.Pos(), fn, "configuration constants shared with Forward", fmt.Sprintf("all %d configuration-only expressions of Reverse also occur in Forward", len(rv)))
		} else {
			c.Bad(p.reverse.Pos(), fn, "configuration constants shared with Forward", "Reverse uses a configuration constant that Forward does not compute: "+trunc(missing[0])+" — the two directions are parameterised differently and cannot be inverses")
		}
	}
}

func runC19Angle(c *Ctx) {
	trig := map[string]bool{"carto.sin": true, "carto.cos": true, "carto.tan": true, "carto.sec": true, "carto.cot": true, "math.Sin": true, "math.Cos": true, "math.Tan": true}
	for _, p := range cartoProjections(c) {
		// degree-valued fields: stored from a setter/constructor parameter (or a field of it) with no dtor on the way
		degField := map[*types.Var]bool{}
		for _, m := range p.methods {
			if m == p.forward || m == p.reverse {
				continue
			}
			eachInstr(m, func(in ssa.Instruction) {
				st, ok := in.(*ssa.Store)
				if !ok {
					return
				}
				addr := st.Addr
				var fv *types.Var
				for k := 0; k < 6; k++ {
					switch a := addr.(type) {
					case *ssa.FieldAddr:
						if v := fieldVar(a.X.Type(), a.Field); v != nil && v.Pkg() != nil && v.Pkg().Name() == "carto" {
							fv = v
						}
						addr = a.X
						continue
					case *ssa.IndexAddr:
						addr = a.X
						continue
					}
					break
				}
				if fv == nil {
					return
				}
				b, _ := baseObject(st.Val)
				if _, isParam := b.(*ssa.Parameter); isParam {
					degField[fv] = true
				}
			})
		}
		for _, f := range []*ssa.Function{p.forward, p.reverse} {
			fn := FuncName(f)
			isDeg := func(v ssa.Value) bool {
				// a load whose root is the Forward argument or a degree field
				b, _ := baseObject(v)
				if f == p.forward && b == ssa.Value(f.Params[1]) {
					return true
				}
				cur := v
				for k := 0; k < 8; k++ {
					switch x := cur.(type) {
					case *ssa.UnOp:
						cur = x.X
						continue
					case *ssa.IndexAddr:
						cur = x.X
						continue
					case *ssa.FieldAddr:
						if fv := fieldVar(x.X.Type(), x.Field); fv != nil && degField[fv] {
							return true
						}
						cur = x.X
						continue
					case *ssa.Field:
						if fv := fieldVar(x.X.Type(), x.Field); fv != nil && degField[fv] {
							return true
						}
						cur = x.X
						continue
					}
					break
				}
				return false
			}
			// carriesDeg: value is a degree quantity not yet converted (through + - and unary minus)
			var carries func(v ssa.Value, d int) bool
			carries = func(v ssa.Value, d int) bool {
				v = stripLoad(v)
				if d > 6 {
					return false
				}
				if isFloat(v.Type()) && isDeg(v) {
					return true
				}
				switch x := v.(type) {
				case *ssa.BinOp:
					if x.Op == token.ADD || x.Op == token.SUB {
						return carries(x.X, d+1) || carries(x.Y, d+1)
					}
					// halving/doubling keeps the unit (phi/2 is still degrees); scaling by pi/180 does not
					if x.Op == token.MUL || x.Op == token.QUO {
						if k, ok := smallIntConst(x.Y); ok && k != 0 {
							return carries(x.X, d+1)
						}
						if k, ok := smallIntConst(x.X); ok && k != 0 && x.Op == token.MUL {
							return carries(x.Y, d+1)
						}
					}
				case *ssa.UnOp:
					if x.Op == token.SUB {
						return carries(x.X, d+1)
					}
				}
				return false
			}
			bad := ""
			var pos token.Pos
			eachCall(f, func(call ssa.CallInstruction) {
				if !trig[calleeName(call)] {
					return
				}
				for _, a := range call.Common().Args {
					if carries(a, 0) {
						as, _ := accessPath(a)
						bad = "a value in degrees (" + trunc(as) + ") is passed to " + calleeName(call) + " without dtor"
						pos = call.Pos()
					}
				}
			})
			c.Check(bad == "", firstValid(pos, f.Pos()), fn, "degrees reach trigonometric functions only through dtor", "every trig argument is free of unconverted degree values", bad)
		}
		// Reverse hands back degrees: no ordinate of a returned XY is a radian value
		// (a result of dtor or of an inverse trigonometric function, or a field that
		// stores one, combined by + - only) that did not pass through rtod / rtodxy
		radField := map[*types.Var]bool{}
		radCall := map[string]bool{"carto.dtor": true, "carto.asin": true, "carto.acos": true, "carto.atan": true, "carto.atan2": true, "math.Asin": true, "math.Acos": true, "math.Atan": true, "math.Atan2": true}
		var carriesRad func(v ssa.Value, d int) bool
		carriesRad = func(v ssa.Value, d int) bool {
			if d > 8 {
				return false
			}
			// a load of a radian field
			cur := v
			for k := 0; k < 6; k++ {
				switch x := cur.(type) {
				case *ssa.UnOp:
					if x.Op == token.MUL {
						cur = x.X
						continue
					}
				case *ssa.FieldAddr:
					if fv := fieldVar(x.X.Type(), x.Field); fv != nil && radField[fv] {
						return true
					}
				case *ssa.Field:
					if fv := fieldVar(x.X.Type(), x.Field); fv != nil && radField[fv] {
						return true
					}
				}
				break
			}
			switch x := stripLoad(v).(type) {
			case *ssa.Call:
				return radCall[calleeName(x)]
			case *ssa.BinOp:
				if x.Op == token.ADD || x.Op == token.SUB {
					return carriesRad(x.X, d+1) || carriesRad(x.Y, d+1)
				}
				if x.Op == token.MUL || x.Op == token.QUO {
					if k, ok := smallIntConst(x.Y); ok && k != 0 {
						return carriesRad(x.X, d+1)
					}
				}
			case *ssa.UnOp:
				if x.Op == token.SUB {
					return carriesRad(x.X, d+1)
				}
			case *ssa.Phi:
				for _, e := range x.Edges {
					if carriesRad(e, d+1) {
						return true
					}
				}
			}
			return false
		}
		for _, m := range p.methods {
			if m == p.forward || m == p.reverse {
				continue
			}
			eachInstr(m, func(in ssa.Instruction) {
				st, ok := in.(*ssa.Store)
				if !ok {
					return
				}
				if fa, ok := st.Addr.(*ssa.FieldAddr); ok && isFloat(st.Val.Type()) {
					if fv := fieldVar(fa.X.Type(), fa.Field); fv != nil && fv.Pkg() != nil && fv.Pkg().Name() == "carto" && carriesRad(st.Val, 0) {
						radField[fv] = true
					}
				}
			})
		}
		if p.reverse != nil {
			bad := ""
			var pos token.Pos
			for _, r := range returnsOf(p.reverse) {
				if len(r.Results) != 1 {
					continue
				}
				ld, ok := r.Results[0].(*ssa.UnOp)
				if !ok || ld.Op != token.MUL {
					continue
				}
				al, ok := ld.X.(*ssa.Alloc)
				if !ok {
					continue
				}
				for _, ref := range *al.Referrers() {
					fa, ok := ref.(*ssa.FieldAddr)
					if !ok {
						continue
					}
					for _, rr := range *fa.Referrers() {
						if st, ok := rr.(*ssa.Store); ok && st.Addr == ssa.Value(fa) && st.Block().Dominates(r.Block()) && carriesRad(st.Val, 0) {
							vs, _ := accessPath(st.Val)
							bad = "the ordinate " + trunc(vs) + " returned at " + c.P.Pos(r.Pos()) + " is in radians (it comes from dtor / an inverse trigonometric function and does not pass through rtod): Reverse must hand back degrees"
							pos = st.Pos()
						}
					}
				}
			}
			c.Check(bad == "", firstValid(pos, p.reverse.Pos()), FuncName(p.reverse), "Reverse returns degrees", "no returned ordinate is an unconverted radian value", bad)
		}
	}
}

func smallIntConst(v ssa.Value) (int64, bool) {
	c, ok := v.(*ssa.Const)
	if !ok || c.Value == nil {
		return 0, false
	}
	f, _ := constantFloat(c)
	if f == float64(int64(f)) && f >= -10 && f <= 10 {
		return int64(f), true
	}
	return 0, false
}

// ---------------------------------------------------------------------------
// C19.rational
// ---------------------------------------------------------------------------

func init() {
	register(&Rule{
		ID:    "C19.rational",
		Props: []string{"C19"},
		Doc:   "a projection whose Forward and Reverse use no transcendental function (only + - * / on the argument, the configuration fields and the degree/radian scalings dtor, rtod, rtodxy) is a pair of rational functions, and Reverse∘Forward must be the identity AS a rational function: both are interpreted with every configuration field and both ordinates ranging over three generic values each (a rational identity of degree ≤ 2 per variable is decided by 3 values per variable) and the composition must return the point it was given (to 1e-9 relative: the scalings by π/180 are rounded). Today this is the equirectangular projection (x = R(λ-λ0)cosφ1: a central-meridian offset divided by cosφ1, or a radius applied on one side only, is a different rational function)",
		Floor: 1,
		Run:   runC19Rational,
	})
}

func runC19Rational(c *Ctx) {
	scalings := map[string]bool{"carto.dtor": true, "carto.rtod": true, "carto.rtodxy": true}
	inl := func(g *ssa.Function) bool { return scalings[FuncName(g)] }
	n := 0
	for _, p := range cartoProjections(c) {
		rational := true
		for _, f := range []*ssa.Function{p.forward, p.reverse} {
			eachCallWithNewHelpers(f, func(call ssa.CallInstruction) {
				cal := staticCallee(call)
				if cal == nil || !(scalings[FuncName(cal)] || isNewHelper(cal)) {
					rational = false
				}
			})
		}
		if !rational {
			continue
		}
		n++
		st, _ := p.named.Underlying().(*types.Struct)
		var keys []string
		for i := 0; st != nil && i < st.NumFields(); i++ {
			if isFloat(st.Field(i).Type()) {
				keys = append(keys, "$0."+canonFieldName(st.Field(i)))
			}
		}
		keys = append(keys, "$1.X", "$1.Y")
		// generic values: distinct per variable, no zero, no symmetry
		gen := func(i, j int) float64 { return []float64{0.37, 1.9, -2.3}[j] + 0.11*float64(i) }
		problem, undec := "", ""
		models := 0
		idx := make([]int, len(keys))
		for problem == "" && undec == "" {
			models++
			m := &Model{Num: map[string]float64{}, Bool: map[string]bool{}, Missing: map[string]bool{}}
			for i, k := range keys {
				m.Num[k] = gen(i, idx[i])
			}
			run := func(f *ssa.Function, x, y float64) (float64, float64, string) {
				m.Num["$1.X"], m.Num["$1.Y"] = x, y
				m.Missing = map[string]bool{}
				it := &k4interp{p: c.P, m: m, mem: map[string]k4val{}, inline: inl}
				res, err := it.call(f, []k4val{{kind: 3, s: "$0"}, {kind: 3, s: "$1"}}, nil)
				if err != nil || len(res) != 1 || res[0].kind != 3 {
					return 0, 0, fmt.Sprintf("%v %v %s", err, res, trunc(missingList(m)))
				}
				rx, e1 := it.lookup(res[0].s+".X", nil0)
				ry, e2 := it.lookup(res[0].s+".Y", nil0)
				if e1 != nil || e2 != nil || rx.kind != 2 || ry.kind != 2 {
					return 0, 0, "result ordinates not numeric"
				}
				return rx.f, ry.f, ""
			}
			lon, lat := m.Num["$1.X"], m.Num["$1.Y"]
			fx, fy, u := run(p.forward, lon, lat)
			if u != "" {
				undec = u
				break
			}
			bx, by, u := run(p.reverse, fx, fy)
			if u != "" {
				undec = u
				break
			}
			near := func(a, b float64) bool { return math.Abs(a-b) <= 1e-9*math.Max(1, math.Abs(b)) }
			if !near(bx, lon) || !near(by, lat) {
				m.Num["$1.X"], m.Num["$1.Y"] = lon, lat
				problem = fmt.Sprintf("with the configuration and point %s, Forward gives (%v, %v) and Reverse of that gives (%v, %v), not the point (%v, %v): the two directions are not inverse rational functions", modelString(m), fx, fy, bx, by, lon, lat)
				break
			}
			// next combination
			k := 0
			for k < len(idx) {
				idx[k]++
				if idx[k] < 3 {
					break
				}
				idx[k] = 0
				k++
			}
			if k == len(idx) {
				break
			}
		}
		reportK4(c, p.reverse, "Reverse∘Forward as a rational function", undec, problem, fmt.Sprintf("identity on %d generic points (3 values for each of %d variables)", models, len(keys)))
	}
	if n < 1 {
		c.Errorf("no projection with purely rational Forward/Reverse found (expected the equirectangular projection)")
	}
}
