package main

import (
	"fmt"
	"go/types"
	"strings"

	"golang.org/x/tools/go/ssa"
)

func init() {
	register(&Rule{
		ID:    "C16.ctor",
		Props: []string{"C16", "C10", "C04", "C07", "C20", "C12"},
		Doc:   "the composite constructors (NewPolygon, NewMultiPoint, NewMultiLineString, NewMultiPolygon, NewGeometryCollection) interpreted on modelled member lists of length 0..2 with every combination of member coordinate types: the stored ctype is the AND of all members' types (XY for no members), every stored member is ForceCoordinatesType(member_i, thatType) in order, and the stored list is a fresh slice (not the caller's backing array)",
		Floor: 5,
		Run:   runC16Ctor,
	})
	register(&Rule{
		ID:    "C10.alias",
		Props: []string{"C10", "C16"},
		Doc:   "no mutable alias of a geometry's internals escapes or is captured: every exported function/method of geom and rtree that returns a raw slice returns freshly allocated memory; every slice stored into a field of a newly built protected value is fresh or already protected (shared immutable internals) — never a bare caller-supplied slice (NewSequence is the documented exception)",
		Floor: 30,
		Run:   runC10Alias,
	})
}

func runC16Ctor(c *Ctx) {
	type ctor struct {
		fn, elem, listField string
	}
	ctors := []ctor{
		{"geom.NewPolygon", "LineString", "rings"},
		{"geom.NewMultiPoint", "Point", "points"},
		{"geom.NewMultiLineString", "LineString", "lines"},
		{"geom.NewMultiPolygon", "Polygon", "polys"},
		{"geom.NewGeometryCollection", "Geometry", "geoms"},
	}
	inl := func(f *ssa.Function) bool { return FuncName(f) == "geom.forceCoordinatesTypeOfPointSlice" }
	for _, ct := range ctors {
		f := c.P.Func(ct.fn)
		if f == nil {
			c.Errorf("anchor %s does not resolve", ct.fn)
			continue
		}
		fn := FuncName(f)
		ctKey := func(i int) string { return fmt.Sprintf("geom.(%s).CoordinatesType(P[%d])", ct.elem, i) }
		problem, undec := "", ""
		models := 0
		for n := 0; n <= 2 && problem == "" && undec == ""; n++ {
			var keys []string
			for i := 0; i < n; i++ {
				keys = append(keys, ctKey(i))
			}
			// emptiness of each member (only consulted by code that treats empty
			// members specially — which a constructor must not do when forcing)
			var emptyKeys []string
			for i := 0; i < n; i++ {
				emptyKeys = append(emptyKeys, fmt.Sprintf("empty[%d]", i))
			}
			k4enumerate(keys, []float64{0, 1, 2, 3}, emptyKeys, func(m *Model) bool {
				models++
				m.Missing = map[string]bool{}
				it := &k4interp{p: c.P, m: m, mem: map[string]k4val{}, inline: inl}
				it.answer = func(key string, isBool bool) (k4val, bool) {
					for i := 0; i < n; i++ {
						el := fmt.Sprintf("(P[%d])", i)
						if !strings.Contains(key, el) {
							continue
						}
						empty := m.Bool[fmt.Sprintf("empty[%d]", i)]
						switch {
						case isBool && strings.Contains(key, ").IsEmpty("+el[1:]):
							return k4val{kind: 1, b: empty}, true
						case isBool && (strings.HasSuffix(key, ").Coordinates"+el+"#1") || strings.HasSuffix(key, ").XY"+el+"#1")):
							return k4val{kind: 1, b: !empty}, true
						case !isBool && strings.HasSuffix(key, ").Coordinates"+el+"#0.Type"):
							return k4val{kind: 2, f: m.Num[ctKey(i)]}, true
						}
					}
					return k4val{}, false
				}
				for i := 0; i < n; i++ {
					it.mem[fmt.Sprintf("P[%d]", i)] = k4val{kind: 3, s: fmt.Sprintf("P[%d]", i)}
				}
				arg := k4val{kind: 8, s: "P", ln: n, cp: n}
				res, err := it.call(f, []k4val{arg}, nil)
				if err != nil || len(res) != 1 || res[0].kind != 3 {
					undec = fmt.Sprintf("%v %v %s", err, res, missingList(m))
					return false
				}
				want := 0
				if n > 0 {
					want = 3
					for i := 0; i < n; i++ {
						want &= int(m.Num[ctKey(i)])
					}
				}
				out := res[0].s
				if out == "zero" {
					if n != 0 {
						problem = fmt.Sprintf("returns the zero value for %d members", n)
						return false
					}
					return true
				}
				gotCT, err := it.lookup(out+".ctype", nil0)
				if err != nil || gotCT.kind != 2 || int(gotCT.f) != want {
					problem = fmt.Sprintf("with member coordinate types %v the constructor stores ctype %v, the common subset is %d", typesOf(m, keys), gotCT, want)
					return false
				}
				lst, ok := it.mem[out+"."+ct.listField]
				if n == 0 {
					return true
				}
				if !ok || lst.kind != 8 || lst.ln != n {
					problem = fmt.Sprintf("the stored member list has the wrong shape (%v) for %d members", lst, n)
					return false
				}
				if lst.s == "P" {
					problem = "the constructor stores the caller's slice itself (no copy): later writes by the caller would change the geometry"
					return false
				}
				for i := 0; i < n; i++ {
					el := it.mem[fmt.Sprintf("%s[%d]", lst.s, lst.off+i)]
					wantEl := fmt.Sprintf("ForceCoordinatesType(P[%d],%d)", i, want)
					if !strings.Contains(el.String(), wantEl) {
						problem = fmt.Sprintf("member %d is stored as %s; it must be member %d forced to the common coordinates type %d", i, trunc(el.String()), i, want)
						return false
					}
				}
				return true
			})
		}
		construct := "coordinates-type fold and member normalisation"
		switch {
		case undec != "":
			c.Undecided(f.Pos(), fn, construct, "cannot interpret: "+undec)
		case problem != "":
			c.Bad(f.Pos(), fn, construct, problem)
		default:
			c.OK(f.Pos(), fn, construct, fmt.Sprintf("ctype = AND of member types, every member forced to it in order, fresh slice; %d models (0..2 members x all type combinations)", models))
		}
	}
}

func typesOf(m *Model, keys []string) []int {
	var out []int
	for _, k := range keys {
		out = append(out, int(m.Num[k]))
	}
	return out
}

func runC10Alias(c *Ctx) {
	env := newProvEnv(c.P)
	n := 0
	for _, f := range c.P.Funcs {
		pk := pkgOf(f)
		if pk != "geom" && pk != "rtree" {
			continue
		}
		fn := FuncName(f)
		// (1) exported API returning raw slices
		if f.Parent() == nil && isExportedAPI(f) {
			res := f.Signature.Results()
			for i := 0; i < res.Len(); i++ {
				if !isSliceType(res.At(i).Type()) {
					continue
				}
				for _, r := range returnsOf(f) {
					n++
					v := r.Results[i]
					info := env.of(v)
					prot := protectedTarget(v)
					vs, _ := accessPath(v)
					construct := "returned slice " + trunc(vs)
					switch {
					case isNilConst(v) || info.onlyFresh():
						c.OK(r.Pos(), fn, construct, "freshly allocated (or nil)")
					case prot != "":
						c.Bad(r.Pos(), fn, construct, "an exported function hands out the geometry's internal slice ("+prot+"): the caller can modify a value that is supposed to be immutable")
					default:
						if strings.HasPrefix(f.Name(), "Append") || strings.HasPrefix(f.Name(), "append") {
							c.Except(r.Pos(), fn, construct, "append-style API: returns its dst argument extended")
						} else {
							c.OK(r.Pos(), fn, construct, "derived from the caller's own argument (not from protected memory)")
						}
					}
				}
			}
		}
		// (3) exported constructors taking raw coordinate slices return values that do not alias them
		if f.Parent() == nil && isExportedAPI(f) && fn != "geom.NewSequence" && f.Signature.Recv() == nil {
			res := f.Signature.Results()
			if res.Len() >= 1 && protectedName(res.At(0).Type()) != "" {
				var rawParams []*ssa.Parameter
				for _, p := range f.Params {
					if isSliceType(p.Type()) && protectedName(p.Type()) == "" && isFloatSliceNest(p.Type()) {
						rawParams = append(rawParams, p)
					}
				}
				if len(rawParams) > 0 {
					n++
					bad := ""
					for _, r := range returnsOf(f) {
						info := env.of(r.Results[0])
						for b := range info.bases {
							if b.kind == bkParam {
								for _, rp := range rawParams {
									if b.param == rp {
										bad = "parameter " + rp.Name()
									}
								}
							}
						}
					}
					c.Check(bad == "", f.Pos(), fn, "result independent of the coordinate arguments", "the geometry returned is built from copies of the caller's coordinate slices", "the geometry returned still refers to the caller's own coordinate slice ("+bad+", at some nesting level): when the caller reuses its buffers the geometry, its WKT/WKB and envelope change after construction")
				}
			}
		}
		// (2) slices stored into fields of freshly built protected values
		eachInstr(f, func(in ssa.Instruction) {
			st, ok := in.(*ssa.Store)
			if !ok || !isSliceType(st.Val.Type()) {
				return
			}
			fa, ok := st.Addr.(*ssa.FieldAddr)
			if !ok {
				return
			}
			pn := protectedName(fa.X.Type())
			if pn == "" || !strings.HasPrefix(pn, "geom.") {
				return
			}
			if localRoot(fa) == nil {
				return // not a fresh local value under construction (C10.write covers writes to shared values)
			}
			n++
			info := env.of(st.Val)
			prot := protectedTarget(st.Val)
			construct := "slice stored into " + pn + "." + fieldName(fa.X.Type(), fa.Field)
			switch {
			case isNilConst(st.Val) || info.onlyFresh():
				c.OK(st.Pos(), fn, construct, "fresh slice")
			case prot != "":
				c.OK(st.Pos(), fn, construct, "shares immutable internals of another protected value ("+prot+")")
			case fn == "geom.NewSequence":
				c.Except(st.Pos(), fn, construct, "documented contract: NewSequence takes ownership of the float slice (callers must not modify it afterwards)")
			default:
				c.Bad(st.Pos(), fn, construct, "a caller-supplied slice ("+info.nonFreshDesc()+") is captured without a copy: later writes by the caller change a geometry that is supposed to be immutable")
			}
		})
	}
	if n < 30 {
		c.Errorf("only %d alias sites examined", n)
	}
}

func isExportedAPI(f *ssa.Function) bool {
	if !isExportedName(f.Name()) {
		return false
	}
	if recv := f.Signature.Recv(); recv != nil {
		return isExportedName(namedName(recv.Type()))
	}
	return true
}

func isExportedName(s string) bool {
	return s != "" && s[0] >= 'A' && s[0] <= 'Z'
}

// isFloatSliceNest: []float64, [][]float64, [][][]float64 …
func isFloatSliceNest(t types.Type) bool {
	for {
		st, ok := t.Underlying().(*types.Slice)
		if !ok {
			return false
		}
		if bt, ok := st.Elem().Underlying().(*types.Basic); ok {
			return bt.Kind() == types.Float64
		}
		t = st.Elem()
	}
}
