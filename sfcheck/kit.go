package main

import (
	"fmt"
	"go/constant"
	"go/token"
	"go/types"
	"sort"
	"strings"

	"golang.org/x/tools/go/ssa"
)

// ---------- callee resolution ----------

// staticCallee resolves the callee of a call instruction when it is
// statically known: a declared function/method or a closure created in the
// same function.
func staticCallee(c ssa.CallInstruction) *ssa.Function {
	cc := c.Common()
	if f := cc.StaticCallee(); f != nil {
		return f
	}
	if cc.IsInvoke() {
		return nil
	}
	return closureOf(cc.Value)
}

// closureOf resolves a function value to the ssa.Function it denotes, looking
// through MakeClosure, ChangeType and single-store local cells.
func closureOf(v ssa.Value) *ssa.Function {
	for i := 0; i < 8; i++ {
		switch x := v.(type) {
		case *ssa.Function:
			return x
		case *ssa.MakeClosure:
			return x.Fn.(*ssa.Function)
		case *ssa.ChangeType:
			v = x.X
		case *ssa.UnOp:
			if x.Op != token.MUL {
				return nil
			}
			// load from a local cell with a unique store
			st := uniqueStore(x.X)
			if st == nil {
				return nil
			}
			v = st
		default:
			return nil
		}
	}
	return nil
}

// uniqueStore returns the single value stored into the cell addr (an Alloc or
// a FreeVar bound to an Alloc with a single store), or nil.
func uniqueStore(addr ssa.Value) ssa.Value {
	switch a := addr.(type) {
	case *ssa.Alloc:
		var val ssa.Value
		n := 0
		for _, r := range *a.Referrers() {
			if s, ok := r.(*ssa.Store); ok && s.Addr == a {
				// a named result is re-stored with its own value at a return (*x = *x): not a second definition
				if ld, isLd := s.Val.(*ssa.UnOp); isLd && ld.Op == token.MUL && ld.X == ssa.Value(a) {
					continue
				}
				val = s.Val
				n++
			}
		}
		// also count stores inside closures that capture the cell
		for _, r := range *a.Referrers() {
			if mc, ok := r.(*ssa.MakeClosure); ok {
				fn := mc.Fn.(*ssa.Function)
				for i, b := range mc.Bindings {
					if b == a {
						fv := fn.FreeVars[i]
						for _, rr := range *fv.Referrers() {
							if s, ok := rr.(*ssa.Store); ok && s.Addr == fv {
								val = s.Val
								n++
							}
						}
					}
				}
			}
		}
		if n == 1 {
			return val
		}
	case *ssa.FreeVar:
		fn := a.Parent()
		par := fn.Parent()
		if par == nil {
			return nil
		}
		idx := -1
		for i, fv := range fn.FreeVars {
			if fv == a {
				idx = i
			}
		}
		for _, b := range par.Blocks {
			for _, in := range b.Instrs {
				if mc, ok := in.(*ssa.MakeClosure); ok && mc.Fn == fn && idx >= 0 {
					return uniqueStore(mc.Bindings[idx])
				}
			}
		}
	}
	return nil
}

// calleeName returns the canonical name of the static callee, or for
// non-repository functions "pkgpath.Name" / "(recv).Name".
func calleeName(c ssa.CallInstruction) string {
	cc := c.Common()
	if cc.IsInvoke() {
		return "invoke " + cc.Method.FullName()
	}
	if f := staticCallee(c); f != nil {
		return extName(f)
	}
	if b, ok := cc.Value.(*ssa.Builtin); ok {
		return "builtin " + b.Name()
	}
	return "dynamic"
}

func extName(f *ssa.Function) string {
	if f.Pkg != nil && strings.HasPrefix(f.Pkg.Pkg.Path(), modPath+"/") || f.Parent() != nil {
		return FuncName(f)
	}
	if o := f.Object(); o != nil {
		if fn, ok := o.(*types.Func); ok {
			return fn.FullName()
		}
	}
	return f.String()
}

// ---------- instruction iteration ----------

func eachInstr(f *ssa.Function, fn func(ssa.Instruction)) {
	for _, b := range f.Blocks {
		for _, in := range b.Instrs {
			fn(in)
		}
	}
}

func eachCall(f *ssa.Function, fn func(ssa.CallInstruction)) {
	eachInstr(f, func(in ssa.Instruction) {
		if c, ok := in.(ssa.CallInstruction); ok {
			fn(c)
		}
	})
}

// instrPos returns the best position for an instruction.
func instrPos(in ssa.Instruction) token.Pos {
	if in.Pos().IsValid() {
		return in.Pos()
	}
	if v, ok := in.(ssa.Value); ok {
		for _, r := range *v.Referrers() {
			if r.Pos().IsValid() {
				return r.Pos()
			}
		}
	}
	if in.Parent() != nil {
		return in.Parent().Pos()
	}
	return token.NoPos
}

// ---------- K1 guard facts ----------

// Guard is a branch condition known to hold (Truth) at some program point.
type Guard struct {
	Cond  ssa.Value
	Truth bool
}

// guardsAtBlock returns the branch conditions that hold on every path to b:
// for each dominator d ending in If, when the taken successor s dominates b
// and s has d as its only predecessor.
func guardsAtBlock(b *ssa.BasicBlock) []Guard {
	var gs []Guard
	for d := b.Idom(); d != nil; d = d.Idom() {
		n := len(d.Instrs)
		if n == 0 {
			continue
		}
		ifi, ok := d.Instrs[n-1].(*ssa.If)
		if !ok {
			continue
		}
		for k, s := range d.Succs {
			if len(s.Preds) == 1 && (s == b || s.Dominates(b)) {
				// if both successors are the same block the condition says nothing
				if d.Succs[0] == d.Succs[1] {
					continue
				}
				gs = append(gs, expandGuard(Guard{ifi.Cond, k == 0})...)
			}
		}
	}
	return gs
}

// expandGuard normalises negation: !x true ==> x false.
func expandGuard(g Guard) []Guard {
	out := []Guard{g}
	if u, ok := g.Cond.(*ssa.UnOp); ok && u.Op == token.NOT {
		out = append(out, expandGuard(Guard{u.X, !g.Truth})...)
	}
	// phi of short-circuit &&/||: cond = phi [false, b] is true only if all ... handled by CFG already in most cases.
	if phi, ok := g.Cond.(*ssa.Phi); ok {
		// a && b as a value: phi(false from block A, b from block B). If the phi is true, then
		// every constant-false edge was not taken; we can conclude b (the non-constant) is true
		// only when exactly one non-constant operand exists and all others are the constant !Truth.
		var nonconst []int
		allOther := true
		for i, e := range phi.Edges {
			if c, ok := e.(*ssa.Const); ok && c.Value != nil && c.Value.Kind() == constant.Bool {
				if constant.BoolVal(c.Value) == g.Truth {
					allOther = false
				}
			} else {
				nonconst = append(nonconst, i)
			}
		}
		if allOther && len(nonconst) == 1 {
			e := phi.Edges[nonconst[0]]
			out = append(out, expandGuard(Guard{e, g.Truth})...)
			// and the conditions that led to the non-constant edge's block also hold
			pred := phi.Block().Preds[nonconst[0]]
			out = append(out, guardsAtBlockIncl(pred)...)
		}
	}
	return out
}

// expandGuardDeep: expandGuard, and when the condition is a call of a closure / repository function that returns
// a single bool and has exactly one return that can be true, the facts that hold at that return (its own result
// expression being true and the guards dominating it) are added: `if tooFar(x) {…}` with
// tooFar = func() bool { …; return ok && d > best } gives d > best.
func expandGuardDeep(g Guard) []Guard {
	out := expandGuard(g)
	for _, x := range append([]Guard{}, out...) {
		call, ok := x.Cond.(*ssa.Call)
		if !ok || !x.Truth {
			continue
		}
		var fn *ssa.Function
		if cal := staticCallee(call); cal != nil {
			fn = cal
		} else {
			fn = closureOf(call.Call.Value)
		}
		if fn == nil || len(fn.Blocks) == 0 || fn.Signature.Results().Len() != 1 {
			continue
		}
		if bt, ok := fn.Signature.Results().At(0).Type().Underlying().(*types.Basic); !ok || bt.Kind() != types.Bool {
			continue
		}
		var cand []*ssa.Return
		for _, r := range returnsOf(fn) {
			if b, isC := constBool(r.Results[0]); isC && !b {
				continue
			}
			cand = append(cand, r)
		}
		if len(cand) != 1 {
			continue
		}
		r := cand[0]
		if _, isC := constBool(r.Results[0]); !isC {
			out = append(out, expandGuard(Guard{r.Results[0], true})...)
		}
		out = append(out, guardsAtBlock(r.Block())...)
	}
	return out
}

// guardsAtBlockIncl: guards at b (entry), b itself included as a program point.
func guardsAtBlockIncl(b *ssa.BasicBlock) []Guard { return guardsAtBlock(b) }

// guardsAt returns guards holding at an instruction.
func guardsAt(in ssa.Instruction) []Guard { return guardsAtBlock(in.Block()) }

// ---------- K3 structural value equality ----------

// sameValue: structural equality of SSA values (value numbering without CSE).
// Loads are equal when their addresses are equal and the address is rooted in
// a parameter spill / alloc that is stored to exactly once, or a field path of
// such.
func sameValue(a, b ssa.Value) bool { return sameValueD(a, b, 0) }

func sameValueD(a, b ssa.Value, d int) bool {
	if a == b {
		return true
	}
	if a == nil || b == nil || d > 12 {
		return false
	}
	switch x := a.(type) {
	case *ssa.Const:
		y, ok := b.(*ssa.Const)
		if !ok {
			return false
		}
		if x.Value == nil || y.Value == nil {
			return x.Value == nil && y.Value == nil && types.Identical(x.Type(), y.Type())
		}
		return constant.Compare(x.Value, token.EQL, y.Value)
	case *ssa.UnOp:
		y, ok := b.(*ssa.UnOp)
		if !ok || x.Op != y.Op {
			return false
		}
		if x.Op == token.MUL {
			return sameAddr(x.X, y.X, d+1)
		}
		return sameValueD(x.X, y.X, d+1)
	case *ssa.BinOp:
		y, ok := b.(*ssa.BinOp)
		if !ok || x.Op != y.Op {
			return false
		}
		if sameValueD(x.X, y.X, d+1) && sameValueD(x.Y, y.Y, d+1) {
			return true
		}
		switch x.Op {
		case token.ADD, token.MUL, token.EQL, token.NEQ, token.AND, token.OR, token.XOR:
			return sameValueD(x.X, y.Y, d+1) && sameValueD(x.Y, y.X, d+1)
		}
		return false
	case *ssa.Field:
		y, ok := b.(*ssa.Field)
		return ok && x.Field == y.Field && sameValueD(x.X, y.X, d+1)
	case *ssa.Convert:
		y, ok := b.(*ssa.Convert)
		return ok && types.Identical(x.Type(), y.Type()) && sameValueD(x.X, y.X, d+1)
	case *ssa.ChangeType:
		y, ok := b.(*ssa.ChangeType)
		return ok && types.Identical(x.Type(), y.Type()) && sameValueD(x.X, y.X, d+1)
	case *ssa.Call:
		y, ok := b.(*ssa.Call)
		if !ok {
			return false
		}
		// len/cap builtins and pure accessor calls with equal args
		if bx, ok := x.Call.Value.(*ssa.Builtin); ok {
			by, ok := y.Call.Value.(*ssa.Builtin)
			if !ok || bx.Name() != by.Name() || (bx.Name() != "len" && bx.Name() != "cap") {
				return false
			}
			return sameValueD(x.Call.Args[0], y.Call.Args[0], d+1)
		}
		fx, fy := x.Call.StaticCallee(), y.Call.StaticCallee()
		if fx == nil || fx != fy || !isPureAccessor(fx) {
			return false
		}
		if len(x.Call.Args) != len(y.Call.Args) {
			return false
		}
		for i := range x.Call.Args {
			if !sameValueD(x.Call.Args[i], y.Call.Args[i], d+1) {
				return false
			}
		}
		return true
	case *ssa.Extract:
		y, ok := b.(*ssa.Extract)
		return ok && x.Index == y.Index && x.Tuple == y.Tuple
	case *ssa.Slice:
		y, ok := b.(*ssa.Slice)
		if !ok {
			return false
		}
		return sameValueD(x.X, y.X, d+1) && sameOpt(x.Low, y.Low, d) && sameOpt(x.High, y.High, d) && sameOpt(x.Max, y.Max, d)
	}
	return false
}

func sameOpt(a, b ssa.Value, d int) bool {
	if a == nil || b == nil {
		return a == nil && b == nil
	}
	return sameValueD(a, b, d+1)
}

func sameAddr(a, b ssa.Value, d int) bool {
	if a == b {
		return true
	}
	switch x := a.(type) {
	case *ssa.FieldAddr:
		y, ok := b.(*ssa.FieldAddr)
		return ok && x.Field == y.Field && (sameAddr(x.X, y.X, d+1) || sameValueD(x.X, y.X, d+1))
	case *ssa.IndexAddr:
		y, ok := b.(*ssa.IndexAddr)
		return ok && sameValueD(x.X, y.X, d+1) && sameValueD(x.Index, y.Index, d+1)
	}
	return false
}

// isPureAccessor: small set of side-effect-free functions whose results are
// determined by their arguments (used only for matching expressions).
func isPureAccessor(f *ssa.Function) bool {
	if f == nil {
		return false
	}
	n := extName(f)
	switch n {
	case "geom.(CoordinatesType).Dimension", "geom.(CoordinatesType).Is3D", "geom.(CoordinatesType).IsMeasured",
		"geom.(Sequence).Length", "geom.(Sequence).CoordinatesType",
		"math.Abs", "math.IsNaN", "math.IsInf", "math.Sqrt":
		return true
	}
	return false
}

// ---------- constants ----------

func constInt(v ssa.Value) (int64, bool) {
	c, ok := v.(*ssa.Const)
	if !ok || c.Value == nil {
		return 0, false
	}
	if c.Value.Kind() != constant.Int {
		return 0, false
	}
	i, exact := constant.Int64Val(c.Value)
	return i, exact
}

func constString(v ssa.Value) (string, bool) {
	c, ok := v.(*ssa.Const)
	if !ok || c.Value == nil || c.Value.Kind() != constant.String {
		return "", false
	}
	return constant.StringVal(c.Value), true
}

func constBool(v ssa.Value) (bool, bool) {
	c, ok := v.(*ssa.Const)
	if !ok || c.Value == nil || c.Value.Kind() != constant.Bool {
		return false, false
	}
	return constant.BoolVal(c.Value), true
}

func isNilConst(v ssa.Value) bool {
	c, ok := v.(*ssa.Const)
	return ok && c.Value == nil
}

// enumConsts returns the declared constants of a named integer type in its
// package, sorted by value.
func enumConsts(nt *types.Named) []*types.Const {
	var out []*types.Const
	sc := nt.Obj().Pkg().Scope()
	for _, n := range sc.Names() {
		if c, ok := sc.Lookup(n).(*types.Const); ok && types.Identical(c.Type(), nt) {
			out = append(out, c)
		}
	}
	sort.Slice(out, func(i, j int) bool {
		a, _ := constant.Int64Val(out[i].Val())
		b, _ := constant.Int64Val(out[j].Val())
		return a < b
	})
	return out
}

// ---------- misc ----------

func deref(t types.Type) types.Type {
	if p, ok := t.Underlying().(*types.Pointer); ok {
		return p.Elem()
	}
	return t
}

func namedName(t types.Type) string {
	t = deref(t)
	if n, ok := t.(*types.Named); ok {
		return n.Obj().Name()
	}
	return t.String()
}

func fieldName(structT types.Type, idx int) string {
	st, ok := deref(structT).Underlying().(*types.Struct)
	if !ok || idx >= st.NumFields() {
		return fmt.Sprintf("?%d", idx)
	}
	return canonFieldName(st.Field(idx))
}

// fieldOfAddr: for a FieldAddr returns (struct type name, field name).
func fieldOfAddr(fa *ssa.FieldAddr) (string, string) {
	return namedName(fa.X.Type()), fieldName(fa.X.Type(), fa.Field)
}

func fieldOfField(f *ssa.Field) (string, string) {
	return namedName(f.X.Type()), fieldName(f.X.Type(), f.Field)
}

// returnsOf lists the Return instructions of f.
func returnsOf(f *ssa.Function) []*ssa.Return {
	var rs []*ssa.Return
	for _, b := range f.Blocks {
		if n := len(b.Instrs); n > 0 {
			if r, ok := b.Instrs[n-1].(*ssa.Return); ok {
				rs = append(rs, r)
			}
		}
	}
	return rs
}

// reachableFrom computes the set of repository functions reachable from the
// roots through static calls, closures created (MakeClosure), and — for
// interface invokes — every repository method with that name whose receiver
// implements the interface (CHA restricted to the three packages).
func (p *Program) reachableFrom(roots ...*ssa.Function) map[*ssa.Function]bool {
	seen := map[*ssa.Function]bool{}
	var work []*ssa.Function
	push := func(f *ssa.Function) {
		if f != nil && !seen[f] && f.Blocks != nil {
			seen[f] = true
			work = append(work, f)
		}
	}
	for _, r := range roots {
		push(r)
	}
	for len(work) > 0 {
		f := work[len(work)-1]
		work = work[:len(work)-1]
		eachInstr(f, func(in ssa.Instruction) {
			switch x := in.(type) {
			case *ssa.MakeClosure:
				push(x.Fn.(*ssa.Function))
			case ssa.CallInstruction:
				cc := x.Common()
				if cc.IsInvoke() {
					for _, m := range p.implementations(cc.Value.Type(), cc.Method) {
						push(m)
					}
				} else if cal := staticCallee(x); cal != nil {
					push(cal)
				}
				// function values passed as arguments
				for _, a := range cc.Args {
					if fn := closureOf(a); fn != nil {
						push(fn)
					}
				}
			}
			// function values stored or returned
			var ops []*ssa.Value
			for _, op := range in.Operands(ops) {
				if op == nil || *op == nil {
					continue
				}
				if fn, ok := (*op).(*ssa.Function); ok {
					push(fn)
				}
			}
		})
	}
	return seen
}

// implementations returns the repository methods that can be the target of
// invoking method m on interface type it.
func (p *Program) implementations(it types.Type, m *types.Func) []*ssa.Function {
	iface, ok := it.Underlying().(*types.Interface)
	if !ok {
		return nil
	}
	var out []*ssa.Function
	for _, sp := range p.SPkgs {
		for _, mem := range sp.Members {
			t, ok := mem.(*ssa.Type)
			if !ok {
				continue
			}
			for _, tt := range []types.Type{t.Type(), types.NewPointer(t.Type())} {
				if types.IsInterface(tt) || !types.Implements(tt, iface) {
					continue
				}
				ms := p.SSA.MethodSets.MethodSet(tt)
				sel := ms.Lookup(m.Pkg(), m.Name())
				if sel == nil {
					continue
				}
				if fn := p.SSA.MethodValue(sel); fn != nil {
					out = append(out, fn)
				}
			}
		}
	}
	return out
}

func constantInt64(k *types.Const) (int64, bool) {
	if k == nil || k.Val().Kind() != constant.Int {
		return 0, false
	}
	return constant.Int64Val(k.Val())
}

func constantFloat(c *ssa.Const) (float64, bool) {
	if c.Value == nil {
		return 0, false
	}
	switch c.Value.Kind() {
	case constant.Int, constant.Float:
		f, _ := constant.Float64Val(c.Value)
		return f, true
	}
	return 0, false
}
