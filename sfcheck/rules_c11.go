package main

import (
	"fmt"
	"go/token"
	"go/types"
	"strings"

	"golang.org/x/tools/go/ssa"
)

func init() {
	register(&Rule{
		ID:    "C11.stop",
		Props: []string{"C11"},
		Doc:   "typestate of search callbacks in package rtree: on every path on which a user callback (or a helper that transitively invokes it) returned a non-nil error, no further callback invocation is reachable in the activation; inner helpers return that error itself (operand identity); the exported entry returns nil only under errors.Is(err, Stop) and returns err only when that test failed",
		Floor: 3,
		Run:   runC11Stop,
	})
}

func isErrorType(t types.Type) bool {
	return types.Identical(t, types.Universe.Lookup("error").Type())
}

// userCallbackValue: v denotes a function value supplied by the caller of an
// exported API function: a func-typed parameter of a top-level function, or a
// captured cell holding one.
func userCallbackValue(v ssa.Value) bool {
	for i := 0; i < 6; i++ {
		switch x := v.(type) {
		case *ssa.Parameter:
			_, isSig := x.Type().Underlying().(*types.Signature)
			return isSig && x.Parent().Parent() == nil
		case *ssa.UnOp:
			if x.Op != token.MUL {
				return false
			}
			v = x.X
		case *ssa.FreeVar:
			// find binding in parent
			fn := x.Parent()
			par := fn.Parent()
			if par == nil {
				return false
			}
			idx := -1
			for k, fv := range fn.FreeVars {
				if fv == x {
					idx = k
				}
			}
			var bound ssa.Value
			eachInstr(par, func(in ssa.Instruction) {
				if mc, ok := in.(*ssa.MakeClosure); ok && mc.Fn == fn {
					bound = mc.Bindings[idx]
				}
			})
			if bound == nil {
				return false
			}
			v = bound
		case *ssa.Alloc:
			st := uniqueStore(x)
			if st == nil {
				return false
			}
			v = st
		case *ssa.FieldAddr:
			// a function kept in a struct field: a user callback when every store into
			// that field, anywhere in the package, stores one
			stores := funcFieldStores(x)
			if len(stores) == 0 {
				return false
			}
			for _, sv := range stores[1:] {
				if !userCallbackValue(sv) {
					return false
				}
			}
			v = stores[0]
		default:
			return false
		}
	}
	return false
}

// funcFieldStores lists the values stored, anywhere in the package, into the struct field
// that fa addresses (composite literals included: they are stores into a fresh alloc).
func funcFieldStores(fa *ssa.FieldAddr) []ssa.Value {
	fn := fa.Parent()
	if fn == nil || fn.Pkg == nil {
		return nil
	}
	st := deref(fa.X.Type())
	var out []ssa.Value
	var visit func(f *ssa.Function)
	visit = func(f *ssa.Function) {
		eachInstr(f, func(in ssa.Instruction) {
			if s, ok := in.(*ssa.Store); ok {
				if a, ok := s.Addr.(*ssa.FieldAddr); ok && a.Field == fa.Field && types.Identical(deref(a.X.Type()), st) {
					out = append(out, s.Val)
				}
			}
		})
		for _, an := range f.AnonFuncs {
			visit(an)
		}
	}
	for _, mem := range fn.Pkg.Members {
		switch m := mem.(type) {
		case *ssa.Function:
			visit(m)
		case *ssa.Type:
			for _, t := range []types.Type{m.Type(), types.NewPointer(m.Type())} {
				ms := fn.Prog.MethodSets.MethodSet(t)
				for i := 0; i < ms.Len(); i++ {
					if mf := fn.Prog.MethodValue(ms.At(i)); mf != nil && mf.Synthetic == "" {
						visit(mf)
					}
				}
			}
		}
	}
	return out
}

func runC11Stop(c *Ctx) {
	stopG := c.P.SPkgs["rtree"].Var("Stop")
	if stopG == nil {
		c.Errorf("rtree.Stop not found")
		return
	}
	var funcs []*ssa.Function
	for _, f := range c.P.Funcs {
		if c.P.File(f.Pos()) != "" && pkgOf(f) == "rtree" {
			funcs = append(funcs, f)
		}
	}
	// callback-ish functions: contain a user-callback call, transitively.
	cbFunc := map[*ssa.Function]bool{}
	isCBCall := func(call ssa.CallInstruction) bool {
		cc := call.Common()
		if cc.IsInvoke() {
			return false
		}
		if cal := staticCallee(call); cal != nil {
			return cbFunc[cal]
		}
		return userCallbackValue(cc.Value)
	}
	for changed := true; changed; {
		changed = false
		for _, f := range funcs {
			if cbFunc[f] {
				continue
			}
			eachCall(f, func(call ssa.CallInstruction) {
				if !cbFunc[f] && isCBCall(call) {
					cbFunc[f] = true
					changed = true
				}
			})
		}
	}
	isStopTest := func(cond ssa.Value, err ssa.Value) bool {
		call, ok := cond.(*ssa.Call)
		if !ok || calleeName(call) != "errors.Is" || len(call.Call.Args) != 2 {
			return false
		}
		if call.Call.Args[0] != err && !exploreAliases[call.Call.Args[0]] {
			return false
		}
		ld, ok := call.Call.Args[1].(*ssa.UnOp)
		return ok && ld.Op == token.MUL && ld.X == stopG
	}
	n := 0
	for _, f := range funcs {
		fn := FuncName(f)
		isEntry := f.Parent() == nil && token.IsExported(f.Name())
		eachCall(f, func(call ssa.CallInstruction) {
			if !isCBCall(call) {
				return
			}
			v := call.Value()
			if v == nil {
				return
			}
			desc, _ := accessPath(call.Common().Value)
			if cal := staticCallee(call); cal != nil {
				desc = FuncName(cal)
			}
			construct := "callback-ish call " + desc
			n++
			if !isErrorType(v.Type()) {
				c.Triv(call.Pos(), fn, construct, "callee returns no error")
				return
			}
			if isEntry {
				if hcall, ai := errClassifierCall(v); hcall != nil {
					runC11StopClassified(c, call, hcall, ai, v, fn, construct, isCBCall)
					return
				}
			}
			cbAfter, rets := exploreAfter(call, v, true, isCBCall)
			retAls0 := exploreRetAliases
			var problems []string
			var facts []string
			for _, c2 := range cbAfter {
				problems = append(problems, fmt.Sprintf("another callback invocation at %s is reachable after the callback returned a non-nil error", c.P.Pos(c2.Pos())))
			}
			calleeMayReturnStop := true
			if cal := staticCallee(call); cal != nil {
				calleeMayReturnStop = mayReturnStop(cal, isCBCall, isStopTest, map[*ssa.Function]bool{})
			}
			for _, r := range rets {
				var er ssa.Value
				for _, res := range r.Results {
					if isErrorType(res.Type()) {
						er = res
					}
				}
				if er == nil {
					continue
				}
				// path-sensitive: the return is reached only through a Stop-test
				// edge of the given polarity iff it becomes unreachable when those
				// edges are removed.
				reachedWithout := func(polarity bool) bool {
					_, rs := exploreAfterF(call, v, true, isCBCall, func(cond ssa.Value, takenTrue bool) bool {
						return !(isStopTest(cond, v) && takenTrue == polarity)
					})
					for _, r2 := range rs {
						if r2 == r {
							return true
						}
					}
					return false
				}
				retAl := retAls0[r]
				stopTrue, stopFalse := !reachedWithout(true), !reachedWithout(false)
				switch {
				case er == v || retAl[er]:
					if isEntry && !stopFalse && calleeMayReturnStop {
						problems = append(problems, fmt.Sprintf("entry function returns the callback's error at %s without having excluded errors.Is(err, Stop): Stop would surface as an error", c.P.Pos(r.Pos())))
					} else {
						facts = append(facts, "returns the error itself")
					}
				case isNilConst(er):
					if !isEntry {
						// harmful iff some call site of this function keeps iterating on a nil result
						for _, g := range funcs {
							eachCall(g, func(cs ssa.CallInstruction) {
								if staticCallee(cs) != f || cs.Value() == nil {
									return
								}
								more, _ := exploreAfter(cs, cs.Value(), false, isCBCall)
								if len(more) > 0 {
									problems = append(problems, fmt.Sprintf("inner function returns nil at %s although the callback returned a non-nil error, and its caller at %s keeps iterating on a nil result (next callback invocation at %s): the callback is invoked again after Stop/error", c.P.Pos(r.Pos()), c.P.Pos(cs.Pos()), c.P.Pos(more[0].Pos())))
								}
							})
						}
						facts = append(facts, "inner nil return is not followed by further iteration at any call site")
					} else if !stopTrue {
						problems = append(problems, fmt.Sprintf("entry function returns nil at %s for a non-nil callback error that is not known to be Stop: the error is swallowed", c.P.Pos(r.Pos())))
					} else {
						facts = append(facts, "entry maps Stop to nil")
					}
				default:
					problems = append(problems, fmt.Sprintf("returns a different error value at %s (must be the callback's own error, unchanged)", c.P.Pos(r.Pos())))
				}
			}
			if len(problems) > 0 {
				c.Bad(call.Pos(), fn, construct, problems[0])
				return
			}
			c.OK(call.Pos(), fn, construct, "after a non-nil result no callback call is reachable; "+uniqJoin(facts))
		})
	}
	if n < 3 {
		c.Errorf("only %d callback call sites found in rtree", n)
	}
}

func pkgOf(f *ssa.Function) string {
	for f.Parent() != nil {
		f = f.Parent()
	}
	if f.Pkg == nil {
		return ""
	}
	return f.Pkg.Pkg.Name()
}

func uniqJoin(ss []string) string {
	seen := map[string]bool{}
	out := ""
	for _, s := range ss {
		if !seen[s] {
			seen[s] = true
			if out != "" {
				out += ", "
			}
			out += s
		}
	}
	return out
}

// exploreAfter walks the CFG from just after `call` under the fact that its
// result v is non-nil (nonNil) or nil (!nonNil), pruning branches on v ==/!= nil
// accordingly. It returns the callback-ish calls and the returns reached.
func exploreAfter(call ssa.CallInstruction, v ssa.Value, nonNil bool, isCB func(ssa.CallInstruction) bool) (cbs []ssa.CallInstruction, rets []*ssa.Return) {
	return exploreAfterF(call, v, nonNil, isCB, nil)
}

// exploreAfterF is exploreAfter with an additional edge filter: edgeOK(cond,
// takenTrue) == false removes that If edge.
func exploreAfterF(call ssa.CallInstruction, v ssa.Value, nonNil bool, isCB func(ssa.CallInstruction) bool, edgeOK func(cond ssa.Value, takenTrue bool) bool) (cbs []ssa.CallInstruction, rets []*ssa.Return) {
	type item struct {
		b     *ssa.BasicBlock
		start int
		al    map[ssa.Value]bool // phis that carry v on the path taken (err = phi(recurse(), callback()))
	}
	seen := map[*ssa.BasicBlock]bool{}
	idx := 0
	for i, in := range call.Block().Instrs {
		if in == call.(ssa.Instruction) {
			idx = i
		}
	}
	exploreRetAliases = map[*ssa.Return]map[ssa.Value]bool{}
	// the result stored into a variable (a local, or one captured from the enclosing function) right
	// where it is produced: a load of that variable later in the same block is the result itself
	var al0 map[ssa.Value]bool
	if refs := v.Referrers(); refs != nil {
		for _, r := range *refs {
			st, ok := r.(*ssa.Store)
			if !ok || st.Val != v || st.Block() != call.Block() {
				continue
			}
			seenStore := false
			for _, in := range call.Block().Instrs {
				if in == ssa.Instruction(st) {
					seenStore = true
					continue
				}
				if !seenStore {
					continue
				}
				if other, ok := in.(*ssa.Store); ok && other.Addr == st.Addr {
					break // overwritten
				}
				if ld, ok := in.(*ssa.UnOp); ok && ld.Op == token.MUL && ld.X == st.Addr {
					if al0 == nil {
						al0 = map[ssa.Value]bool{}
					}
					al0[ld] = true
				}
			}
		}
	}
	work := []item{{call.Block(), idx + 1, al0}}
	for len(work) > 0 {
		it := work[len(work)-1]
		work = work[:len(work)-1]
		b := it.b
		isV := func(x ssa.Value) bool { return x == v || it.al[x] }
		exploreAliases = it.al
		for _, in := range b.Instrs[it.start:] {
			if c2, ok := in.(ssa.CallInstruction); ok && isCB(c2) {
				cbs = append(cbs, c2)
			}
			if r, ok := in.(*ssa.Return); ok {
				rets = append(rets, r)
				exploreRetAliases[r] = it.al
			}
		}
		if len(b.Instrs) == 0 {
			continue
		}
		succs := b.Succs
		if ifi, ok := b.Instrs[len(b.Instrs)-1].(*ssa.If); ok && exploreKnown != nil {
			if val, known := exploreKnown(ifi.Cond); known {
				if val {
					succs = b.Succs[:1]
				} else {
					succs = b.Succs[1:]
				}
			}
		}
		if ifi, ok := b.Instrs[len(b.Instrs)-1].(*ssa.If); ok {
			if bo, ok := ifi.Cond.(*ssa.BinOp); ok && ((isV(bo.X) && isNilConst(bo.Y)) || (isV(bo.Y) && isNilConst(bo.X))) {
				takeTrue := (bo.Op == token.NEQ) == nonNil
				if bo.Op == token.NEQ || bo.Op == token.EQL {
					if takeTrue {
						succs = b.Succs[:1]
					} else {
						succs = b.Succs[1:]
					}
				}
			}
			// errors.Is(v, X) is false when v is nil
			if !nonNil {
				if cl, ok := ifi.Cond.(*ssa.Call); ok && calleeName(cl) == "errors.Is" && isV(cl.Call.Args[0]) {
					succs = b.Succs[1:]
				}
			}
		}
		for _, s := range succs {
			if edgeOK != nil {
				if ifi, ok := b.Instrs[len(b.Instrs)-1].(*ssa.If); ok && b.Succs[0] != b.Succs[1] {
					if !edgeOK(ifi.Cond, s == b.Succs[0]) {
						continue
					}
				}
			}
			if !seen[s] {
				seen[s] = true
				// phis of s that receive v (or an alias) along this edge are v on this path
				al := it.al
				for k, p := range s.Preds {
					if p != b {
						continue
					}
					for _, in := range s.Instrs {
						phi, ok := in.(*ssa.Phi)
						if !ok {
							break
						}
						if k < len(phi.Edges) && isV(phi.Edges[k]) {
							na := map[ssa.Value]bool{phi: true}
							for x := range al {
								na[x] = true
							}
							al = na
						}
					}
				}
				work = append(work, item{s, 0, al})
			}
		}
	}
	return
}

// exploreAliases: while exploreAfterF walks, the phis known to carry the tracked value on the current path;
// exploreRetAliases: the same, recorded for each return reached
var exploreAliases map[ssa.Value]bool
var exploreRetAliases map[*ssa.Return]map[ssa.Value]bool

func isTrackedAt(r *ssa.Return, er, v ssa.Value) bool {
	return er == v || exploreRetAliases[r][er]
}

// mayReturnStop: f can return a callback's error without having excluded
// errors.Is(err, Stop).
func mayReturnStop(f *ssa.Function, isCB func(ssa.CallInstruction) bool, isStopTest func(ssa.Value, ssa.Value) bool, visiting map[*ssa.Function]bool) bool {
	if visiting[f] {
		return false
	}
	visiting[f] = true
	res := false
	eachCall(f, func(call ssa.CallInstruction) {
		if res || !isCB(call) || call.Value() == nil {
			return
		}
		v := call.Value()
		src := true
		if cal := staticCallee(call); cal != nil {
			src = mayReturnStop(cal, isCB, isStopTest, visiting)
		}
		if !src {
			return
		}
		_, rets := exploreAfter(call, v, true, isCB)
		retAls := exploreRetAliases
		for _, r := range rets {
			for _, er := range r.Results {
				if er != v && !retAls[r][er] {
					continue
				}
				_, rs := exploreAfterF(call, v, true, isCB, func(cond ssa.Value, takenTrue bool) bool {
					return !(isStopTest(cond, v) && !takenTrue)
				})
				excluded := true
				for _, r2 := range rs {
					if r2 == r {
						excluded = false
					}
				}
				if !excluded {
					res = true
				}
			}
		}
	})
	return res
}

// exploreKnown: optional oracle for branch conditions whose value is known on
// the explored scenario (set by rules that summarise a helper).
var exploreKnown func(cond ssa.Value) (bool, bool)

// errClassifierCall: the callback's error v is handed, and only handed, to a
// helper added since the baseline (one that classifies it: nil / Stop / other).
func errClassifierCall(v ssa.Value) (*ssa.Call, int) {
	refs := v.Referrers()
	if refs == nil {
		return nil, 0
	}
	// besides tests against nil, the helper call is the only use
	var hc *ssa.Call
	for _, r := range *refs {
		switch x := r.(type) {
		case *ssa.BinOp:
			if (x.Op == token.EQL || x.Op == token.NEQ) && (isNilConst(x.X) || isNilConst(x.Y)) {
				continue
			}
			return nil, 0
		case *ssa.DebugRef:
			continue
		case *ssa.Call:
			if hc != nil {
				return nil, 0
			}
			hc = x
		default:
			return nil, 0
		}
	}
	if hc == nil {
		return nil, 0
	}
	h := hc.Call.StaticCallee()
	if h == nil || !isNewHelper(h) || h.Parent() != nil {
		return nil, 0
	}
	for i, a := range hc.Call.Args {
		if a == v {
			return hc, i
		}
	}
	return nil, 0
}

// errClassSummary interprets a classifying helper on the three kinds of
// callback error: "nil", "stop" (errors.Is(err, Stop) holds) and "other".
func errClassSummary(p *Program, h *ssa.Function, argIdx int) (map[string][]k4val, string) {
	out := map[string][]k4val{}
	for _, cl := range []string{"nil", "stop", "other"} {
		key := fmt.Sprintf("$%d", argIdx)
		m := &Model{Num: map[string]float64{}, Bool: map[string]bool{"(" + key + "==nil)": cl == "nil", "(nil==" + key + ")": cl == "nil"}, Missing: map[string]bool{}}
		it := &k4interp{p: p, m: m, mem: map[string]k4val{}}
		it.answer = func(k string, isBool bool) (k4val, bool) {
			if isBool && strings.HasPrefix(k, "errors.Is("+key+",") {
				return k4val{kind: 1, b: cl == "stop"}, true
			}
			return k4val{}, false
		}
		var args []k4val
		for i := range h.Params {
			args = append(args, k4val{kind: 3, s: fmt.Sprintf("$%d", i)})
		}
		res, err := it.call(h, args, nil)
		if err != nil {
			return nil, fmt.Sprintf("cannot interpret %s on a %s error: %v %s", FuncName(h), cl, err, missingList(m))
		}
		out[cl] = res
	}
	return out, ""
}

func runC11StopClassified(c *Ctx, call ssa.CallInstruction, hcall *ssa.Call, argIdx int, v ssa.Value, fn, construct string, isCB func(ssa.CallInstruction) bool) {
	h := hcall.Call.StaticCallee()
	sums, why := errClassSummary(c.P, h, argIdx)
	if why != "" {
		c.Undecided(call.Pos(), fn, construct, why)
		return
	}
	errKey := fmt.Sprintf("$%d", argIdx)
	// the value of a result of the helper (or the helper's single result) in class cl
	valueOf := func(x ssa.Value, cl string) (k4val, bool) {
		if x == ssa.Value(hcall) && len(sums[cl]) == 1 {
			return sums[cl][0], true
		}
		if ex, ok := x.(*ssa.Extract); ok && ex.Tuple == ssa.Value(hcall) && ex.Index < len(sums[cl]) {
			return sums[cl][ex.Index], true
		}
		return k4val{}, false
	}
	defer func() { exploreKnown = nil }()
	problem := ""
	for _, cl := range []string{"stop", "other"} {
		exploreKnown = func(cond ssa.Value) (bool, bool) {
			neg := false
			for {
				u, ok := cond.(*ssa.UnOp)
				if !ok || u.Op != token.NOT {
					break
				}
				cond, neg = u.X, !neg
			}
			if kv, ok := valueOf(cond, cl); ok && kv.kind == 1 {
				return kv.b != neg, true
			}
			// result != nil / result == nil on the helper's error result
			if bo, ok := cond.(*ssa.BinOp); ok && (bo.Op == token.EQL || bo.Op == token.NEQ) {
				x, y := bo.X, bo.Y
				if isNilConst(x) {
					x, y = y, x
				}
				if isNilConst(y) {
					if kv, ok := valueOf(x, cl); ok && kv.kind == 3 {
						isNil := kv.s == "nil" && !kv.addr
						return (isNil == (bo.Op == token.EQL)) != neg, true
					}
				}
			}
			return false, false
		}
		cbs, rets := exploreAfterF(hcall, v, true, isCB, nil)
		for _, c2 := range cbs {
			problem = fmt.Sprintf("another callback invocation at %s is reachable after the callback returned a non-nil error (%s class, as classified by %s)", c.P.Pos(c2.Pos()), cl, FuncName(h))
		}
		for _, r := range rets {
			for _, er := range r.Results {
				if !isErrorType(er.Type()) {
					continue
				}
				var got string
				switch kv, ok := valueOf(er, cl); {
				case er == v:
					got = "itself"
				case isNilConst(er):
					got = "nil"
				case ok && kv.kind == 3 && kv.s == "nil" && !kv.addr:
					got = "nil"
				case ok && kv.kind == 3 && kv.s == errKey:
					got = "itself"
				default:
					got = "a different value"
				}
				switch {
				case cl == "stop" && got != "nil":
					problem = fmt.Sprintf("entry function returns %s at %s when the callback returned Stop: Stop would surface as an error", got, c.P.Pos(r.Pos()))
				case cl == "other" && got == "nil":
					problem = fmt.Sprintf("entry function returns nil at %s for a non-nil callback error that is not Stop: the error is swallowed", c.P.Pos(r.Pos()))
				case cl == "other" && got != "itself":
					problem = fmt.Sprintf("returns a different error value at %s (must be the callback's own error, unchanged)", c.P.Pos(r.Pos()))
				}
			}
		}
	}
	if problem != "" {
		c.Bad(call.Pos(), fn, construct, problem)
		return
	}
	c.OK(call.Pos(), fn, construct, "the error is classified by "+FuncName(h)+" (interpreted on nil / Stop / other): after Stop or an error no callback call is reachable; Stop maps to nil, other errors are returned unchanged")
}
