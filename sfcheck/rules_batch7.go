package main

import (
	"fmt"
	"go/token"
	"strings"

	"golang.org/x/tools/go/ssa"
)

func init() {
	register(&Rule{
		ID:    "C20.childdim",
		Props: []string{"C20", "C15", "C14"},
		Doc:   "Dimension() of a direct child of a GeometryCollection (GeometryN(i) / geoms[i]) counts the child's EMPTY members when the child is itself a collection: outside GeometryCollection.Dimension itself it may only be applied under !IsEmpty() and !IsGeometryCollection() of that child (otherwise leaves must be visited with walk, which never yields collections)",
		Floor: 1,
		Run:   runC20ChildDim,
	})
	register(&Rule{
		ID:    "C13.useresult",
		Props: []string{"C13", "C10"},
		Doc:   "a helper that compacts/reorders its slice argument in place and returns the (possibly shorter) result — sortAndUniquifyXYs, uniquifyGroupedXYs, sortAndUniquifyFloats and friends, found as: mutates its slice parameter and returns a re-slice of it — must have its result used; discarding it leaves a stale tail in the caller's slice",
		Floor: 3,
		Run:   runC13UseResult,
	})
	register(&Rule{
		ID:    "C14.lockstep",
		Props: []string{"C14", "C20"},
		Doc:   "queue-pop in lockstep with a second traversal: a closure that pops a captured slice (x = x[1:]) once per visited element must do so on every path (the pop dominates every return of the closure); an early return before the pop (e.g. for an empty member) shifts every later element onto the wrong weight",
		Floor: 0,
		Run:   runC14Lockstep,
	})
	register(&Rule{
		ID:    "C16.map",
		Props: []string{"C16", "C17", "C12"},
		Doc:   "member-wise operations on a GeometryCollection: in every GeometryCollection method that builds its result by filling a []Geometry by index, each stored element is the result of a Geometry-level method call on the member at the same index (so nested collections and every member type are handled by the dispatcher) — never the bare member under a type test, and never left unassigned",
		Floor: 2,
		Run:   runC16Map,
	})
	register(&Rule{
		ID:    "C09.lines",
		Props: []string{"C09", "C20"},
		Doc:   "segments handed to the intersection/distance kernels have distinct endpoints: every `line` built from two consecutive control points of a sequence goes through getLine (which skips zero-length segments and reports it through its flag) or is guarded by an inequality of the two points; the kernels divide by the segment length",
		Floor: 1,
		Run:   runC09Lines,
	})
}

// directChild: v is obtained from GeometryN(i) or from indexing a geoms field.
func directChild(v ssa.Value) bool {
	v = stripLoad(v)
	for i := 0; i < 6; i++ {
		switch x := v.(type) {
		case *ssa.Call:
			return calleeName(x) == "geom.(GeometryCollection).GeometryN"
		case *ssa.UnOp:
			if x.Op != token.MUL {
				return false
			}
			if ia, ok := x.X.(*ssa.IndexAddr); ok {
				if _, fl, _, ok := fieldLoad(ia.X); ok && fl == "geoms" {
					return true
				}
				return false
			}
			if a, ok := x.X.(*ssa.Alloc); ok {
				if st := uniqueStore(a); st != nil {
					v = st
					continue
				}
			}
			return false
		case *ssa.Extract:
			// range over c.geoms
			if nx, ok := x.Tuple.(*ssa.Next); ok {
				if rg, ok := nx.Iter.(*ssa.Range); ok {
					_, fl, _, ok := fieldLoad(rg.X)
					return ok && fl == "geoms"
				}
			}
			return false
		default:
			return false
		}
	}
	return false
}

func runC20ChildDim(c *Ctx) {
	n := 0
	for _, f := range c.P.Funcs {
		if pkgOf(f) != "geom" || FuncName(rootFunc(f)) == "geom.(GeometryCollection).Dimension" {
			continue
		}
		fn := FuncName(f)
		eachCall(f, func(call ssa.CallInstruction) {
			if calleeName(call) != "geom.(Geometry).Dimension" {
				return
			}
			recv := call.Common().Args[0]
			if !directChild(recv) {
				return
			}
			n++
			notGC, notEmpty := false, false
			for _, g := range guardsAt(call) {
				gc, ok := g.Cond.(*ssa.Call)
				if !ok || len(gc.Call.Args) != 1 || !(gc.Call.Args[0] == recv || sameValue(gc.Call.Args[0], recv) || stripLoad(gc.Call.Args[0]) == stripLoad(recv)) {
					continue
				}
				switch calleeName(gc) {
				case "geom.(Geometry).IsGeometryCollection":
					notGC = notGC || !g.Truth
				case "geom.(Geometry).IsEmpty":
					notEmpty = notEmpty || !g.Truth
				}
			}
			// a result that is only compared for equality selects members of a given
			// dimension: an empty non-collection member of that dimension is harmless
			// there (its type fixes its dimension); only "highest dimension so far"
			// computations need the member to be non-empty as well
			if v := call.Value(); v != nil && notGC && !notEmpty {
				onlyEq := len(*v.Referrers()) > 0
				for _, r := range *v.Referrers() {
					bo, ok := r.(*ssa.BinOp)
					if !ok || (bo.Op != token.EQL && bo.Op != token.NEQ) {
						onlyEq = false
					}
				}
				if onlyEq {
					c.OK(call.Pos(), fn, "Dimension() of a direct collection member", "guarded by !IsGeometryCollection() and used only to select members of one dimension")
					return
				}
			}
			c.Check(notGC && notEmpty, call.Pos(), fn, "Dimension() of a direct collection member", "guarded by !IsEmpty() and !IsGeometryCollection()", "Dimension() is applied to a direct member of a GeometryCollection that may itself be a collection or empty: a nested collection reports the dimension of its EMPTY members, so 'the highest non-empty dimension' is over-estimated and the operation works on the wrong (empty) part")
		})
	}
	// the rule has few or no instances on a healthy tree; the floor is carried by the scan itself
	c.Triv(token.NoPos, "-", "scan", fmt.Sprintf("%d Dimension() calls on direct collection members examined", n))
}

// returnsResliceOfParam: some return value of f is derived from parameter i by
// re-slicing only.
func returnsResliceOfParam(f *ssa.Function, i int) bool {
	for _, r := range returnsOf(f) {
		for _, rv := range r.Results {
			v := rv
			for k := 0; k < 6; k++ {
				switch x := v.(type) {
				case *ssa.Slice:
					v = x.X
					continue
				case *ssa.UnOp:
					if rc := resolveCell(x); rc != ssa.Value(x) {
						v = rc
						continue
					}
				case *ssa.Phi:
					if len(x.Edges) > 0 {
						v = x.Edges[0]
						continue
					}
				case *ssa.Call:
					// forwarded to another such helper
					if cal := staticCallee(x); cal != nil && cal != f && len(x.Call.Args) > 0 {
						v = x.Call.Args[0]
						continue
					}
				}
				break
			}
			if resolveCell(v) == ssa.Value(f.Params[i]) {
				return true
			}
		}
	}
	return false
}

func runC13UseResult(c *Ctx) {
	// candidate helpers: slice parameter written in place and returned re-sliced
	var helpers []*ssa.Function
	for _, f := range c.P.Funcs {
		if pk := pkgOf(f); pk != "geom" && pk != "rtree" {
			continue
		}
		if f.Parent() != nil || f.Signature.Results().Len() == 0 {
			continue
		}
		for i, p := range f.Params {
			if !isSliceType(p.Type()) || !isSliceType(f.Signature.Results().At(0).Type()) {
				continue
			}
			if !returnsResliceOfParam(f, i) {
				continue
			}
			// writes through the parameter?
			writes := false
			eachInstr(f, func(in ssa.Instruction) {
				switch x := in.(type) {
				case *ssa.Store:
					if ia, ok := x.Addr.(*ssa.IndexAddr); ok && resolveCell(ia.X) == ssa.Value(p) {
						writes = true
					}
				case ssa.CallInstruction:
					n := calleeName(x)
					if strings.HasPrefix(n, "sort.") && len(x.Common().Args) > 0 {
						if mi, ok := x.Common().Args[0].(*ssa.MakeInterface); ok && resolveCell(mi.X) == ssa.Value(p) {
							writes = true
						}
						if resolveCell(x.Common().Args[0]) == ssa.Value(p) {
							writes = true
						}
					}
					if cal := staticCallee(x); cal != nil && cal != f {
						for _, h := range helpers {
							if h == cal {
								writes = true
							}
						}
					}
				}
			})
			if writes {
				helpers = append(helpers, f)
			}
		}
	}
	n := 0
	for _, h := range helpers {
		for _, call := range c.P.callersOf(h) {
			n++
			v := call.Value()
			used := v != nil && len(*v.Referrers()) > 0
			c.Check(used, call.Pos(), FuncName(call.Parent()), "result of "+FuncName(h), "the returned (compacted) slice is used", "the result of "+FuncName(h)+" is discarded: the helper compacts the slice in place and returns the shortened slice, so the caller keeps the old length with a stale, unsorted tail")
		}
	}
	if len(helpers) < 2 || n < 3 {
		c.Errorf("found %d in-place compaction helpers with %d call sites, expected >= 2 / >= 3", len(helpers), n)
	}
}

func runC14Lockstep(c *Ctx) {
	n := 0
	for _, f := range c.P.Funcs {
		if pkgOf(f) != "geom" || f.Parent() == nil {
			continue
		}
		fn := FuncName(f)
		eachInstr(f, func(in ssa.Instruction) {
			st, ok := in.(*ssa.Store)
			if !ok {
				return
			}
			fv, ok := st.Addr.(*ssa.FreeVar)
			if !ok {
				return
			}
			isAdvance := false
			if sl, ok := st.Val.(*ssa.Slice); ok && sl.Low != nil && sl.High == nil {
				// queue = queue[1:]
				if k, ok := constInt(sl.Low); ok && k == 1 {
					if ld, ok := sl.X.(*ssa.UnOp); ok && ld.X == ssa.Value(fv) {
						isAdvance = true
					}
				}
			}
			if bo, ok := st.Val.(*ssa.BinOp); ok && bo.Op == token.ADD {
				// cursor++ where the cursor indexes a slice in this closure
				if k, ok := constInt(bo.Y); ok && k == 1 {
					if ld, ok := bo.X.(*ssa.UnOp); ok && ld.X == ssa.Value(fv) {
						eachInstr(f, func(in2 ssa.Instruction) {
							if ia, ok := in2.(*ssa.IndexAddr); ok {
								if l2, ok := ia.Index.(*ssa.UnOp); ok && l2.X == ssa.Value(fv) {
									isAdvance = true
								}
							}
						})
					}
				}
			}
			if !isAdvance {
				return
			}
			n++
			bad := ""
			for _, r := range returnsOf(f) {
				if !instrDominates(st, r) {
					bad = fmt.Sprintf("the return at %s can be reached without popping %s", c.P.Pos(r.Pos()), fv.Name())
				}
			}
			c.Check(bad == "", st.Pos(), fn, "advance of the captured queue/cursor", "executed on every path through the closure", bad+": the queue and the traversal get out of step and later elements receive the wrong entry")
		})
	}
	if n < 1 {
		// an implementation without a queue consumed in lockstep (an indexed list, say) has nothing to get out of step
		c.Triv(token.NoPos, "-", "summary", "no closure advances a captured queue/cursor in this tree")
	}
}

func runC16Map(c *Ctx) {
	n := 0
	for _, f := range c.P.Funcs {
		if pkgOf(f) != "geom" || f.Parent() != nil || f.Signature.Recv() == nil || namedName(f.Signature.Recv().Type()) != "GeometryCollection" {
			continue
		}
		if rt := resultType0(f); rt == nil || namedName(rt) != "GeometryCollection" {
			continue
		}
		fn := FuncName(f)
		eachInstr(f, func(in ssa.Instruction) {
			st, ok := in.(*ssa.Store)
			if !ok {
				return
			}
			ia, ok := st.Addr.(*ssa.IndexAddr)
			if !ok || namedName(st.Val.Type()) != "Geometry" {
				return
			}
			if _, isMake := stripLoad(ia.X).(*ssa.MakeSlice); !isMake {
				return
			}
			n++
			// the stored value: a Geometry-level method call (possibly wrapped in AsGeometry/Extract) on
			// the member with the same index
			v := st.Val
			if ex, ok := v.(*ssa.Extract); ok {
				v = ex.Tuple
			}
			call, ok := v.(*ssa.Call)
			good := false
			why := "the member is stored without going through a Geometry-level method"
			if ok {
				cal := staticCallee(call)
				if cal != nil && cal.Signature.Recv() != nil && namedName(cal.Signature.Recv().Type()) == "Geometry" && len(call.Call.Args) > 0 {
					if directChild(call.Call.Args[0]) || memberAtIndex(call.Call.Args[0], ia.Index) {
						good = true
					} else {
						why = "the method is not applied to the member at the same index"
					}
				}
			}
			if ok && !good && staticCallee(call) == nil && !call.Call.IsInvoke() && len(call.Call.Args) == 1 {
				// mapped[i] = fn(member_i) with fn a parameter: the obligation moves to
				// the function literals passed for fn at every call site
				if par, isPar := call.Call.Value.(*ssa.Parameter); isPar && (directChild(call.Call.Args[0]) || memberAtIndex(call.Call.Args[0], ia.Index)) {
					pidx := paramIndex(f, par)
					sites := c.P.callersOf(f)
					allOK := len(sites) > 0 && pidx >= 0
					for _, cs := range sites {
						if pidx >= len(cs.Common().Args) {
							allOK = false
							continue
						}
						mc, isMC := cs.Common().Args[pidx].(*ssa.MakeClosure)
						if !isMC {
							allOK = false
							continue
						}
						lit := mc.Fn.(*ssa.Function)
						n++
						litOK := len(lit.Params) == 1
						for _, r := range returnsOf(lit) {
							rv := r.Results[0]
							if ex, ok := rv.(*ssa.Extract); ok {
								rv = ex.Tuple
							}
							rc, isCall := rv.(*ssa.Call)
							cal := (*ssa.Function)(nil)
							if isCall {
								cal = staticCallee(rc)
							}
							if cal == nil || cal.Signature.Recv() == nil || namedName(cal.Signature.Recv().Type()) != "Geometry" || len(rc.Call.Args) == 0 || stripLoad(rc.Call.Args[0]) != ssa.Value(lit.Params[0]) {
								litOK = false
							}
						}
						c.Check(litOK, lit.Pos(), FuncName(lit), "member mapping passed to "+f.Name(), "returns a Geometry-level method applied to the member it receives", "the mapping function does not return a Geometry-level method call on the member it is given: nested collections / some member types are skipped or copied unchanged")
						if !litOK {
							allOK = false
						}
					}
					if allOK {
						good = true
					} else {
						why = "the member is mapped through a function parameter, and not every call site passes a function literal that applies a Geometry-level method to the member"
					}
				}
			}
			c.Check(good, st.Pos(), fn, "member stored into the result list", "result of a Geometry-level method on the corresponding member", why+": nested collections / some member types are skipped or copied unchanged by this member-wise operation")
		})
	}
	if n < 2 {
		c.Errorf("only %d member-wise stores found in GeometryCollection methods (today 5)", n)
	}
}

// memberAtIndex: v is c.geoms[idx] / the range element with index idx.
func memberAtIndex(v, idx ssa.Value) bool {
	v = stripLoad(v)
	if u, ok := v.(*ssa.UnOp); ok && u.Op == token.MUL {
		if ia, ok := u.X.(*ssa.IndexAddr); ok {
			return ia.Index == idx || sameValue(ia.Index, idx)
		}
	}
	return false
}

func runC09Lines(c *Ctx) {
	n := 0
	lineT := c.P.NamedType("geom", "line")
	if lineT == nil {
		c.Errorf("type geom.line not found")
		return
	}
	for _, f := range c.P.Funcs {
		if pkgOf(f) != "geom" {
			continue
		}
		fn := FuncName(f)
		eachInstr(f, func(in ssa.Instruction) {
			al, ok := in.(*ssa.Alloc)
			if !ok || namedName(deref(al.Type())) != "line" {
				return
			}
			// endpoint stores
			var ends []ssa.Value
			for _, r := range *al.Referrers() {
				if fa, ok := r.(*ssa.FieldAddr); ok {
					for _, rr := range *fa.Referrers() {
						if st, ok := rr.(*ssa.Store); ok && st.Addr == fa {
							ends = append(ends, st.Val)
						}
					}
				}
			}
			if len(ends) != 2 {
				return
			}
			s1, i1, ok1 := seqGetCall(ends[0])
			s2, i2, ok2 := seqGetCall(ends[1])
			if !ok1 || !ok2 || !(s1 == s2 || sameValue(s1, s2)) {
				return
			}
			_ = i1
			_ = i2
			n++
			// guard: ends[0] != ends[1] somewhere dominating the use, or the function returns the line with a flag
			guarded := false
			eachInstr(f, func(in2 ssa.Instruction) {
				bo, ok := in2.(*ssa.BinOp)
				if !ok || (bo.Op != token.EQL && bo.Op != token.NEQ) {
					return
				}
				if (sameOrLoad(bo.X, ends[0]) && sameOrLoad(bo.Y, ends[1])) || (sameOrLoad(bo.X, ends[1]) && sameOrLoad(bo.Y, ends[0])) {
					guarded = true
				}
				// comparison of the two fields of the line just built
				fieldOf := func(v ssa.Value) bool {
					if u, ok := v.(*ssa.UnOp); ok && u.Op == token.MUL {
						if fa, ok := u.X.(*ssa.FieldAddr); ok && fa.X == ssa.Value(al) {
							return true
						}
					}
					return false
				}
				if fieldOf(bo.X) && fieldOf(bo.Y) {
					guarded = true
				}
			})
			c.Check(guarded, al.Pos(), fn, "segment from two control points of one sequence", "the two points are compared and a zero-length segment is rejected", "a segment is built from two control points of the same sequence without checking that they differ: repeated consecutive vertices are legal, and a zero-length segment makes the kernels divide by zero (NaN distance) and report spurious intersections")
		})
	}
	if n < 1 {
		c.Errorf("no segment construction from sequence points found (expected getLine)")
	}
}
