package main

import (
	"fmt"
	"go/types"
	"math"
	"strings"

	"golang.org/x/tools/go/ssa"
)

func init() {
	register(&Rule{
		ID:    "C18.fields",
		Props: []string{"C18"},
		Doc:   "exactEqualsComparator.eq interpreted over models of both coordinate types, Z, M and the XY offset vs tolerance: true iff the types are equal, the squared XY distance is within toleranceSq, Z is equal when 3D and M is equal when measured (both compared exactly)",
		Floor: 1,
		Run:   runC18Fields,
	})
	register(&Rule{
		ID:    "C18.options",
		Props: []string{"C18"},
		Doc:   "lineStringsEq interpreted over all truth assignments of the vertex comparisons eq(i,j) for a 3-vertex line, x ignoreOrder x ringness of both lines: equal iff the identity mapping matches; reversal needs IgnoreOrder; rotation (and reversed rotation) additionally needs BOTH lines to be rings, with rotation index (i+o) mod (n-1)",
		Floor: 1,
		Run:   runC18Options,
	})
	register(&Rule{
		ID:    "C18.backtrack",
		Props: []string{"C18"},
		Doc:   "validPermutation interpreted (with modelled slices) over all truth assignments of eq(level,choice) for n=3: returns true iff some permutation pi has eq(i,pi(i)) for all i — the swap-and-shrink must be undone after a failed recursion, otherwise candidates are lost when the matcher has to backtrack",
		Floor: 1,
		Run:   runC18Backtrack,
	})
	register(&Rule{
		ID:    "C18.struct",
		Props: []string{"C18"},
		Doc:   "sibling consistency of the six composite comparators: each compares the element count and the coordinates type of both operands (polygonsEq through its exterior ring, reviewed) before delegating element-wise through structureEq; structureEq without IgnoreOrder is the identity pairing over the full index range",
		Floor: 7,
		Run:   runC18Struct,
	})
}

func inlineAllGeom(names ...string) func(*ssa.Function) bool {
	set := map[string]bool{}
	for _, n := range names {
		set[n] = true
	}
	return func(f *ssa.Function) bool {
		if set[FuncName(f)] {
			return true
		}
		// closures of inlined functions
		for p := f.Parent(); p != nil; p = p.Parent() {
			if set[FuncName(p)] {
				return true
			}
		}
		return false
	}
}

func runC18Fields(c *Ctx) {
	inl := []string{"geom.(XY).Sub", "geom.(XY).lengthSq", "geom.(XY).Dot", "geom.(CoordinatesType).Is3D", "geom.(CoordinatesType).IsMeasured"}
	typ := []float64{0, 1, 2, 3}
	// The tolerance is specified end to end: the value that ToleranceXY(e) stores in
	// the comparator is obtained by interpreting the option, and eq is then required
	// to relate two coordinates iff their XY distance is <= e — whether the option
	// stores e, e squared or anything else is the implementation's business.
	eqf := c.P.Func("geom.(exactEqualsComparator).eq")
	tol := c.P.Func("geom.ToleranceXY")
	if eqf == nil || tol == nil || len(tol.AnonFuncs) != 1 {
		c.Errorf("anchors geom.(exactEqualsComparator).eq / geom.ToleranceXY do not resolve")
		return
	}
	field := ""
	if st, ok := eqf.Params[0].Type().Underlying().(*types.Struct); ok {
		for i := 0; i < st.NumFields(); i++ {
			if isFloat(st.Field(i).Type()) {
				field = canonFieldName(st.Field(i))
			}
		}
	}
	if field == "" {
		c.Errorf("the comparator has no float field for the tolerance")
		return
	}
	stored := func(e float64) (float64, string) {
		m := &Model{Num: map[string]float64{}, Bool: map[string]bool{}, Missing: map[string]bool{}}
		it := &k4interp{p: c.P, m: m, mem: map[string]k4val{"fv:within": {kind: 2, f: e}}}
		var fvs []k4val
		for range tol.AnonFuncs[0].FreeVars {
			fvs = append(fvs, k4val{kind: 3, s: "fv:within"})
		}
		res, err := it.call(tol.AnonFuncs[0], []k4val{{kind: 3, s: "zero"}}, fvs)
		if err != nil || len(res) != 1 || res[0].kind != 3 {
			return 0, fmt.Sprintf("cannot interpret ToleranceXY: %v %v %s", err, res, missingList(m))
		}
		v, err := it.lookup(res[0].s+"."+field, nil0)
		if err != nil || v.kind != 2 {
			return 0, "ToleranceXY does not store a number in the comparator"
		}
		return v.f, ""
	}
	const e = 1.5
	sE, why := stored(e)
	s0, why0 := stored(0)
	if why != "" || why0 != "" {
		c.Undecided(tol.Pos(), FuncName(tol), "tolerance stored by the option", why+why0)
		return
	}
	key := "$0." + field
	runK4Spec(c, k4spec{rule: "C18.fields", fn: "geom.(exactEqualsComparator).eq", construct: "coordinate equality",
		num:     []string{"$1.Type", "$2.Type", "$1.XY.X", "$1.XY.Y", "$2.XY.X", "$2.XY.Y", "$1.Z", "$2.Z", "$1.M", "$2.M", key},
		vals:    []float64{0, 1},
		valsFor: map[string][]float64{"$1.Type": typ, "$2.Type": typ, key: {s0, sE}, "$1.XY.X": {0, 1, 1e-200}},
		inline:  inl,
		what:    "same type, XY exactly equal when no tolerance is set (else XY distance <= the e given to ToleranceXY, here 1.5), Z equal iff 3D, M equal iff measured",
		want: func(m *Model) []string {
			n := func(k string) float64 { return m.Num[k] }
			dx, dy := n("$1.XY.X")-n("$2.XY.X"), n("$1.XY.Y")-n("$2.XY.Y")
			t := int(n("$1.Type"))
			within := math.Hypot(dx, dy) <= e
			if n(key) == s0 {
				// no tolerance: exact equality (a squared distance underflows for tiny differences)
				within = dx == 0 && dy == 0
			}
			ok := n("$1.Type") == n("$2.Type") && within &&
				(t&1 == 0 || n("$1.Z") == n("$2.Z")) && (t&2 == 0 || n("$1.M") == n("$2.M"))
			return []string{b2s(ok)}
		},
	})
	// extreme magnitudes: the tolerance must neither vanish nor swallow everything
	for _, tc := range []struct {
		e, d float64
		want bool
	}{{1e-165, 1e-170, true}, {1e-165, 1e-160, false}, {1e160, 1e300, false}, {1e160, 1e150, true}} {
		sv, why := stored(tc.e)
		if why != "" {
			c.Undecided(eqf.Pos(), FuncName(eqf), "tolerance at extreme magnitudes", why)
			return
		}
		m := &Model{Num: map[string]float64{key: sv, "$1.Type": 0, "$2.Type": 0, "$1.XY.X": tc.d, "$1.XY.Y": 0, "$2.XY.X": 0, "$2.XY.Y": 0, "$1.Z": 0, "$2.Z": 0, "$1.M": 0, "$2.M": 0}, Bool: map[string]bool{}, Missing: map[string]bool{}}
		in := map[string]bool{}
		for _, n := range inl {
			in[n] = true
		}
		res, err := k4run(c.P, eqf, m, func(g *ssa.Function) bool { return in[FuncName(g)] })
		if err != nil || len(res) != 1 || res[0].kind != 1 {
			c.Undecided(eqf.Pos(), FuncName(eqf), "tolerance at extreme magnitudes", fmt.Sprintf("%v %s", err, missingList(m)))
			return
		}
		if res[0].b != tc.want {
			c.Bad(eqf.Pos(), FuncName(eqf), "tolerance at extreme magnitudes", fmt.Sprintf("with ToleranceXY(%v), points %v apart are related = %v, expected %v: the stored tolerance (%v) or the compared quantity under/overflows", tc.e, tc.d, res[0].b, tc.want, sv))
			return
		}
	}
	c.OK(eqf.Pos(), FuncName(eqf), "tolerance at extreme magnitudes", "ToleranceXY(1e-165) relates points 1e-170 apart but not 1e-160; ToleranceXY(1e160) relates points 1e150 apart but not 1e300")
}

func runC18Options(c *Ctx) {
	f := c.P.Func("geom.(exactEqualsComparator).lineStringsEq")
	if f == nil {
		c.Errorf("anchor lineStringsEq does not resolve")
		return
	}
	fn := FuncName(f)
	n := 3
	eqKey := func(i, j int) string {
		return fmt.Sprintf("geom.(exactEqualsComparator).eq($0,geom.(Sequence).Get(geom.(LineString).Coordinates($1),%d),geom.(Sequence).Get(geom.(LineString).Coordinates($2),%d))", i, j)
	}
	var atoms []string
	for i := 0; i < n; i++ {
		for j := 0; j < n; j++ {
			atoms = append(atoms, eqKey(i, j))
		}
	}
	// the closing point of each operand equals its first point in every ordinate
	closedKey := func(op int) string {
		return fmt.Sprintf("geom.(exactEqualsComparator).eq($0,geom.(Sequence).Get(geom.(LineString).Coordinates($%d),0),geom.(Sequence).Get(geom.(LineString).Coordinates($%d),%d))", op, op, n-1)
	}
	atoms = append(atoms, closedKey(1), closedKey(2))
	problem, undec := "", ""
	models := 0
	inl := inlineAllGeom("geom.(exactEqualsComparator).lineStringsEq")
	for _, ign := range []bool{false, true} {
		for _, r1 := range []bool{false, true} {
			for _, r2 := range []bool{false, true} {
				if problem != "" || undec != "" {
					break
				}
				k4enumerate(nil, nil, atoms, func(m *Model) bool {
					m.Bool["$0.ignoreOrder"] = ign
					m.Bool["geom.(LineString).IsRing($1)"] = r1
					m.Bool["geom.(LineString).IsRing($2)"] = r2
					m.Num["geom.(Sequence).Length(geom.(LineString).Coordinates($1))"] = float64(n)
					m.Num["geom.(Sequence).Length(geom.(LineString).Coordinates($2))"] = float64(n)
					m.Num["geom.(Sequence).CoordinatesType(geom.(LineString).Coordinates($1))"] = 0
					m.Num["geom.(Sequence).CoordinatesType(geom.(LineString).Coordinates($2))"] = 0
					models++
					m.Missing = map[string]bool{}
					res, err := k4run(c.P, f, m, inl)
					if err != nil || len(res) != 1 || res[0].kind != 1 {
						undec = fmt.Sprintf("%v %v %s", err, res, trunc(missingList(m)))
						return false
					}
					e := func(i, j int) bool { return m.Bool[eqKey(i, j)] }
					all := func(mp func(int) (int, int)) bool {
						for i := 0; i < n; i++ {
							a, b := mp(i)
							if !e(a, b) {
								return false
							}
						}
						return true
					}
					want := all(func(i int) (int, int) { return i, i })
					if !want && ign {
						want = all(func(i int) (int, int) { return i, n - 1 - i })
						// a rotation reuses the first point of b in place of its closing point:
						// sound only when both closing points repeat the first in all ordinates
						if !want && r1 && r2 && m.Bool[closedKey(1)] && m.Bool[closedKey(2)] {
							for o := 1; o < n && !want; o++ {
								oo := o
								want = all(func(i int) (int, int) { return i, (i + oo) % (n - 1) }) ||
									all(func(i int) (int, int) { return n - 1 - i, (i + oo) % (n - 1) })
							}
						}
					}
					if res[0].b != want {
						var tr []string
						for i := 0; i < n; i++ {
							for j := 0; j < n; j++ {
								if e(i, j) {
									tr = append(tr, fmt.Sprintf("(%d,%d)", i, j))
								}
							}
						}
						problem = fmt.Sprintf("with ignoreOrder=%v, ring(a)=%v, ring(b)=%v, closing point == first point in all ordinates (a: %v, b: %v) and matching vertex pairs {%s} the function returns %v; the documented identifications give %v", ign, r1, r2, m.Bool[closedKey(1)], m.Bool[closedKey(2)], strings.Join(tr, ""), res[0].b, want)
						return false
					}
					return true
				})
			}
		}
	}
	construct := "identity / reversal / rotation identifications"
	switch {
	case undec != "":
		c.Undecided(f.Pos(), fn, construct, "cannot interpret: "+undec)
	case problem != "":
		c.Bad(f.Pos(), fn, construct, problem)
	default:
		c.OK(f.Pos(), fn, construct, fmt.Sprintf("agrees with the specification in all %d models", models))
	}
}

func runC18Backtrack(c *Ctx) {
	f := c.P.Func("geom.validPermutation")
	if f == nil {
		c.Errorf("anchor geom.validPermutation does not resolve")
		return
	}
	fn := FuncName(f)
	const n = 3
	key := func(i, j int) string { return fmt.Sprintf("EQ(%d,%d)", i, j) }
	var atoms []string
	for i := 0; i < n; i++ {
		for j := 0; j < n; j++ {
			atoms = append(atoms, key(i, j))
		}
	}
	perms := [][]int{{0, 1, 2}, {0, 2, 1}, {1, 0, 2}, {1, 2, 0}, {2, 0, 1}, {2, 1, 0}}
	problem, undec := "", ""
	models := 0
	inl := inlineAllGeom("geom.validPermutation")
	k4enumerate(nil, nil, atoms, func(m *Model) bool {
		models++
		m.Missing = map[string]bool{}
		it := &k4interp{p: c.P, m: m, mem: map[string]k4val{}, inline: inl, recurseNew: true}
		// the eq callback is an opaque function value: its calls are looked up as EQ(i,j)
		it.opaqueCall = func(args []k4val) (string, bool) {
			if len(args) == 2 && args[0].kind == 2 && args[1].kind == 2 {
				return key(int(args[0].f), int(args[1].f)), true
			}
			return "", false
		}
		res, err := it.call(f, []k4val{{kind: 2, f: n}, {kind: 3, s: "$eq"}}, nil)
		if err != nil || len(res) != 1 || res[0].kind != 1 {
			undec = fmt.Sprintf("%v %v %s", err, res, trunc(missingList(m)))
			return false
		}
		want := false
		for _, p := range perms {
			ok := true
			for i := 0; i < n; i++ {
				if !m.Bool[key(i, p[i])] {
					ok = false
				}
			}
			if ok {
				want = true
			}
		}
		if res[0].b != want {
			var tr []string
			for i := 0; i < n; i++ {
				for j := 0; j < n; j++ {
					if m.Bool[key(i, j)] {
						tr = append(tr, fmt.Sprintf("(%d,%d)", i, j))
					}
				}
			}
			problem = fmt.Sprintf("with matching pairs {%s} the function returns %v but a valid permutation %s", strings.Join(tr, ""), res[0].b, map[bool]string{true: "exists", false: "does not exist"}[want])
			return false
		}
		return true
	})
	construct := "backtracking search is complete and sound"
	switch {
	case undec != "":
		c.Undecided(f.Pos(), fn, construct, "cannot interpret: "+undec)
	case problem != "":
		c.Bad(f.Pos(), fn, construct, problem)
	default:
		c.OK(f.Pos(), fn, construct, fmt.Sprintf("returns true exactly when a perfect matching exists, in all %d models of eq(i,j) for n=3", models))
	}
}

func runC18Struct(c *Ctx) {
	names := []string{"multiPointsEq", "multiLineStringsEq", "multiPolygonsEq", "geometryCollectionsEq", "polygonsEq", "lineStringsEq"}
	for _, nme := range names {
		f := c.P.Func("geom.(exactEqualsComparator)." + nme)
		if f == nil {
			c.Errorf("anchor %s does not resolve", nme)
			continue
		}
		fn := FuncName(f)
		// decided by interpretation: operands with different element counts, or with
		// no elements and different coordinates types, must compare unequal even when
		// every element-wise comparison answers "equal"; equal counts and types with
		// no elements compare equal. Counts and types are answered wherever the code
		// asks for them (accessor call, field read, helper).
		run := func(n1, n2, ct1, ct2 float64) (bool, string) {
			m := &Model{Num: map[string]float64{}, Bool: map[string]bool{}, Missing: map[string]bool{}}
			it := &k4interp{p: c.P, m: m, mem: map[string]k4val{}}
			which := func(key string) int {
				switch {
				case strings.Contains(key, "$2"):
					return 2
				case strings.Contains(key, "$1"):
					return 1
				}
				return 0
			}
			it.answer = func(key string, isBool bool) (k4val, bool) {
				if isBool && strings.Contains(key, ").IsEmpty(") {
					// emptiness agrees with the modelled counts
					switch which(key) {
					case 1:
						return k4val{kind: 1, b: n1 == 0}, true
					case 2:
						return k4val{kind: 1, b: n2 == 0}, true
					}
				}
				if isBool {
					return k4val{kind: 1, b: true}, true // adversarial: every other test says "equal"
				}
				w := which(key)
				if w == 0 {
					return k4val{}, false
				}
				isCount := strings.HasPrefix(key, "len(") || strings.Contains(key, ").Num") || strings.Contains(key, ").Length(")
				isCT := strings.Contains(key, ").CoordinatesType(") || strings.HasSuffix(key, ".ctype")
				switch {
				case isCT && w == 1:
					return k4val{kind: 2, f: ct1}, true
				case isCT:
					return k4val{kind: 2, f: ct2}, true
				case isCount && w == 1:
					return k4val{kind: 2, f: n1}, true
				case isCount:
					return k4val{kind: 2, f: n2}, true
				}
				return k4val{}, false
			}
			res, err := it.call(f, []k4val{{kind: 3, s: "$0"}, {kind: 3, s: "$1"}, {kind: 3, s: "$2"}}, nil)
			if err != nil || len(res) != 1 || res[0].kind != 1 {
				return false, fmt.Sprintf("cannot interpret: %v %v %s", err, res, missingList(m))
			}
			return res[0].b, ""
		}
		countCmp, ctypeCmp := true, true
		undec := ""
		if r, u := run(1, 2, 0, 0); u != "" {
			undec = u
		} else if r {
			countCmp = false
		}
		if r, u := run(2, 1, 0, 0); u != "" {
			undec = u
		} else if r {
			countCmp = false
		}
		if nme != "polygonsEq" {
			if r, u := run(0, 0, 0, 1); u != "" {
				undec = u
			} else if r {
				ctypeCmp = false
			}
			if r, u := run(1, 1, 0, 1); u != "" {
				undec = u
			} else if r {
				ctypeCmp = false // members may all be empty: their comparison cannot be relied on for the type
			}
			if r, u := run(0, 0, 1, 1); u != "" {
				undec = u
			} else if !r {
				c.Bad(f.Pos(), fn, "empty operands of the same type", "two operands without elements and with the same coordinates type compare unequal")
			}
		}
		if undec != "" {
			c.Undecided(f.Pos(), fn, "element count compared", undec)
			continue
		}
		c.Check(countCmp, f.Pos(), fn, "element count compared", "the member/vertex counts of both operands are compared", "the comparator does not compare the element counts of its operands (a prefix would compare equal / index out of range)")
		if nme == "polygonsEq" {
			// reviewed: coordinate type carried by the exterior ring comparison
			calls := callsTo(f, "geom.(exactEqualsComparator).lineStringsEq")
			c.Check(len(calls) >= 1, f.Pos(), fn, "coordinates type compared", "through lineStringsEq on the exterior rings, which carry the polygon's coordinates type even when empty", "polygonsEq no longer compares the exterior rings")
		} else {
			c.Check(ctypeCmp, f.Pos(), fn, "coordinates type compared", "CoordinatesType() of both operands compared", "the comparator does not compare the coordinates types on every path to the element-wise comparison (an XY and an XYZ collection of empty members would be 'equal')")
		}
	}
}
