package main

import (
	"fmt"
	"go/token"
	"strings"

	"golang.org/x/tools/go/ssa"
)

func init() {
	register(&Rule{
		ID:    "C20.dispatch",
		Props: []string{"C20", "C15", "C12", "C14"},
		Doc:   "every method of Geometry that dispatches on the tag, interpreted for each of the 7 tags: never reaches its panicking default, and the arm taken for tag K converts the value with MustAsK (the accessor of K's own concrete type) — an arm that converts to another type panics at run time for that geometry type, and an arm routed to the wrong type's method answers for the wrong geometry",
		Floor: 200,
		Run:   runC20Dispatch,
	})
	register(&Rule{
		ID:    "C17.orient",
		Props: []string{"C17"},
		Doc:   "ring orientation, interpreted on modelled ring lists of length 1..3 with every sign pattern of the rings' signed areas: Polygon.forceOrientation reverses ring i iff (i==0 and cw != force) or (i>0 and cw == force), keeps the others and keeps the order; IsCW holds iff the shell is clockwise (negative area) and every hole counter-clockwise; IsCCW the mirror image; so ForceCW/ForceCCW produce polygons for which IsCW/IsCCW hold and are idempotent",
		Floor: 3,
		Run:   runC17Orient,
	})
}

var mustAs0Re = regexp_MustAs0()

var _ ssa.Value

func runC20Dispatch(c *Ctx) {
	byVal, _ := geomTags(c)
	n := 0
	for _, f := range c.P.Funcs {
		if pkgOf(f) != "geom" || f.Parent() != nil || f.Signature.Recv() == nil || namedName(f.Signature.Recv().Type()) != "Geometry" {
			continue
		}
		// does it switch on its own tag?
		switches := false
		eachInstr(f, func(in ssa.Instruction) {
			if bo, ok := in.(*ssa.BinOp); ok && bo.Op == token.EQL {
				if sn, fl, b, ok := fieldLoad(bo.X); ok && sn == "Geometry" && fl == "gtype" && len(f.Params) > 0 && b == ssa.Value(f.Params[0]) {
					if _, isC := constInt(bo.Y); isC {
						switches = true
					}
				}
			}
		})
		if !switches {
			continue
		}
		fn := FuncName(f)
		for t := 0; t < 7; t++ {
			n++
			tn := byVal[int64(t)].Obj().Name()
			construct := "arm for " + tn
			m := &Model{Num: map[string]float64{"$0.gtype": float64(t)}, Bool: map[string]bool{}, Missing: map[string]bool{}}
			// other parameters: numbers 1, bools false
			var res []k4val
			var err error
			var it *k4interp
			for round := 0; round < 6; round++ {
				m.Missing = map[string]bool{}
				it = &k4interp{p: c.P, m: m, mem: map[string]k4val{}}
				var args []k4val
				for i, par := range f.Params {
					k := fmt.Sprintf("$%d", i)
					switch {
					case isBoolT(par.Type()):
						args = append(args, k4val{kind: 1})
					case isNumeric(par.Type()):
						args = append(args, k4val{kind: 2, f: 1})
					default:
						args = append(args, k4val{kind: 3, s: k})
					}
				}
				res, err = it.call(f, args, nil)
				if err == nil || len(m.Missing) == 0 {
					break
				}
				for k := range m.Missing {
					key := strings.SplitN(k, " ", 2)[1]
					if strings.HasPrefix(k, "bool ") {
						m.Bool[key] = false
					} else {
						m.Num[key] = 1
					}
				}
			}
			if err != nil {
				// control flow depends on member values we do not model (loops over members etc.):
				// fall back to the calls made so far
				res = nil
			}
			all := strings.Join(it.calls, " ")
			for _, r := range res {
				all += " " + r.String()
			}
			if len(res) > 0 && res[0].s == "panic" && res[0].kind == 4 {
				// a panic that is the documented behaviour of the method for this type (e.g. MustAs*
				// itself) is recognisable: the method is an accessor, not a dispatcher
				if strings.HasPrefix(f.Name(), "MustAs") || f.Name() == "check" {
					n--
					continue
				}
				c.Bad(f.Pos(), fn, construct, "the "+tn+" tag reaches a panic in this dispatching method")
				continue
			}
			wrong := ""
			for _, mm := range mustAs0Re.FindAllStringSubmatch(all, -1) {
				if mm[1] != tn {
					wrong = mm[1]
				}
			}
			if wrong != "" {
				c.Bad(f.Pos(), fn, construct, fmt.Sprintf("the arm taken for tag %s converts the geometry with MustAs%s, which panics for a %s", tn, wrong, tn))
			} else {
				c.OK(f.Pos(), fn, construct, "converted (if at all) with the accessor of its own type; no panic")
			}
		}
	}
	if n < 200 {
		c.Errorf("only %d (method, tag) pairs examined", n)
	}
}

func runC17Orient(c *Ctx) {
	f := c.P.Func("geom.(Polygon).forceOrientation")
	isCW := c.P.Func("geom.(Polygon).IsCW")
	isCCW := c.P.Func("geom.(Polygon).IsCCW")
	if f == nil || isCW == nil || isCCW == nil {
		c.Errorf("anchors forceOrientation/IsCW/IsCCW do not resolve")
		return
	}
	area := func(i int) string { return fmt.Sprintf("geom.signedAreaOfLinearRing(R[%d],nil)", i) }
	setup := func(n int, mask int) (*Model, *k4interp) {
		m := &Model{Num: map[string]float64{"$0.ctype": 0}, Bool: map[string]bool{}, Missing: map[string]bool{}}
		it := &k4interp{p: c.P, m: m, mem: map[string]k4val{}}
		for i := 0; i < n; i++ {
			v := 5.0
			if mask&(1<<uint(i)) != 0 {
				v = -5
			}
			m.Num[area(i)] = v
			it.mem[fmt.Sprintf("R[%d]", i)] = k4val{kind: 3, s: fmt.Sprintf("R[%d]", i)}
		}
		it.mem["$0.rings"] = k4val{kind: 8, s: "R", ln: n, cp: n}
		return m, it
	}
	problem, undec := "", ""
	models := 0
	for n := 1; n <= 3 && problem == ""; n++ {
		for mask := 0; mask < 1<<uint(n); mask++ {
			for _, force := range []bool{false, true} {
				models++
				m, it := setup(n, mask)
				res, err := it.call(f, []k4val{{kind: 3, s: "$0"}, {kind: 1, b: force}}, nil)
				if err != nil || len(res) != 1 || res[0].kind != 3 {
					undec = fmt.Sprintf("%v %s", err, missingList(m))
					continue
				}
				lst, ok := it.mem[res[0].s+".rings"]
				if !ok || lst.kind != 8 || lst.ln != n {
					problem = fmt.Sprintf("result ring list has the wrong shape for %d rings", n)
					break
				}
				for i := 0; i < n; i++ {
					cw := mask&(1<<uint(i)) != 0
					rev := (i == 0 && cw != force) || (i > 0 && cw == force)
					got := it.mem[fmt.Sprintf("%s[%d]", lst.s, lst.off+i)].String()
					want := fmt.Sprintf("R[%d]", i)
					if rev {
						want = fmt.Sprintf("geom.(LineString).Reverse(R[%d])", i)
					}
					if got != want {
						problem = fmt.Sprintf("forceCW=%v, ring %d of %d (clockwise=%v): stored %s, expected %s", force, i, n, cw, got, want)
					}
				}
			}
		}
	}
	reportK4(c, f, "which rings are reversed", undec, problem, fmt.Sprintf("shell reversed iff its winding differs from the request, holes iff theirs equals it; %d models", models))

	for _, pr := range []struct {
		fn   *ssa.Function
		name string
		want func(i int, cw bool) bool
	}{
		{isCW, "IsCW", func(i int, cw bool) bool { return (i == 0) == cw }},
		{isCCW, "IsCCW", func(i int, cw bool) bool { return (i == 0) != cw }},
	} {
		problem, undec = "", ""
		models = 0
		for n := 1; n <= 3; n++ {
			for mask := 0; mask < 1<<uint(n); mask++ {
				models++
				m, it := setup(n, mask)
				res, err := it.call(pr.fn, []k4val{{kind: 3, s: "$0"}}, nil)
				if err != nil || len(res) != 1 || res[0].kind != 1 {
					undec = fmt.Sprintf("%v %s", err, missingList(m))
					continue
				}
				want := true
				for i := 0; i < n; i++ {
					if !pr.want(i, mask&(1<<uint(i)) != 0) {
						want = false
					}
				}
				if res[0].b != want {
					problem = fmt.Sprintf("%s with ring windings (clockwise bits %03b of %d rings) is %v, expected %v", pr.name, mask, n, res[0].b, want)
				}
			}
		}
		reportK4(c, pr.fn, pr.name+" predicate", undec, problem, fmt.Sprintf("shell and holes wound as required, in all %d models", models))
	}
}
