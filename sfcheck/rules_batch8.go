package main

import (
	"fmt"
	"go/token"
	"go/types"

	"golang.org/x/tools/go/ssa"
)

func init() {
	register(&Rule{
		ID:    "C06.dims",
		Props: []string{"C06", "C08", "C20"},
		Doc:   "UnmarshalGeoJSON selects the coordinates type XYZ only when some position has >= 3 elements AND no position has exactly 2 (mixed input decodes as 2D): the value DimXYZ reaches geojsonNodeToGeometry only on edges guarded by has3D and !has2D, where has2D is set exactly under `length == 2` and has3D under `length >= 3`; otherwise the position readers index element [2] of a 2-element position (index out of range panic)",
		Floor: 1,
		Run:   runC06Dims,
	})
	register(&Rule{
		ID:    "C17.multiorient",
		Props: []string{"C17", "C14"},
		Doc:   "MultiPolygon.forceOrientation interpreted on 1..2 members over every combination of (forceCW, member IsCW, member IsCCW): each stored member is Polygon.forceOrientation(member, forceCW), or the member itself only when it is already oriented as requested (IsCW for forceCW, IsCCW otherwise) — 'not clockwise' does not imply counter-clockwise (a shell and a hole wound the same way are neither)",
		Floor: 1,
		Run:   runC17MultiOrient,
	})
}

// trueOrigins: the guards under which the constant true enters a (loop) phi.
func trueOrigins(v ssa.Value, seen map[ssa.Value]bool, out *[][]Guard) {
	if seen[v] {
		return
	}
	seen[v] = true
	phi, ok := v.(*ssa.Phi)
	if !ok {
		return
	}
	for i, e := range phi.Edges {
		if b, isC := constBool(e); isC && b {
			pred := phi.Block().Preds[i]
			gs := guardsAtBlock(pred)
			// the edge itself may be the taken branch of pred's If
			if ifi, ok := pred.Instrs[len(pred.Instrs)-1].(*ssa.If); ok && pred.Succs[0] != pred.Succs[1] {
				gs = append(gs, Guard{ifi.Cond, pred.Succs[0] == phi.Block()})
			}
			*out = append(*out, gs)
		} else {
			trueOrigins(e, seen, out)
		}
	}
}

func runC06Dims(c *Ctx) {
	f := c.P.Func("geom.UnmarshalGeoJSON")
	if f == nil {
		c.Errorf("anchor geom.UnmarshalGeoJSON does not resolve")
		return
	}
	fn := FuncName(f)
	xyz := lookupConst(c, "geom", "DimXYZ")
	calls := callsTo(f, "geom.geojsonNodeToGeometry")
	if len(calls) != 1 {
		c.Errorf("UnmarshalGeoJSON calls geojsonNodeToGeometry %d times, expected 1", len(calls))
		return
	}
	arg := calls[0].Common().Args[1]
	origins := constOrigins(arg, 0)
	if origins == nil {
		c.Undecided(calls[0].Pos(), fn, "coordinates type decision", "the ctype argument is not a merge of constants (directly or as the result of a helper)")
		return
	}
	// classify a guard set: which comparison on the position length sets a flag
	lenCmp := func(gs []Guard) string {
		for _, g := range gs {
			bo, ok := g.Cond.(*ssa.BinOp)
			if !ok {
				continue
			}
			k, isC := constInt(bo.Y)
			if !isC || !g.Truth {
				continue
			}
			switch {
			case bo.Op == token.EQL && k == 2:
				return "==2"
			case bo.Op == token.GEQ && k == 3, bo.Op == token.GTR && k == 2:
				return ">=3"
			case bo.Op == token.EQL && k == 3:
				return "==3"
			case bo.Op == token.GTR && k == 3:
				return ">3"
			}
		}
		return "?"
	}
	// entries of the length set are only ever stored as true (so set[k] reads "some position has length k")
	onlyTrue := true
	for _, g := range c.P.Funcs {
		if pkgOf(g) != "geom" {
			continue
		}
		eachInstr(g, func(in ssa.Instruction) {
			if mu, ok := in.(*ssa.MapUpdate); ok && types.Identical(mu.Map.Type(), types.NewMap(types.Typ[types.Int], types.Typ[types.Bool])) {
				if k, ok := mu.Value.(*ssa.Const); !ok || k.Value == nil || k.Value.String() != "true" {
					onlyTrue = false
				}
			}
		})
	}
	flagKind := func(v ssa.Value) string {
		if lk, ok := v.(*ssa.Lookup); ok && !lk.CommaOk && onlyTrue {
			if k, isC := constInt(lk.Index); isC && k == 2 {
				return "==2"
			}
		}
		var origins [][]Guard
		trueOrigins(v, map[ssa.Value]bool{}, &origins)
		kinds := map[string]bool{}
		for _, gs := range origins {
			kinds[lenCmp(gs)] = true
		}
		if len(kinds) == 1 {
			for k := range kinds {
				return k
			}
		}
		return "?"
	}
	// the same decision kept as one number: the shortest position length seen (a running
	// minimum over the keys of the length set, which admits every length from 2 up, and
	// starts from a "none yet" value below 2). "shortest >= 3" then says both that some
	// position has >= 3 elements and that none has exactly 2.
	shortestAtLeast3 := func(g Guard) bool {
		bo, ok := g.Cond.(*ssa.BinOp)
		if !ok || !g.Truth || !onlyTrue {
			return false
		}
		k, isC := constInt(stripConv(bo.Y))
		if !isC || !((bo.Op == token.GEQ && k == 3) || (bo.Op == token.GTR && k == 2)) {
			return false
		}
		phi, ok := stripConv(bo.X).(*ssa.Phi)
		if !ok {
			return false
		}
		h := phi.Block()
		inLoop := func(b *ssa.BasicBlock) bool { return b == h || (h.Dominates(b) && reaches(b, h, nil)) }
		// the loop ranges over a map[int]bool; its key is the element
		var key ssa.Value
		for _, in := range h.Instrs {
			nx, ok := in.(*ssa.Next)
			if !ok {
				continue
			}
			rg, ok := nx.Iter.(*ssa.Range)
			if !ok || !types.Identical(rg.X.Type().Underlying(), types.NewMap(types.Typ[types.Int], types.Typ[types.Bool])) {
				continue
			}
			for _, r := range *nx.Referrers() {
				if ex, ok := r.(*ssa.Extract); ok && ex.Index == 1 {
					key = ex
				}
			}
		}
		if key == nil {
			return false
		}
		idiom, isMin, from := sentinelMinMaxDir(phi, key, inLoop)
		return idiom && isMin && from <= 2 && from > -1<<62
	}
	n := 0
	for _, o := range origins {
		if o.k != xyz {
			continue
		}
		n++
		gs := o.gs
		no2D, has3D := false, false
		for _, g := range gs {
			if shortestAtLeast3(g) {
				no2D, has3D = true, true
			}
			switch flagKind(g.Cond) {
			case "==2":
				if !g.Truth {
					no2D = true
				}
			case ">=3":
				if g.Truth {
					has3D = true
				}
			}
		}
		switch {
		case no2D && has3D:
			c.OK(calls[0].Pos(), fn, "coordinates type decision", "XYZ is chosen only when a position has >= 3 elements and none has exactly 2")
		case !no2D:
			c.Bad(calls[0].Pos(), fn, "coordinates type decision", "XYZ can be chosen although some position has exactly 2 elements (no `!has2D` condition, or has2D is not set under `length == 2`): the Z ordinate of that position is read out of range — a panic on mixed 2D/3D input")
		default:
			c.Bad(calls[0].Pos(), fn, "coordinates type decision", "XYZ can be chosen without any position having >= 3 elements")
		}
	}
	if n == 0 {
		c.Bad(calls[0].Pos(), fn, "coordinates type decision", "DimXYZ never reaches the decoder: 3D GeoJSON would lose Z")
	}
}

func runC17MultiOrient(c *Ctx) {
	f := c.P.Func("geom.(MultiPolygon).forceOrientation")
	if f == nil {
		c.Errorf("anchor geom.(MultiPolygon).forceOrientation does not resolve")
		return
	}
	problem, undec := "", ""
	models := 0
	for n := 1; n <= 2 && problem == ""; n++ {
		for mask := 0; mask < 1<<uint(2*n); mask++ {
			for _, force := range []bool{false, true} {
				m := &Model{Num: map[string]float64{"$0.ctype": 0}, Bool: map[string]bool{}, Missing: map[string]bool{}}
				skip := false
				for i := 0; i < n; i++ {
					cw, ccw := mask&(1<<uint(2*i)) != 0, mask&(1<<uint(2*i+1)) != 0
					if cw && ccw {
						skip = true // only the empty polygon is both; not modelled
					}
					m.Bool[fmt.Sprintf("geom.(Polygon).IsCW(P[%d])", i)] = cw
					m.Bool[fmt.Sprintf("geom.(Polygon).IsCCW(P[%d])", i)] = ccw
				}
				if skip {
					continue
				}
				models++
				it := &k4interp{p: c.P, m: m, mem: map[string]k4val{}, inline: func(g *ssa.Function) bool {
					n := FuncName(g)
					return n == "geom.(MultiPolygon).NumPolygons" || n == "geom.(MultiPolygon).PolygonN"
				}}
				for i := 0; i < n; i++ {
					it.mem[fmt.Sprintf("P[%d]", i)] = k4val{kind: 3, s: fmt.Sprintf("P[%d]", i)}
				}
				it.mem["$0.polys"] = k4val{kind: 8, s: "P", ln: n, cp: n}
				res, err := it.call(f, []k4val{{kind: 3, s: "$0"}, {kind: 1, b: force}}, nil)
				if err != nil || len(res) != 1 || res[0].kind != 3 {
					undec = fmt.Sprintf("%v %s", err, missingList(m))
					continue
				}
				lst, ok := it.mem[res[0].s+".polys"]
				if !ok || lst.kind != 8 || lst.ln != n {
					problem = "result member list has the wrong shape"
					break
				}
				for i := 0; i < n; i++ {
					got := it.mem[fmt.Sprintf("%s[%d]", lst.s, lst.off+i)].String()
					forced := fmt.Sprintf("geom.(Polygon).forceOrientation(P[%d],%v)", i, force)
					already := (force && m.Bool[fmt.Sprintf("geom.(Polygon).IsCW(P[%d])", i)]) || (!force && m.Bool[fmt.Sprintf("geom.(Polygon).IsCCW(P[%d])", i)])
					if got != forced && !(already && got == fmt.Sprintf("P[%d]", i)) {
						problem = fmt.Sprintf("forceCW=%v, member %d with IsCW=%v IsCCW=%v is stored as %s; it must be re-oriented (%s) unless it already has the requested orientation", force, i, m.Bool[fmt.Sprintf("geom.(Polygon).IsCW(P[%d])", i)], m.Bool[fmt.Sprintf("geom.(Polygon).IsCCW(P[%d])", i)], got, forced)
					}
				}
			}
		}
	}
	reportK4(c, f, "members re-oriented", undec, problem, fmt.Sprintf("every member is forced (or provably already oriented), in all %d models", models))
}

// constOrigin: an integer constant that can flow into a value, with the branch
// conditions under which it does.
type constOrigin struct {
	k  int64
	gs []Guard
}

// constOrigins resolves v to the constants merged into it: through phis (with
// the guards of each incoming edge) and through the returns of a repository
// helper that computes it. nil when some origin is not a constant.
func constOrigins(v ssa.Value, depth int) []constOrigin {
	if depth > 4 {
		return nil
	}
	switch x := v.(type) {
	case *ssa.Const:
		if k, ok := constInt(x); ok {
			return []constOrigin{{k: k}}
		}
	case *ssa.Phi:
		var out []constOrigin
		for i, e := range x.Edges {
			pred := x.Block().Preds[i]
			gs := guardsAtBlock(pred)
			if ifi, ok := pred.Instrs[len(pred.Instrs)-1].(*ssa.If); ok && pred.Succs[0] != pred.Succs[1] {
				gs = append(gs, Guard{ifi.Cond, pred.Succs[0] == x.Block()})
			}
			sub := constOrigins(e, depth+1)
			if sub == nil {
				return nil
			}
			for _, o := range sub {
				out = append(out, constOrigin{o.k, append(append([]Guard{}, gs...), o.gs...)})
			}
		}
		return out
	case *ssa.Call:
		cal := staticCallee(x)
		if cal == nil || cal.Blocks == nil || cal.Signature.Results().Len() != 1 {
			return nil
		}
		var out []constOrigin
		for _, r := range returnsOf(cal) {
			sub := constOrigins(r.Results[0], depth+1)
			if sub == nil {
				return nil
			}
			gs := guardsAt(r)
			for _, o := range sub {
				out = append(out, constOrigin{o.k, append(append([]Guard{}, gs...), o.gs...)})
			}
		}
		return out
	}
	return nil
}
