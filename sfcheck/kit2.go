package main

import (
	"go/token"
	"go/types"
	"regexp"

	"golang.org/x/tools/go/ssa"
)

// fieldLoad: v is a read of struct field (load through FieldAddr, or Field).
func fieldLoad(v ssa.Value) (structName, field string, base ssa.Value, ok bool) {
	switch x := v.(type) {
	case *ssa.UnOp:
		if x.Op != token.MUL {
			return
		}
		fa, isFA := x.X.(*ssa.FieldAddr)
		if !isFA {
			return
		}
		structName, field = fieldOfAddr(fa)
		base, _ = baseObject(fa.X)
		return structName, field, base, true
	case *ssa.Field:
		structName, field = fieldOfField(x)
		base, _ = baseObject(x.X)
		return structName, field, base, true
	}
	return
}

// boolFieldGuard: among the guards at `in`, find one whose condition is a
// read of structName.field (a bool field); returns its truth.
func boolFieldGuard(in ssa.Instruction, structName, field string) (truth, found bool) {
	for _, g := range guardsAt(in) {
		if sn, fn, _, ok := fieldLoad(g.Cond); ok && sn == structName && fn == field {
			return g.Truth, true
		}
	}
	return false, false
}

// callsTo lists call instructions in f whose static callee has the canonical name.
func callsTo(f *ssa.Function, name string) []ssa.CallInstruction {
	var out []ssa.CallInstruction
	eachCall(f, func(c ssa.CallInstruction) {
		if cal := staticCallee(c); cal != nil && extName(cal) == name {
			out = append(out, c)
		}
	})
	return out
}

// instrDominates: a executes before b on every path to b.
func instrDominates(a, b ssa.Instruction) bool {
	if a.Block() == b.Block() {
		for _, in := range a.Block().Instrs {
			if in == a {
				return true
			}
			if in == b {
				return false
			}
		}
		return false
	}
	return a.Block().Dominates(b.Block())
}

// callersOf lists call instructions (in repository functions) whose static
// callee is f.
func (p *Program) callersOf(f *ssa.Function) []ssa.CallInstruction {
	var out []ssa.CallInstruction
	for _, g := range p.Funcs {
		eachCall(g, func(c ssa.CallInstruction) {
			if staticCallee(c) == f {
				out = append(out, c)
			}
		})
	}
	return out
}

// methodsOf lists source functions that are methods with the given receiver
// type name (pointer or value) in package pkg, plus their anonymous functions.
func (p *Program) methodsOf(pkg, recv string) []*ssa.Function {
	var out []*ssa.Function
	for _, f := range p.Funcs {
		root := f
		for root.Parent() != nil {
			root = root.Parent()
		}
		if pkgOf(root) != pkg || root.Signature.Recv() == nil {
			continue
		}
		if namedName(root.Signature.Recv().Type()) == recv {
			out = append(out, f)
		}
	}
	return out
}

// isCallTo reports whether v is a call whose static callee has the name.
func isCallTo(v ssa.Value, name string) (*ssa.Call, bool) {
	c, ok := v.(*ssa.Call)
	if !ok {
		return nil, false
	}
	if cal := staticCallee(c); cal != nil && extName(cal) == name {
		return c, true
	}
	return nil, false
}

// lenOf: v is len(x); returns x.
func lenOf(v ssa.Value) (ssa.Value, bool) {
	c, ok := v.(*ssa.Call)
	if !ok {
		return nil, false
	}
	b, ok := c.Call.Value.(*ssa.Builtin)
	if !ok || b.Name() != "len" {
		return nil, false
	}
	return c.Call.Args[0], true
}

// resultType0 is the type of the first result of f.
func resultType0(f *ssa.Function) types.Type {
	r := f.Signature.Results()
	if r.Len() == 0 {
		return nil
	}
	return r.At(0).Type()
}

// stripLoad: if v is a load from a single-store local cell, return the stored
// value (looks through `x := expr` for address-taken locals).
func stripLoad(v ssa.Value) ssa.Value {
	for i := 0; i < 6; i++ {
		u, ok := v.(*ssa.UnOp)
		if !ok || u.Op != token.MUL {
			return v
		}
		a, ok := u.X.(*ssa.Alloc)
		if !ok {
			return v
		}
		st := uniqueStore(a)
		if st == nil {
			return v
		}
		v = st
	}
	return v
}

func constIntFromConstant(k *types.Const) (int64, bool) {
	v, ok := constantInt64(k)
	return v, ok
}

func isSliceType(t types.Type) bool {
	_, ok := t.Underlying().(*types.Slice)
	return ok
}

func regexp_MustAs0() *regexp.Regexp {
	return regexp.MustCompile(`geom\.\(Geometry\)\.MustAs([A-Za-z]+)\(\$0\)`)
}
