package main

import (
	"go/token"
	"go/types"
	"strings"

	"golang.org/x/tools/go/ssa"
)

func init() {
	register(&Rule{
		ID:    "C04.ctype",
		Props: []string{"C04", "C05", "C06", "C16"},
		Doc:   "decoder ctype-flow: in every WKB / WKT / GeoJSON parser routine with a CoordinatesType parameter, each geometry returned on a non-error path is built from that parameter (NewSequence(_,ctype), NewEmptyPoint(ctype), X{}.ForceCoordinatesType(ctype), Coordinates{Type:ctype}), forwards another routine's result, or is a collection constructor over a list proven non-empty — never a bare zero literal or a constructor over a possibly empty list",
		Floor: 40,
		Run:   runC04Ctype,
	})
}

func runC04Ctype(c *Ctx) {
	var set []*ssa.Function
	for _, recv := range []string{"wkbParser", "parser"} {
		for _, f := range c.P.methodsOf("geom", recv) {
			if f.Parent() == nil {
				set = append(set, f)
			}
		}
	}
	if f := c.P.Func("geom.geojsonNodeToGeometry"); f != nil {
		set = append(set, f)
	} else {
		c.Errorf("anchor geom.geojsonNodeToGeometry does not resolve")
	}
	// only routines that have a CoordinatesType parameter are in scope as sources;
	// the others (run, inner, nextGeometryTaggedText) obtain it from a callee.
	isSrc := func(v ssa.Value) bool {
		switch x := v.(type) {
		case *ssa.Parameter:
			return namedName(x.Type()) == "CoordinatesType"
		case *ssa.Extract:
			// ctype obtained from the tag parser: nextGeomTag / parseGeomAndCoordType
			if call, ok := x.Tuple.(*ssa.Call); ok {
				return namedName(x.Type()) == "CoordinatesType" && staticCallee(call) != nil
			}
		}
		return false
	}
	n := checkCtypeFlow(c, set, isSrc, "the ctype parameter")
	if n < 40 {
		c.Errorf("only %d non-error returns found in the WKB/WKT/GeoJSON parser routines", n)
	}
}

func init() {
	register(&Rule{
		ID:    "C16.fill",
		Props: []string{"C16", "C20", "C12", "C13", "C17", "C14"},
		Doc:   "a list of geometries allocated with make([]G, n) and filled by index with the loop's own induction variable is assigned on every path through the loop body: a skipped iteration leaves a zero-value (XY, empty) geometry in the list, which reduces the coordinates type of the whole collection and replaces a member",
		Floor: 20,
		Run:   runC16Fill,
	})
}

// inductionPhi: phi in a loop header whose back-edge operands are all phi+1.
func inductionPhi(v ssa.Value) (*ssa.Phi, bool) {
	// range loops index with the incremented value: i' = phi + 1 computed in the header
	if bo, ok := v.(*ssa.BinOp); ok && bo.Op == token.ADD {
		if p, ok := bo.X.(*ssa.Phi); ok {
			if k, ok := constInt(bo.Y); ok && k == 1 {
				for i, e := range p.Edges {
					if p.Block().Dominates(p.Block().Preds[i]) && e == ssa.Value(bo) && bo.Block() == p.Block() {
						return p, true
					}
				}
			}
		}
	}
	phi, ok := v.(*ssa.Phi)
	if !ok {
		return nil, false
	}
	inc := 0
	for i, e := range phi.Edges {
		pred := phi.Block().Preds[i]
		if phi.Block().Dominates(pred) { // back edge
			bo, ok := e.(*ssa.BinOp)
			if !ok || bo.Op != token.ADD || bo.X != ssa.Value(phi) {
				return nil, false
			}
			if k, ok := constInt(bo.Y); !ok || k != 1 {
				return nil, false
			}
			inc++
		}
	}
	return phi, inc > 0
}

func runC16Fill(c *Ctx) {
	n := 0
	for _, f := range c.P.Funcs {
		if pkgOf(f) != "geom" {
			continue
		}
		fn := FuncName(f)
		eachInstr(f, func(in ssa.Instruction) {
			ms, ok := in.(*ssa.MakeSlice)
			if !ok {
				return
			}
			if k, isC := constInt(ms.Len); isC && k == 0 {
				return
			}
			el := ms.Type().Underlying().(*types.Slice).Elem()
			en := namedName(el)
			if !(geomTypeNames[en] || en == "Sequence" || en == "XY" || en == "Coordinates" || en == "line") || pkgOfType(el) != "geom" {
				return
			}
			// element stores indexed by an induction variable
			type storeAt struct {
				st  *ssa.Store
				phi *ssa.Phi
			}
			var stores []storeAt
			var visit func(v ssa.Value, d int)
			seen := map[ssa.Value]bool{}
			visit = func(v ssa.Value, d int) {
				if d > 4 || seen[v] || v.Referrers() == nil {
					return
				}
				seen[v] = true
				for _, r := range *v.Referrers() {
					switch x := r.(type) {
					case *ssa.IndexAddr:
						if x.X != v {
							continue
						}
						phi, isInd := inductionPhi(x.Index)
						for _, rr := range *x.Referrers() {
							if st, ok := rr.(*ssa.Store); ok && st.Addr == x && isInd {
								stores = append(stores, storeAt{st, phi})
							}
						}
					case *ssa.Store:
						// stored into a local variable: follow its loads
						if a, ok := x.Addr.(*ssa.Alloc); ok && x.Val == v {
							for _, r2 := range *a.Referrers() {
								if ld, ok := r2.(*ssa.UnOp); ok && ld.Op == token.MUL {
									visit(ld, d+1)
								}
							}
						}
					case *ssa.Phi:
						visit(x, d+1)
					}
				}
			}
			visit(ms, 0)
			if len(stores) == 0 {
				return
			}
			n++
			construct := "fill make([]" + en + ", n) by loop index"
			// group by loop (header block of the induction phi)
			byHeader := map[*ssa.BasicBlock][]*ssa.BasicBlock{}
			for _, s := range stores {
				byHeader[s.phi.Block()] = append(byHeader[s.phi.Block()], s.st.Block())
			}
			for h, sblocks := range byHeader {
				isStore := map[*ssa.BasicBlock]bool{}
				for _, b := range sblocks {
					isStore[b] = true
				}
				// search from the header's successors that stay in the loop back to the header,
				// avoiding store blocks
				seenB := map[*ssa.BasicBlock]bool{}
				var work []*ssa.BasicBlock
				for _, s := range h.Succs {
					if h.Dominates(s) && reaches(s, h, nil) {
						work = append(work, s)
					}
				}
				holeAt := (*ssa.BasicBlock)(nil)
				for len(work) > 0 && holeAt == nil {
					b := work[len(work)-1]
					work = work[:len(work)-1]
					if seenB[b] || isStore[b] || !h.Dominates(b) {
						continue
					}
					seenB[b] = true
					for _, s := range b.Succs {
						if s == h {
							holeAt = b
							break
						}
						work = append(work, s)
					}
				}
				if holeAt != nil {
					pos := holeAt.Instrs[len(holeAt.Instrs)-1].Pos()
					if !pos.IsValid() {
						pos = ms.Pos()
					}
					c.Bad(ms.Pos(), fn, construct, "some path through the filling loop reaches the next iteration without assigning element [i] (back edge from the block ending at "+c.P.Pos(pos)+"): that slot keeps the zero-value geometry, which is XY and empty, so the collection built from the list loses Z/M and a member is replaced")
					return
				}
			}
			c.OK(ms.Pos(), fn, construct, "every path through the loop body assigns element [i] before the next iteration")
		})
	}
	if n < 20 {
		c.Errorf("only %d index-filled geometry lists found", n)
	}
}

func pkgOfType(t types.Type) string {
	if n, ok := deref(t).(*types.Named); ok && n.Obj().Pkg() != nil {
		return n.Obj().Pkg().Name()
	}
	return ""
}

func init() {
	register(&Rule{
		ID:    "C16.carry",
		Props: []string{"C16", "C17"},
		Doc:   "structure-preserving methods (Reverse, TransformXY, SnapToGrid, Densify, Simplify, ForceCW/CCW, forceOrientation, Force2D excluded) of the seven geometry types never return a bare zero literal or a constructor over a possibly-empty list: every returned geometry is built from the receiver's coordinates type (literal with the receiver's ctype, X{}.ForceCoordinatesType(recv type), New*(non-empty list), or a recursive structure-preserving call)",
		Floor: 40,
		Run:   runC16Carry,
	})
}

var carryMethods = map[string]bool{"Reverse": true, "TransformXY": true, "SnapToGrid": true, "Densify": true, "Simplify": true, "ForceCW": true, "ForceCCW": true, "forceOrientation": true, "AsMultiPoint": true, "AsMultiLineString": true, "AsMultiPolygon": true}

func runC16Carry(c *Ctx) {
	n := 0
	for _, f := range c.P.Funcs {
		if pkgOf(f) != "geom" || f.Parent() != nil || f.Signature.Recv() == nil || !carryMethods[f.Name()] {
			continue
		}
		recvT := namedName(f.Signature.Recv().Type())
		if !geomTypeNames[recvT] {
			continue
		}
		if strings.HasPrefix(f.Name(), "AsMulti") && recvT == "Geometry" {
			continue // the comma-ok conversions of Geometry: their zero literal goes with ok = false
		}
		rt := resultType0(f)
		if rt == nil || (namedName(rt) != recvT && !(strings.HasPrefix(f.Name(), "AsMulti") && geomTypeNames[namedName(rt)])) {
			continue
		}
		recv := f.Params[0]
		isSrc := func(v ssa.Value) bool {
			// the receiver itself, any field of it, or any method call on it
			b, _ := baseObject(v)
			if b == ssa.Value(recv) {
				return true
			}
			if call, ok := v.(*ssa.Call); ok && len(call.Call.Args) > 0 {
				b, _ := baseObject(call.Call.Args[0])
				return b == ssa.Value(recv)
			}
			return false
		}
		n += checkCtypeFlow(c, []*ssa.Function{f}, isSrc, "the receiver")
	}
	if n < 40 {
		c.Errorf("only %d returns of structure-preserving methods found", n)
	}
}
