package main

import (
	"fmt"
	"go/token"
	"strings"

	"golang.org/x/tools/go/ssa"
)

func init() {
	register(&Rule{
		ID:    "C03.probe",
		Props: []string{"C03"},
		Doc:   "a point-in-ring/polygon probe whose probe point is a control point of another ring (Sequence.GetXY(k), no arithmetic) can land exactly on the boundary when rings touch, so its three-valued result must be consumed three-valued (compared against at least two distinct side constants) — a one-constant test silently treats 'on the boundary' as one of the other answers and makes the verdict depend on the ring's start vertex",
		Floor: 2,
		Run:   runC03Probe,
	})
}

func runC03Probe(c *Ctx) {
	n, ctrl := 0, 0
	for _, f := range c.P.Funcs {
		if pkgOf(f) != "geom" {
			continue
		}
		fn := FuncName(f)
		eachCall(f, func(call ssa.CallInstruction) {
			name := calleeName(call)
			if name != "geom.relatePointToRing" && name != "geom.relatePointToPolygon" {
				return
			}
			n++
			pt := stripLoad(call.Common().Args[0])
			construct := "probe " + strings.TrimPrefix(name, "geom.")
			gx, isCall := pt.(*ssa.Call)
			if !isCall || calleeName(gx) != "geom.(Sequence).GetXY" {
				ps, _ := accessPath(pt)
				c.Triv(call.Pos(), fn, construct+" with "+trunc(ps), "probe point is not a raw control point of a ring (caller-supplied or computed point): out of scope")
				return
			}
			ctrl++
			construct += " with a ring control point"
			v := call.Value()
			consts := map[int64]bool{}
			if v != nil {
				for _, r := range *v.Referrers() {
					if bo, ok := r.(*ssa.BinOp); ok && (bo.Op == token.EQL || bo.Op == token.NEQ) {
						for _, o := range []ssa.Value{bo.X, bo.Y} {
							if k, ok := constInt(o); ok {
								consts[k] = true
							}
						}
					}
				}
			}
			if len(consts) >= 2 {
				c.OK(call.Pos(), fn, construct, fmt.Sprintf("result compared against %d distinct side constants: 'on the boundary' is handled separately", len(consts)))
				return
			}
			// reviewed exception: MultiPolygon fast case, valid only under the guard that the
			// boundaries share no point at all.
			emptyGuard := func(at ssa.Instruction) bool {
				for _, g := range guardsAt(at) {
					if gc, ok := g.Cond.(*ssa.Call); ok && g.Truth && calleeName(gc) == "geom.(MultiPoint).IsEmpty" {
						return true
					}
				}
				return false
			}
			inMPCheck := strings.HasPrefix(fn, "geom.(MultiPolygon).checkMultiPolygonConstraints")
			guarded := inMPCheck && emptyGuard(call.(ssa.Instruction))
			if !inMPCheck && isNewHelper(f) && f.Parent() == nil {
				// the probe was moved into a helper: the guard is at its call sites
				sites := c.P.callSitesOf(f)
				guarded = len(sites) > 0
				for _, cs := range sites {
					if !strings.HasPrefix(FuncName(cs.Parent()), "geom.(MultiPolygon).checkMultiPolygonConstraints") || !emptyGuard(cs.(ssa.Instruction)) {
						guarded = false
					}
				}
			}
			if inMPCheck || guarded {
				if guarded {
					c.Except(call.Pos(), fn, construct, "executed only when the boundary intersection is empty (dominating interMP.IsEmpty() guard, after interMLS was found empty), so the probe vertex cannot lie on the other boundary")
					return
				}
			}
			c.Bad(call.Pos(), fn, construct, "the probe point is a vertex of another ring, which lies ON this ring whenever the rings touch there, but the result is tested against a single side constant: the touching case is silently folded into the wrong answer (verdict depends on which vertex the ring starts at)")
		})
	}
	if ctrl < 3 {
		c.Errorf("found %d control-point probes (of %d probes), expected >= 3", ctrl, n)
	}
}
