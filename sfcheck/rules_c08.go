package main

import (
	"fmt"
	"go/token"
	"go/types"
	"sort"
	"strings"

	"golang.org/x/tools/go/ssa"
)

// decoderEntries: the exported decoding entry points of package geom —
// functions named Unmarshal*, and the Scan / UnmarshalJSON adapter methods.
func decoderEntries(p *Program) []*ssa.Function {
	var out []*ssa.Function
	for _, f := range p.Funcs {
		if f.Parent() != nil || f.Pkg == nil || f.Pkg.Pkg.Name() != "geom" {
			continue
		}
		n := f.Name()
		if f.Signature.Recv() == nil {
			if strings.HasPrefix(n, "Unmarshal") && token.IsExported(n) {
				out = append(out, f)
			}
			continue
		}
		if n == "Scan" || n == "UnmarshalJSON" {
			out = append(out, f)
		}
	}
	sort.Slice(out, func(i, j int) bool { return FuncName(out[i]) < FuncName(out[j]) })
	return out
}

// countSource: values read from the input that denote a count/size chosen by
// the sender: results of binary.Uvarint/Varint (value part) and of the
// fixed-width integer readers.
func countSource(v ssa.Value) bool {
	switch x := v.(type) {
	case *ssa.Extract:
		if x.Index != 0 {
			return false
		}
		c, ok := x.Tuple.(*ssa.Call)
		if !ok {
			return false
		}
		switch calleeName(c) {
		case "encoding/binary.Uvarint", "encoding/binary.Varint":
			return true
		}
	case *ssa.Call:
		n := calleeName(x)
		if strings.HasPrefix(n, "(encoding/binary.bigEndian).Uint") || strings.HasPrefix(n, "(encoding/binary.littleEndian).Uint") {
			return true
		}
		if x.Call.IsInvoke() && x.Call.Method.Pkg() != nil && x.Call.Method.Pkg().Path() == "encoding/binary" && strings.HasPrefix(x.Call.Method.Name(), "Uint") {
			return true
		}
	}
	return false
}

// isInputLen: v is len(X) with X a []byte/string that is not allocated in the
// function (a parameter, a field load, or a re-slice of those).
func isInputLen(v ssa.Value) bool {
	c, ok := v.(*ssa.Call)
	if !ok {
		return false
	}
	b, ok := c.Call.Value.(*ssa.Builtin)
	if !ok || b.Name() != "len" {
		return false
	}
	x := c.Call.Args[0]
	switch t := x.Type().Underlying().(type) {
	case *types.Slice:
		if bt, ok := t.Elem().Underlying().(*types.Basic); !ok || bt.Kind() != types.Byte {
			return false
		}
	case *types.Basic:
		if t.Info()&types.IsString == 0 {
			return false
		}
	default:
		return false
	}
	for i := 0; i < 8; i++ {
		switch y := x.(type) {
		case *ssa.Slice:
			x = y.X
			continue
		case *ssa.Parameter:
			return true
		case *ssa.UnOp:
			if y.Op == token.MUL {
				switch a := y.X.(type) {
				case *ssa.FieldAddr:
					return true
				case *ssa.Alloc:
					if st := uniqueStore(a); st != nil {
						x = st
						continue
					}
				}
			}
			return false
		case *ssa.Field:
			return true
		}
		return false
	}
	return false
}

// boundedByInput reports whether a guard holding at `at` bounds a value
// carrying the taint source `src` (or structurally equal to size) from above
// by an expression over the remaining input length.
func boundedByInput(t *Taint, at ssa.Instruction, size ssa.Value, src ssa.Value) (string, bool) {
	carriesV := func(v ssa.Value) bool {
		if v == size || sameValue(v, size) {
			return true
		}
		s, ok := t.Of(v)
		return ok && s == src
	}
	gs := guardsAt(at)
	via := map[ssa.Value]string{}
	// a dominating `helper(count, …) returned a nil error` contributes the
	// conditions that hold on every nil-error return of the helper, provided the
	// helper's parameters occurring in them receive the count at this call
	for _, g := range gs {
		call := nilErrorCall(g)
		if call == nil {
			continue
		}
		cal := staticCallee(call)
		if cal == nil || cal.Blocks == nil {
			continue
		}
		for _, hg := range nilReturnGuards(cal) {
			okArgs := true
			operandTreeAny(hg.Cond, func(v ssa.Value) bool {
				if par, isPar := v.(*ssa.Parameter); isPar {
					if _, tainted := t.Of(par); tainted {
						idx := paramIndex(cal, par)
						if idx < 0 || idx >= len(call.Call.Args) || !operandTreeAny(call.Call.Args[idx], carriesV) {
							okArgs = false
						}
					}
				}
				return false
			})
			if okArgs {
				gs = append(gs, hg)
				via[hg.Cond] = " (established by " + FuncName(cal) + " returning a nil error)"
			}
		}
	}
	for _, g := range gs {
		bo, ok := g.Cond.(*ssa.BinOp)
		if !ok {
			continue
		}
		var lessOps bool // true if op (with truth) establishes X < Y or X <= Y
		switch {
		case (bo.Op == token.LSS || bo.Op == token.LEQ) && g.Truth:
			lessOps = true
		case (bo.Op == token.GTR || bo.Op == token.GEQ) && !g.Truth:
			lessOps = true
		case (bo.Op == token.GTR || bo.Op == token.GEQ) && g.Truth:
			lessOps = false
		case (bo.Op == token.LSS || bo.Op == token.LEQ) && !g.Truth:
			lessOps = false
		default:
			continue
		}
		small, big := bo.X, bo.Y
		if !lessOps {
			small, big = bo.Y, bo.X
		}
		// small must carry the taint; big must contain len(input) and no taint
		carries := operandTreeAny(small, func(v ssa.Value) bool {
			if v == size || sameValue(v, size) {
				return true
			}
			s, ok := t.Of(v)
			return ok && s == src
		})
		if !carries {
			continue
		}
		// a product/sum/shift of a 64-bit input value can wrap around and slip
		// under the bound: such a comparison bounds nothing
		if operandTreeAny(small, func(v ssa.Value) bool {
			bo2, ok := v.(*ssa.BinOp)
			if !ok || (bo2.Op != token.MUL && bo2.Op != token.SHL && bo2.Op != token.ADD) {
				return false
			}
			for _, op := range []ssa.Value{bo2.X, bo2.Y} {
				if _, tainted := t.Of(op); tainted && wide64(op) {
					return true
				}
			}
			return false
		}) {
			continue
		}
		hasLen := operandTreeAny(big, isInputLen)
		bigTainted := operandTreeAny(big, func(v ssa.Value) bool { _, ok := t.Of(v); return ok && !isInputLen(v) })
		if hasLen && !bigTainted {
			s, _ := accessPath(g.Cond)
			return fmt.Sprintf("dominating guard %s is %v%s", s, g.Truth, via[g.Cond]), true
		}
	}
	return "", false
}

func init() {
	register(&Rule{
		ID:    "C08.alloc",
		Props: []string{"C08"},
		Doc:   "no allocation (make) in decoder-reachable code is sized by a count read from the input unless a dominating comparison bounds that count by the remaining input length (taint: binary.Uvarint/Varint/UintN results through arithmetic, conversions, locals, fields, parameters and returns)",
		Floor: 30,
		Run:   runC08Alloc,
	})
}

func runC08Alloc(c *Ctx) {
	entries := decoderEntries(c.P)
	if len(entries) < 26 {
		c.Errorf("only %d decoder entry points found, expected >= 26", len(entries))
	}
	reach := c.P.reachableFrom(entries...)
	t := newTaint(c.P, countSource)
	nTainted := 0
	for _, f := range c.P.Funcs {
		if !reach[f] {
			continue
		}
		fn := FuncName(f)
		eachInstr(f, func(in ssa.Instruction) {
			var sizes []ssa.Value
			var what string
			switch x := in.(type) {
			case *ssa.MakeSlice:
				sizes = []ssa.Value{x.Len, x.Cap}
				what = "make(" + typeShort(x.Type()) + ")"
			case *ssa.MakeMap:
				if x.Reserve != nil {
					sizes = []ssa.Value{x.Reserve}
				}
				what = "make(" + typeShort(x.Type()) + ")"
			case *ssa.MakeChan:
				sizes = []ssa.Value{x.Size}
				what = "make(chan)"
			default:
				return
			}
			var src ssa.Value
			var size ssa.Value
			for _, s := range sizes {
				if s == nil {
					continue
				}
				if sv, ok := t.Of(s); ok {
					src, size = sv, s
					break
				}
			}
			if src == nil {
				sp := "-"
				if len(sizes) > 0 && sizes[0] != nil {
					sp, _ = accessPath(sizes[0])
				}
				c.Triv(in.Pos(), fn, what+" size "+sp, "size is not derived from an input count field")
				return
			}
			nTainted++
			sp, _ := accessPath(size)
			srcName := describeSource(src)
			construct := what + " size<-" + srcName
			if fact, ok := boundedByInput(t, in, size, src); ok {
				c.OK(in.Pos(), fn, construct, fact)
				return
			}
			// parameter-sized: accept when every call site bounds the argument
			if pars := sizeParams(size); len(pars) > 0 {
				all := len(t.callers[f]) > 0
				for _, call := range t.callers[f] {
					for _, par := range pars {
						idx := paramIndex(f, par)
						if idx < 0 || idx >= len(call.Common().Args) {
							all = false
							continue
						}
						arg := call.Common().Args[idx]
						if _, tainted := t.Of(arg); !tainted {
							continue
						}
						if _, ok := boundedByInput(t, call, arg, src); !ok {
							all = false
						}
					}
				}
				if all {
					c.OK(in.Pos(), fn, construct, "the size is a function of the parameters only, and every call site passing an input-derived count bounds it by the input length first")
					return
				}
			}
			c.Bad(in.Pos(), fn, construct, fmt.Sprintf("allocation sized by %s, which derives from an input count (%s at %s), with no dominating comparison against the remaining input length: a short input can reserve memory out of proportion or panic in makeslice", sp, srcName, c.P.Pos(src.Pos())))
		})
	}
	if nTainted < 3 {
		c.Errorf("only %d input-count-sized allocations found, expected >= 3 (taint sources no longer recognised?)", nTainted)
	}
}

func describeSource(src ssa.Value) string {
	switch x := src.(type) {
	case *ssa.Extract:
		if c, ok := x.Tuple.(*ssa.Call); ok {
			return calleeName(c)
		}
	case *ssa.Call:
		return calleeName(x)
	}
	return src.Name()
}

// sizeParams: the parameters a size expression is computed from, when it is a
// function of parameters and constants only (arithmetic, conversions, len of a
// slice made with such a size); nil otherwise.
func sizeParams(size ssa.Value) []*ssa.Parameter {
	var out []*ssa.Parameter
	ok := true
	seen := map[ssa.Value]bool{}
	var rec func(v ssa.Value, d int)
	rec = func(v ssa.Value, d int) {
		if !ok || seen[v] {
			return
		}
		seen[v] = true
		if d > 10 {
			ok = false
			return
		}
		switch x := v.(type) {
		case *ssa.Const:
		case *ssa.Parameter:
			out = append(out, x)
		case *ssa.Convert:
			rec(x.X, d+1)
		case *ssa.ChangeType:
			rec(x.X, d+1)
		case *ssa.BinOp:
			rec(x.X, d+1)
			rec(x.Y, d+1)
		case *ssa.MakeSlice:
			rec(x.Len, d+1)
		case *ssa.Call:
			if b, isB := x.Call.Value.(*ssa.Builtin); isB && b.Name() == "len" {
				rec(x.Call.Args[0], d+1)
			} else {
				ok = false
			}
		default:
			ok = false
		}
	}
	rec(size, 0)
	if !ok {
		return nil
	}
	return out
}

// nilErrorCall: the guard says that the error result of a static call is nil;
// returns that call.
func nilErrorCall(g Guard) *ssa.Call {
	bo, ok := g.Cond.(*ssa.BinOp)
	if !ok {
		return nil
	}
	var e ssa.Value
	switch {
	case isNilConst(bo.Y):
		e = bo.X
	case isNilConst(bo.X):
		e = bo.Y
	default:
		return nil
	}
	if !((bo.Op == token.NEQ && !g.Truth) || (bo.Op == token.EQL && g.Truth)) {
		return nil
	}
	if !isErrorType(e.Type()) {
		return nil
	}
	switch x := e.(type) {
	case *ssa.Call:
		return x
	case *ssa.Extract:
		if c, ok := x.Tuple.(*ssa.Call); ok {
			return c
		}
	}
	return nil
}

// nilReturnGuards: the branch conditions that hold at every return of f whose
// error result is the nil constant (f returns a nil error only when they hold).
func nilReturnGuards(f *ssa.Function) []Guard {
	var common []Guard
	first := true
	for _, r := range returnsOf(f) {
		if len(r.Results) == 0 {
			return nil
		}
		e := r.Results[len(r.Results)-1]
		if !isErrorType(e.Type()) {
			return nil
		}
		if !isNilConst(e) {
			if provablyNonNilErr(r) {
				continue
			}
			return nil // may be nil on a path we know nothing about
		}
		gs := guardsAt(r)
		if first {
			common, first = gs, false
			continue
		}
		var keep []Guard
		for _, a := range common {
			for _, b := range gs {
				if a.Cond == b.Cond && a.Truth == b.Truth {
					keep = append(keep, a)
				}
			}
		}
		common = keep
	}
	return common
}

// wide64: v is a 64-bit integer (int, uint, int64, uint64, uintptr) that was not
// widened from a type of at most 32 bits.
func wide64(v ssa.Value) bool {
	for i := 0; i < 6; i++ {
		b, ok := v.Type().Underlying().(*types.Basic)
		if !ok || b.Info()&types.IsInteger == 0 {
			return false
		}
		switch b.Kind() {
		case types.Int8, types.Uint8, types.Int16, types.Uint16, types.Int32, types.Uint32:
			return false
		}
		cv, ok := v.(*ssa.Convert)
		if !ok {
			return true
		}
		v = cv.X
	}
	return true
}
