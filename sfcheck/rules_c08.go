package main

import (
	"fmt"
	"go/token"
	"go/types"
	"sort"
	"strings"

	"golang.org/x/tools/go/ssa"
)

// decoderEntries: the exported decoding entry points of package geom —
// functions named Unmarshal*, and the Scan / UnmarshalJSON adapter methods.
func decoderEntries(p *Program) []*ssa.Function {
	var out []*ssa.Function
	for _, f := range p.Funcs {
		if f.Parent() != nil || f.Pkg == nil || f.Pkg.Pkg.Name() != "geom" {
			continue
		}
		n := f.Name()
		if f.Signature.Recv() == nil {
			if strings.HasPrefix(n, "Unmarshal") && token.IsExported(n) {
				out = append(out, f)
			}
			continue
		}
		if n == "Scan" || n == "UnmarshalJSON" {
			out = append(out, f)
		}
	}
	sort.Slice(out, func(i, j int) bool { return FuncName(out[i]) < FuncName(out[j]) })
	return out
}

// countSource: values read from the input that denote a count/size chosen by
// the sender: results of binary.Uvarint/Varint (value part) and of the
// fixed-width integer readers.
func countSource(v ssa.Value) bool {
	switch x := v.(type) {
	case *ssa.Extract:
		if x.Index != 0 {
			return false
		}
		c, ok := x.Tuple.(*ssa.Call)
		if !ok {
			return false
		}
		switch calleeName(c) {
		case "encoding/binary.Uvarint", "encoding/binary.Varint":
			return true
		}
	case *ssa.Call:
		n := calleeName(x)
		if strings.HasPrefix(n, "(encoding/binary.bigEndian).Uint") || strings.HasPrefix(n, "(encoding/binary.littleEndian).Uint") {
			return true
		}
		if x.Call.IsInvoke() && x.Call.Method.Pkg() != nil && x.Call.Method.Pkg().Path() == "encoding/binary" && strings.HasPrefix(x.Call.Method.Name(), "Uint") {
			return true
		}
	}
	return false
}

// isInputLen: v is len(X) with X a []byte/string that is not allocated in the
// function (a parameter, a field load, or a re-slice of those).
func isInputLen(v ssa.Value) bool {
	c, ok := v.(*ssa.Call)
	if !ok {
		return false
	}
	b, ok := c.Call.Value.(*ssa.Builtin)
	if !ok || b.Name() != "len" {
		return false
	}
	x := c.Call.Args[0]
	switch t := x.Type().Underlying().(type) {
	case *types.Slice:
		if bt, ok := t.Elem().Underlying().(*types.Basic); !ok || bt.Kind() != types.Byte {
			return false
		}
	case *types.Basic:
		if t.Info()&types.IsString == 0 {
			return false
		}
	default:
		return false
	}
	for i := 0; i < 8; i++ {
		switch y := x.(type) {
		case *ssa.Slice:
			x = y.X
			continue
		case *ssa.Parameter:
			return true
		case *ssa.UnOp:
			if y.Op == token.MUL {
				switch a := y.X.(type) {
				case *ssa.FieldAddr:
					return true
				case *ssa.Alloc:
					if st := uniqueStore(a); st != nil {
						x = st
						continue
					}
				}
			}
			return false
		case *ssa.Field:
			return true
		}
		return false
	}
	return false
}

// boundedByInput reports whether a guard holding at `at` bounds a value
// carrying the taint source `src` (or structurally equal to size) from above
// by an expression over the remaining input length.
func boundedByInput(t *Taint, at ssa.Instruction, size ssa.Value, src ssa.Value) (string, bool) {
	for _, g := range guardsAt(at) {
		bo, ok := g.Cond.(*ssa.BinOp)
		if !ok {
			continue
		}
		var lessOps bool // true if op (with truth) establishes X < Y or X <= Y
		switch {
		case (bo.Op == token.LSS || bo.Op == token.LEQ) && g.Truth:
			lessOps = true
		case (bo.Op == token.GTR || bo.Op == token.GEQ) && !g.Truth:
			lessOps = true
		case (bo.Op == token.GTR || bo.Op == token.GEQ) && g.Truth:
			lessOps = false
		case (bo.Op == token.LSS || bo.Op == token.LEQ) && !g.Truth:
			lessOps = false
		default:
			continue
		}
		small, big := bo.X, bo.Y
		if !lessOps {
			small, big = bo.Y, bo.X
		}
		// small must carry the taint; big must contain len(input) and no taint
		carries := operandTreeAny(small, func(v ssa.Value) bool {
			if v == size || sameValue(v, size) {
				return true
			}
			s, ok := t.Of(v)
			return ok && s == src
		})
		if !carries {
			continue
		}
		hasLen := operandTreeAny(big, isInputLen)
		bigTainted := operandTreeAny(big, func(v ssa.Value) bool { _, ok := t.Of(v); return ok && !isInputLen(v) })
		if hasLen && !bigTainted {
			s, _ := accessPath(g.Cond)
			return fmt.Sprintf("dominating guard %s is %v", s, g.Truth), true
		}
	}
	return "", false
}

func init() {
	register(&Rule{
		ID:    "C08.alloc",
		Props: []string{"C08"},
		Doc:   "no allocation (make) in decoder-reachable code is sized by a count read from the input unless a dominating comparison bounds that count by the remaining input length (taint: binary.Uvarint/Varint/UintN results through arithmetic, conversions, locals, fields, parameters and returns)",
		Floor: 30,
		Run:   runC08Alloc,
	})
}

func runC08Alloc(c *Ctx) {
	entries := decoderEntries(c.P)
	if len(entries) < 26 {
		c.Errorf("only %d decoder entry points found, expected >= 26", len(entries))
	}
	reach := c.P.reachableFrom(entries...)
	t := newTaint(c.P, countSource)
	nTainted := 0
	for _, f := range c.P.Funcs {
		if !reach[f] {
			continue
		}
		fn := FuncName(f)
		eachInstr(f, func(in ssa.Instruction) {
			var sizes []ssa.Value
			var what string
			switch x := in.(type) {
			case *ssa.MakeSlice:
				sizes = []ssa.Value{x.Len, x.Cap}
				what = "make(" + typeShort(x.Type()) + ")"
			case *ssa.MakeMap:
				if x.Reserve != nil {
					sizes = []ssa.Value{x.Reserve}
				}
				what = "make(" + typeShort(x.Type()) + ")"
			case *ssa.MakeChan:
				sizes = []ssa.Value{x.Size}
				what = "make(chan)"
			default:
				return
			}
			var src ssa.Value
			var size ssa.Value
			for _, s := range sizes {
				if s == nil {
					continue
				}
				if sv, ok := t.Of(s); ok {
					src, size = sv, s
					break
				}
			}
			if src == nil {
				sp := "-"
				if len(sizes) > 0 && sizes[0] != nil {
					sp, _ = accessPath(sizes[0])
				}
				c.Triv(in.Pos(), fn, what+" size "+sp, "size is not derived from an input count field")
				return
			}
			nTainted++
			sp, _ := accessPath(size)
			srcName := describeSource(src)
			construct := what + " size<-" + srcName
			if fact, ok := boundedByInput(t, in, size, src); ok {
				c.OK(in.Pos(), fn, construct, fact)
				return
			}
			// parameter-sized: accept when every call site bounds the argument
			if par, ok := size.(*ssa.Parameter); ok {
				all := len(t.callers[f]) > 0
				for _, call := range t.callers[f] {
					idx := -1
					for i, pp := range f.Params {
						if pp == par {
							idx = i
						}
					}
					arg := call.Common().Args[idx]
					if _, tainted := t.Of(arg); !tainted {
						continue
					}
					if _, ok := boundedByInput(t, call, arg, src); !ok {
						all = false
					}
				}
				if all {
					c.OK(in.Pos(), fn, construct, "every call site passing an input-derived count bounds it by the input length first")
					return
				}
			}
			c.Bad(in.Pos(), fn, construct, fmt.Sprintf("allocation sized by %s, which derives from an input count (%s at %s), with no dominating comparison against the remaining input length: a short input can reserve memory out of proportion or panic in makeslice", sp, srcName, c.P.Pos(src.Pos())))
		})
	}
	if nTainted < 6 {
		c.Errorf("only %d input-count-sized allocations found, expected >= 6 (taint sources no longer recognised?)", nTainted)
	}
}

func describeSource(src ssa.Value) string {
	switch x := src.(type) {
	case *ssa.Extract:
		if c, ok := x.Tuple.(*ssa.Call); ok {
			return calleeName(c)
		}
	case *ssa.Call:
		return calleeName(x)
	}
	return src.Name()
}
