package main

import (
	"fmt"
	"go/token"
	"math"
	"regexp"
	"sort"
	"strings"

	"golang.org/x/tools/go/ssa"
)

func init() {
	register(&Rule{
		ID:    "C01.renode",
		Props: []string{"C01"},
		Doc:   "node snapping: nodeSet.insertOrGet interpreted with a concrete bucket probes exactly the 9 buckets (bx+dx, by+dy), dx,dy in {-1,0,1}, each once (a point near a bucket border must find an existing node in any neighbouring bucket), and inserts the new node under its own bucket only when none is found",
		Floor: 1,
		Run:   runC01Renode,
	})
	register(&Rule{
		ID:    "C17.densify",
		Props: []string{"C17", "C16"},
		Doc:   "densify interpreted on a 3-vertex sequence with every combination of segment lengths (including zero-length segments) and maxDist 1: the output is exactly V0, interp(0,1, j/k01) for 1 <= j < k01, V1, interp(1,2, j/k12) …, V2 with k = ceil(dist/maxDist) — every original vertex (with its Z/M) is kept, in order, exactly once; maxDist <= 0 panics",
		Floor: 1,
		Run:   runC17Densify,
	})
	register(&Rule{
		ID:    "C12.shape",
		Props: []string{"C12"},
		Doc:   "Envelope.AsGeometry and BoundingDiagonal interpreted over (empty, point, line, rectangle): empty -> the zero Geometry; point -> min as a Point; BoundingDiagonal of a line or rectangle -> the LineString min..max; AsGeometry of a line -> a LineString, of a rectangle -> the 5-point ring polygon",
		Floor: 2,
		Run:   runC12Shape,
	})
	register(&Rule{
		ID:    "C08.bboxread",
		Props: []string{"C08", "C07"},
		Doc:   "sibling guards of the TWKB bounding box: the conditions under which parseHeaders fills p.bbox are a subset of the conditions under which parseBBoxHeader indexes it (so whenever the header reader reads bbox[k] it has been filled); the fill loop appends 2 values per dimension",
		Floor: 2,
		Run:   runC08BBoxRead,
	})
	register(&Rule{
		ID:    "C20.exists",
		Props: []string{"C20", "C09", "C02"},
		Doc:   "existential member loops: in the hasIntersection* kernels a loop over the members of a multi-geometry may return early only with the positive answer; a `return false` inside such a loop makes one (e.g. empty) member hide the remaining ones",
		Floor: 5,
		Run:   runC20Exists,
	})
}

var lookupRe = regexp.MustCompile(`^lookup\(.*,\{(-?[0-9]+),(-?[0-9]+)\}\)$`)

func runC01Renode(c *Ctx) {
	f := c.P.Func("geom.(nodeSet).insertOrGet")
	if f == nil {
		c.Errorf("anchor geom.(nodeSet).insertOrGet does not resolve")
		return
	}
	m := &Model{Num: map[string]float64{"$1.X": 25, "$1.Y": 45, "$0.bucketWidth": 10}, Bool: map[string]bool{}, Missing: map[string]bool{}}
	var it *k4interp
	var err error
	for round := 0; round < 12; round++ {
		m.Missing = map[string]bool{}
		it = &k4interp{p: c.P, m: m, mem: map[string]k4val{}}
		_, err = it.call(f, []k4val{{kind: 3, s: "$0"}, {kind: 3, s: "$1"}}, nil)
		if err == nil || len(m.Missing) == 0 {
			break
		}
		for k := range m.Missing {
			if strings.HasPrefix(k, "bool lookup(") {
				m.Bool[strings.TrimPrefix(k, "bool ")] = false // nothing found yet
			}
		}
	}
	if err != nil {
		c.Undecided(f.Pos(), FuncName(f), "neighbour buckets probed", fmt.Sprintf("%v %s", err, missingList(m)))
		return
	}
	probed := map[[2]int]int{}
	for _, cl := range it.calls {
		if mm := lookupRe.FindStringSubmatch(cl); mm != nil {
			var x, y int
			fmt.Sscan(mm[1], &x)
			fmt.Sscan(mm[2], &y)
			probed[[2]int{x - 2, y - 4}]++
		}
	}
	var missing, dup []string
	for dx := -1; dx <= 1; dx++ {
		for dy := -1; dy <= 1; dy++ {
			switch probed[[2]int{dx, dy}] {
			case 0:
				missing = append(missing, fmt.Sprintf("(%+d,%+d)", dx, dy))
			case 1:
			default:
				dup = append(dup, fmt.Sprintf("(%+d,%+d)", dx, dy))
			}
		}
	}
	inserted := false
	for _, e := range it.effects {
		if strings.HasPrefix(e, "mapupdate(") {
			inserted = true
		}
	}
	sort.Strings(missing)
	switch {
	case len(missing) > 0:
		c.Bad(f.Pos(), FuncName(f), "neighbour buckets probed", fmt.Sprintf("neighbour bucket(s) %s are never probed (probed twice: %v): a point that rounds into that neighbouring bucket is not snapped to the existing node and a second, nearly coincident node is created", strings.Join(missing, " "), dup))
	case len(probed) != 9:
		c.Bad(f.Pos(), FuncName(f), "neighbour buckets probed", fmt.Sprintf("%d buckets probed, expected the 3x3 neighbourhood", len(probed)))
	case !inserted:
		c.Bad(f.Pos(), FuncName(f), "neighbour buckets probed", "a point with no neighbouring node is not inserted")
	default:
		c.OK(f.Pos(), FuncName(f), "neighbour buckets probed", "exactly the 3x3 neighbourhood of the point's bucket, then insertion under its own bucket")
	}
}

var interpRe = regexp.MustCompile(`^geom\.interpolateCoords\(geom\.\(Sequence\)\.Get\(\$0,(\d+)\),geom\.\(Sequence\)\.Get\(\$0,(\d+)\),([-0-9.e+]+)\)`)

var getRe = regexp.MustCompile(`geom\.\(Sequence\)\.Get\(\$0,(\d+)\)`)

func runC17Densify(c *Ctx) {
	f := c.P.Func("geom.densify")
	if f == nil {
		c.Errorf("anchor geom.densify does not resolve")
		return
	}
	fn := FuncName(f)
	dkey := func(i int) string {
		return fmt.Sprintf("geom.(XY).distanceTo(geom.(Sequence).Get($0,%d).XY,geom.(Sequence).Get($0,%d).XY)", i, i+1)
	}
	problem, undec := "", ""
	models := 0
	for _, d01 := range []float64{0, 0.5, 2.5} {
		for _, d12 := range []float64{0, 1, 3.2} {
			models++
			m := &Model{Num: map[string]float64{"geom.(Sequence).Length($0)": 3, dkey(0): d01, dkey(1): d12, "$1": 1, "geom.(Sequence).CoordinatesType($0)": 3}, Bool: map[string]bool{}, Missing: map[string]bool{}}
			it := &k4interp{p: c.P, m: m, mem: map[string]k4val{}}
			res, err := it.call(f, []k4val{{kind: 3, s: "$0"}, {kind: 2, f: 1}}, nil)
			if err != nil || len(res) != 1 {
				undec = fmt.Sprintf("%v %s", err, missingList(m))
				continue
			}
			// sequence of appended items, innermost first: appendFloat64s(ITEM, prev)
			var items []string
			for _, cl := range it.calls {
				if strings.HasPrefix(cl, "geom.(Coordinates).appendFloat64s(") {
					arg := strings.TrimPrefix(cl, "geom.(Coordinates).appendFloat64s(")
					switch {
					case strings.HasPrefix(arg, "geom.(Sequence).Get($0,"):
						mm := getRe.FindStringSubmatch(arg)
						items = append(items, "V"+mm[1])
					case strings.HasPrefix(arg, "geom.interpolateCoords("):
						if mm := interpRe.FindStringSubmatch(arg); mm != nil {
							var t float64
							fmt.Sscan(mm[3], &t)
							items = append(items, fmt.Sprintf("I%s-%s@%v", mm[1], mm[2], t))
						} else {
							items = append(items, "I?")
						}
					default:
						items = append(items, "?")
					}
				}
			}
			var want []string
			for seg, d := range []float64{d01, d12} {
				want = append(want, fmt.Sprintf("V%d", seg))
				k := int(math.Ceil(d / 1))
				for j := 1; j < k; j++ {
					want = append(want, fmt.Sprintf("I%d-%d@%v", seg, seg+1, float64(j)/float64(k)))
				}
			}
			want = append(want, "V2")
			if strings.Join(items, " ") != strings.Join(want, " ") {
				problem = fmt.Sprintf("for segment lengths (%v, %v) and maxDist 1 the output vertices are [%s]; the contract is [%s] (every original vertex kept in order, j/k interpolation inside long segments)", d01, d12, strings.Join(items, " "), strings.Join(want, " "))
			}
		}
	}
	// maxDist <= 0 panics
	m := &Model{Num: map[string]float64{}, Bool: map[string]bool{}, Missing: map[string]bool{}}
	it := &k4interp{p: c.P, m: m, mem: map[string]k4val{}}
	res, err := it.call(f, []k4val{{kind: 3, s: "$0"}, {kind: 2, f: 0}}, nil)
	if err == nil && (len(res) != 1 || res[0].s != "panic") && problem == "" {
		problem = "maxDist = 0 does not panic (it would loop forever or divide by zero)"
	}
	reportK4(c, f, "vertices emitted by densify", undec, problem, fmt.Sprintf("all original vertices in order plus j/k interpolation, in all %d segment-length models; non-positive maxDist panics", models))
	_ = fn
}

func runC12Shape(c *Ctx) {
	for _, name := range []string{"BoundingDiagonal", "AsGeometry"} {
		f := c.P.Func("geom.(Envelope)." + name)
		if f == nil {
			c.Errorf("anchor geom.(Envelope).%s does not resolve", name)
			continue
		}
		inl := func(g *ssa.Function) bool {
			switch FuncName(g) {
			case "geom.(Envelope).IsEmpty", "geom.(Envelope).IsPoint", "geom.(Envelope).IsLine", "geom.(Envelope).IsRectangle":
				return true
			case "geom.(Envelope).BoundingDiagonal":
				return name == "AsGeometry" // AsGeometry may delegate the degenerate shapes to it
			}
			return false
		}
		problem, undec := "", ""
		models := 0
		k4enumerate([]string{"$0.min.X", "$0.min.Y", "$0.max.X", "$0.max.Y"}, []float64{0, 1}, []string{"$0.nonEmpty"}, func(m *Model) bool {
			if !envValid(m) {
				return true
			}
			models++
			m.Missing = map[string]bool{}
			it := &k4interp{p: c.P, m: m, mem: map[string]k4val{}, inline: inl}
			res, err := it.call(f, []k4val{{kind: 3, s: "$0"}}, nil)
			if err != nil || len(res) != 1 {
				undec = fmt.Sprintf("%v %s", err, missingList(m))
				return false
			}
			got := res[0].String()
			n := func(k string) float64 { return m.Num[k] }
			isPt := n("$0.min.X") == n("$0.max.X") && n("$0.min.Y") == n("$0.max.Y")
			isLine := !isPt && (n("$0.min.X") == n("$0.max.X") || n("$0.min.Y") == n("$0.max.Y"))
			var wantSub string
			switch {
			case !m.Bool["$0.nonEmpty"]:
				wantSub = "zero"
			case isPt:
				wantSub = "geom.(Point).AsGeometry(geom.(XY).AsPoint($0.min))"
			case name == "BoundingDiagonal" || isLine:
				wantSub = "geom.(LineString).AsGeometry("
			default:
				wantSub = "geom.(Polygon).AsGeometry("
			}
			ok := got == wantSub || (strings.HasSuffix(wantSub, "(") && strings.HasPrefix(got, wantSub))
			if !ok {
				problem = fmt.Sprintf("for %s the result is %s, expected %s…", modelString(m), trunc(got), wantSub)
				return false
			}
			return true
		})
		reportK4(c, f, "shape of the envelope as a geometry", undec, problem, fmt.Sprintf("empty/point/line/rectangle map to zero Geometry/Point/LineString/%s in all %d models", map[string]string{"BoundingDiagonal": "LineString", "AsGeometry": "Polygon"}[name], models))
	}
}

// fieldGuards: the (field, truth) pairs of twkbParser boolean fields that hold at in.
func fieldGuards(in ssa.Instruction, structName string) map[string]bool {
	out := map[string]bool{}
	for _, g := range guardsAt(in) {
		if sn, fl, _, ok := fieldLoad(g.Cond); ok && sn == structName {
			out[fmt.Sprintf("%s=%v", fl, g.Truth)] = true
		}
	}
	return out
}

func runC08BBoxRead(c *Ctx) {
	ph := c.P.Func("geom.(*twkbParser).parseHeaders")
	rd := c.P.Func("geom.(*twkbParser).parseBBoxHeader")
	pb := c.P.Func("geom.(*twkbParser).parseBBox")
	if ph == nil || rd == nil || pb == nil {
		c.Errorf("anchors parseHeaders/parseBBoxHeader/parseBBox do not resolve")
		return
	}
	var fill map[string]bool
	for _, call := range callsTo(ph, FuncName(pb)) {
		fill = fieldGuards(call, "twkbParser")
	}
	if fill == nil {
		// no direct call (e.g. a table of header steps): the fill condition by
		// interpretation of parseHeaders over all combinations of its flags
		var undec string
		fill, undec = bboxFillByInterpretation(c, ph)
		if undec != "" {
			c.Undecided(ph.Pos(), FuncName(ph), "bbox fill condition", "cannot interpret: "+undec)
			return
		}
	}
	if fill == nil {
		c.Bad(ph.Pos(), FuncName(ph), "bbox fill condition", "parseHeaders no longer calls parseBBox")
		return
	}
	n := 0
	bad := ""
	checkIdx := func(in ssa.Instruction, guardAt ssa.Instruction) {
		ia, ok := in.(*ssa.IndexAddr)
		if !ok {
			return
		}
		if sn, fl, _, ok := fieldLoad(ia.X); !ok || sn != "twkbParser" || fl != "bbox" {
			return
		}
		n++
		read := fieldGuards(guardAt, "twkbParser")
		for k := range fill {
			if !read[k] {
				bad = fmt.Sprintf("p.bbox is filled only when {%s} but is indexed at %s under {%s}: when the missing condition (%s) fails the slice is empty and the header reader panics with index out of range", keysOf(fill), c.P.Pos(ia.Pos()), keysOf(read), k)
			}
		}
	}
	eachInstr(rd, func(in ssa.Instruction) {
		checkIdx(in, in)
		// index expressions moved into a helper are judged under the conditions of the helper's call site
		if call, ok := in.(*ssa.Call); ok {
			if h := staticCallee(call); h != nil && isNewHelper(h) && len(h.Blocks) > 0 {
				eachInstr(h, func(in2 ssa.Instruction) { checkIdx(in2, call) })
			}
		}
	})
	c.Check(bad == "" && n > 0, rd.Pos(), FuncName(rd), "bbox read condition implies fill condition", fmt.Sprintf("all %d index expressions on p.bbox are guarded by every condition under which it is filled {%s}", n, keysOf(fill)), bad)
	// the fill loop appends twice per dimension: parseBBox interpreted with 2, 3
	// and 4 dimensions (varint reads opaque and succeeding) leaves 2*dimensions
	// values in p.bbox
	problem, undec := "", ""
	for _, d := range []int{2, 3, 4} {
		m := &Model{Num: map[string]float64{"$0.dimensions": float64(d)}, Bool: map[string]bool{}, Missing: map[string]bool{}}
		it := &k4interp{p: c.P, m: m, mem: map[string]k4val{}}
		it.mem["$0.bbox"] = k4val{kind: 8, s: "BB", ln: 0, cp: 0}
		reads := 0
		it.onOpaque = func(name string, args []k4val) {
			if strings.HasSuffix(name, ").parseSignedVarint") {
				reads++
			}
		}
		it.answer = func(key string, isBool bool) (k4val, bool) {
			if !isBool && strings.Contains(key, "parseSignedVarint(") {
				return k4val{kind: 2, f: 7}, true
			}
			if isBool && strings.Contains(key, "parseSignedVarint(") {
				if strings.Contains(key, "!=nil") {
					return k4val{kind: 1, b: false}, true
				}
				if strings.Contains(key, "==nil") {
					return k4val{kind: 1, b: true}, true
				}
			}
			return k4val{}, false
		}
		if _, err := it.call(pb, []k4val{{kind: 3, s: "$0"}}, nil); err != nil {
			undec = fmt.Sprintf("%v %s", err, trunc(missingList(m)))
			break
		}
		got := it.mem["$0.bbox"]
		if got.kind != 8 || got.ln != 2*d || reads != 2*d {
			problem = fmt.Sprintf("with %d dimensions parseBBox reads %d varints and leaves %d values in p.bbox; the reader indexes 2 per dimension (%d)", d, reads, got.ln, 2*d)
			break
		}
	}
	reportK4(c, pb, "values per dimension", undec, problem, "min and delta appended for each dimension (interpreted with 2, 3 and 4 dimensions)")
}

// bboxFillByInterpretation: the flags that must hold for parseHeaders to call
// parseBBox, found by interpreting it (steps opaque and succeeding) for all
// combinations of the three header flags.
func bboxFillByInterpretation(c *Ctx, ph *ssa.Function) (map[string]bool, string) {
	flags := []string{"hasExt", "hasSize", "hasBBox"}
	called := map[int]bool{}
	any := false
	for mask := 0; mask < 8; mask++ {
		m := &Model{Num: map[string]float64{}, Bool: map[string]bool{}, Missing: map[string]bool{}}
		for i, fl := range flags {
			m.Bool["$0."+fl] = mask&(1<<i) != 0
		}
		it := &k4interp{p: c.P, m: m, mem: map[string]k4val{}}
		it.onOpaque = func(name string, args []k4val) {
			if strings.HasSuffix(name, ").parseBBox") {
				called[mask] = true
				any = true
			}
		}
		it.answer = func(key string, isBool bool) (k4val, bool) {
			if isBool && strings.Contains(key, ").parse") {
				if strings.Contains(key, "!=nil") {
					return k4val{kind: 1, b: false}, true
				}
				if strings.Contains(key, "==nil") {
					return k4val{kind: 1, b: true}, true
				}
			}
			return k4val{}, false
		}
		if _, err := it.call(ph, []k4val{{kind: 3, s: "$0"}}, nil); err != nil {
			return nil, fmt.Sprintf("%v %s", err, trunc(missingList(m)))
		}
	}
	if !any {
		return nil, ""
	}
	fill := map[string]bool{}
	for i, fl := range flags {
		for _, truth := range []bool{false, true} {
			needed := true
			for mask := 0; mask < 8; mask++ {
				if called[mask] && (mask&(1<<i) != 0) != truth {
					needed = false
				}
			}
			if needed {
				fill[fmt.Sprintf("%s=%v", fl, truth)] = true
			}
		}
	}
	return fill, ""
}

func keysOf(m map[string]bool) string {
	var ks []string
	for k := range m {
		ks = append(ks, k)
	}
	sort.Strings(ks)
	return strings.Join(ks, ", ")
}

func runC20Exists(c *Ctx) {
	n := 0
	for _, f := range c.P.Funcs {
		if pkgOf(f) != "geom" || f.Parent() != nil || !strings.HasPrefix(f.Name(), "hasIntersection") {
			continue
		}
		res := f.Signature.Results()
		if res.Len() != 1 || !isBoolT(res.At(0).Type()) {
			continue
		}
		fn := FuncName(f)
		// loops whose bound is a member count of a multi-geometry parameter
		for _, b := range f.Blocks {
			if len(b.Instrs) == 0 {
				continue
			}
			r, ok := b.Instrs[len(b.Instrs)-1].(*ssa.Return)
			if !ok {
				continue
			}
			v, isC := constBool(r.Results[0])
			if !isC || v {
				continue
			}
			// inside the body of a loop over members: dominated by the body entry of a member-loop header
			inBody := false
			for _, h := range f.Blocks {
				if memberLoop(h) && (h.Succs[0] == b || h.Succs[0].Dominates(b)) {
					inBody = true
				}
			}
			if !inBody {
				continue
			}
			n++
			c.Bad(r.Pos(), fn, "return false inside a loop over members", "an existential test over the members of a multi-geometry returns the negative answer from inside the loop: one member (for example an empty one) hides all the members after it")
		}
		// count the member loops examined
		for _, b := range f.Blocks {
			if memberLoop(b) {
				n++
				c.OK(firstPos(b), fn, "loop over members", "no negative early return inside the loop")
			}
		}
	}
	if n < 5 {
		c.Errorf("only %d member loops found in the hasIntersection kernels", n)
	}
	// the OK entries for loops that also have a Bad entry are harmless duplicates with distinct constructs
}

func firstPos(b *ssa.BasicBlock) token.Pos {
	for _, in := range b.Instrs {
		if in.Pos().IsValid() {
			return in.Pos()
		}
	}
	return token.NoPos
}

// loopHeaderOf: the innermost loop header whose loop contains b.
func loopHeaderOf(b *ssa.BasicBlock) *ssa.BasicBlock {
	for d := b; d != nil; d = d.Idom() {
		for _, p := range d.Preds {
			if d.Dominates(p) && (p == b || reaches(b, p, d) || b == d) {
				return d
			}
		}
	}
	return nil
}

// memberLoop: block b is a loop header whose condition is `i < X.NumY()` (or a
// value computed from such a call) on some geometry.
func memberLoop(b *ssa.BasicBlock) bool {
	if len(b.Instrs) == 0 {
		return false
	}
	ifi, ok := b.Instrs[len(b.Instrs)-1].(*ssa.If)
	if !ok {
		return false
	}
	isHeader := false
	for _, p := range b.Preds {
		if b.Dominates(p) {
			isHeader = true
		}
	}
	if !isHeader {
		return false
	}
	bo, ok := ifi.Cond.(*ssa.BinOp)
	if !ok || bo.Op != token.LSS {
		return false
	}
	call, ok := stripLoad(bo.Y).(*ssa.Call)
	if !ok {
		return false
	}
	cal := staticCallee(call)
	if cal == nil || cal.Signature.Recv() == nil {
		return false
	}
	switch cal.Name() {
	case "NumPoints", "NumLineStrings", "NumPolygons", "NumGeometries":
		return true
	}
	return false
}
