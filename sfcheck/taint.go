package main

import (
	"go/token"
	"go/types"

	"golang.org/x/tools/go/ssa"
)

// Taint is a forward, flow-insensitive, field-based, interprocedural taint
// over the repository functions. Values are tainted when they are derived by
// arithmetic/conversion/phi/local-cell flow from a source value.
type Taint struct {
	p        *Program
	vals     map[ssa.Value]ssa.Value // tainted value -> originating source value
	fields   map[*types.Var]ssa.Value
	retTaint map[*ssa.Function]map[int]ssa.Value
	isSource func(v ssa.Value) bool
	callers  map[*ssa.Function][]ssa.CallInstruction
}

func newTaint(p *Program, isSource func(v ssa.Value) bool) *Taint {
	t := &Taint{p: p, vals: map[ssa.Value]ssa.Value{}, fields: map[*types.Var]ssa.Value{}, retTaint: map[*ssa.Function]map[int]ssa.Value{}, isSource: isSource, callers: map[*ssa.Function][]ssa.CallInstruction{}}
	for _, f := range p.Funcs {
		eachCall(f, func(c ssa.CallInstruction) {
			if cal := staticCallee(c); cal != nil {
				t.callers[cal] = append(t.callers[cal], c)
			}
		})
	}
	t.solve()
	return t
}

func (t *Taint) Of(v ssa.Value) (ssa.Value, bool) {
	s, ok := t.vals[v]
	return s, ok
}

func fieldVar(structT types.Type, idx int) *types.Var {
	st, ok := deref(structT).Underlying().(*types.Struct)
	if !ok || idx >= st.NumFields() {
		return nil
	}
	return st.Field(idx)
}

func (t *Taint) solve() {
	changed := true
	mark := func(v ssa.Value, src ssa.Value) {
		if v == nil {
			return
		}
		if _, ok := t.vals[v]; !ok {
			t.vals[v] = src
			changed = true
		}
	}
	for iter := 0; changed && iter < 50; iter++ {
		changed = false
		for _, f := range t.p.Funcs {
			// parameters: tainted if any caller passes a tainted argument
			for i, par := range f.Params {
				if _, ok := t.vals[par]; ok {
					continue
				}
				for _, c := range t.callers[f] {
					args := c.Common().Args
					if i < len(args) {
						if s, ok := t.vals[args[i]]; ok {
							mark(par, s)
						}
					}
				}
			}
			eachInstr(f, func(in ssa.Instruction) {
				v, isVal := in.(ssa.Value)
				if isVal && t.isSource(v) {
					mark(v, v)
				}
				switch x := in.(type) {
				case *ssa.Convert:
					if s, ok := t.vals[x.X]; ok && isNumeric(x.Type()) {
						mark(x, s)
					}
				case *ssa.ChangeType:
					if s, ok := t.vals[x.X]; ok {
						mark(x, s)
					}
				case *ssa.BinOp:
					switch x.Op {
					case token.ADD, token.SUB, token.MUL, token.QUO, token.SHL, token.SHR, token.OR, token.XOR:
						if s, ok := t.vals[x.X]; ok {
							mark(x, s)
						} else if s, ok := t.vals[x.Y]; ok && x.Op != token.SHL && x.Op != token.SHR {
							mark(x, s)
						}
						// REM and AND bound the result by the other operand: x % k, x & k are not
						// attacker-sized when k is untainted.
					case token.REM, token.AND:
						_, tx := t.vals[x.X]
						_, ty := t.vals[x.Y]
						if tx && ty {
							mark(x, t.vals[x.X])
						}
					}
				case *ssa.UnOp:
					if x.Op == token.SUB {
						if s, ok := t.vals[x.X]; ok {
							mark(x, s)
						}
					}
					if x.Op == token.MUL {
						// load: from a tainted local cell or a tainted field
						switch a := x.X.(type) {
						case *ssa.Alloc, *ssa.FreeVar:
							if s, ok := t.vals[a]; ok {
								mark(x, s)
							}
						case *ssa.FieldAddr:
							if fv := fieldVar(a.X.Type(), a.Field); fv != nil {
								if s, ok := t.fields[fv]; ok {
									mark(x, s)
								}
							}
						}
					}
				case *ssa.Field:
					if fv := fieldVar(x.X.Type(), x.Field); fv != nil {
						if s, ok := t.fields[fv]; ok {
							mark(x, s)
						}
					}
				case *ssa.Phi:
					for _, e := range x.Edges {
						if s, ok := t.vals[e]; ok {
							mark(x, s)
						}
					}
				case *ssa.Extract:
					if c, ok := x.Tuple.(*ssa.Call); ok {
						if cal := staticCallee(c); cal != nil {
							if s, ok := t.retTaint[cal][x.Index]; ok {
								mark(x, s)
							}
						}
					}
				case *ssa.Call:
					if b, ok := x.Call.Value.(*ssa.Builtin); ok && (b.Name() == "len" || b.Name() == "cap") {
						// len of a slice that was allocated with a tainted size
						a := x.Call.Args[0]
						if sl, ok := a.(*ssa.Slice); ok {
							a = sl.X
						}
						if ms, ok := a.(*ssa.MakeSlice); ok {
							if s, ok := t.vals[ms.Len]; ok {
								mark(x, s)
							}
						}
					}
					if cal := staticCallee(x); cal != nil && cal.Signature.Results().Len() == 1 {
						if s, ok := t.retTaint[cal][0]; ok {
							mark(x, s)
						}
					}
				case *ssa.Store:
					if s, ok := t.vals[x.Val]; ok {
						switch a := x.Addr.(type) {
						case *ssa.Alloc:
							mark(a, s)
							// propagate into closures capturing the cell
							for _, r := range *a.Referrers() {
								if mc, ok := r.(*ssa.MakeClosure); ok {
									fn := mc.Fn.(*ssa.Function)
									for i, b := range mc.Bindings {
										if b == a {
											mark(fn.FreeVars[i], s)
										}
									}
								}
							}
						case *ssa.FreeVar:
							mark(a, s)
						case *ssa.FieldAddr:
							if fv := fieldVar(a.X.Type(), a.Field); fv != nil {
								if _, ok := t.fields[fv]; !ok {
									t.fields[fv] = s
									changed = true
								}
							}
						}
					}
				case *ssa.Return:
					for i, r := range x.Results {
						if s, ok := t.vals[r]; ok {
							m := t.retTaint[f]
							if m == nil {
								m = map[int]ssa.Value{}
								t.retTaint[f] = m
							}
							if _, ok := m[i]; !ok {
								m[i] = s
								changed = true
							}
						}
					}
				}
			})
		}
	}
}

func isNumeric(t types.Type) bool {
	b, ok := t.Underlying().(*types.Basic)
	return ok && b.Info()&types.IsNumeric != 0
}

// containsValue reports whether target occurs in the operand tree of v
// (through arithmetic, conversions and loads), up to a depth bound.
func operandTreeAny(v ssa.Value, pred func(ssa.Value) bool) bool {
	seen := map[ssa.Value]bool{}
	var rec func(v ssa.Value, d int) bool
	rec = func(v ssa.Value, d int) bool {
		if v == nil || d > 10 || seen[v] {
			return false
		}
		seen[v] = true
		if pred(v) {
			return true
		}
		switch x := v.(type) {
		case *ssa.BinOp:
			return rec(x.X, d+1) || rec(x.Y, d+1)
		case *ssa.UnOp:
			return rec(x.X, d+1)
		case *ssa.Convert:
			return rec(x.X, d+1)
		case *ssa.ChangeType:
			return rec(x.X, d+1)
		case *ssa.Phi:
			for _, e := range x.Edges {
				if rec(e, d+1) {
					return true
				}
			}
		case *ssa.Call:
			if b, ok := x.Call.Value.(*ssa.Builtin); ok && (b.Name() == "len" || b.Name() == "cap" || b.Name() == "min" || b.Name() == "max") {
				for _, a := range x.Call.Args {
					if rec(a, d+1) {
						return true
					}
				}
			}
		case *ssa.Slice:
			return rec(x.X, d+1)
		}
		return false
	}
	return rec(v, 0)
}
