package main

import (
	"fmt"
	"go/token"
	"go/types"
	"strings"

	"golang.org/x/tools/go/ssa"
)

// accessPath renders an SSA value as a position-free expression over
// parameters, free variables, constants, field selections, pure calls and
// arithmetic. ok=false when the value depends on a phi, a multiply-assigned
// local or anything else that has no single defining expression.
func accessPath(v ssa.Value) (string, bool) {
	return pathD(v, 0)
}

// pathInlineClosures: print a call of a local function literal that consists of a
// single return as that expression, with the parameters replaced by the
// arguments (set by rules that compare expressions across functions).
var pathInlineClosures bool
var pathSubst = map[*ssa.Parameter]string{}

func pathD(v ssa.Value, d int) (string, bool) {
	limit := 14
	if pathInlineClosures {
		limit = 40
	}
	if d > limit || v == nil {
		return "?", false
	}
	switch x := v.(type) {
	case *ssa.Parameter:
		if s, ok := pathSubst[x]; ok {
			return s, true
		}
		if paramAsIndex && x.Parent() != nil {
			for i, p := range x.Parent().Params {
				if p == x {
					return fmt.Sprintf("$%d", i), true
				}
			}
		}
		return x.Name(), true
	case *ssa.FreeVar:
		// a captured cell: if the cell has a unique store, use the outer path
		if st := uniqueStore(x); st != nil {
			if s, ok := pathD(st, d+1); ok {
				return s, true
			}
		}
		return x.Name(), true
	case *ssa.Const:
		if x.Value == nil {
			return "nil", true
		}
		if n, ok := x.Type().(*types.Named); ok {
			for _, c := range enumConstsCached(n) {
				if c.Val().ExactString() == x.Value.ExactString() {
					return c.Name(), true
				}
			}
		}
		return x.Value.ExactString(), true
	case *ssa.Global:
		return x.Name(), true
	case *ssa.Function:
		return extName(x), true
	case *ssa.Alloc:
		// address of a local: param spill or single-store local
		if st := uniqueStore(x); st != nil {
			return pathD(st, d+1)
		}
		if x.Comment != "" {
			return "&" + x.Comment, false
		}
		return "?", false
	case *ssa.FieldAddr:
		s, ok := pathD(x.X, d+1)
		return s + "." + fieldName(x.X.Type(), x.Field), ok
	case *ssa.Field:
		s, ok := pathD(x.X, d+1)
		return s + "." + fieldName(x.X.Type(), x.Field), ok
	case *ssa.IndexAddr:
		s, ok := pathD(x.X, d+1)
		i, ok2 := pathD(x.Index, d+1)
		return s + "[" + i + "]", ok && ok2
	case *ssa.Index:
		s, ok := pathD(x.X, d+1)
		i, ok2 := pathD(x.Index, d+1)
		return s + "[" + i + "]", ok && ok2
	case *ssa.UnOp:
		s, ok := pathD(x.X, d+1)
		switch x.Op {
		case token.MUL:
			return s, ok
		case token.NOT:
			return "!(" + s + ")", ok
		case token.SUB:
			return "-(" + s + ")", ok
		}
		return x.Op.String() + "(" + s + ")", ok
	case *ssa.BinOp:
		a, ok := pathD(x.X, d+1)
		b, ok2 := pathD(x.Y, d+1)
		return "(" + a + " " + x.Op.String() + " " + b + ")", ok && ok2
	case *ssa.Convert:
		s, ok := pathD(x.X, d+1)
		return typeShort(x.Type()) + "(" + s + ")", ok
	case *ssa.ChangeType:
		return pathD(x.X, d+1)
	case *ssa.MakeInterface:
		return pathD(x.X, d+1)
	case *ssa.Extract:
		s, ok := pathD(x.Tuple, d+1)
		return fmt.Sprintf("%s#%d", s, x.Index), ok
	case *ssa.Slice:
		s, ok := pathD(x.X, d+1)
		lo, hi := "", ""
		if x.Low != nil {
			var o bool
			lo, o = pathD(x.Low, d+1)
			ok = ok && o
		}
		if x.High != nil {
			var o bool
			hi, o = pathD(x.High, d+1)
			ok = ok && o
		}
		return s + "[" + lo + ":" + hi + "]", ok
	case *ssa.Call:
		if pathInlineClosures {
			if cal := staticCallee(x); cal != nil && cal.Parent() != nil && len(cal.Blocks) == 1 && len(cal.Params) == len(x.Call.Args) {
				if rets := returnsOf(cal); len(rets) == 1 && len(rets[0].Results) == 1 {
					ok := true
					saved := map[*ssa.Parameter]string{}
					for i, par := range cal.Params {
						s, o := pathD(x.Call.Args[i], d+1)
						ok = ok && o
						if old, had := pathSubst[par]; had {
							saved[par] = old
						}
						pathSubst[par] = s
					}
					s, o := pathD(rets[0].Results[0], d+1)
					for _, par := range cal.Params {
						delete(pathSubst, par)
						if old, had := saved[par]; had {
							pathSubst[par] = old
						}
					}
					return s, ok && o
				}
			}
		}
		name := calleeName(x)
		var parts []string
		ok := true
		args := x.Call.Args
		if x.Call.IsInvoke() {
			s, o := pathD(x.Call.Value, d+1)
			ok = ok && o
			parts = append(parts, s)
		}
		for _, a := range args {
			s, o := pathD(a, d+1)
			ok = ok && o
			parts = append(parts, s)
		}
		return name + "(" + strings.Join(parts, ", ") + ")", ok
	case *ssa.Phi:
		return "phi", false
	case *ssa.MakeClosure:
		return extName(x.Fn.(*ssa.Function)), true
	case *ssa.Lookup:
		s, ok := pathD(x.X, d+1)
		i, ok2 := pathD(x.Index, d+1)
		return s + "[" + i + "]", ok && ok2
	case *ssa.TypeAssert:
		s, ok := pathD(x.X, d+1)
		return s + ".(" + typeShort(x.AssertedType) + ")", ok
	}
	return "?", false
}

func typeShort(t types.Type) string {
	return types.TypeString(t, func(p *types.Package) string { return "" })
}

var enumCache = map[*types.Named][]*types.Const{}

func enumConstsCached(n *types.Named) []*types.Const {
	if n.Obj().Pkg() == nil || !strings.HasPrefix(n.Obj().Pkg().Path(), modPath) {
		return nil
	}
	if b, ok := n.Underlying().(*types.Basic); !ok || b.Info()&types.IsInteger == 0 {
		return nil
	}
	if cs, ok := enumCache[n]; ok {
		return cs
	}
	cs := enumConsts(n)
	enumCache[n] = cs
	return cs
}

// baseObject: the root object (parameter/alloc/freevar) an address or value
// is derived from via field selection, and the field path from it.
func baseObject(v ssa.Value) (ssa.Value, []string) {
	var path []string
	for i := 0; i < 16; i++ {
		switch x := v.(type) {
		case *ssa.FieldAddr:
			path = append([]string{fieldName(x.X.Type(), x.Field)}, path...)
			v = x.X
		case *ssa.Field:
			path = append([]string{fieldName(x.X.Type(), x.Field)}, path...)
			v = x.X
		case *ssa.UnOp:
			if x.Op != token.MUL {
				return v, path
			}
			v = x.X
		case *ssa.Alloc:
			if st := uniqueStore(x); st != nil {
				if _, isParam := st.(*ssa.Parameter); isParam {
					return st, path
				}
				if _, isFV := st.(*ssa.FreeVar); isFV {
					return st, path
				}
				// a local initialised once from another value: follow
				v = st
				continue
			}
			return v, path
		case *ssa.ChangeType:
			v = x.X
		default:
			return v, path
		}
	}
	return v, path
}
