package main

import (
	"fmt"
	"go/token"
	"go/types"
	"sort"
	"strings"

	"golang.org/x/tools/go/ssa"
)

// ---------------------------------------------------------------------------
// C20.minusone: an index computed from `count - 1`
// ---------------------------------------------------------------------------

// minusOneTerm: the index expression v contains a term `X - 1` (X not a
// constant), possibly scaled or offset: returns X.
func minusOneTerm(v ssa.Value, d int) (ssa.Value, int64) {
	if d > 5 {
		return nil, 0
	}
	v = stripConv(v)
	bo, ok := v.(*ssa.BinOp)
	if !ok {
		return nil, 0
	}
	switch bo.Op {
	case token.SUB:
		if k, ok := constInt(bo.Y); ok && k >= 1 {
			if _, isC := stripConv(bo.X).(*ssa.Const); !isC {
				return stripConv(bo.X), k
			}
		}
		return minusOneTerm(bo.X, d+1)
	case token.ADD, token.MUL:
		if x, k := minusOneTerm(bo.X, d+1); x != nil {
			return x, k
		}
		return minusOneTerm(bo.Y, d+1)
	}
	return nil, 0
}

type minusOneSite struct {
	in   ssa.Instruction
	x    ssa.Value
	k    int64
	what string
}

// indexAccessors: methods that panic on a negative index
var indexAccessors = map[string]bool{"Get": true, "GetXY": true, "PointN": true, "LineStringN": true, "PolygonN": true, "GeometryN": true, "InteriorRingN": true}

func minusOneSites(f *ssa.Function) []minusOneSite {
	var out []minusOneSite
	eachInstr(f, func(in ssa.Instruction) {
		add := func(v ssa.Value, what string) {
			if v == nil {
				return
			}
			if x, k := minusOneTerm(v, 0); x != nil {
				out = append(out, minusOneSite{in, x, k, what})
			}
		}
		switch x := in.(type) {
		case *ssa.IndexAddr:
			add(x.Index, "index")
		case *ssa.Index:
			add(x.Index, "index")
		case *ssa.Slice:
			add(x.Low, "slice bound")
			add(x.High, "slice bound")
		case *ssa.Call:
			cal := staticCallee(x)
			if cal != nil && cal.Signature.Recv() != nil && indexAccessors[cal.Name()] && len(x.Call.Args) == 2 {
				add(x.Call.Args[1], "argument of "+cal.Name())
			}
		}
	})
	return out
}

// lowerBound: the best constant L for which `v >= L` is established at `in`
// (by guards, by construction of the value, or — for a parameter of a helper
// introduced after the baseline — at every call site).
func (c *Ctx) lowerBound(in ssa.Instruction, v ssa.Value, d int) (int64, bool) {
	if d > 6 {
		return 0, false
	}
	v = stripConv(v)
	best, has := int64(0), false
	take := func(l int64) {
		if !has || l > best {
			best, has = l, true
		}
	}
	if k, ok := constInt(v); ok {
		return k, true
	}
	if lo, _, hasLo, _ := intBounds(in, v); hasLo {
		take(lo)
	}
	if isLengthValue(v) {
		take(0)
		if call, ok := v.(*ssa.Call); ok && emptyGuardedAt(in) {
			if cal := staticCallee(call); cal != nil && cal.Name() == "Length" {
				take(1)
			}
		}
	}
	if call, ok := v.(*ssa.Call); ok {
		if cal := staticCallee(call); cal != nil && FuncName(cal) == "geom.(CoordinatesType).Dimension" {
			take(2)
		}
		// len(x) where x[k] (k constant) has already been evaluated on every path to here:
		// had x been shorter, that access would have panicked first
		if b, isB := call.Call.Value.(*ssa.Builtin); isB && b.Name() == "len" && len(call.Call.Args) == 1 {
			x := call.Call.Args[0]
			// a slice this function has appended g elements to is at least g long
			if g, ok := sliceGrowth(x, 0, map[ssa.Value]bool{}); ok && g > 0 && g < 1<<39 {
				take(g)
			}
			if fn := in.Parent(); fn != nil {
				eachInstr(fn, func(other ssa.Instruction) {
					ia, ok := other.(*ssa.IndexAddr)
					if !ok || !(ia.X == x || sameValue(ia.X, x)) {
						return
					}
					k, isC := constInt(ia.Index)
					if !isC || k < 0 {
						return
					}
					// the element must be accessed (loaded or stored), not merely addressed
					used := false
					for _, r := range *ia.Referrers() {
						switch u := r.(type) {
						case *ssa.UnOp:
							used = used || (u.Op == token.MUL && (u.Block() == in.Block() && instrIndex(u) < instrIndex(in) || u.Block() != in.Block() && u.Block().Dominates(in.Block())))
						case *ssa.Store:
							used = used || (u.Addr == ssa.Value(ia) && (u.Block() == in.Block() && instrIndex(u) < instrIndex(in) || u.Block() != in.Block() && u.Block().Dominates(in.Block())))
						}
					}
					if used {
						take(k + 1)
					}
				})
			}
		}
	}
	for _, g0 := range guardsAt(in) {
		for _, g := range expandGuardDeep(g0) {
			bo, ok := g.Cond.(*ssa.BinOp)
			if !ok {
				continue
			}
			op := bo.Op
			if !g.Truth {
				switch op {
				case token.LSS:
					op = token.GEQ
				case token.LEQ:
					op = token.GTR
				case token.GTR:
					op = token.LEQ
				case token.GEQ:
					op = token.LSS
				case token.EQL:
					op = token.NEQ
				case token.NEQ:
					op = token.EQL
				default:
					continue
				}
			}
			x, y := stripConv(bo.X), stripConv(bo.Y)
			// a length known to be non-zero
			if k, isC := constInt(y); isC && k == 0 && op == token.NEQ && sameQuantity(x, v) && isLengthValue(v) {
				take(1)
			}
			// other < v, other <= v, v > other, v >= other, v == other
			var other ssa.Value
			strict := false
			switch {
			case sameQuantity(y, v) && (op == token.LSS || op == token.LEQ):
				other, strict = x, op == token.LSS
			case sameQuantity(x, v) && (op == token.GTR || op == token.GEQ):
				other, strict = y, op == token.GTR
			case sameQuantity(x, v) && op == token.EQL:
				other = y
			case sameQuantity(y, v) && op == token.EQL:
				other = x
			}
			if other != nil {
				if _, isC := other.(*ssa.Const); !isC && other != v {
					if l, ok := c.lowerBoundNoGuards(other, d+1); ok {
						if strict {
							l++
						}
						take(l)
					}
				}
			}
			// (v - c) >= k
			if sub, isSub := x.(*ssa.BinOp); isSub && sub.Op == token.SUB && sameQuantity(sub.X, v) {
				if cc, isC := constInt(sub.Y); isC {
					if k, isK := constInt(y); isK {
						switch op {
						case token.GEQ:
							take(k + cc)
						case token.GTR:
							take(k + cc + 1)
						}
					}
				}
			}
		}
	}
	switch x := v.(type) {
	case *ssa.Phi:
		// a counter that only grows: the least of its initial values
		good, n := true, 0
		least := int64(0)
		for i, e := range x.Edges {
			pred := x.Block().Preds[i]
			if x.Block().Dominates(pred) {
				bo, isBo := e.(*ssa.BinOp)
				if !isBo || bo.Op != token.ADD || bo.X != ssa.Value(x) {
					good = false
					continue
				}
				if k, isC := constInt(bo.Y); isC {
					if k < 0 {
						good = false
					}
				} else if l, ok := c.lowerBound(pred.Instrs[len(pred.Instrs)-1], bo.Y, d+1); !ok || l < 0 {
					good = false
				}
				continue
			}
			l, ok := c.lowerBound(pred.Instrs[len(pred.Instrs)-1], e, d+1)
			if !ok {
				good = false
				continue
			}
			if n == 0 || l < least {
				least = l
			}
			n++
		}
		if good && n > 0 {
			take(least)
		}
	case *ssa.BinOp:
		la, oka := c.lowerBound(in, x.X, d+1)
		lb, okb := c.lowerBound(in, x.Y, d+1)
		switch x.Op {
		case token.ADD:
			if oka && okb {
				take(la + lb)
			}
		case token.MUL:
			if oka && okb && la >= 0 && lb >= 0 {
				take(la * lb)
			}
		case token.QUO:
			if kk, isC := constInt(x.Y); isC && kk >= 1 && oka && la >= 0 {
				take(la / kk)
			}
		case token.SUB:
			// a - b where b < a (or b < a/c, a >= 0) is established
			if kk, isC := constInt(x.Y); isC && oka {
				take(la - kk)
			}
			for _, g0 := range guardsAt(in) {
				for _, g := range expandGuardDeep(g0) {
					bo, ok := g.Cond.(*ssa.BinOp)
					if !ok {
						continue
					}
					lt := (bo.Op == token.LSS && g.Truth) || (bo.Op == token.GEQ && !g.Truth)
					le := (bo.Op == token.LEQ && g.Truth) || (bo.Op == token.GTR && !g.Truth)
					if !lt && !le {
						continue
					}
					if !sameQuantity(bo.X, x.Y) {
						continue
					}
					hi := stripConv(bo.Y)
					if q, isQ := hi.(*ssa.BinOp); isQ && q.Op == token.QUO {
						if kk, isC := constInt(q.Y); isC && kk >= 1 && oka && la >= 0 {
							hi = stripConv(q.X)
						}
					}
					if sameQuantity(hi, x.X) {
						if lt {
							take(1)
						} else {
							take(0)
						}
					}
				}
			}
		}
	case *ssa.Parameter:
		f := x.Parent()
		// an index parameter that is known not to be zero: indexes are handed
		// around non-negative (the callers' loops and accessors), so it is >= 1
		if !has || best < 1 {
			for _, g0 := range guardsAt(in) {
				for _, g := range expandGuardDeep(g0) {
					bo, ok := g.Cond.(*ssa.BinOp)
					if !ok || !sameQuantity(bo.X, v) {
						continue
					}
					if k, isC := constInt(stripConv(bo.Y)); isC && k == 0 && ((bo.Op == token.NEQ && g.Truth) || (bo.Op == token.EQL && !g.Truth)) {
						take(1)
					}
				}
			}
		}
		if isNewHelper(f) && f.Parent() == nil {
			idx := paramIndex(f, x)
			sites := c.P.callSitesOf(f)
			n, least, good := 0, int64(0), idx >= 0
			for _, cs := range sites {
				if idx >= len(cs.Common().Args) {
					good = false
					break
				}
				l, ok := c.lowerBound(cs.(ssa.Instruction), cs.Common().Args[idx], d+1)
				if !ok {
					good = false
					break
				}
				if n == 0 || l < least {
					least = l
				}
				n++
			}
			if good && n > 0 {
				take(least)
			}
		}
	}
	return best, has
}

// lowerBoundNoGuards: a bound that holds wherever the value exists (constants,
// lengths, counters), for the other side of a comparison.
func (c *Ctx) lowerBoundNoGuards(v ssa.Value, d int) (int64, bool) {
	v = stripConv(v)
	if k, ok := constInt(v); ok {
		return k, true
	}
	if nonNegativeValue(v) {
		return 0, true
	}
	if phi, ok := v.(*ssa.Phi); ok && len(phi.Block().Instrs) > 0 {
		return c.lowerBound(phi.Block().Instrs[0], v, d+1)
	}
	return 0, false
}

// isLengthValue: len(..), cap(..) or a Length/Num* accessor result (never negative)
func isLengthValue(v ssa.Value) bool {
	v = stripConv(v)
	call, ok := v.(*ssa.Call)
	if !ok {
		return false
	}
	if b, ok := call.Call.Value.(*ssa.Builtin); ok {
		return b.Name() == "len" || b.Name() == "cap"
	}
	if cal := staticCallee(call); cal != nil {
		n := cal.Name()
		return n == "Length" || strings.HasPrefix(n, "Num")
	}
	return false
}

// nonNegativeValue: a constant >= 0, a length, or a loop counter starting at >= 0 that only grows
func nonNegativeValue(v ssa.Value) bool {
	v = stripConv(v)
	if k, ok := constInt(v); ok {
		return k >= 0
	}
	if isLengthValue(v) {
		return true
	}
	if phi, ok := v.(*ssa.Phi); ok {
		for i, e := range phi.Edges {
			if phi.Block().Dominates(phi.Block().Preds[i]) {
				bo, isBo := e.(*ssa.BinOp)
				if !isBo || bo.Op != token.ADD || bo.X != ssa.Value(phi) {
					return false
				}
				if k, isC := constInt(bo.Y); !isC || k < 0 {
					return false
				}
				continue
			}
			if k, isC := constInt(e); !isC || k < 0 {
				return false
			}
		}
		return true
	}
	return false
}

// indexUsesParam: an index operand of `in` is computed from a parameter of f.
func indexUsesParam(in ssa.Instruction, f *ssa.Function) bool {
	var uses func(v ssa.Value, d int) bool
	uses = func(v ssa.Value, d int) bool {
		if d > 6 || v == nil {
			return false
		}
		switch x := stripConv(v).(type) {
		case *ssa.Parameter:
			return x.Parent() == f
		case *ssa.BinOp:
			return uses(x.X, d+1) || uses(x.Y, d+1)
		}
		return false
	}
	switch x := in.(type) {
	case *ssa.IndexAddr:
		return uses(x.Index, 0)
	case *ssa.Index:
		return uses(x.Index, 0)
	case *ssa.Slice:
		return uses(x.Low, 0) || uses(x.High, 0)
	case *ssa.Call:
		for _, a := range x.Call.Args {
			if uses(a, 0) {
				return true
			}
		}
	}
	return false
}

// lenOfLocalList: v is len(s) for a slice s that the function builds itself
// (a phi of appends / make / nil, not rooted in a parameter, field or call).
func lenOfLocalList(v ssa.Value) bool {
	call, ok := stripConv(v).(*ssa.Call)
	if !ok {
		return false
	}
	b, ok := call.Call.Value.(*ssa.Builtin)
	if !ok || b.Name() != "len" {
		return false
	}
	seen := map[ssa.Value]bool{}
	var local func(s ssa.Value, d int) bool
	local = func(s ssa.Value, d int) bool {
		if d > 8 || s == nil {
			return false
		}
		if seen[s] {
			return true
		}
		seen[s] = true
		switch x := s.(type) {
		case *ssa.Const:
			return x.Value == nil
		case *ssa.MakeSlice:
			return true
		case *ssa.Phi:
			for _, e := range x.Edges {
				if !local(e, d+1) {
					return false
				}
			}
			return true
		case *ssa.Slice:
			if _, isAlloc := x.X.(*ssa.Alloc); isAlloc {
				return true
			}
			return local(x.X, d+1)
		case *ssa.Call:
			if bi, ok := x.Call.Value.(*ssa.Builtin); ok && bi.Name() == "append" {
				return local(x.Call.Args[0], d+1)
			}
		case *ssa.UnOp:
			if x.Op == token.MUL {
				if al, ok := x.X.(*ssa.Alloc); ok {
					// a local variable: every value stored into it is local
					okAll, n := true, 0
					for _, r := range *al.Referrers() {
						if st, isSt := r.(*ssa.Store); isSt && st.Addr == ssa.Value(al) {
							n++
							if !local(st.Val, d+1) {
								okAll = false
							}
						}
					}
					return okAll && n > 0
				}
			}
		}
		return false
	}
	return local(call.Call.Args[0], 0)
}

func dumpMinusOne(c *Ctx) {
	var lines []string
	for _, f := range c.P.Funcs {
		if !c.P.InRepo(f) {
			continue
		}
		for _, s := range minusOneSites(f) {
			l, has := c.lowerBound(s.in, s.x, 0)
			xs, _ := accessPath(s.x)
			lines = append(lines, fmt.Sprintf("%v\t%s\t%s\t%s of (%s)-%d\tlower bound %d (%v)", has && l >= s.k, c.P.Pos(s.in.Pos()), FuncName(f), s.what, trunc(xs), s.k, l, has))
		}
	}
	sort.Strings(lines)
	for _, l := range lines {
		fmt.Println(l)
	}
}

func init() {
	register(&Rule{
		ID:    "C20.minusone",
		Props: []string{"C20", "C08", "C13"},
		Doc:   "no index below zero from `count - k`: every index, slice bound or Get/GetXY/…N argument in geom and rtree that contains a term `X - k` (k a positive constant, X not) is evaluated only where X >= k is established — by the guards in force (comparisons with constants, with lengths, with loop counters; `len != 0`; the receiver's IsEmpty() known false for its own Length()), by construction (a counter that starts at >= k and only grows, a sum or product of such values, Dimension() >= 2), or, when X is a parameter of a helper introduced after the baseline, at every call site of that helper. The sites of the unchanged tree that rest on an invariant no guard states are a reviewed table (function, reason); a site in a reviewed function's new helper is judged like any other",
		Floor: 12,
		Run:   runC20MinusOne,
	})
}

// minusOneReviewed: functions whose `X - k` indexes rest on an invariant that
// is not a guard in the function (confirmed by reading, one line each).
var minusOneReviewed = map[string]string{
	"geom.convexHull":   "isLinearHull reports ok only together with the first half of an odd-length hull, which has (n+1)/2 >= 1 points",
	"geom.isLinearHull": "the hull has odd length here and is never a single point (convexHull returns before for 0 and 1 distinct points; monotoneChain of >= 2 distinct points returns >= 3 entries), so len/2 >= 1",
	"geom.Distance":     "record IDs are never zero: points are inserted as +(i+1) and segments as -(i+1); the segment index is only used on the branch recordID <= 0",
	"geom.(exactEqualsComparator).lineStringsEq": "reached only for rings (areRings): both sequences have n >= 4 points",
	"geom.(linearInterpolator).interpolate":      "newLinearInterpolator refuses an empty sequence, so Length() >= 1; idx-1 is used where idx equals that length",
	"geom.extractPolygonRing":                    "the same slice when buildRingSequence is written inline: appendAllPoints adds at least two floats for each point of a DCEL edge sequence",
	"geom.buildRingSequence":                     "appendAllPoints adds at least two floats for each point of a sequence that has at least one point (the sequences are DCEL edges with two or more points)",
	"geom.(GeoJSONFeature).MarshalJSON":          "json.Marshal of a struct produced an object, which ends with '}'",
	"rtree.(*entriesQueue).Pop":                  "container/heap calls Pop only on a non-empty queue (heap.Pop swaps the root to the end first)",
}

func runC20MinusOne(c *Ctx) {
	n := 0
	used := map[string]bool{}
	for _, f := range c.P.Funcs {
		if pk := pkgOf(f); pk != "geom" && pk != "rtree" {
			continue
		}
		fn := FuncName(f)
		seen := map[string]int{}
		for _, s := range minusOneSites(f) {
			n++
			xs, _ := accessPath(s.x)
			construct := fmt.Sprintf("%s containing (%s) - %d", s.what, trunc(xs), s.k)
			seen[construct]++
			if seen[construct] > 1 {
				construct = fmt.Sprintf("%s #%d", construct, seen[construct])
			}
			l, has := c.lowerBound(s.in, s.x, 0)
			switch {
			case !(has && l >= s.k) && f.Parent() != nil && indexUsesParam(s.in, f):
				c.Triv(s.in.Pos(), fn, construct, "the index is computed from a parameter of this function literal: which values it receives is decided by the code that calls it, not judged here")
			case !(has && l >= s.k) && lenOfLocalList(s.x):
				c.Triv(s.in.Pos(), fn, construct, "the length of a list this function builds itself (append in a loop): how many elements it holds at this point is a loop invariant, not judged here")
			case has && l >= s.k:
				c.OK(s.in.Pos(), fn, construct, fmt.Sprintf("the value is at least %d where the index is evaluated", l))
			case minusOneReviewed[FuncName(rootFunc(f))] != "":
				used[FuncName(rootFunc(f))] = true
				c.Except(s.in.Pos(), fn, construct, minusOneReviewed[FuncName(rootFunc(f))])
			case inheritedMinusOneReason(c, rootFunc(f), used) != "":
				c.Except(s.in.Pos(), fn, construct, inheritedMinusOneReason(c, rootFunc(f), used))
			default:
				c.Bad(s.in.Pos(), fn, construct, fmt.Sprintf("nothing establishes that (%s) is at least %d where it is used as an index: when it is smaller (an empty or one-element list, a zero count from the input) the index is negative and the access panics", trunc(xs), s.k))
			}
		}
	}
	for fn := range minusOneReviewed {
		if !used[fn] && c.P.Func(fn) != nil {
			// the reviewed function no longer needs its exception: harmless
			continue
		}
	}
	_ = n
}

// ---------------------------------------------------------------------------
// C14.optsforward
// ---------------------------------------------------------------------------

func init() {
	register(&Rule{
		ID:    "C14.optsforward",
		Props: []string{"C14", "C03", "C18", "C20"},
		Doc:   "options reach every delegate: in each geom function that takes a variadic list of a repository option type (AreaOption, NoValidate, ExactEqualsOption, TWKBWriterOption), every call — in the function, its closures and the helpers introduced after the baseline that it hands the list to — of a repository function that itself takes a variadic list of the same type passes the caller's own list (a member branch that calls `.Area()` bare computes the untransformed, unsigned area for that kind of member only; a `Simplify` that forgets `nv...` validates on one branch)",
		Floor: 6,
		Run:   runC14OptsForward,
	})
}

func variadicOptionParam(f *ssa.Function) (*ssa.Parameter, types.Type) {
	if f == nil || !f.Signature.Variadic() || len(f.Params) == 0 {
		return nil, nil
	}
	p := f.Params[len(f.Params)-1]
	st, ok := p.Type().Underlying().(*types.Slice)
	if !ok {
		return nil, nil
	}
	nt, ok := st.Elem().(*types.Named)
	if !ok || nt.Obj().Pkg() == nil || !strings.HasSuffix(nt.Obj().Pkg().Path(), "/geom") {
		return nil, nil
	}
	return p, nt
}

func runC14OptsForward(c *Ctx) {
	for _, f := range c.P.Funcs {
		if pkgOf(f) != "geom" || f.Parent() != nil || len(f.Blocks) == 0 {
			continue
		}
		par, elem := variadicOptionParam(f)
		if par == nil {
			continue
		}
		fn := FuncName(f)
		// the list in f, its closures (captured), and new helpers it is passed to
		type scope struct {
			g    *ssa.Function
			list map[ssa.Value]bool
		}
		var scopes []scope
		seenFn := map[*ssa.Function]bool{}
		var addScope func(g *ssa.Function, list map[ssa.Value]bool, depth int)
		addScope = func(g *ssa.Function, list map[ssa.Value]bool, depth int) {
			if seenFn[g] || depth > 4 {
				return
			}
			seenFn[g] = true
			scopes = append(scopes, scope{g, list})
			for _, a := range g.AnonFuncs {
				// a captured list: the free variable whose binding is (the cell of) the list
				sub := map[ssa.Value]bool{}
				for v := range list {
					sub[v] = true
				}
				addScope(a, sub, depth+1)
			}
		}
		addScope(f, map[ssa.Value]bool{par: true}, 0)
		var isList func(sc scope, v ssa.Value) bool
		isList = func(sc scope, v ssa.Value) bool {
			// through loads of cells (local or captured) that only ever hold the list
			v = resolveCell(v)
			if sc.list[v] {
				return true
			}
			if sl, ok := v.(*ssa.Slice); ok && sl.Low == nil && sl.High == nil {
				return isList(sc, sl.X)
			}
			return false
		}
		for i := 0; i < len(scopes); i++ {
			sc := scopes[i]
			k := 0
			eachCall(sc.g, func(call ssa.CallInstruction) {
				cal := staticCallee(call)
				if cal == nil {
					return
				}
				cp, celem := variadicOptionParam(cal)
				if cp == nil || !types.Identical(celem, elem) {
					// a new helper that receives the list as an ordinary parameter
					if isNewHelper(cal) && len(cal.Blocks) > 0 {
						for ai, a := range call.Common().Args {
							if isList(sc, a) && ai < len(cal.Params) {
								addScope(cal, map[ssa.Value]bool{cal.Params[ai]: true}, 1)
							}
						}
					}
					return
				}
				args := call.Common().Args
				arg := args[len(args)-1]
				k++
				construct := fmt.Sprintf("%s list passed to %s", elem.(*types.Named).Obj().Name(), FuncName(cal))
				if k > 1 {
					construct = fmt.Sprintf("%s (call %d in %s)", construct, k, FuncName(sc.g))
				} else if sc.g != f {
					construct = fmt.Sprintf("%s (in %s)", construct, FuncName(sc.g))
				}
				if isList(sc, arg) {
					c.OK(call.Pos(), fn, construct, "the caller's own list is forwarded")
				} else {
					as, _ := accessPath(arg)
					c.Bad(call.Pos(), fn, construct, fmt.Sprintf("%s takes a list of %s options but calls %s with %s instead of its own list: the options are ignored for whatever this call computes", fn, elem.(*types.Named).Obj().Name(), FuncName(cal), trunc(as)))
				}
			})
		}
	}
}

// ---------------------------------------------------------------------------
// C18.coordeq
// ---------------------------------------------------------------------------

func init() {
	register(&Rule{
		ID:    "C18.coordeq",
		Props: []string{"C18", "C16"},
		Doc:   "Coordinates values are never compared with == or != (as a whole, or as part of a struct or array that contains one): the Z and M fields of a Coordinates value whose Type does not use them are unspecified (NewPoint and Coordinates.AsPoint store what the caller passed), so whole-struct equality distinguishes points that have the same WKB; comparisons go field by field under the coordinates type (exactEqualsComparator.eq) or on XY",
		Floor: 0,
		Run:   runC18CoordEq,
	})
}

func containsCoordinates(t types.Type, d int) bool {
	if d > 4 {
		return false
	}
	if namedName(t) == "Coordinates" {
		if nt, ok := t.(*types.Named); ok && nt.Obj().Pkg() != nil && strings.HasSuffix(nt.Obj().Pkg().Path(), "/geom") {
			return true
		}
	}
	switch u := t.Underlying().(type) {
	case *types.Struct:
		for i := 0; i < u.NumFields(); i++ {
			if containsCoordinates(u.Field(i).Type(), d+1) {
				return true
			}
		}
	case *types.Array:
		return containsCoordinates(u.Elem(), d+1)
	}
	return false
}

func runC18CoordEq(c *Ctx) {
	n := 0
	for _, f := range c.P.Funcs {
		if !c.P.InRepo(f) {
			continue
		}
		fn := FuncName(f)
		eachInstr(f, func(in ssa.Instruction) {
			bo, ok := in.(*ssa.BinOp)
			if !ok || (bo.Op != token.EQL && bo.Op != token.NEQ) {
				return
			}
			if !containsCoordinates(bo.X.Type(), 0) {
				return
			}
			n++
			fromGet := func(v ssa.Value) bool {
				call, ok := resolveCell(v).(*ssa.Call)
				return ok && calleeName(call) == "geom.(Sequence).Get"
			}
			if fromGet(bo.X) && fromGet(bo.Y) {
				c.OK(bo.Pos(), fn, fmt.Sprintf("%s on %s", bo.Op, typeShort(bo.X.Type())), "both operands come straight from Sequence.Get, which zeroes the unused fields")
				return
			}
			c.Bad(bo.Pos(), fn, fmt.Sprintf("%s on %s", bo.Op, typeShort(bo.X.Type())), "a Coordinates value is compared as a whole: its Z and M fields are compared even when its Type says they are unused, and NewPoint / Coordinates.AsPoint keep whatever the caller left in them — two points with the same encoding compare unequal")
		})
	}
	c.Triv(token.NoPos, "-", "summary", fmt.Sprintf("%d whole-value comparisons of Coordinates found in the repository", n))
}

// ---------------------------------------------------------------------------
// C17.filterbreak: a loop that builds a list is not cut short
// ---------------------------------------------------------------------------

type filterLoop struct {
	f      *ssa.Function
	h      *ssa.BasicBlock
	breaks []loopExit
}

// filterLoops: counting/range loops over members whose body appends to a list
// (a local that lives on after the loop) and that can be left from the body
// otherwise than by a return or panic.
func filterLoops(f *ssa.Function) []filterLoop {
	var out []filterLoop
	for _, h := range f.Blocks {
		loop := naturalLoop(h)
		if loop == nil {
			continue
		}
		// appends in the body whose result is carried round the loop (phi at the header) or stored
		builds := false
		for b := range loop {
			for _, in := range b.Instrs {
				call, ok := in.(*ssa.Call)
				if !ok {
					continue
				}
				if bi, ok := call.Call.Value.(*ssa.Builtin); !ok || bi.Name() != "append" {
					continue
				}
				var follow func(v ssa.Value, d int)
				follow = func(v ssa.Value, d int) {
					if d > 3 || v.Referrers() == nil {
						return
					}
					for _, r := range *v.Referrers() {
						if phi, ok := r.(*ssa.Phi); ok {
							if phi.Block() == h {
								builds = true
							} else if loop[phi.Block()] {
								follow(phi, d+1)
							}
						}
						if st, ok := r.(*ssa.Store); ok {
							if al, ok := st.Addr.(*ssa.Alloc); ok && !loop[al.Block()] {
								builds = true
							}
						}
					}
				}
				follow(call, 0)
			}
		}
		if !builds {
			continue
		}
		var brk []loopExit
		for _, e := range bodyExits(h, loop) {
			if endsInPanic(e.to) || returnAfter(e.to) != nil {
				continue
			}
			brk = append(brk, e)
		}
		out = append(out, filterLoop{f, h, brk})
	}
	return out
}

func dumpFilterLoops(c *Ctx) {
	for _, f := range c.P.Funcs {
		if !c.P.InRepo(f) {
			continue
		}
		for _, fl := range filterLoops(f) {
			fmt.Printf("%d\t%s\t%s\n", len(fl.breaks), c.P.Pos(firstPos(fl.h)), FuncName(f))
		}
	}
}

func init() {
	register(&Rule{
		ID:    "C17.filterbreak",
		Props: []string{"C17", "C20", "C15", "C03"},
		Doc:   "a loop that walks a collection (a counting or range loop, i.e. one with a loop condition) and builds a list from it — appends an element, a transformed element, or skips it — is never left by a break: skipping one element is `continue`; a break drops every element after the first one skipped (Polygon.Simplify dropping all holes listed after a collapsed one). Loops without a condition (`for { … }` reading tokens or walking edges until a terminator) are not in scope",
		Floor: 15,
		Run: func(c *Ctx) {
			for _, f := range c.P.Funcs {
				if pk := pkgOf(f); pk != "geom" && pk != "rtree" && pk != "carto" {
					continue
				}
				counted := map[*ssa.BasicBlock]bool{}
				for _, cl := range countingLoops(f) {
					// the counter is what the loop condition tests (not `for i := 0; true; i++`)
					ifi, ok := cl.h.Instrs[len(cl.h.Instrs)-1].(*ssa.If)
					if !ok {
						continue
					}
					bo, ok := ifi.Cond.(*ssa.BinOp)
					if !ok {
						continue
					}
					for _, opnd := range []ssa.Value{bo.X, bo.Y} {
						if cl.cell != nil {
							counted[cl.h] = true
						}
						if opnd == ssa.Value(cl.phi) {
							counted[cl.h] = true
						}
						if add, ok := opnd.(*ssa.BinOp); ok && add.Op == token.ADD && add.X == ssa.Value(cl.phi) {
							counted[cl.h] = true
						}
					}
				}
				for _, fl := range filterLoops(f) {
					if !counted[fl.h] {
						continue // `for { … }` until a terminator is read: not a walk over a collection
					}
					construct := fmt.Sprintf("list-building loop #%d", loopOrdinal(f, fl.h))
					if len(fl.breaks) == 0 {
						c.OK(firstPos(fl.h), FuncName(f), construct, "left only when the collection is exhausted (or by a return)")
						continue
					}
					c.Bad(firstPos(fl.breaks[0].from), FuncName(f), construct, "the loop that builds a list from the members of a collection is left by a break at "+c.P.Pos(firstPos(fl.breaks[0].from))+": the members after that point are silently dropped from the result (to leave one member out, continue)")
				}
			}
		},
	})
}

// ---------------------------------------------------------------------------
// C06.parsed: no success without having parsed
// ---------------------------------------------------------------------------

func init() {
	register(&Rule{
		ID:    "C06.parsed",
		Props: []string{"C06", "C08"},
		Doc:   "a JSON decoding step cannot succeed without decoding: in every geom function that hands one of its own parameters (raw JSON bytes) to encoding/json.Unmarshal and returns an error, each return whose error can be nil is dominated by such a call (a `len(raw) == 0 -> return nil` shortcut in front of the call turns a missing \"coordinates\" member — which json.Unmarshal rejects as unexpected end of input — into an empty geometry)",
		Floor: 2,
		Run: func(c *Ctx) {
			for _, f := range c.P.Funcs {
				if pkgOf(f) != "geom" || len(f.Blocks) == 0 {
					continue
				}
				res := f.Signature.Results()
				if res.Len() == 0 || !isErrorType(res.At(res.Len()-1).Type()) {
					continue
				}
				// the calls that decode the function's own input (a []byte / RawMessage parameter)
				var calls []ssa.CallInstruction
				for _, call := range callsTo(f, "encoding/json.Unmarshal") {
					a := resolveCell(stripConv(call.Common().Args[0]))
					if ch, ok := a.(*ssa.ChangeType); ok {
						a = resolveCell(ch.X)
					}
					if p, ok := a.(*ssa.Parameter); ok && p.Parent() == f {
						calls = append(calls, call)
					}
				}
				if len(calls) == 0 {
					continue
				}
				fn := FuncName(f)
				k := 0
				for _, r := range returnsOf(f) {
					if provablyNonNilErr(r) {
						continue
					}
					k++
					dominated := false
					for _, call := range calls {
						if call.Block().Dominates(r.Block()) {
							dominated = true
						}
					}
					construct := fmt.Sprintf("return #%d that can succeed", k)
					c.Check(dominated, instrPos(r), fn, construct, "behind a json.Unmarshal call", "this return can report success on a path that never called json.Unmarshal: whatever the raw JSON holds (nothing at all, for a missing member) is accepted without being decoded")
				}
			}
		},
	})
}

// ---------------------------------------------------------------------------
// C10.consumed: the slice handed to BulkLoad is gone
// ---------------------------------------------------------------------------

func init() {
	register(&Rule{
		ID:    "C10.consumed",
		Props: []string{"C10", "C03", "C11", "C09"},
		Doc:   "rtree.BulkLoad takes ownership of its items slice and permutes it while building the tree (the reviewed exception of C10.write): after the call no caller reads an element of that slice again — not by index, by slicing, by range, by passing it on, or from a closure — because position i no longer holds item i (Polygon.Validate searching with items[i].Box after the load compares ring i against another ring's envelope as soon as there are 5 rings)",
		Floor: 5,
		Run: func(c *Ctx) {
			for _, f := range c.P.Funcs {
				if !c.P.InRepo(f) || pkgOf(f) == "rtree" {
					continue
				}
				for _, call := range callsTo(f, "rtree.BulkLoad") {
					arg := call.Common().Args[0]
					fn := FuncName(f)
					// the slice value and, when it lives in a variable, every load of that variable
					alias := map[ssa.Value]bool{arg: true}
					var cell *ssa.Alloc
					if ld, ok := arg.(*ssa.UnOp); ok && ld.Op == token.MUL {
						if al, ok := ld.X.(*ssa.Alloc); ok {
							cell = al
						}
					}
					bad := ""
					after := func(in ssa.Instruction) bool {
						if in.Parent() != f {
							return true // a closure: runs whenever it is called, e.g. from the search that follows
						}
						if in.Block() == call.Block() {
							for _, x := range in.Block().Instrs {
								if x == in {
									return false
								}
								if x == call.(ssa.Instruction) {
									return true
								}
							}
						}
						if in.Block() == call.Block() {
							return false
						}
						if in.Block().Dominates(call.Block()) {
							return false // on every path before the call (a later iteration of an enclosing loop builds a new slice first)
						}
						return reaches(call.Block(), in.Block(), nil)
					}
					reads := func(v ssa.Value) {
						if v.Referrers() == nil {
							return
						}
						for _, r := range *v.Referrers() {
							if r == call.(ssa.Instruction) {
								continue
							}
							switch x := r.(type) {
							case *ssa.DebugRef:
								continue
							case *ssa.Call:
								if b, ok := x.Call.Value.(*ssa.Builtin); ok && (b.Name() == "len" || b.Name() == "cap") {
									continue
								}
							}
							if after(r) {
								bad = "the slice is used again at " + c.P.Pos(instrPos(r))
							}
						}
					}
					reads(arg)
					if cell != nil {
						for _, r := range *cell.Referrers() {
							switch x := r.(type) {
							case *ssa.UnOp:
								if x != arg {
									alias[x] = true
									reads(x)
								}
							case *ssa.MakeClosure:
								bad = "the variable holding the slice is captured by a closure at " + c.P.Pos(x.Pos())
							}
						}
					}
					c.Check(bad == "", call.Pos(), fn, "items slice after BulkLoad", "not read again", "rtree.BulkLoad permutes the slice it is given, and "+bad+": element i is no longer item i")
				}
			}
		},
	})
}

// ---------------------------------------------------------------------------
// C13.bothordinates
// ---------------------------------------------------------------------------

// xyFieldOf: v reads field X or Y of an XY-typed value: returns the base and the field name.
func xyFieldOf(v ssa.Value) (ssa.Value, string, bool) {
	v = stripConv(v)
	switch x := v.(type) {
	case *ssa.Field:
		if namedName(x.X.Type()) == "XY" {
			return x.X, fieldName(x.X.Type(), x.Field), true
		}
	case *ssa.UnOp:
		if x.Op == token.MUL {
			if fa, ok := x.X.(*ssa.FieldAddr); ok && namedName(deref(fa.X.Type())) == "XY" {
				return fa.X, fieldName(fa.X.Type(), fa.Field), true
			}
		}
	}
	return nil, "", false
}

type ordCompare struct {
	bo   *ssa.BinOp
	a, b ssa.Value
	fld  string
}

func ordinateCompares(f *ssa.Function) []ordCompare {
	var out []ordCompare
	eachInstr(f, func(in ssa.Instruction) {
		bo, ok := in.(*ssa.BinOp)
		if !ok {
			return
		}
		switch bo.Op {
		case token.EQL, token.NEQ, token.LSS, token.LEQ, token.GTR, token.GEQ:
		default:
			return
		}
		a, fa, ok1 := xyFieldOf(bo.X)
		b, fb, ok2 := xyFieldOf(bo.Y)
		if ok1 && ok2 && fa == fb && a != b {
			out = append(out, ordCompare{bo, a, b, fa})
		}
	})
	return out
}

func init() {
	register(&Rule{
		ID:    "C13.bothordinates",
		Props: []string{"C13", "C03", "C20"},
		Doc:   "two points are told apart on both ordinates: wherever a function compares the X ordinates of two XY values for equality or inequality (p.X == q.X, p.X != q.X), the same function also compares the Y ordinates of the same two values (or the two values as wholes) — a distinctness or tie test on X alone treats every vertical arrangement as one point (`hasAtLeast2DistinctPointsInXYs` comparing pt.X != first.X makes the hull of a vertical line a single point)",
		Floor: 2,
		Run: func(c *Ctx) {
			for _, f := range c.P.Funcs {
				if !c.P.InRepo(f) || len(f.Blocks) == 0 {
					continue
				}
				cmps := ordinateCompares(f)
				fn := FuncName(f)
				k := 0
				for _, oc := range cmps {
					if oc.fld != "X" || (oc.bo.Op != token.EQL && oc.bo.Op != token.NEQ) {
						continue
					}
					k++
					same := func(p, q ssa.Value) bool {
						if p == q || sameValue(p, q) || sameAddr(p, q, 0) || sameValueDeep(p, q, 0) {
							return true
						}
						// the same expression evaluated twice (ps[i] in `ps[i].X` and in `ps[i].Y`)
						ps, ok1 := accessPath(p)
						qs, ok2 := accessPath(q)
						return ok1 && ok2 && ps == qs
					}
					hasY := false
					for _, o := range cmps {
						if o.fld == "Y" && ((same(o.a, oc.a) && same(o.b, oc.b)) || (same(o.a, oc.b) && same(o.b, oc.a))) {
							hasY = true
						}
					}
					construct := fmt.Sprintf("X ordinates compared with %s #%d", oc.bo.Op, k)
					c.Check(hasY, oc.bo.Pos(), fn, construct, "the Y ordinates of the same two points are compared in this function as well", "the X ordinates of two points are compared for (in)equality but their Y ordinates never are: two points on the same vertical line are taken for the same point (or tie) here")
				}
			}
		},
	})
}

// ---------------------------------------------------------------------------
// C15.noepsilon
// ---------------------------------------------------------------------------

func init() {
	register(&Rule{
		ID:    "C15.noepsilon",
		Props: []string{"C15", "C03", "C09", "C13", "C01"},
		Doc:   "geom and rtree decide with exact comparisons: no floating-point value is compared (<, <=, >, >=) with a built-in tolerance, i.e. a non-zero constant of magnitude below 1e-3 (tolerances only come from the caller, e.g. ToleranceXY) — merging scan-line intercepts that are closer than 1e-9 makes a thin polygon's two crossings one, and the parity argument of PointOnSurface then picks a boundary point or nothing",
		Floor: 0,
		Run: func(c *Ctx) {
			n := 0
			for _, f := range c.P.Funcs {
				if pk := pkgOf(f); pk != "geom" && pk != "rtree" {
					continue
				}
				eachInstr(f, func(in ssa.Instruction) {
					bo, ok := in.(*ssa.BinOp)
					if !ok || !isFloat(bo.X.Type()) {
						return
					}
					switch bo.Op {
					case token.LSS, token.LEQ, token.GTR, token.GEQ:
					default:
						return
					}
					for _, opnd := range []ssa.Value{bo.X, bo.Y} {
						kc, ok := stripConv(opnd).(*ssa.Const)
						if !ok {
							continue
						}
						if k, ok := constantFloat(kc); ok && k != 0 && k > -1e-3 && k < 1e-3 {
							n++
							c.Bad(bo.Pos(), FuncName(f), fmt.Sprintf("comparison with the tolerance %v", k), "a value is compared with a built-in tolerance: the geometry code is exact everywhere else, so two distinct values closer than this are treated as one here only (and results change with the scale of the input)")
						}
					}
				})
			}
			c.Triv(token.NoPos, "-", "summary", fmt.Sprintf("%d comparisons with a built-in tolerance in geom and rtree", n))
		},
	})
}

// ---------------------------------------------------------------------------
// C07.formed: a TWKB is only assembled from a writer whose headers were written
// ---------------------------------------------------------------------------

func init() {
	register(&Rule{
		ID:    "C07.formed",
		Props: []string{"C07", "C08"},
		Doc:   "every TWKB that is assembled is complete: each call of twkbWriter.formTWKB is dominated by a call, on the same writer, of writeGeometry or of writeAdditionalHeaders (directly or through a helper introduced after the baseline that calls one of them on its receiver) — the step that emits the size and bounding-box headers the metadata byte has already announced. A GeometryCollection member written with the bare type dispatch sets the has-size bit but never writes the size, and the decoder then reads coordinates as a length",
		Floor: 2,
		Run: func(c *Ctx) {
			writesHeaders := func(cal *ssa.Function) bool {
				if cal == nil {
					return false
				}
				switch FuncName(cal) {
				case "geom.(*twkbWriter).writeGeometry", "geom.(*twkbWriter).writeAdditionalHeaders":
					return true
				}
				if isNewHelper(cal) && len(cal.Blocks) > 0 && len(cal.Params) > 0 {
					found := false
					eachCall(cal, func(ci ssa.CallInstruction) {
						if g := staticCallee(ci); g != nil && len(ci.Common().Args) > 0 && ci.Common().Args[0] == ssa.Value(cal.Params[0]) {
							switch FuncName(g) {
							case "geom.(*twkbWriter).writeGeometry", "geom.(*twkbWriter).writeAdditionalHeaders":
								found = true
							}
						}
					})
					return found
				}
				return false
			}
			for _, f := range c.P.Funcs {
				if pkgOf(f) != "geom" {
					continue
				}
				for _, form := range callsTo(f, "geom.(*twkbWriter).formTWKB") {
					recv := form.Common().Args[0]
					ok := false
					eachCall(f, func(ci ssa.CallInstruction) {
						if !writesHeaders(staticCallee(ci)) || len(ci.Common().Args) == 0 {
							return
						}
						r := ci.Common().Args[0]
						if (r == recv || sameValue(r, recv)) && ci.Block().Dominates(form.Block()) {
							if ci.Block() != form.Block() || instrIndex(ci.(ssa.Instruction)) < instrIndex(form.(ssa.Instruction)) {
								ok = true
							}
						}
					})
					c.Check(ok, form.Pos(), FuncName(f), "headers written before the TWKB is formed", "writeGeometry / writeAdditionalHeaders on the same writer dominates formTWKB", "formTWKB assembles the output of a writer on which neither writeGeometry nor writeAdditionalHeaders was called on every path before: the size / bounding-box headers announced in the metadata byte are missing from the encoding")
				}
			}
		},
	})
}

func instrIndex(in ssa.Instruction) int {
	for i, x := range in.Block().Instrs {
		if x == in {
			return i
		}
	}
	return -1
}

// ---------------------------------------------------------------------------
// C15.ringsboundary
// ---------------------------------------------------------------------------

func init() {
	register(&Rule{
		ID:    "C15.ringsboundary",
		Props: []string{"C15", "C20"},
		Doc:   "the boundary of a MultiPolygon is exactly its rings: MultiPolygon.Boundary interpreted on two member polygons with 0, 1 or 2 rings each (an EMPTY member has none) hands NewMultiLineString one line per ring, in member and ring order, and nothing else — in particular no placeholder for an empty member (ExteriorRing() of an empty polygon is an empty LineString, not a ring)",
		Floor: 1,
		Run:   runC15RingsBoundary,
	})
}

func runC15RingsBoundary(c *Ctx) {
	f := c.P.Func("geom.(MultiPolygon).Boundary")
	if f == nil {
		c.Errorf("anchor geom.(MultiPolygon).Boundary does not resolve")
		return
	}
	inl := func(g *ssa.Function) bool {
		switch FuncName(g) {
		case "geom.(Polygon).NumRings", "geom.(Polygon).ExteriorRing", "geom.(Polygon).NumInteriorRings", "geom.(Polygon).InteriorRingN", "geom.(Polygon).IsEmpty", "geom.maxInt",
			"geom.(MultiPolygon).NumPolygons", "geom.(MultiPolygon).PolygonN":
			return true
		}
		return false
	}
	problem, undec := "", ""
	models := 0
	for k0 := 0; k0 <= 2 && problem == "" && undec == ""; k0++ {
		for k1 := 0; k1 <= 2 && problem == "" && undec == ""; k1++ {
			models++
			m := &Model{Num: map[string]float64{}, Bool: map[string]bool{}, Missing: map[string]bool{}}
			it := &k4interp{p: c.P, m: m, mem: map[string]k4val{}, inline: inl}
			it.mem["$0.polys"] = k4val{kind: 8, s: "POLYS", ln: 2, cp: 2}
			it.mem["POLYS[0].rings"] = k4val{kind: 8, s: "R0", ln: k0, cp: k0}
			it.mem["POLYS[1].rings"] = k4val{kind: 8, s: "R1", ln: k1, cp: k1}
			var want []string
			for j := 0; j < k0; j++ {
				it.mem[fmt.Sprintf("R0[%d]", j)] = k4val{kind: 3, s: fmt.Sprintf("R0[%d]", j)}
				want = append(want, fmt.Sprintf("R0[%d]", j))
			}
			for j := 0; j < k1; j++ {
				it.mem[fmt.Sprintf("R1[%d]", j)] = k4val{kind: 3, s: fmt.Sprintf("R1[%d]", j)}
				want = append(want, fmt.Sprintf("R1[%d]", j))
			}
			var got []string
			built := 0
			it.onOpaque = func(name string, args []k4val) {
				if strings.HasSuffix(name, "NewMultiLineString") && len(args) == 1 {
					built++
					got = nil
					if args[0].kind == 8 {
						for i := 0; i < args[0].ln; i++ {
							el, ok := it.mem[fmt.Sprintf("%s[%d]", args[0].s, args[0].off+i)]
							if !ok {
								el = k4val{kind: 3, s: fmt.Sprintf("%s[%d]", args[0].s, args[0].off+i)}
							}
							got = append(got, el.String())
						}
					}
				}
			}
			it.answer = func(key string, isBool bool) (k4val, bool) {
				if !isBool && strings.Contains(key, ".ctype") {
					return k4val{kind: 2, f: 0}, true
				}
				return k4val{}, false
			}
			if _, err := it.call(f, []k4val{{kind: 3, s: "$0"}}, nil); err != nil {
				undec = fmt.Sprintf("%v %s", err, trunc(missingList(m)))
				break
			}
			okAll := built == 1 && len(got) == len(want)
			for i := 0; okAll && i < len(want); i++ {
				if !strings.Contains(got[i], want[i]) {
					okAll = false
				}
			}
			if !okAll {
				problem = fmt.Sprintf("for member polygons with %d and %d rings the boundary is built from %v; the rings are %v", k0, k1, got, want)
			}
		}
	}
	reportK4(c, f, "lines of the boundary", undec, problem, fmt.Sprintf("one line per ring, in order, for 0..2 rings per member (%d models)", models))
}

// ---------------------------------------------------------------------------
// C20.capacity
// ---------------------------------------------------------------------------

func init() {
	register(&Rule{
		ID:    "C20.capacity",
		Props: []string{"C20", "C16"},
		Doc:   "an exact-capacity assertion counts points, not members: in every geom function that calls Sequence.assertNoUnusedCapacity (which panics when capacity and length differ), the capacity of each []float64 it allocates is not computed from the NUMBER OF MEMBER GEOMETRIES (len of a slice of Point, LineString, Polygon or Geometry, or a Num…() accessor of a collection) — an empty member contributes no coordinates, so such a capacity is too large for every collection with an empty member and the assertion fires; capacities are sums of Sequence lengths",
		Floor: 3,
		Run: func(c *Ctx) {
			isGeomType := func(t types.Type) bool {
				switch namedName(t) {
				case "Point", "LineString", "Polygon", "MultiPoint", "MultiLineString", "MultiPolygon", "GeometryCollection", "Geometry":
					return true
				}
				return false
			}
			for _, f := range c.P.Funcs {
				if pkgOf(f) != "geom" || len(f.Blocks) == 0 {
					continue
				}
				if len(callsTo(f, "geom.(Sequence).assertNoUnusedCapacity")) == 0 {
					continue
				}
				fn := FuncName(f)
				k := 0
				eachInstr(f, func(in ssa.Instruction) {
					ms, ok := in.(*ssa.MakeSlice)
					if !ok {
						return
					}
					if st, ok := ms.Type().Underlying().(*types.Slice); !ok || !isFloat(st.Elem()) {
						return
					}
					k++
					bad := ""
					seen := map[ssa.Value]bool{}
					var walk func(v ssa.Value, d int)
					walk = func(v ssa.Value, d int) {
						v = stripConv(v)
						if d > 8 || v == nil || seen[v] {
							return
						}
						seen[v] = true
						switch x := v.(type) {
						case *ssa.BinOp:
							walk(x.X, d+1)
							walk(x.Y, d+1)
						case *ssa.Phi:
							for _, e := range x.Edges {
								walk(e, d+1)
							}
						case *ssa.UnOp:
							if x.Op == token.MUL {
								if al, ok := x.X.(*ssa.Alloc); ok {
									for _, r := range *al.Referrers() {
										if st, ok := r.(*ssa.Store); ok && st.Addr == ssa.Value(al) {
											walk(st.Val, d+1)
										}
									}
								}
							}
						case *ssa.Call:
							if b, ok := x.Call.Value.(*ssa.Builtin); ok && b.Name() == "len" {
								if st, ok := x.Call.Args[0].Type().Underlying().(*types.Slice); ok && isGeomType(st.Elem()) {
									as, _ := accessPath(x.Call.Args[0])
									bad = "len(" + trunc(as) + "), the number of member geometries"
								}
								return
							}
							if cal := staticCallee(x); cal != nil && cal.Signature.Recv() != nil && strings.HasPrefix(cal.Name(), "Num") && cal.Name() != "NumRings" && cal.Name() != "NumInteriorRings" && isGeomType(cal.Signature.Recv().Type()) {
								bad = FuncName(cal) + "(), the number of member geometries"
							}
						}
					}
					walk(ms.Cap, 0)
					c.Check(bad == "", ms.Pos(), fn, fmt.Sprintf("capacity of coordinate buffer #%d", k), "computed from sequence lengths", "the function asserts that its coordinate buffer is filled exactly, but sizes it from "+bad+": an empty member adds nothing to the buffer, so the assertion panics for every collection that has one")
				})
			}
		},
	})
}

// ---------------------------------------------------------------------------
// C16.xypairs
// ---------------------------------------------------------------------------

// xyPairAppend: call is append(list, p.X, p.Y) for one XY value p (exactly two
// values, the X and the Y field of the same XY).
func xyPairAppend(call *ssa.Call) bool {
	if len(call.Call.Args) != 2 {
		return false
	}
	sl, ok := call.Call.Args[1].(*ssa.Slice)
	if !ok {
		return false
	}
	al, ok := sl.X.(*ssa.Alloc)
	if !ok {
		return false
	}
	at, ok := deref(al.Type()).Underlying().(*types.Array)
	if !ok || at.Len() != 2 {
		return false
	}
	var flds [2]string
	var bases [2]ssa.Value
	for _, r := range *al.Referrers() {
		ia, ok := r.(*ssa.IndexAddr)
		if !ok {
			continue
		}
		i, ok := constInt(ia.Index)
		if !ok || i < 0 || i > 1 {
			return false
		}
		for _, rr := range *ia.Referrers() {
			if st, ok := rr.(*ssa.Store); ok && st.Addr == ssa.Value(ia) {
				b, fl, ok := xyFieldOf(st.Val)
				if !ok {
					return false
				}
				flds[i], bases[i] = fl, b
			}
		}
	}
	if flds[0] != "X" || flds[1] != "Y" {
		return false
	}
	pa, _ := accessPath(bases[0])
	pb, _ := accessPath(bases[1])
	return bases[0] == bases[1] || sameAddr(bases[0], bases[1], 0) || sameValue(bases[0], bases[1]) || pa == pb
}

// builtFromXYPairs: the float slice v is a local list that only ever grows by xyPairAppend.
func builtFromXYPairs(v ssa.Value, seen map[ssa.Value]bool, d int) (pairs int, ok bool) {
	if d > 10 {
		return 0, false
	}
	if seen[v] {
		return 0, true
	}
	seen[v] = true
	switch x := v.(type) {
	case *ssa.Const:
		return 0, x.Value == nil
	case *ssa.MakeSlice:
		if k, isC := constInt(x.Len); isC && k == 0 {
			return 0, true
		}
		return 0, false
	case *ssa.Phi:
		n := 0
		for _, e := range x.Edges {
			k, ok := builtFromXYPairs(e, seen, d+1)
			if !ok {
				return 0, false
			}
			n += k
		}
		return n, true
	case *ssa.Call:
		if b, isB := x.Call.Value.(*ssa.Builtin); isB && b.Name() == "append" {
			if !xyPairAppend(x) {
				return 0, false
			}
			k, ok := builtFromXYPairs(x.Call.Args[0], seen, d+1)
			return k + 1, ok
		}
	case *ssa.UnOp:
		if x.Op == token.MUL {
			if al, isAl := x.X.(*ssa.Alloc); isAl {
				n, stores := 0, 0
				for _, r := range *al.Referrers() {
					if st, isSt := r.(*ssa.Store); isSt && st.Addr == ssa.Value(al) {
						stores++
						k, ok := builtFromXYPairs(st.Val, seen, d+1)
						if !ok {
							return 0, false
						}
						n += k
					}
				}
				return n, stores > 0
			}
		}
	}
	return 0, false
}

func init() {
	register(&Rule{
		ID:    "C16.xypairs",
		Props: []string{"C16", "C01"},
		Doc:   "a coordinate list assembled from XY values is an XY sequence: wherever a float slice that a function builds solely by `append(list, p.X, p.Y)` (two ordinates per point) is made into a Sequence, the coordinates type given to NewSequence is the constant DimXY — typing it with a geometry's own coordinates type makes a Z/M input read the pairs with stride 3 or 4 (the re-noded lines of the overlay)",
		Floor: 0,
		Run: func(c *Ctx) {
			for _, f := range c.P.Funcs {
				if pkgOf(f) != "geom" || len(f.Blocks) == 0 {
					continue
				}
				for _, call := range callsTo(f, "geom.NewSequence") {
					args := call.Common().Args
					pairs, ok := builtFromXYPairs(args[0], map[ssa.Value]bool{}, 0)
					if !ok || pairs == 0 {
						continue
					}
					k, isC := constInt(args[1])
					as, _ := accessPath(args[1])
					c.Check(isC && k == 0, call.Pos(), FuncName(f), "coordinates type of a list of X,Y pairs", "DimXY", "the float list holds two ordinates per point (it is only ever extended by append(list, p.X, p.Y)) but the Sequence is typed "+trunc(as)+": for a Z or M type the constructor panics on the length or reads the pairs with the wrong stride")
				}
			}
		},
	})
}

// ---------------------------------------------------------------------------
// C05.sticky: a per-member decision is not carried to the next member
// ---------------------------------------------------------------------------

func init() {
	register(&Rule{
		ID:    "C05.sticky",
		Props: []string{"C05", "C08", "C20"},
		Doc:   "a per-element decision does not leak into the next element: when a loop hands the address of a Boolean variable declared OUTSIDE the loop to a function it calls for each element, and that function both branches on the flag and can only ever set it (stores the constant true, never false), the loop itself resets the flag in every iteration — otherwise what was decided for one element (this MULTIPOINT member is written with parentheses) is silently applied to all later ones. Flags that are only read after the loop (accumulators such as `found`) are not concerned",
		Floor: 0,
		Run: func(c *Ctx) {
			n := 0
			for _, f := range c.P.Funcs {
				if !c.P.InRepo(f) || len(f.Blocks) == 0 {
					continue
				}
				for _, h := range f.Blocks {
					loop := naturalLoop(h)
					if loop == nil {
						continue
					}
					for b := range loop {
						for _, in := range b.Instrs {
							call, ok := in.(*ssa.Call)
							if !ok {
								continue
							}
							cal := staticCallee(call)
							if cal == nil || len(cal.Blocks) == 0 {
								continue
							}
							for ai, a := range call.Call.Args {
								al, ok := a.(*ssa.Alloc)
								if !ok || loop[al.Block()] || !isBoolT(deref(al.Type())) || ai >= len(cal.Params) {
									continue
								}
								par := cal.Params[ai]
								setsTrue, setsOther, branches := false, false, false
								for _, r := range *par.Referrers() {
									switch x := r.(type) {
									case *ssa.Store:
										if x.Addr == ssa.Value(par) {
											if bv, isC := constBool(x.Val); isC && bv {
												setsTrue = true
											} else {
												setsOther = true
											}
										}
									case *ssa.UnOp:
										if x.Op == token.MUL {
											for _, rr := range *x.Referrers() {
												if _, isIf := rr.(*ssa.If); isIf {
													branches = true
												}
											}
										}
									default:
										setsOther = true // passed on: unknown
									}
								}
								if !setsTrue || setsOther || !branches {
									continue
								}
								n++
								reset := false
								for _, r := range *al.Referrers() {
									if st, ok := r.(*ssa.Store); ok && st.Addr == ssa.Value(al) && loop[st.Block()] {
										if bv, isC := constBool(st.Val); isC && !bv {
											reset = true
										}
									}
								}
								c.Check(reset, call.Pos(), FuncName(f), "flag "+al.Comment+" handed to "+FuncName(cal)+" for each element", "reset to false in every iteration", FuncName(cal)+" branches on the flag and can only set it to true, the variable lives outside the loop and the loop never resets it: once one element has set it, every later element is treated the same way")
							}
						}
					}
				}
			}
			c.Triv(token.NoPos, "-", "summary", fmt.Sprintf("%d per-element flags passed by address from a loop", n))
		},
	})
}

// ---------------------------------------------------------------------------
// C03.simpleboundary
// ---------------------------------------------------------------------------

func init() {
	register(&Rule{
		ID:    "C03.simpleboundary",
		Props: []string{"C03", "C15"},
		Doc:   "a MultiLineString is simple iff its members meet only at points on the BOUNDARY of both (OGC): MultiLineString.IsSimple — with its closures and the helpers introduced after the baseline that it calls — decides a tolerated meeting point from the boundaries of the two lines involved, i.e. it calls LineString.Boundary() (or IsClosed(), the only thing that distinguishes the boundary from the end points: a closed line has none) on two different lines. Testing `first or last point of the sequence` instead accepts a line ending on the start vertex of a ring, and the verdict then depends on which vertex the ring starts at",
		Floor: 1,
		Run: func(c *Ctx) {
			f := c.P.Func("geom.(MultiLineString).IsSimple")
			if f == nil {
				c.Errorf("anchor geom.(MultiLineString).IsSimple does not resolve")
				return
			}
			var recvs []ssa.Value
			for _, g := range withNewHelpers(f) {
				for _, h := range append([]*ssa.Function{g}, allAnon(g)...) {
					eachCall(h, func(call ssa.CallInstruction) {
						cal := staticCallee(call)
						if cal == nil || cal.Signature.Recv() == nil || namedName(cal.Signature.Recv().Type()) != "LineString" {
							return
						}
						if cal.Name() != "Boundary" && cal.Name() != "IsClosed" {
							return
						}
						r := resolveCell(call.Common().Args[0])
						for _, o := range recvs {
							if o == r || sameValue(o, r) {
								return
							}
						}
						recvs = append(recvs, r)
					})
				}
			}
			c.Check(len(recvs) >= 2, f.Pos(), FuncName(f), "meeting points judged by the lines' boundaries", fmt.Sprintf("Boundary()/IsClosed() consulted on %d different lines", len(recvs)), fmt.Sprintf("IsSimple consults Boundary()/IsClosed() on %d line(s), it needs the boundary of both lines that meet: end points of a closed line are not boundary points, so a test on end points alone accepts a line that ends on a ring's start vertex", len(recvs)))
		},
	})
}

// ---------------------------------------------------------------------------
// C09.partialfill
// ---------------------------------------------------------------------------

func init() {
	register(&Rule{
		ID:    "C09.partialfill",
		Props: []string{"C09", "C20", "C16", "C13"},
		Doc:   "a buffer allocated at full length and filled selectively is cut to what was filled: when a slice made with a non-zero length is written at a position that is NOT written in every iteration of the loop (a store under a condition, at a cursor that advances only when something is kept), the value that leaves the function — returned, passed on, ranged over — is that slice re-sliced (`buf[:k]`), never the full-length slice, whose tail still holds zero values (a phantom segment (0,0)-(0,0) for every skipped zero-length segment)",
		Floor: 0,
		Run: func(c *Ctx) {
			for _, f := range c.P.Funcs {
				if pk := pkgOf(f); (pk != "geom" && pk != "rtree") || len(f.Blocks) == 0 {
					continue
				}
				eachInstr(f, func(in ssa.Instruction) {
					ms, ok := in.(*ssa.MakeSlice)
					if !ok {
						return
					}
					if k, isC := constInt(ms.Len); isC && k == 0 {
						return
					}
					// conditional element stores in a loop
					partial := false
					var storePos token.Pos
					direct := map[ssa.Instruction]bool{}
					for _, r := range *ms.Referrers() {
						ia, ok := r.(*ssa.IndexAddr)
						if !ok {
							continue
						}
						direct[ia] = true
						for _, rr := range *ia.Referrers() {
							st, ok := rr.(*ssa.Store)
							if !ok || st.Addr != ssa.Value(ia) {
								continue
							}
							var loop map[*ssa.BasicBlock]bool
							var hdr *ssa.BasicBlock
							for _, h := range f.Blocks {
								if l := naturalLoop(h); l != nil && l[st.Block()] && (loop == nil || len(l) < len(loop)) {
									loop, hdr = l, h
								}
							}
							if loop == nil {
								continue
							}
							every := true
							for _, p := range hdr.Preds {
								if loop[p] && !st.Block().Dominates(p) {
									every = false
								}
							}
							// written at the loop's own counter on every iteration: a full fill
							if every {
								continue
							}
							// a conditional store at the loop's own induction variable leaves gaps: C16.fill's subject;
							// here: a separate cursor
							// only a separate cursor counts: a value carried round the loop that is
							// advanced on some iterations only (a phi of the header that is not the
							// loop's own counter); positions computed from the loop counter are a layout
							cur, isPhi := stripConv(ia.Index).(*ssa.Phi)
							if !isPhi || naturalLoop(cur.Block()) == nil || !naturalLoop(cur.Block())[st.Block()] {
								continue
							}
							if _, isInd := inductionPhi(cur); isInd {
								continue
							}
							partial = true
							storePos = st.Pos()
						}
					}
					if !partial {
						return
					}
					fn := FuncName(f)
					bad := ""
					for _, r := range *ms.Referrers() {
						switch x := r.(type) {
						case *ssa.IndexAddr, *ssa.DebugRef:
						case *ssa.Slice:
							if x.High == nil {
								bad = "re-sliced without an upper bound at " + c.P.Pos(x.Pos())
							}
						case *ssa.Call:
							if b, ok := x.Call.Value.(*ssa.Builtin); ok && (b.Name() == "len" || b.Name() == "cap" || b.Name() == "copy") {
								continue
							}
							bad = "passed on at full length at " + c.P.Pos(x.Pos())
						case *ssa.Return:
							bad = "returned at full length at " + c.P.Pos(instrPos(x))
						case *ssa.Store:
							if x.Val == ssa.Value(ms) {
								// kept in a variable: its loads are the uses
								if al, ok := x.Addr.(*ssa.Alloc); ok {
									for _, ar := range *al.Referrers() {
										if ld, ok := ar.(*ssa.UnOp); ok {
											for _, lr := range *ld.Referrers() {
												switch y := lr.(type) {
												case *ssa.Return:
													bad = "returned at full length at " + c.P.Pos(instrPos(y))
												case *ssa.Slice:
													if y.High == nil {
														bad = "re-sliced without an upper bound at " + c.P.Pos(y.Pos())
													}
												}
											}
										}
									}
								} else {
									bad = "stored at full length at " + c.P.Pos(x.Pos())
								}
							}
						case *ssa.Phi, *ssa.MakeInterface, *ssa.Range:
							bad = "used at full length at " + c.P.Pos(instrPos(r))
						}
					}
					c.Check(bad == "", ms.Pos(), fn, "selectively filled buffer", "only its filled prefix leaves the function", "the slice is made with its full length, elements are stored only for the items that are kept (store at "+c.P.Pos(storePos)+" is skipped on some iterations), and it is "+bad+": its tail still holds zero values, which the consumer takes for data")
				})
			}
		},
	})
}

// ---------------------------------------------------------------------------
// C08.depthpair: a nesting counter is given back on every way out
// ---------------------------------------------------------------------------

func init() {
	register(&Rule{
		ID:    "C08.depthpair",
		Props: []string{"C08", "C05", "C04", "C06", "C07"},
		Doc:   "a nesting-depth counter is balanced: when a method increments by one an integer field of its receiver that is a depth counter (the field is decremented somewhere in the package, or is called depth/level/nesting), every return of that method that can report success and is reachable from the increment is reached only through a decrement of the same field (or the method defers one) — a limit on nesting that forgets to give the level back on one path (the EMPTY branch, or altogether) counts siblings instead of depth and rejects wide, shallow inputs that the encoder itself produces",
		Floor: 0,
		Run:   runC08DepthPair,
	})
}

func runC08DepthPair(c *Ctx) {
	type key struct{ typ, fld string }
	// step: the store adds k (a constant) to the field it stores to
	step := func(st *ssa.Store) (key, int64, ssa.Value, bool) {
		fa, ok := st.Addr.(*ssa.FieldAddr)
		if !ok {
			return key{}, 0, nil, false
		}
		bo, ok := st.Val.(*ssa.BinOp)
		if !ok || (bo.Op != token.ADD && bo.Op != token.SUB) {
			return key{}, 0, nil, false
		}
		k, ok := constInt(bo.Y)
		if !ok {
			return key{}, 0, nil, false
		}
		ld, ok := bo.X.(*ssa.UnOp)
		if !ok || ld.Op != token.MUL {
			return key{}, 0, nil, false
		}
		fa2, ok := ld.X.(*ssa.FieldAddr)
		if !ok || fa2.Field != fa.Field || !(fa2.X == fa.X || sameValue(fa2.X, fa.X)) {
			return key{}, 0, nil, false
		}
		tn, fld := fieldOfAddr(fa)
		if bo.Op == token.SUB {
			k = -k
		}
		return key{tn, fld}, k, fa.X, true
	}
	decremented := map[key]bool{}
	for _, f := range c.P.Funcs {
		if !c.P.InRepo(f) {
			continue
		}
		eachInstr(f, func(in ssa.Instruction) {
			if st, ok := in.(*ssa.Store); ok {
				if k, d, _, ok := step(st); ok && d == -1 {
					decremented[k] = true
				}
			}
		})
	}
	n := 0
	for _, f := range c.P.Funcs {
		if !c.P.InRepo(f) || len(f.Blocks) == 0 || f.Signature.Recv() == nil {
			continue
		}
		fn := FuncName(f)
		eachInstr(f, func(in ssa.Instruction) {
			st, ok := in.(*ssa.Store)
			if !ok {
				return
			}
			k, d, base, ok := step(st)
			if !ok || d != 1 {
				return
			}
			if p, isPar := stripLoad(base).(*ssa.Parameter); !isPar || p != f.Params[0] {
				return
			}
			lname := strings.ToLower(k.fld)
			if !decremented[k] && !strings.Contains(lname, "depth") && !strings.Contains(lname, "level") && !strings.Contains(lname, "nest") {
				return
			}
			n++
			construct := "level taken by " + k.typ + "." + k.fld + "++"
			// a deferred decrement covers every way out
			deferred := false
			eachInstr(f, func(in2 ssa.Instruction) {
				df, ok := in2.(*ssa.Defer)
				if !ok {
					return
				}
				var g *ssa.Function
				if mc, ok := df.Call.Value.(*ssa.MakeClosure); ok {
					g, _ = mc.Fn.(*ssa.Function)
				} else {
					g = df.Call.StaticCallee()
				}
				if g == nil || len(g.Blocks) == 0 {
					return
				}
				eachInstr(g, func(in3 ssa.Instruction) {
					if st3, ok := in3.(*ssa.Store); ok {
						if k3, d3, _, ok := step(st3); ok && k3 == k && d3 == -1 {
							deferred = true
						}
					}
				})
			})
			if deferred {
				c.OK(st.Pos(), fn, construct, "given back by a deferred decrement")
				return
			}
			gives := func(b *ssa.BasicBlock, from int) bool {
				for i := from; i < len(b.Instrs); i++ {
					if st2, ok := b.Instrs[i].(*ssa.Store); ok {
						if k2, d2, _, ok := step(st2); ok && k2 == k && d2 == -1 {
							return true
						}
					}
				}
				return false
			}
			bad := ""
			seen := map[*ssa.BasicBlock]bool{}
			var walk func(b *ssa.BasicBlock, from int)
			walk = func(b *ssa.BasicBlock, from int) {
				if bad != "" || gives(b, from) {
					return
				}
				if r, ok := b.Instrs[len(b.Instrs)-1].(*ssa.Return); ok {
					res := f.Signature.Results()
					if res.Len() > 0 && isErrorType(res.At(res.Len()-1).Type()) && provablyNonNilErr(r) {
						return // the parse is abandoned: the level does not matter any more
					}
					bad = c.P.Pos(instrPos(r))
					return
				}
				for _, s := range b.Succs {
					if !seen[s] {
						seen[s] = true
						walk(s, 0)
					}
				}
			}
			walk(st.Block(), instrIndex(st)+1)
			c.Check(bad == "", st.Pos(), fn, construct, "given back before every successful return", "the nesting level is raised here but the return at "+bad+" can report success without it having been lowered again: the counter then counts every construct met so far (siblings too), not the depth, and a wide but shallow input is rejected as too deeply nested")
		})
	}
	c.Triv(token.NoPos, "-", "summary", fmt.Sprintf("%d nesting counters incremented by a method of their owner", n))
}

// ---------------------------------------------------------------------------
// C14.signedlength
// ---------------------------------------------------------------------------

func init() {
	register(&Rule{
		ID:    "C14.signedlength",
		Props: []string{"C14", "C09"},
		Doc:   "a length is not a signed difference: no function of geom or rtree whose name says length or distance returns, on any path, the bare difference of two values (`return dy`) — a fast path for axis-aligned segments that takes |dx| on one axis and dy on the other gives a downward vertical segment a negative length, and with it a negative weight in every length-weighted centroid",
		Floor: 5,
		Run: func(c *Ctx) {
			for _, f := range c.P.Funcs {
				if pk := pkgOf(f); (pk != "geom" && pk != "rtree") || len(f.Blocks) == 0 || f.Parent() != nil {
					continue
				}
				ln := strings.ToLower(f.Name())
				if !strings.Contains(ln, "length") && !strings.Contains(ln, "distance") && !strings.Contains(ln, "dist") {
					continue
				}
				res := f.Signature.Results()
				if res.Len() == 0 || !isFloat(res.At(0).Type()) {
					continue
				}
				fn := FuncName(f)
				k := 0
				for _, r := range returnsOf(f) {
					k++
					bad := false
					seen := map[ssa.Value]bool{}
					var walk func(v ssa.Value, d int)
					walk = func(v ssa.Value, d int) {
						v = resolveCell(stripConv(v))
						if d > 4 || seen[v] {
							return
						}
						seen[v] = true
						switch x := v.(type) {
						case *ssa.BinOp:
							if x.Op == token.SUB {
								if _, isC := stripConv(x.X).(*ssa.Const); !isC {
									bad = true
								}
							}
						case *ssa.Phi:
							for _, e := range x.Edges {
								walk(e, d+1)
							}
						}
					}
					walk(r.Results[0], 0)
					c.Check(!bad, instrPos(r), fn, fmt.Sprintf("value returned as a length #%d", k), "not a bare difference", "the function returns the difference of two values as a length or distance: it is negative whenever the operands come in the other order")
				}
			}
		},
	})
}

func dumpLocalArrays(c *Ctx) {
	for _, f := range c.P.Funcs {
		if !c.P.InRepo(f) {
			continue
		}
		eachInstr(f, func(in ssa.Instruction) {
			ia, ok := in.(*ssa.IndexAddr)
			if !ok {
				return
			}
			al, ok := ia.X.(*ssa.Alloc)
			if !ok {
				return
			}
			at, ok := deref(al.Type()).Underlying().(*types.Array)
			if !ok {
				return
			}
			if _, isC := constInt(ia.Index); isC {
				return
			}
			_, hi, _, hasHi := intBounds(ia, ia.Index)
			fmt.Printf("%s\t%s\t[%d]\thi=%d(%v)\n", c.P.Pos(ia.Pos()), FuncName(f), at.Len(), hi, hasHi)
		})
	}
}

// ---------------------------------------------------------------------------
// C11.fixedarray
// ---------------------------------------------------------------------------

func init() {
	register(&Rule{
		ID:    "C11.fixedarray",
		Props: []string{"C11", "C08", "C20"},
		Doc:   "a fixed-size local array indexed by a variable is bounds-guarded: every index into a local array of constant size N by a non-constant value is evaluated only where a guard keeps the value below N (a comparison with a constant <= N, or with len of the array, or `!= N` for a cursor that only moves one step at a time) — an explicit traversal stack `[16]*node` sized by a belief about tree depth overflows as soon as every sibling at every level is pending (an enclosing query on a tree of more than 4096 records)",
		Floor: 0,
		Run: func(c *Ctx) {
			n := 0
			for _, f := range c.P.Funcs {
				if !c.P.InRepo(f) {
					continue
				}
				eachInstr(f, func(in ssa.Instruction) {
					ia, ok := in.(*ssa.IndexAddr)
					if !ok {
						return
					}
					where := "local"
					switch b := ia.X.(type) {
					case *ssa.Alloc:
					case *ssa.Global:
						// a package-level table (only those of this repository)
						if b.Pkg == nil || !c.P.InRepo(f) {
							return
						}
						where = "package-level"
					default:
						return
					}
					at, ok := deref(ia.X.Type()).Underlying().(*types.Array)
					if !ok {
						return
					}
					if _, isC := constInt(ia.Index); isC {
						return
					}
					n++
					N := at.Len()
					okBound := false
					if hi, ok := valueUpperBound(ia.Index, 0); ok && hi < N {
						okBound = true
					}
					// an index of one of the repository's closed enum types (operand, side, …): all
					// its declared constants are valid positions
					if nt, ok := ia.Index.Type().(*types.Named); ok && nt.Obj().Pkg() != nil && c.P.Pkgs[nt.Obj().Pkg().Name()] != nil && !convertedFromData(c.P, nt) {
						if ks := enumConsts(nt); len(ks) >= 2 {
							all := true
							for _, k := range ks {
								if v, ok := constIntVal(k); !ok || v < 0 || v >= N {
									all = false
								}
							}
							if all {
								okBound = true
							}
						}
					}
					if _, hi, _, hasHi := intBounds(ia, ia.Index); hasHi && hi < N {
						okBound = true
					}
					// idx = y - c (c >= 0) with y bounded above by a guard
					if sub, ok := stripConv(ia.Index).(*ssa.BinOp); ok && sub.Op == token.SUB {
						if cst, isC := constInt(sub.Y); isC && cst >= 0 {
							if _, hi, _, hasHi := intBounds(ia, sub.X); hasHi && hi-cst < N {
								okBound = true
							}
						}
					}
					for _, g0 := range guardsAt(ia) {
						for _, g := range expandGuardDeep(g0) {
							bo, ok := g.Cond.(*ssa.BinOp)
							if !ok || !sameQuantity(bo.X, ia.Index) {
								continue
							}
							// idx < x where x itself cannot exceed N (a count chosen among constants, a masked value, …)
							if (bo.Op == token.LSS && g.Truth) || (bo.Op == token.GEQ && !g.Truth) {
								if ub, ok := valueUpperBound(stripConv(bo.Y), 0); ok && ub <= N {
									okBound = true
								}
							}
							// idx < len(arr), idx != N (cursor moving by one)
							if call, isCall := stripConv(bo.Y).(*ssa.Call); isCall {
								if b, isB := call.Call.Value.(*ssa.Builtin); isB && b.Name() == "len" {
									if (bo.Op == token.LSS && g.Truth) || (bo.Op == token.GEQ && !g.Truth) || (bo.Op == token.NEQ && g.Truth) || (bo.Op == token.EQL && !g.Truth) {
										okBound = true
									}
								}
							}
							if k, isC := constInt(stripConv(bo.Y)); isC && k == N {
								if (bo.Op == token.NEQ && g.Truth) || (bo.Op == token.EQL && !g.Truth) {
									okBound = true
								}
							}
						}
					}
					is, _ := accessPath(ia.Index)
					c.Check(okBound, ia.Pos(), FuncName(f), fmt.Sprintf("index %s into a %s [%d] array", trunc(is), where, N), "below the array's size where it is evaluated", fmt.Sprintf("nothing keeps the index below %d where the array is indexed: when more than %d entries are needed the access panics (index out of range)", N, N))
				})
			}
			c.Triv(token.NoPos, "-", "summary", fmt.Sprintf("%d variable indexes into local or package-level fixed-size arrays", n))
		},
	})
}

// ---------------------------------------------------------------------------
// C07.quantise
// ---------------------------------------------------------------------------

func init() {
	register(&Rule{
		ID:    "C07.quantise",
		Props: []string{"C07"},
		Doc:   "TWKB ordinates are quantised by rounding, never by integer division: in the methods of twkbWriter (and the helpers introduced after the baseline that they call) no integer `/` or `%` is applied to a value converted from a float — `int64(math.Round(v)) / 10^k` truncates toward zero, so at a negative precision 1600 is written as 1000 where the format (and the decoder's `unscale`) expect the nearest multiple, 2000",
		Floor: 0,
		Run: func(c *Ctx) {
			n := 0
			seen := map[*ssa.Function]bool{}
			var fs []*ssa.Function
			for _, f := range c.P.methodsOf("geom", "twkbWriter") {
				for _, g := range withNewHelpers(f) {
					if !seen[g] {
						seen[g] = true
						fs = append(fs, g)
					}
				}
			}
			fromFloat := func(v ssa.Value) bool {
				for i := 0; i < 4; i++ {
					cv, ok := v.(*ssa.Convert)
					if !ok {
						return false
					}
					if isFloat(cv.X.Type()) {
						return true
					}
					v = cv.X
				}
				return false
			}
			for _, f := range fs {
				eachInstr(f, func(in ssa.Instruction) {
					bo, ok := in.(*ssa.BinOp)
					if !ok || (bo.Op != token.QUO && bo.Op != token.REM) || isFloat(bo.Type()) {
						return
					}
					n++
					c.Check(!fromFloat(bo.X), bo.Pos(), FuncName(f), "integer "+bo.Op.String()+" in the TWKB writer", "not applied to a quantised ordinate", "an ordinate converted from float is divided with integer arithmetic: the quotient is truncated toward zero instead of rounded to the nearest grid value, so off-grid ordinates are written one grid step too small in magnitude")
				})
			}
			c.Triv(token.NoPos, "-", "summary", fmt.Sprintf("%d integer divisions in the TWKB writer", n))
		},
	})
}

// ---------------------------------------------------------------------------
// C11.search: RangeSearch on a modelled tree, whatever its traversal style
// ---------------------------------------------------------------------------

func init() {
	register(&Rule{
		ID:    "C11.search",
		Props: []string{"C11", "C09", "C03"},
		Doc:   "RangeSearch reports exactly the records whose box overlaps the query and whose ancestors' boxes all do: the whole function (recursive closure, recursive helper or explicit stack alike) is interpreted on a modelled two-level tree — a root with a subtree of two records, a record of its own and a second subtree of two records — for all 128 combinations of the seven overlap answers; the callback must be made once for each such record and for no other; and when the callback answers Stop for the first record reported, no further callback is made and the search returns nil",
		Floor: 1,
		Run:   runC11Search,
	})
}

func runC11Search(c *Ctx) {
	f := c.P.Func("rtree.(*RTree).RangeSearch")
	if f == nil {
		c.Errorf("anchor rtree.(*RTree).RangeSearch does not resolve")
		return
	}
	type ent struct {
		node  string
		idx   int
		child string
		rec   int
	}
	ents := []ent{{"R", 0, "A", 0}, {"R", 1, "", 30}, {"R", 2, "B", 0}, {"A", 0, "", 10}, {"A", 1, "", 11}, {"B", 0, "", 20}, {"B", 1, "", 21}}
	sizes := map[string]int{"R": 3, "A": 2, "B": 2}
	problem, undec := "", ""
	models := 0
	for variant := 0; variant < 4; variant++ {
		stopFirst := variant&1 != 0
		pointQuery := variant&2 != 0 // a degenerate query box (a point) and a proper one
		for mask := 0; mask < 128 && problem == "" && undec == ""; mask++ {
			models++
			m := &Model{Num: map[string]float64{"$1.MinX": 0, "$1.MinY": 0, "$1.MaxX": 2, "$1.MaxY": 2}, Bool: map[string]bool{}, Missing: map[string]bool{}}
			if pointQuery {
				m.Num["$1.MinX"], m.Num["$1.MinY"], m.Num["$1.MaxX"], m.Num["$1.MaxY"] = 1, 1, 1, 1
			}
			it := &k4interp{p: c.P, m: m, mem: map[string]k4val{}, recurseNew: true}
			it.mem["$0.root"] = k4val{kind: 3, s: "R", addr: true}
			for nd, k := range sizes {
				it.mem[nd+".numEntries"] = k4val{kind: 2, f: float64(k)}
			}
			ov := map[string]bool{}
			for i, e := range ents {
				base := fmt.Sprintf("%s.entries[%d]", e.node, e.idx)
				name := fmt.Sprintf("BOX:%s%d", e.node, e.idx)
				ov[name] = mask&(1<<uint(i)) != 0
				it.mem[base+".box"] = k4val{kind: 3, s: name}
				if e.child != "" {
					it.mem[base+".child"] = k4val{kind: 3, s: e.child, addr: true}
				} else {
					it.mem[base+".child"] = k4val{kind: 3, s: "nil"}
				}
				it.mem[base+".recordID"] = k4val{kind: 2, f: float64(e.rec)}
			}
			want := map[int]bool{}
			parentOv := map[string]bool{"R": true, "A": ov["BOX:R0"], "B": ov["BOX:R2"]}
			for _, e := range ents {
				if e.child == "" && parentOv[e.node] && ov[fmt.Sprintf("BOX:%s%d", e.node, e.idx)] {
					want[e.rec] = true
				}
			}
			var got []int
			it.opaqueCall = func(args []k4val) (string, bool) {
				if len(args) == 1 && args[0].kind == 2 {
					got = append(got, int(args[0].f))
					return fmt.Sprintf("callback(%d)#%d", int(args[0].f), len(got)), true
				}
				return "", false
			}
			isStop := func(key string) bool { return stopFirst && strings.Contains(key, ")#1") }
			it.answer = func(key string, isBool bool) (k4val, bool) {
				if !isBool {
					return k4val{}, false
				}
				if i := strings.Index(key, "rtree.overlap("); i >= 0 {
					for name, b := range ov {
						if strings.Contains(key, "("+name+",") || strings.Contains(key, ","+name+")") {
							return k4val{kind: 1, b: b}, true
						}
					}
				}
				if strings.HasPrefix(key, "errors.Is(nil,") {
					return k4val{kind: 1, b: false}, true
				}
				if strings.Contains(key, "callback(") {
					switch {
					case strings.Contains(key, "errors.Is("):
						return k4val{kind: 1, b: isStop(key)}, true
					case strings.Contains(key, "==nil"):
						return k4val{kind: 1, b: !isStop(key)}, true
					case strings.Contains(key, "!=nil"):
						return k4val{kind: 1, b: isStop(key)}, true
					}
				}
				return k4val{}, false
			}
			res, err := it.call(f, []k4val{{kind: 3, s: "$0"}, {kind: 3, s: "$1"}, {kind: 3, s: "$2"}}, nil)
			if err != nil || len(res) != 1 {
				undec = fmt.Sprintf("%v %v %s", err, res, trunc(missingList(m)))
				break
			}
			desc := fmt.Sprintf("overlap answers %07b (root entries: subtree A, record 30, subtree B; then A's records 10, 11 and B's 20, 21; point query: %v)", mask, pointQuery)
			if stopFirst {
				if len(want) == 0 {
					continue
				}
				if len(got) != 1 || !want[got[0]] {
					problem = fmt.Sprintf("for %s, with the callback answering Stop at once, the callbacks made are %v: exactly one (for an overlapping record) is expected", desc, got)
				} else if res[0].String() != "nil" {
					if a, ok := it.answer("("+res[0].String()+"==nil)", true); !ok || !a.b {
						if !strings.Contains(res[0].String(), "nil") {
							problem = fmt.Sprintf("for %s, with the callback answering Stop, RangeSearch returns %s, not nil", desc, trunc(res[0].String()))
						}
					}
				}
				continue
			}
			seen := map[int]int{}
			for _, r := range got {
				seen[r]++
			}
			for r := range want {
				if seen[r] != 1 {
					problem = fmt.Sprintf("for %s record %d must be reported exactly once, it is reported %d time(s) (callbacks: %v)", desc, r, seen[r], got)
				}
			}
			for r := range seen {
				if !want[r] {
					problem = fmt.Sprintf("for %s record %d is reported although its box (or an ancestor's) does not overlap the query (callbacks: %v)", desc, r, got)
				}
			}
		}
	}
	reportK4(c, f, "records reported on a modelled tree", undec, problem, fmt.Sprintf("exactly the records overlapping along their whole path, each once; Stop ends the search (%d models)", models))
}

// ---------------------------------------------------------------------------
// C15.gcboundary
// ---------------------------------------------------------------------------

func init() {
	register(&Rule{
		ID:    "C15.gcboundary",
		Props: []string{"C15", "C20"},
		Doc:   "the boundary of a collection is the collection of its MEMBERS' non-empty boundaries: GeometryCollection.Boundary interpreted on two direct members — the first itself a collection of two leaves — with every combination of empty/non-empty member boundaries yields one element per direct member with a non-empty boundary, namely that member's Boundary() (forced to 2D), in member order; a traversal that flattens nested collections (walk) returns the leaves' boundaries instead, with a different member count and structure",
		Floor: 1,
		Run:   runC15GCBoundary,
	})
}

func runC15GCBoundary(c *Ctx) {
	f := c.P.Func("geom.(GeometryCollection).Boundary")
	if f == nil {
		c.Errorf("anchor geom.(GeometryCollection).Boundary does not resolve")
		return
	}
	inl := func(g *ssa.Function) bool {
		switch FuncName(g) {
		case "geom.(GeometryCollection).walk", "geom.(GeometryCollection).NumGeometries", "geom.(GeometryCollection).GeometryN":
			return true
		}
		return false
	}
	problem, undec := "", ""
	models := 0
	for mask := 0; mask < 16 && problem == "" && undec == ""; mask++ {
		models++
		m := &Model{Num: map[string]float64{}, Bool: map[string]bool{}, Missing: map[string]bool{}}
		it := &k4interp{p: c.P, m: m, mem: map[string]k4val{}, inline: inl, recurseNew: true}
		it.mem["$0.geoms"] = k4val{kind: 8, s: "MEM", ln: 2, cp: 2}
		for _, k := range []string{"MEM[0]", "MEM[1]", "SUB[0]", "SUB[1]"} {
			it.mem[k] = k4val{kind: 3, s: k}
		}
		// MEM[0] is a collection of the leaves SUB[0], SUB[1]
		it.mem["geom.(Geometry).MustAsGeometryCollection(MEM[0]).geoms"] = k4val{kind: 8, s: "SUB", ln: 2, cp: 2}
		emptyB := map[string]bool{"MEM[0]": mask&1 != 0, "MEM[1]": mask&2 != 0, "SUB[0]": mask&4 != 0, "SUB[1]": mask&8 != 0}
		it.answer = func(key string, isBool bool) (k4val, bool) {
			if !isBool {
				return k4val{}, false
			}
			switch {
			case strings.HasPrefix(key, "geom.(GeometryCollection).IsEmpty($0"):
				return k4val{kind: 1, b: false}, true
			case strings.HasPrefix(key, "geom.(Geometry).IsGeometryCollection("):
				return k4val{kind: 1, b: strings.Contains(key, "(MEM[0])")}, true
			case strings.Contains(key, ").IsEmpty(") && strings.Contains(key, "Boundary("):
				for g, e := range emptyB {
					if strings.Contains(key, "Boundary("+g+")") {
						return k4val{kind: 1, b: e}, true
					}
				}
			}
			return k4val{}, false
		}
		res, err := it.call(f, []k4val{{kind: 3, s: "$0"}}, nil)
		if err != nil || len(res) != 1 || res[0].kind != 3 {
			undec = fmt.Sprintf("%v %v %s", err, res, trunc(missingList(m)))
			break
		}
		var want []string
		for _, g := range []string{"MEM[0]", "MEM[1]"} {
			if !emptyB[g] {
				want = append(want, g)
			}
		}
		// the member list of the result: a field of the returned literal, or the argument of a constructor
		var got []string
		lst, ok := it.mem[res[0].s+".geoms"]
		if !ok && len(want) > 0 {
			problem = fmt.Sprintf("with member boundaries empty=%v the result %s has no member list", emptyB, trunc(res[0].String()))
			break
		}
		if lst.kind == 8 {
			for i := 0; i < lst.ln; i++ {
				got = append(got, it.mem[fmt.Sprintf("%s[%d]", lst.s, lst.off+i)].String())
			}
		}
		good := len(got) == len(want)
		for i := 0; good && i < len(want); i++ {
			if !strings.Contains(got[i], "Boundary("+want[i]+")") {
				good = false
			}
		}
		if !good {
			problem = fmt.Sprintf("for a collection [MEM[0] = collection of SUB[0], SUB[1]; MEM[1]] whose boundaries are empty=%v the result's members are %v; expected the boundaries of the direct members %v", emptyB, got, want)
		}
	}
	reportK4(c, f, "members of the boundary", undec, problem, fmt.Sprintf("the non-empty boundaries of the direct members, in order (%d models)", models))
}

// ---------------------------------------------------------------------------
// C09.recordids
// ---------------------------------------------------------------------------

func init() {
	register(&Rule{
		ID:    "C09.recordids",
		Props: []string{"C09"},
		Doc:   "the record numbering of Distance's index is the one its search callback decodes: loadTree interpreted on 0..2 points and 0..2 segments hands rtree.BulkLoad one item per point and per segment, point i numbered +(i+1) and segment j numbered -(j+1) whatever the number of points, each with the box of its own point or segment — the callback turns a positive id k into xys[k-1] and a negative one into lns[-k-1], so numbering the segments after the points addresses the wrong segment (or none) as soon as the operand has both",
		Floor: 1,
		Run: func(c *Ctx) {
			f := c.P.Func("geom.loadTree")
			if f == nil {
				c.Errorf("anchor geom.loadTree does not resolve")
				return
			}
			problem, undec := "", ""
			models := 0
			for np := 0; np <= 2 && problem == "" && undec == ""; np++ {
				for nl := 0; nl <= 2 && problem == "" && undec == ""; nl++ {
					models++
					m := &Model{Num: map[string]float64{}, Bool: map[string]bool{}, Missing: map[string]bool{}}
					it := &k4interp{p: c.P, m: m, mem: map[string]k4val{}}
					for i := 0; i < np; i++ {
						it.mem[fmt.Sprintf("XYS[%d]", i)] = k4val{kind: 3, s: fmt.Sprintf("XYS[%d]", i)}
					}
					for i := 0; i < nl; i++ {
						it.mem[fmt.Sprintf("LNS[%d]", i)] = k4val{kind: 3, s: fmt.Sprintf("LNS[%d]", i)}
					}
					type item struct {
						id  int
						box string
					}
					var got []item
					seen := false
					it.onOpaque = func(name string, args []k4val) {
						if name != "rtree.BulkLoad" || len(args) != 1 || args[0].kind != 8 {
							return
						}
						seen = true
						for i := 0; i < args[0].ln; i++ {
							base := fmt.Sprintf("%s[%d]", args[0].s, args[0].off+i)
							id, _ := it.lookup(base+".RecordID", nil0)
							bx := it.mem[base+".Box"]
							if el, ok := it.mem[base]; ok && el.kind == 3 {
								// an element stored as a whole (append of a literal): its fields live under its own key
								id, _ = it.lookup(el.s+".RecordID", nil0)
								bx = it.mem[el.s+".Box"]
							}
							got = append(got, item{int(id.f), bx.String()})
						}
					}
					_, err := it.call(f, []k4val{{kind: 8, s: "XYS", ln: np, cp: np}, {kind: 8, s: "LNS", ln: nl, cp: nl}}, nil)
					if err != nil || !seen {
						undec = fmt.Sprintf("%v (BulkLoad seen: %v) %s", err, seen, trunc(missingList(m)))
						break
					}
					var want []item
					for i := 0; i < np; i++ {
						want = append(want, item{i + 1, fmt.Sprintf("geom.(XY).box(XYS[%d])", i)})
					}
					for j := 0; j < nl; j++ {
						want = append(want, item{-(j + 1), fmt.Sprintf("geom.(line).box(LNS[%d])", j)})
					}
					sortItems := func(xs []item) {
						sort.Slice(xs, func(a, b int) bool { return xs[a].id < xs[b].id })
					}
					sortItems(got)
					sortItems(want)
					good := len(got) == len(want)
					for i := 0; good && i < len(want); i++ {
						if got[i].id != want[i].id || !strings.Contains(got[i].box, want[i].box) {
							good = false
						}
					}
					if !good {
						problem = fmt.Sprintf("for %d points and %d segments the items loaded are %v; the search callback decodes %v", np, nl, got, want)
					}
				}
			}
			reportK4(c, f, "record numbering", undec, problem, fmt.Sprintf("point i -> +(i+1), segment j -> -(j+1), each with its own box (%d models)", models))
		},
	})
}

// ---------------------------------------------------------------------------
// C03.filteredindex: positions in a filtered list are not positions in the full list
// ---------------------------------------------------------------------------

// conditionallyAppended: v is a list grown by an append that is NOT executed on
// every iteration of the loop it sits in (a filter: only some elements are kept).
func conditionallyAppended(v ssa.Value, seen map[ssa.Value]bool, d int) bool {
	v = resolveCell(v)
	if d > 8 || seen[v] {
		return false
	}
	seen[v] = true
	switch x := v.(type) {
	case *ssa.Phi:
		for _, e := range x.Edges {
			if conditionallyAppended(e, seen, d+1) {
				return true
			}
		}
	case *ssa.Call:
		b, ok := x.Call.Value.(*ssa.Builtin)
		if !ok || b.Name() != "append" {
			return false
		}
		f := x.Parent()
		var loop map[*ssa.BasicBlock]bool
		var hdr *ssa.BasicBlock
		for _, h := range f.Blocks {
			if l := naturalLoop(h); l != nil && l[x.Block()] && (loop == nil || len(l) < len(loop)) {
				loop, hdr = l, h
			}
		}
		if loop != nil {
			for _, p := range hdr.Preds {
				if loop[p] && !x.Block().Dominates(p) {
					return true
				}
			}
		}
		return conditionallyAppended(x.Call.Args[0], seen, d+1)
	case *ssa.UnOp:
		if x.Op == token.MUL {
			if al, ok := x.X.(*ssa.Alloc); ok {
				for _, r := range *al.Referrers() {
					if st, ok := r.(*ssa.Store); ok && st.Addr == ssa.Value(al) && conditionallyAppended(st.Val, seen, d+1) {
						return true
					}
				}
			}
		}
	}
	return false
}

func init() {
	register(&Rule{
		ID:    "C03.filteredindex",
		Props: []string{"C03", "C20"},
		Doc:   "a position in a filtered list is not a position in the list it was filtered from: when a loop counts up to the length of a list that was built by keeping only some elements (an append that is skipped on some iterations — the non-empty members, say), its counter is used to index that list only, never another slice — `for i := range items { … boxes[i] … m.polys[i] … }` addresses the wrong polygons as soon as an EMPTY member precedes a non-empty one, so some pairs of a MultiPolygon are never compared (or an index runs out of range)",
		Floor: 0,
		Run: func(c *Ctx) {
			n := 0
			for _, f := range c.P.Funcs {
				if pk := pkgOf(f); (pk != "geom" && pk != "rtree") || len(f.Blocks) == 0 {
					continue
				}
				for _, cl := range countingLoops(f) {
					ifi, ok := cl.h.Instrs[len(cl.h.Instrs)-1].(*ssa.If)
					if !ok {
						continue
					}
					bo, ok := ifi.Cond.(*ssa.BinOp)
					if !ok || bo.Op != token.LSS {
						continue
					}
					lst, ok := lenOf(bo.Y)
					if !ok || !conditionallyAppended(lst, map[ssa.Value]bool{}, 0) {
						continue
					}
					n++
					// every use of the counter as an index: the counter itself (for a range
					// loop, the incremented value the header tests) and the per-iteration
					// copies of it (`i` of `for i := range`, captured by closures)
					base := map[ssa.Value]bool{}
					if cl.phi != nil {
						base[cl.phi] = true
						for k, e := range cl.phi.Edges {
							if cl.loop[cl.h.Preds[k]] && (e == bo.X || e == stripConv(bo.X)) {
								base[e] = true
							}
						}
					}
					cells := map[ssa.Value]bool{}
					if cl.cell != nil {
						cells[cl.cell] = true
					}
					eachInstr(f, func(in ssa.Instruction) {
						if al, ok := in.(*ssa.Alloc); ok {
							if st := uniqueStore(al); st != nil && base[stripConv(st)] {
								cells[al] = true
							}
						}
					})
					isCounter := func(v ssa.Value) bool {
						v = stripConv(v)
						if base[v] {
							return true
						}
						if ld, ok := v.(*ssa.UnOp); ok && ld.Op == token.MUL {
							if cells[ld.X] {
								return true
							}
							// the captured counter inside a closure of f
							if fv, ok := ld.X.(*ssa.FreeVar); ok {
								if mc, isMC := makeClosureOf(fv.Parent()).(*ssa.MakeClosure); isMC && mc != nil {
									for i, bnd := range mc.Bindings {
										if cells[bnd] && fv.Parent().FreeVars[i] == fv {
											return true
										}
									}
								}
							}
						}
						return false
					}
					sameList := func(y ssa.Value) bool {
						y, l := resolveCell(y), resolveCell(lst)
						if y == l || sameValue(y, l) {
							return true
						}
						// both are the same variable (loads of one cell), or phis of the same growing list
						py, _ := accessPath(y)
						pl, _ := accessPath(l)
						return py != "" && py == pl
					}
					bad := ""
					for _, g := range append([]*ssa.Function{f}, allAnon(f)...) {
						eachInstr(g, func(in ssa.Instruction) {
							ia, ok := in.(*ssa.IndexAddr)
							if !ok || !isCounter(ia.Index) {
								return
							}
							if g == f && !cl.loop[ia.Block()] {
								return
							}
							if _, isSl := ia.X.Type().Underlying().(*types.Slice); !isSl {
								return
							}
							if !sameList(ia.X) {
								ys, _ := accessPath(ia.X)
								bad = trunc(ys) + " at " + c.P.Pos(ia.Pos())
							}
						})
					}
					ls, _ := accessPath(lst)
					if ph, ok := resolveCell(lst).(*ssa.Phi); ok && ph.Comment != "" {
						ls = ph.Comment
					}
					pos := firstPos(cl.h)
					if !pos.IsValid() {
						pos = bo.Pos()
					}
					for _, blk := range f.Blocks {
						if cl.loop[blk] && !pos.IsValid() {
							pos = firstPos(blk)
						}
					}
					c.Check(bad == "", pos, FuncName(f), fmt.Sprintf("counter of the loop over the filtered list %s", trunc(ls)), "indexes that list only", "the loop counts the elements of "+trunc(ls)+", a list that holds only the elements that were kept, but its counter indexes "+bad+": element k of the filtered list is not element k there")
				}
			}
			c.Triv(token.NoPos, "-", "summary", fmt.Sprintf("%d loops over filtered lists", n))
		},
	})
}

// ---------------------------------------------------------------------------
// C01.renodeline
// ---------------------------------------------------------------------------

func init() {
	register(&Rule{
		ID:    "C01.renodeline",
		Props: []string{"C01", "C02"},
		Doc:   "re-noding keeps every control point of a line, the last one included: reNodeLineString interpreted on all sequences of 0..4 points over two values (so that repeated points occur at the start, in the middle and at the END) with a cut function that adds no cuts builds an XY sequence that holds the start point of every non-degenerate segment, in order, followed by the final point of the input — a final point written only from inside the per-segment loop is lost when the last segment has zero length (a ring that repeats its closing vertex stays unclosed)",
		Floor: 1,
		Run: func(c *Ctx) {
			f := c.P.Func("geom.reNodeLineString")
			if f == nil {
				c.Errorf("anchor geom.reNodeLineString does not resolve")
				return
			}
			inl := func(g *ssa.Function) bool {
				switch FuncName(g) {
				case "geom.(Sequence).Length", "geom.(Sequence).GetXY", "geom.(Sequence).Get", "geom.(CoordinatesType).Dimension", "geom.getLine", "geom.(LineString).Coordinates", "geom.uniquifyGroupedXYs":
					return true
				}
				return false
			}
			problem, undec := "", ""
			models := 0
			var rec func(pts []int, n int)
			rec = func(pts []int, n int) {
				if problem != "" || undec != "" {
					return
				}
				if len(pts) < n {
					for v := 0; v < 2; v++ {
						rec(append(pts, v), n)
					}
					return
				}
				models++
				m := &Model{Num: map[string]float64{"$0.seq.ctype": 0}, Bool: map[string]bool{}, Missing: map[string]bool{}}
				it := &k4interp{p: c.P, m: m, mem: map[string]k4val{}, inline: inl}
				it.mem["$0.seq.floats"] = k4val{kind: 8, s: "F", ln: 2 * n, cp: 2 * n}
				for i, p := range pts {
					it.mem[fmt.Sprintf("F[%d]", 2*i)] = k4val{kind: 2, f: float64(p)}
					it.mem[fmt.Sprintf("F[%d]", 2*i+1)] = k4val{kind: 2, f: float64(10 * p)}
				}
				// the cut function adds nothing: it returns the (emptied) slice it is given
				it.mem["cuts()"] = k4val{kind: 8, s: "CUTS", ln: 0, cp: 0}
				it.opaqueCall = func(args []k4val) (string, bool) {
					if len(args) == 2 {
						return "cuts()", true
					}
					return "", false
				}
				var got []float64
				built := false
				it.onOpaque = func(name string, args []k4val) {
					if name == "geom.NewSequence" && len(args) == 2 {
						built = true
						got = nil
						if args[0].kind == 8 {
							for i := 0; i < args[0].ln; i++ {
								got = append(got, it.mem[fmt.Sprintf("%s[%d]", args[0].s, args[0].off+i)].f)
							}
						}
					}
				}
				if _, err := it.call(f, []k4val{{kind: 3, s: "$0"}, {kind: 3, s: "$1"}}, nil); err != nil || !built {
					undec = fmt.Sprintf("points %v: %v (sequence built: %v) %s", pts, err, built, trunc(missingList(m)))
					return
				}
				var want []float64
				for i := 1; i < n; i++ {
					if pts[i-1] != pts[i] {
						want = append(want, float64(pts[i-1]), float64(10*pts[i-1]))
					}
				}
				if n > 0 {
					want = append(want, float64(pts[n-1]), float64(10*pts[n-1]))
				}
				if fmt.Sprint(got) != fmt.Sprint(want) {
					problem = fmt.Sprintf("for the points %v (X values; no cuts) the re-noded coordinates are %v, expected %v: the start of every non-degenerate segment, then the final point", pts, got, want)
				}
			}
			for n := 0; n <= 4; n++ {
				rec(nil, n)
			}
			reportK4(c, f, "control points kept by re-noding", undec, problem, fmt.Sprintf("segment starts then the final point (%d sequences)", models))
		},
	})
}

func init() {
	register(&Rule{
		ID:    "C20.firstonly",
		Props: []string{"C20", "C06", "C08", "C03"},
		Doc:   "a loop over a slice or a counter looks at more than its first element: no `for i := …` / `for … := range slice` loop in geom, rtree or carto has a body that leaves on every path (return or break) so that it can never come round again — `for _, ring := range rings { return check(ring) }` checks the first ring only (the 2D/3D decision and the length checks of a GeoJSON polygon then ignore every ring after the first). Ranging over a map to pick any one entry is a different idiom and not concerned",
		Floor: 100,
		Run: func(c *Ctx) {
			for _, f := range c.P.Funcs {
				if pk := pkgOf(f); (pk != "geom" && pk != "rtree" && pk != "carto") || len(f.Blocks) == 0 {
					continue
				}
				inLoop := map[*ssa.BasicBlock]bool{}
				for _, h := range f.Blocks {
					for b := range naturalLoop(h) {
						inLoop[b] = true
					}
				}
				k := 0
				for _, b := range f.Blocks {
					if b.Comment != "rangeindex.body" && b.Comment != "for.body" {
						continue
					}
					k++
					construct := fmt.Sprintf("loop body #%d", k)
					c.Check(inLoop[b], firstPos(b), FuncName(f), construct, "can be entered again", "the body of this loop leaves the loop on every path (it returns or breaks unconditionally), so only the first element is ever looked at and the others are silently ignored")
				}
			}
		},
	})
}

// ---------------------------------------------------------------------------
// C15.pointflags
// ---------------------------------------------------------------------------

func init() {
	register(&Rule{
		ID:    "C15.pointflags",
		Props: []string{"C15", "C02", "C01"},
		Doc:   "a point member only ADDS to the labels of the vertex it falls on: addPoint interpreted for both operands with a non-empty point writes exactly two things, src[operand] = true and locations[operand].interior = true, on the vertex record looked up for its XY — in particular it never assigns the whole location (which would erase a boundary flag set by a line member of the same operand that ends there: the end point of a line would stop being boundary as soon as a point coincides with it) and never touches the other operand's labels; for an empty point it writes nothing",
		Floor: 1,
		Run: func(c *Ctx) {
			f := c.P.Func("geom.(*doublyConnectedEdgeList).addPoint")
			if f == nil {
				c.Errorf("anchor geom.(*doublyConnectedEdgeList).addPoint does not resolve")
				return
			}
			problem, undec := "", ""
			for op := 0; op < 2 && problem == "" && undec == ""; op++ {
				for _, nonEmpty := range []bool{true, false} {
					m := &Model{Num: map[string]float64{}, Bool: map[string]bool{}, Missing: map[string]bool{}}
					it := &k4interp{p: c.P, m: m, mem: map[string]k4val{}}
					it.answer = func(key string, isBool bool) (k4val, bool) {
						if isBool && strings.HasSuffix(key, ".XY($1)#1") {
							return k4val{kind: 1, b: nonEmpty}, true
						}
						if isBool && strings.HasPrefix(key, "lookup($0.vertices,") && strings.HasSuffix(key, "#ok") {
							return k4val{kind: 1, b: true}, true // the vertex exists (all control points are DCEL vertices)
						}
						if !isBool && strings.HasSuffix(key, ".XY($1)#0.X") {
							return k4val{kind: 2, f: 3}, true
						}
						if !isBool && strings.HasSuffix(key, ".XY($1)#0.Y") {
							return k4val{kind: 2, f: 4}, true
						}
						return k4val{}, false
					}
					if _, err := it.call(f, []k4val{{kind: 3, s: "$0"}, {kind: 3, s: "$1"}, {kind: 2, f: float64(op)}}, nil); err != nil {
						undec = fmt.Sprintf("%v %s", err, trunc(missingList(m)))
						break
					}
					var src, interior int
					for _, e := range it.effects {
						switch {
						case strings.HasSuffix(e, fmt.Sprintf(".src[%d] := true", op)):
							src++
						case strings.HasSuffix(e, fmt.Sprintf(".locations[%d].interior := true", op)):
							interior++
						default:
							problem = fmt.Sprintf("operand %d: addPoint performs the write `%s`; a point member may only set src[operand] and locations[operand].interior to true (anything else erases or alters labels other members have set on that vertex)", op, trunc(e))
						}
					}
					if problem == "" && nonEmpty && (src != 1 || interior != 1) {
						problem = fmt.Sprintf("operand %d: for a non-empty point addPoint sets src %d time(s) and interior %d time(s), expected once each", op, src, interior)
					}
					if problem == "" && !nonEmpty && len(it.effects) > 0 {
						problem = fmt.Sprintf("operand %d: for an EMPTY point addPoint still writes %v", op, it.effects)
					}
				}
			}
			reportK4(c, f, "labels written for a point member", undec, problem, "src and interior of its own operand, nothing else; nothing for an empty point")
		},
	})
}

// ---------------------------------------------------------------------------
// C07.countguard
// ---------------------------------------------------------------------------

func init() {
	register(&Rule{
		ID:    "C07.countguard",
		Props: []string{"C07", "C08"},
		Doc:   "a TWKB count is only refused when the remaining input really cannot hold it: in the methods of twkbParser, a comparison of a value with the remaining input (len(p.twkb) - p.pos) scaled by a per-element size — remaining/size, or count*size — uses a size that is not above the smallest encoding of one element: p.dimensions bytes for a point (parsePointArray: one byte per ordinate at least), one byte for everything else (an ID, and an EMPTY LineString, Polygon, ring or collection member is a single zero count byte). A guard `numLineStrings > remaining/p.dimensions` refuses the encoder's own output for a MultiLineString made mostly of empty members",
		Floor: 1,
		Run: func(c *Ctx) {
			remaining := func(v ssa.Value) bool {
				bo, ok := stripConv(v).(*ssa.BinOp)
				if !ok || bo.Op != token.SUB {
					return false
				}
				call, ok := stripConv(bo.X).(*ssa.Call)
				if !ok {
					return false
				}
				b, ok := call.Call.Value.(*ssa.Builtin)
				if !ok || b.Name() != "len" {
					return false
				}
				_, fl, _, isField := fieldLoad(call.Call.Args[0])
				return isField && fl == "twkb"
			}
			isDimensions := func(v ssa.Value) bool {
				_, fl, _, ok := fieldLoad(stripConv(v))
				return ok && fl == "dimensions"
			}
			n := 0
			for _, f0 := range c.P.methodsOf("geom", "twkbParser") {
				for _, f := range withNewHelpers(f0) {
					if f != f0 && f.Signature.Recv() != nil && namedName(f.Signature.Recv().Type()) == "twkbParser" {
						continue // a method: visited on its own
					}
					fn := FuncName(f)
					perPoint := strings.HasSuffix(FuncName(f0), ").parsePointArray")
					eachInstr(f, func(in ssa.Instruction) {
						bo, ok := in.(*ssa.BinOp)
						if !ok {
							return
						}
						switch bo.Op {
						case token.LSS, token.GTR, token.LEQ, token.GEQ:
						default:
							return
						}
						// remaining / size on one side, or (count * size) against remaining
						var size ssa.Value
						for _, side := range []ssa.Value{bo.X, bo.Y} {
							if q, ok := stripConv(side).(*ssa.BinOp); ok && q.Op == token.QUO && remaining(q.X) {
								size = q.Y
							}
						}
						if size == nil && (remaining(bo.X) || remaining(bo.Y)) {
							other := bo.X
							if remaining(bo.X) {
								other = bo.Y
							}
							if m, ok := stripConv(other).(*ssa.BinOp); ok && m.Op == token.MUL {
								if _, isC := stripConv(m.Y).(*ssa.Const); isC || isDimensions(m.Y) {
									size = m.Y
								} else {
									size = m.X
								}
							}
						}
						if size == nil {
							return
						}
						n++
						ss, _ := accessPath(stripConv(size))
						construct := "count guard scaled by " + trunc(ss)
						k, isC := constInt(stripConv(size))
						switch {
						case isC && k == 1:
							c.OK(bo.Pos(), fn, construct, "one byte per element")
						case isDimensions(size) && perPoint:
							c.OK(bo.Pos(), fn, construct, "one byte per ordinate of a point")
						default:
							c.Bad(bo.Pos(), fn, construct, "the count is refused unless the remaining input holds "+trunc(ss)+" bytes per element, but an element here can be a single byte (an EMPTY member is one zero count): correctly encoded collections with empty members are rejected as truncated")
						}
					})
				}
			}
			if n < 1 {
				c.Errorf("no scaled count guard found in the TWKB parser (expected parsePointArray's)")
			}
		},
	})
}

func dumpFirstIndex(c *Ctx) {
	for _, f := range c.P.Funcs {
		if pk := pkgOf(f); pk != "geom" {
			continue
		}
		eachInstr(f, func(in ssa.Instruction) {
			ia, ok := in.(*ssa.IndexAddr)
			if !ok {
				return
			}
			k, isC := constInt(ia.Index)
			if !isC {
				return
			}
			if _, isSl := ia.X.Type().Underlying().(*types.Slice); !isSl {
				return
			}
			tn, fl, _, isField := fieldLoad(ia.X)
			if !isField || !geomTypeNames[tn] {
				return
			}
			call, _ := lenCallOf(ia.X, f)
			l, has := int64(0), false
			if call != nil {
				l, has = c.lowerBound(ia, call, 0)
			}
			eg := emptyGuardedAt(ia)
			fmt.Printf("%v\t%s\t%s\t%s.%s[%d]\tlb=%d(%v) emptyGuard=%v\n", (has && l > k) || eg, c.P.Pos(ia.Pos()), FuncName(f), tn, fl, k, l, has, eg)
		})
	}
}

// lenCallOf: some len(x) call in f on the same slice value as v (for guard lookup).
func lenCallOf(v ssa.Value, f *ssa.Function) (ssa.Value, bool) {
	var out ssa.Value
	eachInstr(f, func(in ssa.Instruction) {
		call, ok := in.(*ssa.Call)
		if !ok || out != nil {
			return
		}
		if b, ok := call.Call.Value.(*ssa.Builtin); ok && b.Name() == "len" {
			if call.Call.Args[0] == v || sameValue(call.Call.Args[0], v) {
				out = call
			}
		}
	})
	return out, out != nil
}

func init() {
	register(&Rule{
		ID:    "C20.firstindex",
		Props: []string{"C20", "C14", "C17"},
		Doc:   "the first ring / member is only taken from a non-empty geometry: every constant index into a slice field of one of the geometry types (p.rings[0], m.polys[0], …) in geom is evaluated only where the slice is known to be long enough — a guard on its len, or the owner's IsEmpty() known false (an EMPTY Polygon has no rings; `orientedRings[0] = orient(p.rings[0])` panics for every collection with an empty Polygon member that reaches it)",
		Floor: 1,
		Run: func(c *Ctx) {
			for _, f := range c.P.Funcs {
				if pkgOf(f) != "geom" {
					continue
				}
				k := 0
				eachInstr(f, func(in ssa.Instruction) {
					ia, ok := in.(*ssa.IndexAddr)
					if !ok {
						return
					}
					idx, isC := constInt(ia.Index)
					if !isC {
						return
					}
					if _, isSl := ia.X.Type().Underlying().(*types.Slice); !isSl {
						return
					}
					tn, fl, _, isField := fieldLoad(ia.X)
					if !isField || !geomTypeNames[tn] {
						return
					}
					k++
					okLen := emptyGuardedAt(ia)
					if call, found := lenCallOf(ia.X, f); found && !okLen {
						if l, has := c.lowerBound(ia, call, 0); has && l > idx {
							okLen = true
						}
					}
					// the owner's own emptiness, whatever value it is held in
					if !okLen {
						for _, g0 := range guardsAt(ia) {
							for _, g := range expandGuardDeep(g0) {
								if gc, ok := g.Cond.(*ssa.Call); ok && !g.Truth {
									if cal := staticCallee(gc); cal != nil && cal.Name() == "IsEmpty" && len(gc.Call.Args) == 1 && namedName(gc.Call.Args[0].Type()) == tn {
										okLen = true
									}
								}
							}
						}
					}
					c.Check(okLen, ia.Pos(), FuncName(f), fmt.Sprintf("%s.%s[%d] #%d", tn, fl, idx, k), "the slice is known to be long enough here", fmt.Sprintf("element %d of %s.%s is taken without anything establishing that it exists: for an EMPTY %s the slice is empty and the access panics", idx, tn, fl, tn))
				})
			}
		},
	})
}

// ---------------------------------------------------------------------------
// C16.transformseq
// ---------------------------------------------------------------------------

func init() {
	register(&Rule{
		ID:    "C16.transformseq",
		Props: []string{"C16", "C17"},
		Doc:   "a coordinate transform touches X and Y only, point by point: transformSequence interpreted for the four coordinates types on a closed three-point sequence (first and last point share X,Y but carry different Z and M) and on an open one builds a sequence of the same type in which point i is (fn(x_i, y_i), z_i, m_i) — every point keeps its OWN Z and M, the closing vertex of a ring included (re-using the transformed first point for the last one gives it the first point's Z/M)",
		Floor: 1,
		Run: func(c *Ctx) {
			f := c.P.Func("geom.transformSequence")
			if f == nil {
				c.Errorf("anchor geom.transformSequence does not resolve")
				return
			}
			inl := func(g *ssa.Function) bool {
				switch FuncName(g) {
				case "geom.(Sequence).Length", "geom.(Sequence).GetXY", "geom.(Sequence).Get", "geom.(CoordinatesType).Dimension", "geom.(Sequence).CoordinatesType", "geom.(CoordinatesType).Is3D", "geom.(CoordinatesType).IsMeasured":
					return true
				}
				return false
			}
			problem, undec := "", ""
			models := 0
			for ct := 0; ct < 4 && problem == "" && undec == ""; ct++ {
				for _, closed := range []bool{true, false} {
					models++
					xs := [][2]float64{{1, 2}, {3, 4}, {1, 2}}
					if !closed {
						xs[2] = [2]float64{5, 6}
					}
					zs := []float64{11, 12, 13}
					ms := []float64{21, 22, 23}
					stride := 2
					if ct == 1 || ct == 2 {
						stride = 3
					}
					if ct == 3 {
						stride = 4
					}
					m := &Model{Num: map[string]float64{"$0.ctype": float64(ct)}, Bool: map[string]bool{}, Missing: map[string]bool{}}
					it := &k4interp{p: c.P, m: m, mem: map[string]k4val{}, inline: inl}
					it.mem["$0.floats"] = k4val{kind: 8, s: "F", ln: 3 * stride, cp: 3 * stride}
					var want []float64
					for i := 0; i < 3; i++ {
						pt := []float64{xs[i][0], xs[i][1]}
						wpt := []float64{100 + xs[i][0], 200 + xs[i][1]}
						if ct == 1 || ct == 3 {
							pt = append(pt, zs[i])
							wpt = append(wpt, zs[i])
						}
						if ct == 2 || ct == 3 {
							pt = append(pt, ms[i])
							wpt = append(wpt, ms[i])
						}
						for j, v := range pt {
							it.mem[fmt.Sprintf("F[%d]", i*stride+j)] = k4val{kind: 2, f: v}
						}
						want = append(want, wpt...)
					}
					it.opaqueCall = func(args []k4val) (string, bool) {
						if len(args) == 1 && args[0].kind == 3 {
							x, e1 := it.lookup(args[0].s+".X", nil0)
							y, e2 := it.lookup(args[0].s+".Y", nil0)
							if e1 == nil && e2 == nil {
								return fmt.Sprintf("fn(%v,%v)", x.f, y.f), true
							}
						}
						return "", false
					}
					it.answer = func(key string, isBool bool) (k4val, bool) {
						var x, y float64
						if !isBool && strings.HasPrefix(key, "fn(") {
							if n, _ := fmt.Sscanf(key, "fn(%g,%g)", &x, &y); n == 2 {
								switch {
								case strings.HasSuffix(key, ").X"):
									return k4val{kind: 2, f: 100 + x}, true
								case strings.HasSuffix(key, ").Y"):
									return k4val{kind: 2, f: 200 + y}, true
								}
							}
						}
						return k4val{}, false
					}
					var got []float64
					gotCT := -1.0
					it.onOpaque = func(name string, args []k4val) {
						if name == "geom.NewSequence" && len(args) == 2 && args[0].kind == 8 {
							got = nil
							for i := 0; i < args[0].ln; i++ {
								got = append(got, it.mem[fmt.Sprintf("%s[%d]", args[0].s, args[0].off+i)].f)
							}
							if args[1].kind == 2 {
								gotCT = args[1].f
							}
						}
					}
					if _, err := it.call(f, []k4val{{kind: 3, s: "$0"}, {kind: 3, s: "$1"}}, nil); err != nil {
						undec = fmt.Sprintf("type %d closed=%v: %v %s", ct, closed, err, trunc(missingList(m)))
						break
					}
					if fmt.Sprint(got) != fmt.Sprint(want) || int(gotCT) != ct {
						problem = fmt.Sprintf("coordinates type %d, %s sequence: the transformed floats are %v (type %v); expected %v (type %d): fn applied to X,Y of each point (+100, +200 here), every point's own Z/M kept", ct, map[bool]string{true: "closed", false: "open"}[closed], got, gotCT, want, ct)
						break
					}
				}
			}
			reportK4(c, f, "per-point transform", undec, problem, fmt.Sprintf("(fn(x,y), z, m) for every point, closing vertex included (%d models)", models))
		},
	})
}

// ---------------------------------------------------------------------------
// C10.canonstart
// ---------------------------------------------------------------------------

func init() {
	register(&Rule{
		ID:    "C10.canonstart",
		Props: []string{"C10", "C01"},
		Doc:   "an extracted ring starts at its canonical (smallest) edge whatever half-edge the face walk began with: rotateSeqs is interpreted on lists of 3 and 4 elements for every rotation amount to learn what it does, the amount extractPolygonRing passes is evaluated for every position minI of the smallest element, and the composition must bring element minI to the front — `rotateSeqs(seqs, minI)` with a rotate-right routine leaves the start of the ring wherever Go's randomised map iteration happened to begin, so equal inputs give results that differ from run to run",
		Floor: 1,
		Run: func(c *Ctx) {
			rot := c.P.Func("geom.rotateSeqs")
			ext := c.P.Func("geom.extractPolygonRing")
			if rot == nil || ext == nil {
				c.Errorf("anchors geom.rotateSeqs / geom.extractPolygonRing do not resolve")
				return
			}
			inl := func(g *ssa.Function) bool { return FuncName(g) == "geom.reverseSeqs" }
			// perm[n][r][i] = the original index of the element found at position i after rotateSeqs(seqs, r)
			perm := map[int]map[int][]int{}
			undec := ""
			for n := 3; n <= 4 && undec == ""; n++ {
				perm[n] = map[int][]int{}
				for r := 0; r <= n; r++ {
					m := &Model{Num: map[string]float64{}, Bool: map[string]bool{}, Missing: map[string]bool{}}
					it := &k4interp{p: c.P, m: m, mem: map[string]k4val{}, inline: inl}
					for i := 0; i < n; i++ {
						it.mem[fmt.Sprintf("SEQ[%d]", i)] = k4val{kind: 2, f: float64(i)}
					}
					if _, err := it.call(rot, []k4val{{kind: 8, s: "SEQ", ln: n, cp: n}, {kind: 2, f: float64(r)}}, nil); err != nil {
						undec = fmt.Sprintf("rotateSeqs(n=%d, %d): %v %s", n, r, err, trunc(missingList(m)))
						break
					}
					var p []int
					for i := 0; i < n; i++ {
						p = append(p, int(it.mem[fmt.Sprintf("SEQ[%d]", i)].f))
					}
					perm[n][r] = p
				}
			}
			if undec != "" {
				c.Undecided(rot.Pos(), FuncName(rot), "rotation routine", "cannot interpret: "+undec)
				return
			}
			// the amount passed by extractPolygonRing (or a helper split off it)
			var call ssa.CallInstruction
			for _, g := range withNewHelpers(ext) {
				for _, ci := range callsTo(g, "geom.rotateSeqs") {
					call = ci
				}
			}
			if call == nil {
				c.Bad(ext.Pos(), FuncName(ext), "canonical start of an extracted ring", "extractPolygonRing no longer rotates the ring's edges with rotateSeqs: the ring starts wherever the face walk began")
				return
			}
			var eval func(v ssa.Value, n, minI int, d int) (int, bool)
			eval = func(v ssa.Value, n, minI int, d int) (int, bool) {
				v = stripConv(v)
				if d > 6 {
					return 0, false
				}
				if k, ok := constInt(v); ok {
					return int(k), true
				}
				if _, ok := lenOf(v); ok {
					return n, true
				}
				if bo, ok := v.(*ssa.BinOp); ok {
					a, ok1 := eval(bo.X, n, minI, d+1)
					b, ok2 := eval(bo.Y, n, minI, d+1)
					if !ok1 || !ok2 {
						return 0, false
					}
					switch bo.Op {
					case token.ADD:
						return a + b, true
					case token.SUB:
						return a - b, true
					case token.REM:
						if b != 0 {
							return a % b, true
						}
					}
					return 0, false
				}
				// any other integer value in the amount is the position of the smallest element
				return minI, true
			}
			problem := ""
			for n := 3; n <= 4 && problem == ""; n++ {
				for minI := 0; minI < n; minI++ {
					r, ok := eval(call.Common().Args[1], n, minI, 0)
					if !ok || r < 0 || r > n {
						problem = fmt.Sprintf("the rotation amount cannot be evaluated (or is out of range) for %d edges with the smallest at position %d", n, minI)
						break
					}
					if perm[n][r][0] != minI {
						problem = fmt.Sprintf("with %d edges and the smallest one at position %d the amount passed is %d, after which the ring starts with the edge that was at position %d (rotateSeqs gives %v): the start of the ring depends on where the face walk began", n, minI, r, perm[n][r][0], perm[n][r])
						break
					}
				}
			}
			c.Check(problem == "", call.Pos(), FuncName(ext), "canonical start of an extracted ring", "rotateSeqs with the amount passed brings the smallest edge to the front (3 and 4 edges, every position)", problem)
		},
	})
}

// valueUpperBound: an upper bound of a non-negative integer value that follows
// from how it is computed (x & mask, x % k, a conversion from a narrow unsigned
// type, a phi of bounded values).
func valueUpperBound(v ssa.Value, d int) (int64, bool) {
	if d > 6 {
		return 0, false
	}
	if k, ok := constInt(v); ok {
		return k, k >= 0
	}
	switch x := v.(type) {
	case *ssa.Convert:
		if b, ok := x.X.Type().Underlying().(*types.Basic); ok {
			switch b.Kind() {
			case types.Uint8:
				if hi, ok := valueUpperBound(x.X, d+1); ok {
					return hi, true
				}
				return 255, true
			case types.Bool:
				return 1, true
			}
			if b.Info()&types.IsInteger != 0 {
				return valueUpperBound(x.X, d+1)
			}
		}
	case *ssa.ChangeType:
		return valueUpperBound(x.X, d+1)
	case *ssa.BinOp:
		switch x.Op {
		case token.AND:
			for _, o := range []ssa.Value{x.X, x.Y} {
				if k, ok := constInt(stripConv(o)); ok && k >= 0 {
					return k, true
				}
			}
		case token.REM:
			if k, ok := constInt(stripConv(x.Y)); ok && k > 0 {
				if b, ok := x.X.Type().Underlying().(*types.Basic); ok && b.Info()&types.IsUnsigned != 0 {
					return k - 1, true
				}
			}
		case token.ADD:
			// a count advanced by constants on straight-line code (a loop-carried counter runs out of depth and stays unbounded)
			a, okA := valueUpperBound(x.X, d+1)
			b, okB := valueUpperBound(x.Y, d+1)
			if okA && okB {
				return a + b, true
			}
		case token.SHR:
			if hi, ok := valueUpperBound(x.X, d+1); ok {
				if k, ok := constInt(stripConv(x.Y)); ok && k >= 0 && k < 63 {
					return hi >> uint(k), true
				}
				return hi, true
			}
		}
	case *ssa.Phi:
		var hi int64
		for _, e := range x.Edges {
			h, ok := valueUpperBound(e, d+1)
			if !ok {
				return 0, false
			}
			if h > hi {
				hi = h
			}
		}
		return hi, len(x.Edges) > 0
	}
	return 0, false
}

// convertedFromData: somewhere in the repository a non-constant integer is
// converted to the named type, so its values are not confined to the declared
// constants (a type code read from input, say).
var convertedFromDataMemo = map[*types.Named]bool{}

func convertedFromData(p *Program, nt *types.Named) bool {
	if r, ok := convertedFromDataMemo[nt]; ok {
		return r
	}
	res := false
	for _, f := range p.Funcs {
		if res || !p.InRepo(f) {
			continue
		}
		eachInstr(f, func(in ssa.Instruction) {
			var from ssa.Value
			var to types.Type
			switch x := in.(type) {
			case *ssa.Convert:
				from, to = x.X, x.Type()
			case *ssa.ChangeType:
				from, to = x.X, x.Type()
			default:
				return
			}
			if !types.Identical(to, nt) {
				return
			}
			if _, isC := from.(*ssa.Const); isC {
				return
			}
			if types.Identical(from.Type(), nt) {
				return
			}
			res = true
		})
	}
	convertedFromDataMemo[nt] = res
	return res
}

// inheritedMinusOneReason: a helper introduced since the baseline all of whose
// call sites lie in reviewed functions carries the code those reviews were
// written for; it inherits (one of) their reasons.
func inheritedMinusOneReason(c *Ctx, h *ssa.Function, used map[string]bool) string {
	if !isNewHelper(h) {
		return ""
	}
	sites := c.P.callSitesOf(h)
	if len(sites) == 0 {
		return ""
	}
	reason := ""
	for _, s := range sites {
		o := FuncName(rootFunc(s.Parent()))
		why := minusOneReviewed[o]
		if why == "" {
			return ""
		}
		used[o] = true
		reason = "helper split off " + o + ": " + why
	}
	return reason
}
