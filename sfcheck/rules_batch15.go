package main

import (
	"fmt"
	"go/token"
	"go/types"
	"sort"
	"strings"

	"golang.org/x/tools/go/ssa"
)

// ---------------------------------------------------------------------------
// C20.minusone: an index computed from `count - 1`
// ---------------------------------------------------------------------------

// minusOneTerm: the index expression v contains a term `X - 1` (X not a
// constant), possibly scaled or offset: returns X.
func minusOneTerm(v ssa.Value, d int) (ssa.Value, int64) {
	if d > 5 {
		return nil, 0
	}
	v = stripConv(v)
	bo, ok := v.(*ssa.BinOp)
	if !ok {
		return nil, 0
	}
	switch bo.Op {
	case token.SUB:
		if k, ok := constInt(bo.Y); ok && k >= 1 {
			if _, isC := stripConv(bo.X).(*ssa.Const); !isC {
				return stripConv(bo.X), k
			}
		}
		return minusOneTerm(bo.X, d+1)
	case token.ADD, token.MUL:
		if x, k := minusOneTerm(bo.X, d+1); x != nil {
			return x, k
		}
		return minusOneTerm(bo.Y, d+1)
	}
	return nil, 0
}

type minusOneSite struct {
	in   ssa.Instruction
	x    ssa.Value
	k    int64
	what string
}

// indexAccessors: methods that panic on a negative index
var indexAccessors = map[string]bool{"Get": true, "GetXY": true, "PointN": true, "LineStringN": true, "PolygonN": true, "GeometryN": true, "InteriorRingN": true}

func minusOneSites(f *ssa.Function) []minusOneSite {
	var out []minusOneSite
	eachInstr(f, func(in ssa.Instruction) {
		add := func(v ssa.Value, what string) {
			if v == nil {
				return
			}
			if x, k := minusOneTerm(v, 0); x != nil {
				out = append(out, minusOneSite{in, x, k, what})
			}
		}
		switch x := in.(type) {
		case *ssa.IndexAddr:
			add(x.Index, "index")
		case *ssa.Index:
			add(x.Index, "index")
		case *ssa.Slice:
			add(x.Low, "slice bound")
			add(x.High, "slice bound")
		case *ssa.Call:
			cal := staticCallee(x)
			if cal != nil && cal.Signature.Recv() != nil && indexAccessors[cal.Name()] && len(x.Call.Args) == 2 {
				add(x.Call.Args[1], "argument of "+cal.Name())
			}
		}
	})
	return out
}

// lowerBound: the best constant L for which `v >= L` is established at `in`
// (by guards, by construction of the value, or — for a parameter of a helper
// introduced after the baseline — at every call site).
func (c *Ctx) lowerBound(in ssa.Instruction, v ssa.Value, d int) (int64, bool) {
	if d > 6 {
		return 0, false
	}
	v = stripConv(v)
	best, has := int64(0), false
	take := func(l int64) {
		if !has || l > best {
			best, has = l, true
		}
	}
	if k, ok := constInt(v); ok {
		return k, true
	}
	if lo, _, hasLo, _ := intBounds(in, v); hasLo {
		take(lo)
	}
	if isLengthValue(v) {
		take(0)
		if call, ok := v.(*ssa.Call); ok && emptyGuardedAt(in) {
			if cal := staticCallee(call); cal != nil && cal.Name() == "Length" {
				take(1)
			}
		}
	}
	if call, ok := v.(*ssa.Call); ok {
		if cal := staticCallee(call); cal != nil && FuncName(cal) == "geom.(CoordinatesType).Dimension" {
			take(2)
		}
	}
	for _, g0 := range guardsAt(in) {
		for _, g := range expandGuardDeep(g0) {
			bo, ok := g.Cond.(*ssa.BinOp)
			if !ok {
				continue
			}
			op := bo.Op
			if !g.Truth {
				switch op {
				case token.LSS:
					op = token.GEQ
				case token.LEQ:
					op = token.GTR
				case token.GTR:
					op = token.LEQ
				case token.GEQ:
					op = token.LSS
				case token.EQL:
					op = token.NEQ
				case token.NEQ:
					op = token.EQL
				default:
					continue
				}
			}
			x, y := stripConv(bo.X), stripConv(bo.Y)
			// a length known to be non-zero
			if k, isC := constInt(y); isC && k == 0 && op == token.NEQ && sameQuantity(x, v) && isLengthValue(v) {
				take(1)
			}
			// other < v, other <= v, v > other, v >= other, v == other
			var other ssa.Value
			strict := false
			switch {
			case sameQuantity(y, v) && (op == token.LSS || op == token.LEQ):
				other, strict = x, op == token.LSS
			case sameQuantity(x, v) && (op == token.GTR || op == token.GEQ):
				other, strict = y, op == token.GTR
			case sameQuantity(x, v) && op == token.EQL:
				other = y
			case sameQuantity(y, v) && op == token.EQL:
				other = x
			}
			if other != nil {
				if _, isC := other.(*ssa.Const); !isC && other != v {
					if l, ok := c.lowerBoundNoGuards(other, d+1); ok {
						if strict {
							l++
						}
						take(l)
					}
				}
			}
			// (v - c) >= k
			if sub, isSub := x.(*ssa.BinOp); isSub && sub.Op == token.SUB && sameQuantity(sub.X, v) {
				if cc, isC := constInt(sub.Y); isC {
					if k, isK := constInt(y); isK {
						switch op {
						case token.GEQ:
							take(k + cc)
						case token.GTR:
							take(k + cc + 1)
						}
					}
				}
			}
		}
	}
	switch x := v.(type) {
	case *ssa.Phi:
		// a counter that only grows: the least of its initial values
		good, n := true, 0
		least := int64(0)
		for i, e := range x.Edges {
			pred := x.Block().Preds[i]
			if x.Block().Dominates(pred) {
				bo, isBo := e.(*ssa.BinOp)
				if !isBo || bo.Op != token.ADD || bo.X != ssa.Value(x) {
					good = false
					continue
				}
				if k, isC := constInt(bo.Y); !isC || k < 0 {
					good = false
				}
				continue
			}
			l, ok := c.lowerBound(pred.Instrs[len(pred.Instrs)-1], e, d+1)
			if !ok {
				good = false
				continue
			}
			if n == 0 || l < least {
				least = l
			}
			n++
		}
		if good && n > 0 {
			take(least)
		}
	case *ssa.BinOp:
		la, oka := c.lowerBound(in, x.X, d+1)
		lb, okb := c.lowerBound(in, x.Y, d+1)
		switch x.Op {
		case token.ADD:
			if oka && okb {
				take(la + lb)
			}
		case token.MUL:
			if oka && okb && la >= 0 && lb >= 0 {
				take(la * lb)
			}
		case token.QUO:
			if kk, isC := constInt(x.Y); isC && kk >= 1 && oka && la >= 0 {
				take(la / kk)
			}
		case token.SUB:
			// a - b where b < a (or b < a/c, a >= 0) is established
			if kk, isC := constInt(x.Y); isC && oka {
				take(la - kk)
			}
			for _, g0 := range guardsAt(in) {
				for _, g := range expandGuardDeep(g0) {
					bo, ok := g.Cond.(*ssa.BinOp)
					if !ok {
						continue
					}
					lt := (bo.Op == token.LSS && g.Truth) || (bo.Op == token.GEQ && !g.Truth)
					le := (bo.Op == token.LEQ && g.Truth) || (bo.Op == token.GTR && !g.Truth)
					if !lt && !le {
						continue
					}
					if !sameQuantity(bo.X, x.Y) {
						continue
					}
					hi := stripConv(bo.Y)
					if q, isQ := hi.(*ssa.BinOp); isQ && q.Op == token.QUO {
						if kk, isC := constInt(q.Y); isC && kk >= 1 && oka && la >= 0 {
							hi = stripConv(q.X)
						}
					}
					if sameQuantity(hi, x.X) {
						if lt {
							take(1)
						} else {
							take(0)
						}
					}
				}
			}
		}
	case *ssa.Parameter:
		f := x.Parent()
		if isNewHelper(f) && f.Parent() == nil {
			idx := paramIndex(f, x)
			sites := c.P.callSitesOf(f)
			n, least, good := 0, int64(0), idx >= 0
			for _, cs := range sites {
				if idx >= len(cs.Common().Args) {
					good = false
					break
				}
				l, ok := c.lowerBound(cs.(ssa.Instruction), cs.Common().Args[idx], d+1)
				if !ok {
					good = false
					break
				}
				if n == 0 || l < least {
					least = l
				}
				n++
			}
			if good && n > 0 {
				take(least)
			}
		}
	}
	return best, has
}

// lowerBoundNoGuards: a bound that holds wherever the value exists (constants,
// lengths, counters), for the other side of a comparison.
func (c *Ctx) lowerBoundNoGuards(v ssa.Value, d int) (int64, bool) {
	v = stripConv(v)
	if k, ok := constInt(v); ok {
		return k, true
	}
	if nonNegativeValue(v) {
		return 0, true
	}
	if phi, ok := v.(*ssa.Phi); ok && len(phi.Block().Instrs) > 0 {
		return c.lowerBound(phi.Block().Instrs[0], v, d+1)
	}
	return 0, false
}

// isLengthValue: len(..), cap(..) or a Length/Num* accessor result (never negative)
func isLengthValue(v ssa.Value) bool {
	v = stripConv(v)
	call, ok := v.(*ssa.Call)
	if !ok {
		return false
	}
	if b, ok := call.Call.Value.(*ssa.Builtin); ok {
		return b.Name() == "len" || b.Name() == "cap"
	}
	if cal := staticCallee(call); cal != nil {
		n := cal.Name()
		return n == "Length" || strings.HasPrefix(n, "Num")
	}
	return false
}

// nonNegativeValue: a constant >= 0, a length, or a loop counter starting at >= 0 that only grows
func nonNegativeValue(v ssa.Value) bool {
	v = stripConv(v)
	if k, ok := constInt(v); ok {
		return k >= 0
	}
	if isLengthValue(v) {
		return true
	}
	if phi, ok := v.(*ssa.Phi); ok {
		for i, e := range phi.Edges {
			if phi.Block().Dominates(phi.Block().Preds[i]) {
				bo, isBo := e.(*ssa.BinOp)
				if !isBo || bo.Op != token.ADD || bo.X != ssa.Value(phi) {
					return false
				}
				if k, isC := constInt(bo.Y); !isC || k < 0 {
					return false
				}
				continue
			}
			if k, isC := constInt(e); !isC || k < 0 {
				return false
			}
		}
		return true
	}
	return false
}

func dumpMinusOne(c *Ctx) {
	var lines []string
	for _, f := range c.P.Funcs {
		if !c.P.InRepo(f) {
			continue
		}
		for _, s := range minusOneSites(f) {
			l, has := c.lowerBound(s.in, s.x, 0)
			xs, _ := accessPath(s.x)
			lines = append(lines, fmt.Sprintf("%v\t%s\t%s\t%s of (%s)-%d\tlower bound %d (%v)", has && l >= s.k, c.P.Pos(s.in.Pos()), FuncName(f), s.what, trunc(xs), s.k, l, has))
		}
	}
	sort.Strings(lines)
	for _, l := range lines {
		fmt.Println(l)
	}
}

func init() {
	register(&Rule{
		ID:    "C20.minusone",
		Props: []string{"C20", "C08"},
		Doc:   "no index below zero from `count - k`: every index, slice bound or Get/GetXY/…N argument in geom and rtree that contains a term `X - k` (k a positive constant, X not) is evaluated only where X >= k is established — by the guards in force (comparisons with constants, with lengths, with loop counters; `len != 0`; the receiver's IsEmpty() known false for its own Length()), by construction (a counter that starts at >= k and only grows, a sum or product of such values, Dimension() >= 2), or, when X is a parameter of a helper introduced after the baseline, at every call site of that helper. The sites of the unchanged tree that rest on an invariant no guard states are a reviewed table (function, reason); a site in a reviewed function's new helper is judged like any other",
		Floor: 12,
		Run:   runC20MinusOne,
	})
}

// minusOneReviewed: functions whose `X - k` indexes rest on an invariant that
// is not a guard in the function (confirmed by reading, one line each).
var minusOneReviewed = map[string]string{
	"geom.convexHull":   "isLinearHull reports ok only together with the first half of an odd-length hull, which has (n+1)/2 >= 1 points",
	"geom.isLinearHull": "the hull has odd length here and is never a single point (convexHull returns before for 0 and 1 distinct points; monotoneChain of >= 2 distinct points returns >= 3 entries), so len/2 >= 1",
	"geom.Distance":     "record IDs are never zero: points are inserted as +(i+1) and segments as -(i+1); the segment index is only used on the branch recordID <= 0",
	"geom.(exactEqualsComparator).lineStringsEq": "reached only for rings (areRings): both sequences have n >= 4 points",
	"geom.(linearInterpolator).interpolate":      "newLinearInterpolator refuses an empty sequence, so Length() >= 1; idx-1 is used where idx equals that length",
	"geom.buildRingSequence":                     "appendAllPoints adds at least two floats for each point of a sequence that has at least one point (the sequences are DCEL edges with two or more points)",
	"geom.(GeoJSONFeature).MarshalJSON":          "json.Marshal of a struct produced an object, which ends with '}'",
	"geom.getLine":                               "i == 0 returns before; every caller passes an index in [0, Length())",
	"rtree.(*entriesQueue).Pop":                  "container/heap calls Pop only on a non-empty queue (heap.Pop swaps the root to the end first)",
}

func runC20MinusOne(c *Ctx) {
	n := 0
	used := map[string]bool{}
	for _, f := range c.P.Funcs {
		if pk := pkgOf(f); pk != "geom" && pk != "rtree" {
			continue
		}
		fn := FuncName(f)
		seen := map[string]int{}
		for _, s := range minusOneSites(f) {
			n++
			xs, _ := accessPath(s.x)
			construct := fmt.Sprintf("%s containing (%s) - %d", s.what, trunc(xs), s.k)
			seen[construct]++
			if seen[construct] > 1 {
				construct = fmt.Sprintf("%s #%d", construct, seen[construct])
			}
			l, has := c.lowerBound(s.in, s.x, 0)
			switch {
			case has && l >= s.k:
				c.OK(s.in.Pos(), fn, construct, fmt.Sprintf("the value is at least %d where the index is evaluated", l))
			case minusOneReviewed[FuncName(rootFunc(f))] != "":
				used[FuncName(rootFunc(f))] = true
				c.Except(s.in.Pos(), fn, construct, minusOneReviewed[FuncName(rootFunc(f))])
			default:
				c.Bad(s.in.Pos(), fn, construct, fmt.Sprintf("nothing establishes that (%s) is at least %d where it is used as an index: when it is smaller (an empty or one-element list, a zero count from the input) the index is negative and the access panics", trunc(xs), s.k))
			}
		}
	}
	for fn := range minusOneReviewed {
		if !used[fn] && c.P.Func(fn) != nil {
			// the reviewed function no longer needs its exception: harmless
			continue
		}
	}
	_ = n
}

// ---------------------------------------------------------------------------
// C14.optsforward
// ---------------------------------------------------------------------------

func init() {
	register(&Rule{
		ID:    "C14.optsforward",
		Props: []string{"C14", "C03", "C18", "C20"},
		Doc:   "options reach every delegate: in each geom function that takes a variadic list of a repository option type (AreaOption, NoValidate, ExactEqualsOption, TWKBWriterOption), every call — in the function, its closures and the helpers introduced after the baseline that it hands the list to — of a repository function that itself takes a variadic list of the same type passes the caller's own list (a member branch that calls `.Area()` bare computes the untransformed, unsigned area for that kind of member only; a `Simplify` that forgets `nv...` validates on one branch)",
		Floor: 6,
		Run:   runC14OptsForward,
	})
}

func variadicOptionParam(f *ssa.Function) (*ssa.Parameter, types.Type) {
	if f == nil || !f.Signature.Variadic() || len(f.Params) == 0 {
		return nil, nil
	}
	p := f.Params[len(f.Params)-1]
	st, ok := p.Type().Underlying().(*types.Slice)
	if !ok {
		return nil, nil
	}
	nt, ok := st.Elem().(*types.Named)
	if !ok || nt.Obj().Pkg() == nil || !strings.HasSuffix(nt.Obj().Pkg().Path(), "/geom") {
		return nil, nil
	}
	return p, nt
}

func runC14OptsForward(c *Ctx) {
	for _, f := range c.P.Funcs {
		if pkgOf(f) != "geom" || f.Parent() != nil || len(f.Blocks) == 0 {
			continue
		}
		par, elem := variadicOptionParam(f)
		if par == nil {
			continue
		}
		fn := FuncName(f)
		// the list in f, its closures (captured), and new helpers it is passed to
		type scope struct {
			g    *ssa.Function
			list map[ssa.Value]bool
		}
		var scopes []scope
		seenFn := map[*ssa.Function]bool{}
		var addScope func(g *ssa.Function, list map[ssa.Value]bool, depth int)
		addScope = func(g *ssa.Function, list map[ssa.Value]bool, depth int) {
			if seenFn[g] || depth > 4 {
				return
			}
			seenFn[g] = true
			scopes = append(scopes, scope{g, list})
			for _, a := range g.AnonFuncs {
				// a captured list: the free variable whose binding is (the cell of) the list
				sub := map[ssa.Value]bool{}
				for v := range list {
					sub[v] = true
				}
				addScope(a, sub, depth+1)
			}
		}
		addScope(f, map[ssa.Value]bool{par: true}, 0)
		var isList func(sc scope, v ssa.Value) bool
		isList = func(sc scope, v ssa.Value) bool {
			// through loads of cells (local or captured) that only ever hold the list
			v = resolveCell(v)
			if sc.list[v] {
				return true
			}
			if sl, ok := v.(*ssa.Slice); ok && sl.Low == nil && sl.High == nil {
				return isList(sc, sl.X)
			}
			return false
		}
		for i := 0; i < len(scopes); i++ {
			sc := scopes[i]
			k := 0
			eachCall(sc.g, func(call ssa.CallInstruction) {
				cal := staticCallee(call)
				if cal == nil {
					return
				}
				cp, celem := variadicOptionParam(cal)
				if cp == nil || !types.Identical(celem, elem) {
					// a new helper that receives the list as an ordinary parameter
					if isNewHelper(cal) && len(cal.Blocks) > 0 {
						for ai, a := range call.Common().Args {
							if isList(sc, a) && ai < len(cal.Params) {
								addScope(cal, map[ssa.Value]bool{cal.Params[ai]: true}, 1)
							}
						}
					}
					return
				}
				args := call.Common().Args
				arg := args[len(args)-1]
				k++
				construct := fmt.Sprintf("%s list passed to %s", elem.(*types.Named).Obj().Name(), FuncName(cal))
				if k > 1 {
					construct = fmt.Sprintf("%s (call %d in %s)", construct, k, FuncName(sc.g))
				} else if sc.g != f {
					construct = fmt.Sprintf("%s (in %s)", construct, FuncName(sc.g))
				}
				if isList(sc, arg) {
					c.OK(call.Pos(), fn, construct, "the caller's own list is forwarded")
				} else {
					as, _ := accessPath(arg)
					c.Bad(call.Pos(), fn, construct, fmt.Sprintf("%s takes a list of %s options but calls %s with %s instead of its own list: the options are ignored for whatever this call computes", fn, elem.(*types.Named).Obj().Name(), FuncName(cal), trunc(as)))
				}
			})
		}
	}
}

// ---------------------------------------------------------------------------
// C18.coordeq
// ---------------------------------------------------------------------------

func init() {
	register(&Rule{
		ID:    "C18.coordeq",
		Props: []string{"C18", "C16"},
		Doc:   "Coordinates values are never compared with == or != (as a whole, or as part of a struct or array that contains one): the Z and M fields of a Coordinates value whose Type does not use them are unspecified (NewPoint and Coordinates.AsPoint store what the caller passed), so whole-struct equality distinguishes points that have the same WKB; comparisons go field by field under the coordinates type (exactEqualsComparator.eq) or on XY",
		Floor: 0,
		Run:   runC18CoordEq,
	})
}

func containsCoordinates(t types.Type, d int) bool {
	if d > 4 {
		return false
	}
	if namedName(t) == "Coordinates" {
		if nt, ok := t.(*types.Named); ok && nt.Obj().Pkg() != nil && strings.HasSuffix(nt.Obj().Pkg().Path(), "/geom") {
			return true
		}
	}
	switch u := t.Underlying().(type) {
	case *types.Struct:
		for i := 0; i < u.NumFields(); i++ {
			if containsCoordinates(u.Field(i).Type(), d+1) {
				return true
			}
		}
	case *types.Array:
		return containsCoordinates(u.Elem(), d+1)
	}
	return false
}

func runC18CoordEq(c *Ctx) {
	n := 0
	for _, f := range c.P.Funcs {
		if !c.P.InRepo(f) {
			continue
		}
		fn := FuncName(f)
		eachInstr(f, func(in ssa.Instruction) {
			bo, ok := in.(*ssa.BinOp)
			if !ok || (bo.Op != token.EQL && bo.Op != token.NEQ) {
				return
			}
			if !containsCoordinates(bo.X.Type(), 0) {
				return
			}
			n++
			fromGet := func(v ssa.Value) bool {
				call, ok := resolveCell(v).(*ssa.Call)
				return ok && calleeName(call) == "geom.(Sequence).Get"
			}
			if fromGet(bo.X) && fromGet(bo.Y) {
				c.OK(bo.Pos(), fn, fmt.Sprintf("%s on %s", bo.Op, typeShort(bo.X.Type())), "both operands come straight from Sequence.Get, which zeroes the unused fields")
				return
			}
			c.Bad(bo.Pos(), fn, fmt.Sprintf("%s on %s", bo.Op, typeShort(bo.X.Type())), "a Coordinates value is compared as a whole: its Z and M fields are compared even when its Type says they are unused, and NewPoint / Coordinates.AsPoint keep whatever the caller left in them — two points with the same encoding compare unequal")
		})
	}
	c.Triv(token.NoPos, "-", "summary", fmt.Sprintf("%d whole-value comparisons of Coordinates found in the repository", n))
}
