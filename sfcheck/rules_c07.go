package main

import (
	"fmt"
	"go/token"
	"go/types"
	"strings"

	"golang.org/x/tools/go/ssa"
)

func init() {
	register(&Rule{
		ID:    "C07.empty-point",
		Props: []string{"C07", "C20", "C15", "C09", "C12", "C16", "C18"},
		Doc:   "Point.coords may be read outside Point's own methods only where the point is known non-empty (guard on .full / !IsEmpty() of the same value), or the function requires a non-empty argument and every call site establishes it",
		Floor: 3,
		Run:   runC07EmptyPoint,
	})
	register(&Rule{
		ID:    "C07.bbox",
		Props: []string{"C07"},
		Doc:   "bytes produced by another twkbWriter (formTWKB of a sub-writer) are appended to this writer's contents only together with a merge of that writer's bounding-box accumulator (reads of its bboxMin/bboxMax/bboxValid stored into the receiver's)",
		Floor: 1,
		Run:   runC07BBox,
	})
	register(&Rule{
		ID:    "C07.flags",
		Props: []string{"C07"},
		Doc:   "headers tell the truth: (a) optional header bytes emitted under has{Size,BBox,IDs,Ext} outside the metadata-header builder are preceded by that builder on all paths or guarded by !isEmpty; (b) every metadata byte written carries the ext-precision bit under hasExt and is followed by the ext byte; (c) writers of the kinds for which the reader rejects an ID list reach the header builder only under !hasIDs; (d) writeIDList emits IDs only under num == len(idList)",
		Floor: 10,
		Run:   runC07Flags,
	})
	register(&Rule{
		ID:    "C07.ctype",
		Props: []string{"C07", "C16"},
		Doc:   "every geometry a twkbParser routine returns without error has the coordinates type announced by the header: built from p.ctype (NewSequence(_,p.ctype), NewEmptyPoint(p.ctype), Coordinates{Type:p.ctype}, X{}.ForceCoordinatesType(p.ctype)) or by a collection constructor over a list that a dominating guard proves non-empty",
		Floor: 14,
		Run:   runC07Ctype,
	})
}

// pointNonEmptyGuard: a guard at `in` establishes that the Point rooted at
// base is non-empty.
func pointNonEmptyGuard(in ssa.Instruction, base ssa.Value) (string, bool) {
	for _, g := range guardsAt(in) {
		// p.full
		if sn, fn, b, ok := fieldLoad(g.Cond); ok && sn == "Point" && fn == "full" && b == base && g.Truth {
			return "guard " + "full", true
		}
		if c, ok := isCallTo(g.Cond, "geom.(Point).IsEmpty"); ok && !g.Truth {
			b, _ := baseObject(c.Call.Args[0])
			if b == base || sameValue(c.Call.Args[0], base) {
				return "guard !IsEmpty()", true
			}
		}
		// ok flag of XY()/Coordinates() on the same point
		if ex, ok := g.Cond.(*ssa.Extract); ok && g.Truth {
			if c, ok := ex.Tuple.(*ssa.Call); ok {
				n := calleeName(c)
				if (n == "geom.(Point).XY" || n == "geom.(Point).Coordinates") && ex.Index == 1 {
					b, _ := baseObject(c.Call.Args[0])
					if b == base || sameValue(c.Call.Args[0], base) {
						return "guard ok of " + n, true
					}
				}
			}
		}
		// a flag handed back by a later helper that received IsEmpty() of the same point
		// and answers true only where that was false ("a body must follow")
		if g.Truth {
			var hc *ssa.Call
			ri := 0
			switch x := g.Cond.(type) {
			case *ssa.Extract:
				hc, _ = x.Tuple.(*ssa.Call)
				ri = x.Index
			case *ssa.Call:
				hc = x
			}
			if hc != nil {
				if h := staticCallee(hc); h != nil && isNewHelper(h) {
					for _, pj := range trueOnlyWhereParamFalse(h, ri) {
						if pj >= len(hc.Call.Args) {
							continue
						}
						if c, ok := isCallTo(hc.Call.Args[pj], "geom.(Point).IsEmpty"); ok {
							b, _ := baseObject(c.Call.Args[0])
							if b == base || sameValue(c.Call.Args[0], base) {
								return "guard: " + FuncName(h) + " answers true only for !IsEmpty()", true
							}
						}
					}
				}
			}
		}
	}
	return "", false
}

// trueOnlyWhereParamFalse lists the bool parameters p of h such that result #ri of h can be
// true only on paths where p is false: every return hands back the constant false there, or
// is dominated by the test of p having failed.
func trueOnlyWhereParamFalse(h *ssa.Function, ri int) []int {
	var out []int
	for pj, par := range h.Params {
		if !isBoolT(par.Type()) {
			continue
		}
		all, some := true, false
		for _, r := range returnsOf(h) {
			if ri >= len(r.Results) {
				all = false
				break
			}
			if k, ok := r.Results[ri].(*ssa.Const); ok && k.Value != nil && k.Value.String() == "false" {
				continue
			}
			guarded := false
			for _, g := range guardsAt(r) {
				for _, ge := range expandGuard(g) {
					if ge.Cond == ssa.Value(par) && !ge.Truth {
						guarded = true
					}
				}
			}
			if !guarded {
				all = false
				break
			}
			some = true
		}
		if all && some {
			out = append(out, pj)
		}
	}
	return out
}

func runC07EmptyPoint(c *Ctx) {
	// requires[f][i] = position of the unguarded read
	type req struct {
		f   *ssa.Function
		idx int
	}
	requires := map[req]token.Pos{}
	readers := 0
	for _, f := range c.P.Funcs {
		if pkgOf(f) != "geom" {
			continue
		}
		root := f
		for root.Parent() != nil {
			root = root.Parent()
		}
		if root.Signature.Recv() != nil && namedName(root.Signature.Recv().Type()) == "Point" {
			continue // Point's own methods maintain the representation invariant
		}
		fn := FuncName(f)
		done := map[ssa.Value]bool{}
		eachInstr(f, func(in ssa.Instruction) {
			var x ssa.Value
			switch y := in.(type) {
			case *ssa.FieldAddr:
				if sn, fl := fieldOfAddr(y); sn == "Point" && fl == "coords" {
					x = y.X
				}
			case *ssa.Field:
				if sn, fl := fieldOfField(y); sn == "Point" && fl == "coords" {
					x = y.X
				}
			}
			if x == nil || !addrIsRead(in.(ssa.Value)) {
				return
			}
			base, _ := baseObject(x)
			if fact, ok := pointNonEmptyGuard(in, base); ok {
				c.OK(in.Pos(), fn, "read Point.coords", fact)
				readers++
				return
			}
			if done[base] {
				return
			}
			done[base] = true
			readers++
			if par, ok := base.(*ssa.Parameter); ok {
				for i, pp := range f.Params {
					if pp == par {
						requires[req{f, i}] = in.Pos()
						c.OK(in.Pos(), fn, "read Point.coords of parameter "+par.Name(), "unguarded: function requires a non-empty Point argument; obligation moves to every call site")
						return
					}
				}
			}
			c.Bad(in.Pos(), fn, "read Point.coords", "coordinate fields of a Point read without establishing that it is non-empty (an empty Point has zero-valued coords, which would be treated as a real position)")
		})
	}
	// call sites, to a fixpoint
	for changed := true; changed; {
		changed = false
		for r, pos := range requires {
			_ = pos
			for _, call := range c.P.callersOf(r.f) {
				caller := call.Parent()
				cn := FuncName(caller)
				arg := call.Common().Args[r.idx]
				base, _ := baseObject(arg)
				construct := "call " + FuncName(r.f) + " with possibly-empty Point"
				if fact, ok := pointNonEmptyGuard(call, base); ok {
					c.OK(call.Pos(), cn, construct, fact)
					continue
				}
				if fact, ok := pointNonEmptyGuard(call, arg); ok {
					c.OK(call.Pos(), cn, construct, fact)
					continue
				}
				if par, ok := base.(*ssa.Parameter); ok {
					for i, pp := range caller.Params {
						if pp == par {
							k := req{caller, i}
							if _, seen := requires[k]; !seen {
								requires[k] = call.Pos()
								changed = true
							}
						}
					}
					c.OK(call.Pos(), cn, construct, "forwards its own parameter; requirement propagated to callers")
					continue
				}
				c.Bad(call.Pos(), cn, construct, fmt.Sprintf("%s reads the coordinate fields of its argument unconditionally (at %s), and this call site does not establish that the Point is non-empty: an empty member is encoded as position (0 0)", FuncName(r.f), c.P.Pos(requires[r])))
			}
		}
	}
	if readers < 1 {
		c.Errorf("no reader of Point.coords outside Point's methods found")
	}
	// de-duplicate repeated call-site obligations produced by the fixpoint
	seen := map[string]bool{}
	var out []*Obligation
	for _, o := range c.obs {
		k := o.Key + o.Pos + string(o.Status)
		if !seen[k] {
			seen[k] = true
			out = append(out, o)
		}
	}
	c.obs = out
}

func runC07BBox(c *Ctx) {
	n := 0
	for _, f := range c.P.methodsOf("geom", "twkbWriter") {
		fn := FuncName(f)
		if len(f.Params) == 0 {
			continue
		}
		recv := f.Params[0]
		eachInstr(f, func(in ssa.Instruction) {
			st, ok := in.(*ssa.Store)
			if !ok {
				return
			}
			fa, ok := st.Addr.(*ssa.FieldAddr)
			if !ok {
				return
			}
			if sn, fl := fieldOfAddr(fa); sn != "twkbWriter" || fl != "twkbContents" {
				return
			}
			// value: append(w.twkbContents, X...)
			call, ok := st.Val.(*ssa.Call)
			if !ok {
				return
			}
			if b, ok := call.Call.Value.(*ssa.Builtin); !ok || b.Name() != "append" {
				return
			}
			src := stripLoad(call.Call.Args[1])
			fc, ok := isCallTo(src, "geom.(*twkbWriter).formTWKB")
			if !ok {
				// bytes from this writer's own varint buffers
				return
			}
			other := fc.Call.Args[0]
			if other == recv {
				return
			}
			n++
			construct := "append sub-writer output to twkbContents"
			// look for a merge: a call passing (recv, other) to a function that reads param1's
			// bbox fields and stores into param0's, or inline reads of other.bbox*.
			merged := false
			fact := ""
			eachInstr(f, func(in2 ssa.Instruction) {
				if merged {
					return
				}
				if !(instrDominates(in2, in) || (instrDominates(in, in2) && onEveryPathAfter(in, in2))) {
					return
				}
				if c2, ok := in2.(ssa.CallInstruction); ok {
					cal := staticCallee(c2)
					args := c2.Common().Args
					if cal != nil && len(args) >= 2 && args[0] == recv && sameOrLoad(args[1], other) {
						if mergesBBox(cal) {
							merged = true
							fact = "paired with call " + FuncName(cal) + " which folds the sub-writer's bboxMin/bboxMax into the receiver's"
						}
					}
				}
			})
			if merged {
				c.OK(in.Pos(), fn, construct, fact)
			} else {
				c.Bad(in.Pos(), fn, construct, "coordinates written by a sub-writer enter this writer's output without its bounding-box accumulator being merged: the bbox header does not cover them")
			}
		})
	}
	if n < 1 {
		c.Errorf("no sub-writer append site found")
	}
}

func sameOrLoad(a, b ssa.Value) bool {
	return a == b || sameValue(a, b) || stripLoad(a) == stripLoad(b)
}

// mergesBBox: f(recv, other) reads other.bboxMin and other.bboxMax and stores
// into recv.bboxMin and recv.bboxMax.
func mergesBBox(f *ssa.Function) bool {
	if len(f.Params) < 2 {
		return false
	}
	reads := map[string]bool{}
	writes := map[string]bool{}
	eachInstr(f, func(in ssa.Instruction) {
		switch x := in.(type) {
		case *ssa.UnOp:
			if x.Op == token.MUL {
				base, path := baseObject(x.X)
				if base == f.Params[1] && len(path) > 0 {
					reads[path[0]] = true
				}
				if ia, ok := x.X.(*ssa.IndexAddr); ok {
					base, path := baseObject(ia.X)
					if base == f.Params[1] && len(path) > 0 {
						reads[path[0]] = true
					}
				}
			}
		case *ssa.Store:
			addr := x.Addr
			if ia, ok := addr.(*ssa.IndexAddr); ok {
				addr = ia.X
			}
			base, path := baseObject(addr)
			if base == f.Params[0] && len(path) > 0 {
				writes[path[0]] = true
			}
		}
	})
	return reads["bboxMin"] && reads["bboxMax"] && writes["bboxMin"] && writes["bboxMax"]
}

func runC07Flags(c *Ctx) {
	P := c.P
	builder := P.Func("geom.(*twkbWriter).writeInitialHeaders")
	metaW := P.Func("geom.(*twkbWriter).writeMetadataHeader")
	extW := P.Func("geom.(*twkbWriter).writeExtendedPrecision")
	idW := P.Func("geom.(*twkbWriter).writeIDList")
	for n, f := range map[string]*ssa.Function{"writeInitialHeaders": builder, "writeMetadataHeader": metaW, "writeExtendedPrecision": extW, "writeIDList": idW} {
		if f == nil {
			c.Errorf("anchor geom.(*twkbWriter).%s does not resolve", n)
			return
		}
	}
	methods := P.methodsOf("geom", "twkbWriter")
	// bit constants
	bitOf := func(name string) int64 {
		o := P.Pkgs["geom"].Types.Scope().Lookup(name)
		if k, ok := o.(*types.Const); ok {
			v, _ := constIntVal(k)
			return v
		}
		c.Errorf("constant %s not found", name)
		return -1
	}
	extBit := bitOf("twkbHasExtPrec")
	flagBit := map[string]int64{"hasExt": extBit, "hasSize": bitOf("twkbHasSize"), "hasBBox": bitOf("twkbHasBBox"), "hasIDs": bitOf("twkbHasIDs")}

	// (b0) the builder ORs each bit exactly under its flag: interpreted on all 16 flag combinations,
	// the byte handed to writeMetadataHeader is the OR of the bits of the flags that are set
	builderExtOK := false
	{
		flags := []string{"hasExt", "hasSize", "hasBBox", "hasIDs"}
		problemFor := map[string]string{}
		undec := ""
		for mask := 0; mask < 16 && undec == ""; mask++ {
			m := &Model{Num: map[string]float64{}, Bool: map[string]bool{}, Missing: map[string]bool{}}
			var want int64
			for i, fl := range flags {
				on := mask&(1<<uint(i)) != 0
				m.Bool["$0."+fl] = on
				if on {
					want |= flagBit[fl]
				}
			}
			it := &k4interp{p: c.P, m: m, mem: map[string]k4val{}}
			got, seen := int64(-1), false
			it.onOpaque = func(name string, args []k4val) {
				if strings.HasSuffix(name, ").writeMetadataHeader") && len(args) == 2 && args[1].kind == 2 {
					got, seen = int64(args[1].f), true
				}
			}
			if _, err := it.call(builder, []k4val{{kind: 3, s: "$0"}}, nil); err != nil || !seen {
				undec = fmt.Sprintf("%v (metadata header seen: %v) %s", err, seen, missingList(m))
				break
			}
			for _, fl := range flags {
				if (got&flagBit[fl] != 0) != (want&flagBit[fl] != 0) && problemFor[fl] == "" {
					problemFor[fl] = fmt.Sprintf("with %s the header builder writes 0x%02x: the metadata bit %d does not follow w.%s", modelString(m), got, flagBit[fl], fl)
				}
			}
		}
		for _, fl := range flags {
			construct := "metadata bit for " + fl
			switch {
			case undec != "":
				c.Undecided(builder.Pos(), FuncName(builder), construct, "cannot interpret the header builder: "+undec)
			case problemFor[fl] != "":
				c.Bad(builder.Pos(), FuncName(builder), construct, problemFor[fl])
			default:
				if fl == "hasExt" {
					builderExtOK = true
				}
				c.OK(builder.Pos(), FuncName(builder), construct, "bit set exactly when w."+fl+" is (all 16 flag combinations interpreted)")
			}
		}
	}

	// (b) every call of writeMetadataHeader: argument carries ext bit under hasExt, and the ext byte follows under hasExt
	for _, f := range methods {
		for _, call := range callsTo(f, FuncName(metaW)) {
			fn := FuncName(f)
			arg := call.Common().Args[1]
			hasExtBit := operandTreeAny(arg, func(v ssa.Value) bool {
				bo, ok := v.(*ssa.BinOp)
				if !ok || bo.Op != token.OR {
					return false
				}
				for _, o := range []ssa.Value{bo.X, bo.Y} {
					if k, ok := constInt(o); ok && k == extBit {
						if truth, ok := boolFieldGuard(bo, "twkbWriter", "hasExt"); ok && truth {
							return true
						}
					}
				}
				return false
			})
			if f == builder && builderExtOK {
				hasExtBit = true // decided by interpretation above
			}
			followed := false
			for _, c2 := range callsTo(f, FuncName(extW)) {
				if truth, ok := boolFieldGuard(c2, "twkbWriter", "hasExt"); ok && truth && !instrDominates(c2, call) {
					followed = true
				}
			}
			switch {
			case !hasExtBit:
				c.Bad(call.Pos(), fn, "write metadata header byte", "the metadata byte written here never carries the extended-precision bit, so the Z/M announcement (and with it the coordinates type) is lost for geometries written through this path")
			case !followed:
				c.Bad(call.Pos(), fn, "write metadata header byte", "extended-precision bit may be set but no extended precision byte is written afterwards under w.hasExt")
			default:
				c.OK(call.Pos(), fn, "write metadata header byte", "ext bit set under w.hasExt and ext byte written afterwards under w.hasExt")
			}
		}
	}

	// (a) optional header emissions outside the builder
	// emission = a call made under guard hasSize/hasBBox/hasIDs (true) in a writer method other than the
	// builder, or a function whose body starts by returning unless the flag is set (writeIDList).
	emits := 0
	for _, f := range methods {
		if f == builder || f.Name() == "newtwkbWriter" {
			continue
		}
		fn := FuncName(f)
		eachCall(f, func(call ssa.CallInstruction) {
			cal := staticCallee(call)
			if cal == nil || !appendsToWriter(cal) {
				return
			}
			for _, flag := range []string{"hasSize", "hasBBox", "hasIDs"} {
				truth, ok := boolFieldGuard(call, "twkbWriter", flag)
				if !ok || !truth {
					continue
				}
				emits++
				construct := "emit optional header under w." + flag + " via " + cal.Name()
				// discharged by !isEmpty guard here ...
				if t2, ok2 := boolFieldGuard(call, "twkbWriter", "isEmpty"); ok2 && !t2 {
					c.OK(call.Pos(), fn, construct, "dominated by guard !w.isEmpty")
					continue
				}
				// ... or at every call site of f the builder was called before on all paths
				callers := P.callersOf(f)
				all := len(callers) > 0
				// a parameter that bounds the emitting loop (i < num): call sites passing the
				// constant 0 for it emit nothing.
				boundIdx := -1
				for _, g := range guardsAt(call) {
					if bo, ok := g.Cond.(*ssa.BinOp); ok && bo.Op == token.LSS && g.Truth {
						if par, ok := bo.Y.(*ssa.Parameter); ok {
							for i, pp := range f.Params {
								if pp == par {
									boundIdx = i
								}
							}
						}
					}
				}
				if boundIdx < 0 {
					// the loop runs over len(list) and a dominating guard says that a
					// parameter equals len(list): that parameter bounds the loop as well
					gs := guardsAt(call)
					for _, g := range gs {
						bo, ok := g.Cond.(*ssa.BinOp)
						if !ok || bo.Op != token.LSS || !g.Truth {
							continue
						}
						lst, ok := lenOf(bo.Y)
						if !ok {
							continue
						}
						for _, g2 := range gs {
							b2, ok := g2.Cond.(*ssa.BinOp)
							if !ok || !((b2.Op == token.EQL && g2.Truth) || (b2.Op == token.NEQ && !g2.Truth)) {
								continue
							}
							for _, pr := range [][2]ssa.Value{{b2.X, b2.Y}, {b2.Y, b2.X}} {
								par, isPar := pr[0].(*ssa.Parameter)
								l2, isLen := lenOf(pr[1])
								if isPar && isLen && (l2 == lst || sameValue(l2, lst)) {
									boundIdx = paramIndex(f, par)
								}
							}
						}
					}
				}
				for _, cs := range callers {
					if boundIdx >= 0 {
						if k, ok := constInt(cs.Common().Args[boundIdx]); ok && k == 0 {
							continue
						}
					}
					pre := false
					for _, d := range dominatingCalls(cs) {
						if staticCallee(d) == builder {
							pre = true
						}
					}
					if !pre {
						all = false
					}
				}
				if all {
					c.OK(call.Pos(), fn, construct, "every call site of the enclosing function is preceded by the header builder (which sets the bit under the same flag)")
				} else {
					c.Bad(call.Pos(), fn, construct, "header bytes are emitted under w."+flag+" on a path where the metadata header may have been the 'is empty' one (bit not set): the reader will misparse them")
				}
			}
		})
	}
	if emits < 2 {
		c.Errorf("found %d optional-header emission sites, expected >= 2", emits)
	}

	// (c) kinds for which the reader rejects an ID list
	rej := readerRejectsIDs(c)
	if len(rej) == 0 {
		c.Errorf("could not extract the kinds for which parseMetadataHeader rejects an ID list")
	}
	tw := P.Func("geom.(*twkbWriter).writeTypeAndPrecision")
	if tw == nil {
		c.Errorf("anchor writeTypeAndPrecision does not resolve")
		return
	}
	for _, f := range methods {
		for _, call := range callsTo(f, FuncName(tw)) {
			k, ok := constInt(call.Common().Args[1])
			if !ok || !rej[k] {
				continue
			}
			fn := FuncName(f)
			for _, bc := range callsTo(f, FuncName(builder)) {
				truth, ok := boolFieldGuard(bc, "twkbWriter", "hasIDs")
				c.Check(ok && !truth, bc.Pos(), fn, fmt.Sprintf("header builder for kind %d", k), "reached only under !w.hasIDs (the reader rejects an ID list for this kind)", fmt.Sprintf("the reader rejects the ID-list bit for kind %d, but this writer can set it (no dominating !w.hasIDs guard): output would be undecodable", k))
			}
		}
	}

	// (d) writeIDList: IDs are emitted only under num == len(w.idList)
	okEq := false
	var pos token.Pos
	eachInstr(idW, func(in ssa.Instruction) {
		ia, ok := in.(*ssa.IndexAddr)
		if !ok {
			return
		}
		if sn, fl, _, ok := fieldLoad(ia.X); !ok || sn != "twkbWriter" || fl != "idList" {
			return
		}
		pos = in.Pos()
		for _, g := range guardsAt(in) {
			bo, ok := g.Cond.(*ssa.BinOp)
			if !ok {
				continue
			}
			if !((bo.Op == token.EQL && g.Truth) || (bo.Op == token.NEQ && !g.Truth)) {
				continue
			}
			for _, pr := range [][2]ssa.Value{{bo.X, bo.Y}, {bo.Y, bo.X}} {
				if _, isPar := pr[0].(*ssa.Parameter); !isPar {
					continue
				}
				if lx, ok := lenOf(pr[1]); ok {
					if sn, fl, _, ok := fieldLoad(lx); ok && sn == "twkbWriter" && fl == "idList" {
						okEq = true
					}
				}
			}
		}
	})
	c.Check(okEq && pos.IsValid(), pos, FuncName(idW), "emit ID list", "IDs are read only under num == len(w.idList); any other length returns the error", "the ID list is emitted without an equality check between the member count and len(idList): a longer or shorter list is silently truncated/garbled instead of rejected")
	// every non-empty collection writer calls writeIDList(count) with the count it wrote
	for _, f := range methods {
		calls := callsTo(f, FuncName(idW))
		for _, call := range calls {
			fn := FuncName(f)
			arg := call.Common().Args[1]
			if k, ok := constInt(arg); ok && k == 0 {
				c.OK(call.Pos(), fn, "writeIDList(0) on the empty path", "an ID list for an empty collection is rejected by the length check")
				continue
			}
			// the same value must have been written as the count: writeUnsignedVarint(uint64(arg)) dominating
			okc := false
			for _, d := range dominatingCalls(call) {
				if cal := staticCallee(d); cal != nil && cal.Name() == "writeUnsignedVarint" {
					a := d.Common().Args[1]
					if cv, ok := a.(*ssa.Convert); ok && (cv.X == arg || sameValue(cv.X, arg)) {
						okc = true
					}
				}
			}
			c.Check(okc, call.Pos(), fn, "writeIDList(count)", "called with the member count that was just written", "writeIDList is not called with the member count written before it")
		}
	}
}

func constIntVal(k *types.Const) (int64, bool) {
	return constIntFromConstant(k)
}

// appendsToWriter: function (transitively, within twkbWriter methods) appends
// bytes to one of the writer's output buffers.
func appendsToWriter(f *ssa.Function) bool {
	seen := map[*ssa.Function]bool{}
	var rec func(f *ssa.Function) bool
	rec = func(f *ssa.Function) bool {
		if f == nil || seen[f] || f.Blocks == nil {
			return false
		}
		seen[f] = true
		res := false
		eachInstr(f, func(in ssa.Instruction) {
			if res {
				return
			}
			if st, ok := in.(*ssa.Store); ok {
				if fa, ok := st.Addr.(*ssa.FieldAddr); ok {
					sn, fl := fieldOfAddr(fa)
					if sn == "twkbWriter" && (fl == "twkbHeaders" || fl == "twkbBBox" || fl == "twkbContents") {
						res = true
					}
				}
			}
			if c, ok := in.(ssa.CallInstruction); ok {
				if cal := staticCallee(c); cal != nil && cal.Signature.Recv() != nil && namedName(cal.Signature.Recv().Type()) == "twkbWriter" {
					if rec(cal) {
						res = true
					}
				}
			}
		})
		return res
	}
	return rec(f)
}

// readerRejectsIDs extracts from parseMetadataHeader the set of kinds for
// which an error is returned when hasIDs is set.
func readerRejectsIDs(c *Ctx) map[int64]bool {
	f := c.P.Func("geom.(*twkbParser).parseMetadataHeader")
	out := map[int64]bool{}
	if f == nil {
		return out
	}
	for _, r := range returnsOf(f) {
		if len(r.Results) != 1 || isNilConst(r.Results[0]) {
			continue
		}
		gs := guardsAtBlock(r.Block())
		ids := false
		for _, g := range gs {
			if sn, fl, _, ok := fieldLoad(g.Cond); ok && sn == "twkbParser" && fl == "hasIDs" && g.Truth {
				ids = true
			}
		}
		if !ids {
			continue
		}
		// kinds: the return block is reached from case bodies of a switch on p.kind. Collect all
		// `kind == K` conditions in the function whose true edge leads (possibly through fallthrough
		// blocks) to a block that dominates or equals the hasIDs test block.
		eachInstr(f, func(in ssa.Instruction) {
			ifi, ok := in.(*ssa.If)
			if !ok {
				return
			}
			bo, ok := ifi.Cond.(*ssa.BinOp)
			if !ok || bo.Op != token.EQL {
				return
			}
			sn, fl, _, ok := fieldLoad(bo.X)
			if !ok || sn != "twkbParser" || fl != "kind" {
				return
			}
			k, ok := constInt(bo.Y)
			if !ok {
				return
			}
			t := ifi.Block().Succs[0]
			if t == r.Block() || t.Dominates(r.Block()) || reaches(t, r.Block(), ifi.Block().Succs[1]) {
				out[k] = true
			}
		})
	}
	return out
}

// reaches: to is reachable from from without passing through avoid.
func reaches(from, to, avoid *ssa.BasicBlock) bool {
	seen := map[*ssa.BasicBlock]bool{avoid: true}
	work := []*ssa.BasicBlock{from}
	for len(work) > 0 {
		b := work[len(work)-1]
		work = work[:len(work)-1]
		if b == to {
			return true
		}
		if seen[b] {
			continue
		}
		seen[b] = true
		work = append(work, b.Succs...)
	}
	return false
}

func runC07Ctype(c *Ctx) {
	var set []*ssa.Function
	for _, f := range c.P.methodsOf("geom", "twkbParser") {
		if f.Parent() == nil {
			set = append(set, f)
		}
	}
	n := checkCtypeFlow(c, set, func(v ssa.Value) bool {
		sn, fl, _, ok := fieldLoad(v)
		return ok && sn == "twkbParser" && fl == "ctype"
	}, "the header's coordinates type (p.ctype)")
	if n < 14 {
		c.Errorf("only %d non-error returns of twkbParser routines found", n)
	}
}

var collectionCtors = map[string]bool{"geom.NewPolygon": true, "geom.NewMultiPoint": true, "geom.NewMultiLineString": true, "geom.NewMultiPolygon": true, "geom.NewGeometryCollection": true}

var geomTypeNames = map[string]bool{"Point": true, "LineString": true, "Polygon": true, "MultiPoint": true, "MultiLineString": true, "MultiPolygon": true, "GeometryCollection": true, "Geometry": true}

// dependsOn: v's defining expression tree (call arguments, struct field
// stores of local composite values, conversions) contains a source value.
func dependsOn(v ssa.Value, isSource func(ssa.Value) bool) bool {
	seen := map[ssa.Value]bool{}
	var rec func(v ssa.Value, d int) bool
	rec = func(v ssa.Value, d int) bool {
		if v == nil {
			return false
		}
		if isSource(v) {
			return true
		}
		if d > 12 || seen[v] {
			return false
		}
		seen[v] = true
		switch x := v.(type) {
		case *ssa.Call:
			for _, a := range x.Call.Args {
				if rec(a, d+1) {
					return true
				}
			}
		case *ssa.UnOp:
			if x.Op == token.MUL {
				if a, ok := x.X.(*ssa.Alloc); ok {
					for _, r := range *a.Referrers() {
						switch y := r.(type) {
						case *ssa.Store:
							if y.Addr == a && rec(y.Val, d+1) {
								return true
							}
						case *ssa.FieldAddr:
							for _, rr := range *y.Referrers() {
								if st, ok := rr.(*ssa.Store); ok && st.Addr == y && rec(st.Val, d+1) {
									return true
								}
							}
						}
					}
				}
			}
			return rec(x.X, d+1)
		case *ssa.Extract:
			return rec(x.Tuple, d+1)
		case *ssa.ChangeType:
			return rec(x.X, d+1)
		case *ssa.Convert:
			return rec(x.X, d+1)
		case *ssa.MakeInterface:
			return rec(x.X, d+1)
		case *ssa.Phi:
			for _, e := range x.Edges {
				if !rec(e, d+1) {
					return false
				}
			}
			return len(x.Edges) > 0
		}
		return false
	}
	return rec(v, 0)
}

// checkCtypeFlow: every geometry a routine of `set` returns on a non-error
// path carries the coordinates type given by the source.
// ctypeFlowStrictMembers: also require that every member stored into a locally
// built list is typed by the source (set by rules whose routines have no other
// way of typing their members, e.g. the coordinate-list constructors; the
// decoders and the transforms type their members through the callee).
var ctypeFlowStrictMembers bool

func checkCtypeFlow(c *Ctx, set []*ssa.Function, isSource func(ssa.Value) bool, srcDesc string) int {
	inSet := map[*ssa.Function]bool{}
	for _, f := range set {
		inSet[f] = true
	}
	// in a helper that joined the set, the typed values are what it is handed: its
	// geometry-, sequence- and coordinates-type-valued parameters (its call sites are
	// checked as uses of "another routine of the same decoder")
	joined := map[*ssa.Function]bool{}
	origSource := isSource
	isSource = func(v ssa.Value) bool {
		if origSource(v) {
			return true
		}
		if p, ok := v.(*ssa.Parameter); ok && joined[p.Parent()] {
			tn := namedName(p.Type())
			return geomTypeNames[tn] || tn == "Sequence" || tn == "CoordinatesType" || tn == "Coordinates"
		}
		return false
	}
	// helpers introduced after the baseline that the routines call and that return a
	// geometry are routines of the same decoder (checked like the others)
	for i := 0; i < len(set); i++ {
		eachCall(set[i], func(ci ssa.CallInstruction) {
			cal := staticCallee(ci)
			if cal == nil || inSet[cal] || !isNewHelper(cal) || len(cal.Blocks) == 0 || cal.Parent() != nil {
				return
			}
			if res := cal.Signature.Results(); res.Len() >= 1 && geomTypeNames[namedName(res.At(0).Type())] {
				inSet[cal] = true
				joined[cal] = true
				set = append(set, cal)
			}
		})
	}
	n := 0
	for _, f := range set {
		res := f.Signature.Results()
		if res.Len() < 1 {
			continue
		}
		rt := namedName(res.At(0).Type())
		if !geomTypeNames[rt] {
			continue
		}
		hasErr := res.Len() >= 2 && isErrorType(res.At(res.Len()-1).Type())
		fn := FuncName(f)
		for _, r := range returnsOf(f) {
			if hasErr && provablyNonNilErr(r) {
				continue
			}
			if hasErr && !isNilConst(r.Results[len(r.Results)-1]) {
				// `return x.AsGeometry(), err`: the value half is checked like a success value
			}
			n++
			construct := "non-error return of " + rt
			// where guards are read: the return, or (for a member of a locally built list) the store of the member
			var at ssa.Instruction = r
			var check func(v ssa.Value, depth int) (string, bool, string)
			check = func(v ssa.Value, depth int) (via string, ok bool, why string) {
				if depth > 6 {
					return "", false, "value too deeply nested to analyse"
				}
				v = stripLoad(v)
				switch x := v.(type) {
				case *ssa.Extract:
					if call, isCall := x.Tuple.(*ssa.Call); isCall {
						if cal := staticCallee(call); cal != nil && inSet[cal] {
							return "via " + cal.Name(), true, "forwards the result of another routine of the same decoder (checked there)"
						}
					}
				case *ssa.Phi:
					for _, e := range x.Edges {
						if via, ok, why := check(e, depth+1); !ok {
							return via, false, why
						}
					}
					return "via phi", true, "every incoming value is typed"
				case *ssa.Const:
					return "", false, "returns a zero-value literal, which is XY regardless of " + srcDesc + ": an empty geometry silently loses Z/M (and strips them from its siblings in a collection)"
				case *ssa.Call:
					name := calleeName(x)
					if cal := staticCallee(x); cal != nil && inSet[cal] {
						return "via " + cal.Name(), true, "forwards the result of another routine of the same decoder (checked there)"
					}
					if cal := staticCallee(x); cal != nil && cal.Name() == "AsGeometry" && len(x.Call.Args) == 1 {
						via, ok, why := check(x.Call.Args[0], depth+1)
						return via, ok, why
					}
					// members: every element stored into a locally built list that a
					// collection constructor folds must itself be typed, otherwise the
					// constructor's AND-fold has dropped Z/M before anything can force it back
					membersTyped := func(list ssa.Value) (bool, string) {
						ms, isMake := stripLoad(list).(*ssa.MakeSlice)
						if !isMake || !ctypeFlowStrictMembers {
							return true, ""
						}
						for _, ref := range *ms.Referrers() {
							ia, ok := ref.(*ssa.IndexAddr)
							if !ok {
								continue
							}
							for _, rr := range *ia.Referrers() {
								st, ok := rr.(*ssa.Store)
								if !ok || st.Addr != ssa.Value(ia) {
									continue
								}
								saved := at
								at = st
								_, ok, why := check(st.Val, depth+1)
								at = saved
								if !ok {
									return false, "a member stored into the list at " + c.P.Pos(st.Pos()) + " is not typed: " + why
								}
							}
						}
						return true, ""
					}
					if strings.HasSuffix(name, ").ForceCoordinatesType") && len(x.Call.Args) == 2 {
						if inner, ok := stripLoad(x.Call.Args[0]).(*ssa.Call); ok && collectionCtors[calleeName(inner)] {
							if ok, why := membersTyped(inner.Call.Args[0]); !ok {
								return "via " + calleeName(inner), false, why + " — forcing the collection afterwards only restores the tag, the ordinates are already zero"
							}
						}
					}
					if collectionCtors[name] {
						list := x.Call.Args[0]
						if ok, why := membersTyped(list); !ok {
							return "via " + name, false, why
						}
						if nonEmptyGuard(at, list) || madeNonEmpty(at, list) || appendedNonEmpty(list, map[ssa.Value]bool{}) || loopAppendedNonEmpty(at, list) || helperListNonEmpty(at, list) {
							return "via " + name, true, "list argument is provably non-empty (dominating guard), so the constructor derives the type from typed members"
						}
						return "via " + name, false, "collection constructor over a possibly empty list yields an XY geometry regardless of " + srcDesc + "; one such empty member strips Z/M from its siblings"
					}
					if dependsOn(v, isSource) {
						return "via " + name, true, "value is built from " + srcDesc
					}
					return "via " + name, false, "returned geometry does not depend on " + srcDesc
				}
				if dependsOn(v, isSource) {
					return "", true, "value is built from " + srcDesc
				}
				return "", false, "returned geometry does not depend on " + srcDesc
			}
			via, ok, why := check(r.Results[0], 0)
			if via != "" {
				construct += " " + via
			}
			if ok {
				c.OK(r.Pos(), fn, construct, why)
			} else {
				c.Bad(r.Pos(), fn, construct, why)
			}
		}
	}
	return n
}

// madeNonEmpty: list is make([]T, L) and a guard at `at` establishes L != 0
// (L possibly converted, or a len() expression compared elsewhere).
func madeNonEmpty(at ssa.Instruction, list ssa.Value) bool {
	switch x := stripLoad(list).(type) {
	case *ssa.MakeSlice:
		return nonZeroAt(at, x.Len, 0)
	case *ssa.Slice:
		// a slice literal []T{a, b, …}: the whole of a fresh array of constant, non-zero length
		if al, ok := x.X.(*ssa.Alloc); ok && x.Low == nil && x.High == nil {
			if at, ok := deref(al.Type()).Underlying().(*types.Array); ok && at.Len() >= 1 {
				return true
			}
		}
		return false
	case *ssa.Call:
		return helperMadeNonEmpty(at, x, 0, false)
	case *ssa.Extract:
		// the list half of a (list, error) helper result
		if cl, ok := x.Tuple.(*ssa.Call); ok {
			return helperMadeNonEmpty(at, cl, x.Index, true)
		}
	}
	return false
}

// helperMadeNonEmpty: a repository helper whose result #ri is, on every path that does not
// report an error, a slice made with the length of one of its slice parameters or with one
// of its integer parameters as length: the result is as long as that argument says, so it
// is non-empty when the call site establishes that for the argument.
func helperMadeNonEmpty(at ssa.Instruction, x *ssa.Call, ri int, tuple bool) bool {
	cal := staticCallee(x)
	if cal == nil || cal.Blocks == nil {
		return false
	}
	idx, byLen := -1, false
	for _, r := range returnsOf(cal) {
		if (!tuple && len(r.Results) != 1) || ri >= len(r.Results) {
			return false
		}
		if tuple {
			// error paths hand back no list that anyone may use
			last := r.Results[len(r.Results)-1]
			if isErrorType(last.Type()) && provablyNonNilErr(r) {
				continue
			}
		}
		ms, ok := stripLoad(r.Results[ri]).(*ssa.MakeSlice)
		if !ok {
			return false
		}
		l := ms.Len
		if cv, ok := l.(*ssa.Convert); ok {
			l = cv.X
		}
		var par *ssa.Parameter
		isLen := false
		if arg, ok := lenOf(l); ok {
			par, _ = arg.(*ssa.Parameter)
			isLen = true
		} else {
			par, _ = l.(*ssa.Parameter)
		}
		if par == nil {
			return false
		}
		k := paramIndex(cal, par)
		if k < 0 || (idx >= 0 && (idx != k || byLen != isLen)) {
			return false
		}
		idx, byLen = k, isLen
	}
	if idx < 0 || idx >= len(x.Call.Args) {
		return false
	}
	if byLen {
		return nonEmptyGuard(at, x.Call.Args[idx])
	}
	return nonZeroAt(at, x.Call.Args[idx], 0)
}

// nonZeroAt: the integer value l is known to be non-zero at `at`: a dominating
// comparison with 0 says so, or l = a / d where a is non-zero and a dominating
// guard says a % d == 0 (then |a| >= |d|).
func nonZeroAt(at ssa.Instruction, l ssa.Value, depth int) bool {
	if depth > 3 {
		return false
	}
	if cv, ok := l.(*ssa.Convert); ok {
		l = cv.X
	}
	gs := guardsAt(at)
	for _, g := range gs {
		bo, ok := g.Cond.(*ssa.BinOp)
		if !ok {
			continue
		}
		for _, pr := range [][2]ssa.Value{{bo.X, bo.Y}, {bo.Y, bo.X}} {
			a := pr[0]
			if cv, ok := a.(*ssa.Convert); ok {
				a = cv.X
			}
			if !(a == l || sameValue(a, l)) {
				continue
			}
			k, ok := constInt(pr[1])
			if !ok || (k != 0 && k != 1) {
				continue
			}
			// normalise to `l op k` holding
			op := bo.Op
			if pr[0] != bo.X {
				op = map[token.Token]token.Token{token.LSS: token.GTR, token.GTR: token.LSS, token.LEQ: token.GEQ, token.GEQ: token.LEQ, token.EQL: token.EQL, token.NEQ: token.NEQ}[op]
			}
			if !g.Truth {
				op = map[token.Token]token.Token{token.LSS: token.GEQ, token.GTR: token.LEQ, token.LEQ: token.GTR, token.GEQ: token.LSS, token.EQL: token.NEQ, token.NEQ: token.EQL}[op]
			}
			switch {
			case k == 0 && (op == token.NEQ || op == token.GTR):
				return true
			case k == 1 && op == token.GEQ:
				return true
			}
		}
	}
	if q, ok := l.(*ssa.BinOp); ok && q.Op == token.QUO {
		if !nonZeroAt(at, q.X, depth+1) {
			return false
		}
		for _, g := range gs {
			bo, ok := g.Cond.(*ssa.BinOp)
			if !ok {
				continue
			}
			rem, ok := bo.X.(*ssa.BinOp)
			if !ok || rem.Op != token.REM || !sameValue(rem.X, q.X) || !sameValue(rem.Y, q.Y) {
				continue
			}
			if k, isC := constInt(bo.Y); isC && k == 0 {
				if (bo.Op == token.EQL && g.Truth) || (bo.Op == token.NEQ && !g.Truth) {
					return true
				}
			}
		}
	}
	return false
}

// nonEmptyGuard: a guard at the return establishes len(list) != 0.
func nonEmptyGuard(at ssa.Instruction, list ssa.Value) bool {
	for _, g := range guardsAt(at) {
		bo, ok := g.Cond.(*ssa.BinOp)
		if !ok {
			continue
		}
		for _, pr := range [][2]ssa.Value{{bo.X, bo.Y}, {bo.Y, bo.X}} {
			lx, ok := lenOf(pr[0])
			if !ok || !(lx == list || sameValue(lx, list)) {
				continue
			}
			k, ok := constInt(pr[1])
			if !ok || (k != 0 && k != 1) {
				continue
			}
			// normalise to `l op k` holding
			op := bo.Op
			if pr[0] != bo.X {
				op = map[token.Token]token.Token{token.LSS: token.GTR, token.GTR: token.LSS, token.LEQ: token.GEQ, token.GEQ: token.LEQ, token.EQL: token.EQL, token.NEQ: token.NEQ}[op]
			}
			if !g.Truth {
				op = map[token.Token]token.Token{token.LSS: token.GEQ, token.GTR: token.LEQ, token.LEQ: token.GTR, token.GEQ: token.LSS, token.EQL: token.NEQ, token.NEQ: token.EQL}[op]
			}
			switch {
			case k == 0 && (op == token.NEQ || op == token.GTR):
				return true
			case k == 1 && op == token.GEQ:
				return true
			}
		}
	}
	return false
}

// addrIsRead: the field address/value is (transitively through sub-field and
// index selections) loaded, as opposed to only stored to.
func addrIsRead(v ssa.Value) bool {
	if _, ok := v.(*ssa.Field); ok {
		return true
	}
	refs := v.Referrers()
	if refs == nil {
		return false
	}
	for _, r := range *refs {
		switch x := r.(type) {
		case *ssa.UnOp:
			if x.Op == token.MUL {
				return true
			}
		case *ssa.FieldAddr:
			if addrIsRead(x) {
				return true
			}
		case *ssa.IndexAddr:
			if addrIsRead(x) {
				return true
			}
		case *ssa.Store:
			if x.Val == v {
				return true // address escapes
			}
		case ssa.CallInstruction:
			return true
		}
	}
	return false
}

// appendedNonEmpty: the list is the result of append(x, e...) with at least
// one element on every incoming path (loop phis are handled inductively).
// helperListNonEmpty: the list is a result of a helper introduced after the
// baseline; every return of the helper gives either a provably non-empty list
// or nil together with a signal (a constant true flag or a non-nil error), and
// the use at `at` is under a guard on another result of the same call.
func helperListNonEmpty(at ssa.Instruction, list ssa.Value) bool {
	ex, ok := stripLoad(list).(*ssa.Extract)
	if !ok {
		return false
	}
	call, ok := ex.Tuple.(*ssa.Call)
	if !ok {
		return false
	}
	h := staticCallee(call)
	if h == nil || !isNewHelper(h) || len(h.Blocks) == 0 {
		return false
	}
	needGuard := false
	for _, hr := range returnsOf(h) {
		v := hr.Results[ex.Index]
		if isNilConst(v) {
			signalled := provablyNonNilErr(hr)
			for i, o := range hr.Results {
				if b, isC := constBool(o); i != ex.Index && isC && b {
					signalled = true
				}
			}
			if !signalled {
				return false
			}
			needGuard = true
			continue
		}
		if !(appendedNonEmpty(v, map[ssa.Value]bool{}) || loopAppendedNonEmpty(hr, v) || madeNonEmpty(hr, v)) {
			return false
		}
	}
	if !needGuard {
		return true
	}
	for _, g := range guardsAt(at) {
		for _, e := range expandGuard(g) {
			if ge, ok := resolveCell(e.Cond).(*ssa.Extract); ok && ge.Tuple == ex.Tuple && ge.Index != ex.Index {
				return true
			}
			if bo, ok := e.Cond.(*ssa.BinOp); ok {
				for _, opnd := range []ssa.Value{bo.X, bo.Y} {
					if ge, ok := resolveCell(opnd).(*ssa.Extract); ok && ge.Tuple == ex.Tuple && ge.Index != ex.Index {
						return true
					}
				}
			}
		}
	}
	return false
}

func appendedNonEmpty(v ssa.Value, visiting map[ssa.Value]bool) bool {
	v = stripLoad(v)
	if visiting[v] {
		return true
	}
	visiting[v] = true
	switch x := v.(type) {
	case *ssa.Call:
		if b, ok := x.Call.Value.(*ssa.Builtin); ok && b.Name() == "append" && len(x.Call.Args) == 2 {
			if sl, ok := x.Call.Args[1].(*ssa.Slice); ok {
				if _, isAlloc := sl.X.(*ssa.Alloc); isAlloc {
					return true // append(x, elem): a literal element list has >= 1 element
				}
			}
			return appendedNonEmpty(x.Call.Args[0], visiting)
		}
	case *ssa.Phi:
		for _, e := range x.Edges {
			if !appendedNonEmpty(e, visiting) {
				return false
			}
		}
		return len(x.Edges) > 0
	}
	return false
}

// onEveryPathAfter: starting after instruction a, every path that reaches a
// return or re-enters a's own block (next loop iteration) passes through b.
func onEveryPathAfter(a, b ssa.Instruction) bool {
	if a.Block() == b.Block() {
		return true // same block, b after a (checked by the caller via instrDominates)
	}
	seen := map[*ssa.BasicBlock]bool{}
	work := append([]*ssa.BasicBlock{}, a.Block().Succs...)
	for len(work) > 0 {
		blk := work[len(work)-1]
		work = work[:len(work)-1]
		if seen[blk] || blk == b.Block() {
			continue
		}
		seen[blk] = true
		if blk == a.Block() {
			return false // came around the loop without meeting b
		}
		if len(blk.Succs) == 0 {
			if _, isRet := blk.Instrs[len(blk.Instrs)-1].(*ssa.Return); isRet {
				// leaving the function after the append without merging: only acceptable on error returns
				r := blk.Instrs[len(blk.Instrs)-1].(*ssa.Return)
				if !provablyNonNilErr(r) {
					return false
				}
			}
			continue
		}
		work = append(work, blk.Succs...)
	}
	return true
}

// loopAppendedNonEmpty: list is the accumulator of a loop `for … range X` whose
// body appends one element to it on every iteration, and X is known to be
// non-empty at `at` — so at least one element was appended.
func loopAppendedNonEmpty(at ssa.Instruction, list ssa.Value) bool {
	phi, ok := stripLoad(list).(*ssa.Phi)
	if !ok {
		return false
	}
	h := phi.Block()
	loop := naturalLoop(h)
	if loop == nil {
		return false
	}
	inside := 0
	for i, e := range phi.Edges {
		if !loop[h.Preds[i]] {
			continue
		}
		inside++
		if ex, isEx := e.(*ssa.Extract); isEx {
			// the append happens in a helper that hands back (list, …, error): on every
			// return that does not report an error the list is its parameter with something
			// appended, the parameter is this list, and the loop goes round again only
			// after the error was found nil
			if helperAppendsTo(ex, phi, h.Preds[i]) {
				continue
			}
			return false
		}
		call, ok := e.(*ssa.Call)
		if !ok {
			return false
		}
		b, ok := call.Call.Value.(*ssa.Builtin)
		if !ok || b.Name() != "append" || call.Call.Args[0] != ssa.Value(phi) {
			return false
		}
		// the append is executed on every iteration: its block dominates the back edge source
		if !call.Block().Dominates(h.Preds[i]) {
			return false
		}
	}
	if inside == 0 {
		return false
	}
	ifi, ok := h.Instrs[len(h.Instrs)-1].(*ssa.If)
	if !ok {
		return false
	}
	// `for more := true; more; { … }`: the condition is a flag that is true on entry
	if cphi, isPhi := ifi.Cond.(*ssa.Phi); isPhi && cphi.Block() == h && loop[h.Succs[0]] {
		entryTrue, entries := true, 0
		for i, e := range cphi.Edges {
			if loop[h.Preds[i]] {
				continue
			}
			entries++
			if b, isC := constBool(e); !isC || !b {
				entryTrue = false
			}
		}
		if entryTrue && entries > 0 {
			return true
		}
	}
	bo, ok := ifi.Cond.(*ssa.BinOp)
	if !ok || bo.Op != token.LSS {
		return false
	}
	if x, ok := lenOf(bo.Y); ok {
		return nonEmptyGuard(at, x)
	}
	// a counting loop `i < n` with n known to be non-zero
	return nonZeroAt(at, bo.Y, 0)
}

// helperAppendsTo: ex is the list result of a call h(…, acc, …) whose non-error returns all
// hand back append(<that parameter>, …); the call is made on every iteration (it dominates
// the back edge source) and the back edge is taken only with the call's error found nil.
func helperAppendsTo(ex *ssa.Extract, acc ssa.Value, backSrc *ssa.BasicBlock) bool {
	call, ok := ex.Tuple.(*ssa.Call)
	if !ok || !call.Block().Dominates(backSrc) {
		return false
	}
	cal := staticCallee(call)
	if cal == nil || cal.Blocks == nil {
		return false
	}
	nres := cal.Signature.Results().Len()
	if nres < 2 || !isErrorType(cal.Signature.Results().At(nres-1).Type()) {
		return false
	}
	good := 0
	for _, r := range returnsOf(cal) {
		if provablyNonNilErr(r) {
			continue
		}
		ap, ok := r.Results[ex.Index].(*ssa.Call)
		if !ok {
			return false
		}
		b, ok := ap.Call.Value.(*ssa.Builtin)
		if !ok || b.Name() != "append" || len(ap.Call.Args) != 2 {
			return false
		}
		par, ok := ap.Call.Args[0].(*ssa.Parameter)
		if !ok {
			return false
		}
		j := paramIndex(cal, par)
		if j < 0 || j >= len(call.Call.Args) || call.Call.Args[j] != acc {
			return false
		}
		// something is appended: a one-element varargs array, not an empty spread
		sl, ok := ap.Call.Args[1].(*ssa.Slice)
		if !ok {
			return false
		}
		al, ok := sl.X.(*ssa.Alloc)
		if !ok {
			return false
		}
		if at, ok := deref(al.Type()).Underlying().(*types.Array); !ok || at.Len() < 1 {
			return false
		}
		good++
	}
	if good == 0 {
		return false
	}
	// the error of this call was found nil before going round again
	gs := guardsAtBlock(backSrc)
	if ifi, isIf := backSrc.Instrs[len(backSrc.Instrs)-1].(*ssa.If); isIf && len(backSrc.Succs) == 2 && backSrc.Succs[0] != backSrc.Succs[1] {
		// the back edge itself is a branch of the test
		for si, sb := range backSrc.Succs {
			if sb.Dominates(backSrc) { // the loop header
				gs = append(gs, Guard{Cond: ifi.Cond, Truth: si == 0})
			}
		}
	}
	for _, g := range gs {
		for _, ge := range expandGuard(g) {
			bo, ok := ge.Cond.(*ssa.BinOp)
			if !ok || (bo.Op != token.EQL && bo.Op != token.NEQ) {
				continue
			}
			if (bo.Op == token.EQL) != ge.Truth {
				continue
			}
			for _, pr := range [][2]ssa.Value{{bo.X, bo.Y}, {bo.Y, bo.X}} {
				e2, ok := pr[0].(*ssa.Extract)
				if ok && e2.Tuple == ssa.Value(call) && e2.Index == nres-1 && isNilConst(pr[1]) {
					return true
				}
			}
		}
	}
	return false
}
