package main

import (
	"go/token"
	"go/types"

	"golang.org/x/tools/go/ssa"
)

func init() {
	register(&Rule{
		ID:    "C17.finite",
		Props: []string{"C17"},
		Doc:   "snapToGridFloat64 returns only: its input, a constant, math.Round of its input, or a computed value that dominating guards prove neither Inf (either sign: IsInf(v,0)) nor NaN — a scaled product/quotient with math.Pow10(n), n unbounded, can overflow in both directions and 0*Inf is NaN",
		Floor: 3,
		Run:   runC17Finite,
	})
	register(&Rule{
		ID:    "C17.adjacent",
		Props: []string{"C17", "C20"},
		Doc:   "a float division whose denominator is the distance between two control points of the same sequence needs a dominating non-zero guard (consecutive duplicate points are legal, so the distance can be 0 and 0/0 is NaN)",
		Floor: 1,
		Run:   runC17Adjacent,
	})
}

func isFloat(t types.Type) bool {
	b, ok := t.Underlying().(*types.Basic)
	return ok && b.Info()&types.IsFloat != 0
}

func runC17Finite(c *Ctx) {
	f := c.P.Func("geom.snapToGridFloat64")
	if f == nil {
		c.Errorf("anchor geom.snapToGridFloat64 does not resolve")
		return
	}
	fn := FuncName(f)
	in := f.Params[0]
	// usesPow10: the function scales by math.Pow10 of a non-constant
	usesPow := false
	eachCall(f, func(call ssa.CallInstruction) {
		if calleeName(call) == "math.Pow10" {
			if _, isC := constInt(call.Common().Args[0]); !isC {
				usesPow = true
			}
		}
	})
	if !usesPow {
		c.Errorf("snapToGridFloat64 no longer scales by math.Pow10(non-constant); rule needs review")
	}
	var check func(r *ssa.Return, v ssa.Value, depth int)
	check = func(r *ssa.Return, v ssa.Value, depth int) {
		if phi, ok := v.(*ssa.Phi); ok && depth < 3 && !finiteGuarded(r, v) {
			for _, e := range phi.Edges {
				check(r, e, depth+1)
			}
			return
		}
		p, _ := accessPath(v)
		if _, isPhi := v.(*ssa.Phi); isPhi {
			p = "snapped value (phi of the scaled results)"
		}
		construct := "return " + p
		switch x := v.(type) {
		case *ssa.Parameter:
			if x == in {
				c.Triv(r.Pos(), fn, construct, "returns its input unaltered")
				return
			}
		case *ssa.Const:
			c.Triv(r.Pos(), fn, construct, "constant")
			return
		case *ssa.Call:
			if calleeName(x) == "math.Round" && x.Call.Args[0] == in {
				c.OK(r.Pos(), fn, construct, "math.Round of a finite value is finite")
				return
			}
		}
		notInf, notNaN := false, false
		for _, g := range guardsAtBlock(r.Block()) {
			if call, ok := g.Cond.(*ssa.Call); ok && !g.Truth {
				switch calleeName(call) {
				case "math.IsInf":
					if call.Call.Args[0] == v {
						if k, ok := constInt(call.Call.Args[1]); ok && k == 0 {
							notInf = true
						}
					}
				case "math.IsNaN":
					if call.Call.Args[0] == v {
						notNaN = true
					}
				}
			}
		}
		switch {
		case notInf && notNaN:
			c.OK(r.Pos(), fn, construct, "guarded by !IsInf(v,0) and !IsNaN(v)")
		case !notInf:
			c.Bad(r.Pos(), fn, construct, "a value scaled by math.Pow10(dp) is returned without excluding overflow to +Inf AND -Inf (a one-sided `> MaxFloat64` test lets the negative side through): a finite ordinate can become infinite")
		default:
			c.Bad(r.Pos(), fn, construct, "a value scaled by math.Pow10(dp) is returned without excluding NaN (0 * +Inf when dp > 308)")
		}
	}
	for _, r := range returnsOf(f) {
		check(r, r.Results[0], 0)
	}
}

// seqGetCall: v is (a field of) the result of Sequence.Get / GetXY; returns
// the sequence value and the index value.
func seqGetCall(v ssa.Value) (seq, idx ssa.Value, ok bool) {
	for i := 0; i < 6; i++ {
		switch x := v.(type) {
		case *ssa.Field:
			v = x.X
			continue
		case *ssa.UnOp:
			if x.Op == token.MUL {
				if fa, isFA := x.X.(*ssa.FieldAddr); isFA {
					if a, isA := fa.X.(*ssa.Alloc); isA {
						if st := uniqueStore(a); st != nil {
							v = st
							continue
						}
					}
				}
				if a, isA := x.X.(*ssa.Alloc); isA {
					if st := uniqueStore(a); st != nil {
						v = st
						continue
					}
				}
			}
			return nil, nil, false
		case *ssa.Call:
			n := calleeName(x)
			if n == "geom.(Sequence).Get" || n == "geom.(Sequence).GetXY" {
				return x.Call.Args[0], x.Call.Args[1], true
			}
			return nil, nil, false
		}
		return nil, nil, false
	}
	return nil, nil, false
}

func runC17Adjacent(c *Ctx) {
	n := 0
	for _, f := range c.P.Funcs {
		if pkgOf(f) != "geom" {
			continue
		}
		fn := FuncName(f)
		eachInstr(f, func(in ssa.Instruction) {
			bo, ok := in.(*ssa.BinOp)
			if !ok || bo.Op != token.QUO || !isFloat(bo.Type()) {
				return
			}
			den := stripLoad(bo.Y)
			call, ok := den.(*ssa.Call)
			if !ok {
				return
			}
			name := calleeName(call)
			if name != "geom.(XY).distanceTo" {
				return
			}
			s1, i1, ok1 := seqGetCall(call.Call.Args[0])
			s2, i2, ok2 := seqGetCall(call.Call.Args[1])
			if !ok1 || !ok2 || !(s1 == s2 || sameValue(s1, s2)) {
				return
			}
			if i1 == i2 || sameValue(i1, i2) {
				return
			}
			n++
			construct := "divide by distance between control points"
			for _, g := range guardsAt(in) {
				gb, ok := g.Cond.(*ssa.BinOp)
				if !ok {
					continue
				}
				isDen := func(v ssa.Value) bool { v = stripLoad(v); return v == den || v == bo.Y }
				zero := func(v ssa.Value) bool {
					cst, ok := v.(*ssa.Const)
					return ok && cst.Value != nil && cst.Value.String() == "0"
				}
				switch {
				case gb.Op == token.GTR && g.Truth && isDen(gb.X) && zero(gb.Y),
					gb.Op == token.LSS && g.Truth && isDen(gb.Y) && zero(gb.X),
					gb.Op == token.NEQ && g.Truth && ((isDen(gb.X) && zero(gb.Y)) || (isDen(gb.Y) && zero(gb.X))),
					gb.Op == token.EQL && !g.Truth && ((isDen(gb.X) && zero(gb.Y)) || (isDen(gb.Y) && zero(gb.X))),
					gb.Op == token.LEQ && !g.Truth && isDen(gb.X) && zero(gb.Y):
					c.OK(in.Pos(), fn, construct, "dominating guard excludes a zero distance")
					return
				}
			}
			c.Bad(in.Pos(), fn, construct, "divides by the distance between two control points of the same sequence with no zero guard; coincident consecutive points are legal, giving 0/0 = NaN ordinates")
		})
	}
	if n < 1 {
		c.Errorf("no division by a control-point distance found (expected linearInterpolator.interpolate)")
	}
}

func finiteGuarded(r *ssa.Return, v ssa.Value) bool {
	notInf, notNaN := false, false
	for _, g := range guardsAtBlock(r.Block()) {
		if call, ok := g.Cond.(*ssa.Call); ok && !g.Truth {
			switch calleeName(call) {
			case "math.IsInf":
				if call.Call.Args[0] == v {
					if k, ok := constInt(call.Call.Args[1]); ok && k == 0 {
						notInf = true
					}
				}
			case "math.IsNaN":
				if call.Call.Args[0] == v {
					notNaN = true
				}
			}
		}
	}
	return notInf && notNaN
}
