package main

import (
	"go/token"
	"go/types"

	"golang.org/x/tools/go/ssa"
)

func init() {
	register(&Rule{
		ID:    "C17.finite",
		Props: []string{"C17"},
		Doc:   "snapToGridFloat64 returns only: its input, a constant, math.Round of its input, or a computed value that dominating guards prove neither Inf (either sign: IsInf(v,0)) nor NaN — a scaled product/quotient with math.Pow10(n), n unbounded, can overflow in both directions and 0*Inf is NaN",
		Floor: 3,
		Run:   runC17Finite,
	})
	register(&Rule{
		ID:    "C17.adjacent",
		Props: []string{"C17", "C20"},
		Doc:   "a float division whose denominator is the distance between two control points of the same sequence needs a dominating non-zero guard (consecutive duplicate points are legal, so the distance can be 0 and 0/0 is NaN)",
		Floor: 1,
		Run:   runC17Adjacent,
	})
}

func isFloat(t types.Type) bool {
	b, ok := t.Underlying().(*types.Basic)
	return ok && b.Info()&types.IsFloat != 0
}

func runC17Finite(c *Ctx) {
	f := c.P.Func("geom.snapToGridFloat64")
	if f == nil {
		c.Errorf("anchor geom.snapToGridFloat64 does not resolve")
		return
	}
	fn := FuncName(f)
	// usesPow10: the function (or a helper introduced after the baseline that
	// it calls) scales by math.Pow10 of a non-constant
	usesPow := false
	var scanPow func(g *ssa.Function, depth int)
	scanPow = func(g *ssa.Function, depth int) {
		eachCall(g, func(call ssa.CallInstruction) {
			if calleeName(call) == "math.Pow10" {
				if _, isC := constInt(call.Common().Args[0]); !isC {
					usesPow = true
				}
			}
			if h := staticCallee(call); h != nil && h != g && isNewHelper(h) && depth < 3 {
				scanPow(h, depth+1)
			}
		})
	}
	scanPow(f, 0)
	if !usesPow {
		c.Errorf("snapToGridFloat64 no longer scales by math.Pow10(non-constant); rule needs review")
	}
	// inputs: the values known to be the (finite) input ordinate in the function
	// being examined — the first parameter of snapToGridFloat64 and, in a
	// helper, the parameters that receive it
	var check func(g *ssa.Function, inputs map[ssa.Value]bool, r *ssa.Return, v ssa.Value, depth, hdepth int)
	check = func(g *ssa.Function, inputs map[ssa.Value]bool, r *ssa.Return, v ssa.Value, depth, hdepth int) {
		if phi, ok := v.(*ssa.Phi); ok && depth < 3 && !finiteGuarded(r, v) {
			for _, e := range phi.Edges {
				check(g, inputs, r, e, depth+1, hdepth)
			}
			return
		}
		p, _ := accessPath(v)
		if _, isPhi := v.(*ssa.Phi); isPhi {
			p = "snapped value (phi of the scaled results)"
		}
		construct := "return " + p
		if g != f {
			construct = "return " + p + " in " + FuncName(g)
		}
		switch x := v.(type) {
		case *ssa.Parameter:
			if inputs[x] {
				c.Triv(r.Pos(), fn, construct, "returns its input unaltered")
				return
			}
		case *ssa.Const:
			c.Triv(r.Pos(), fn, construct, "constant")
			return
		case *ssa.Call:
			if calleeName(x) == "math.Round" && inputs[x.Call.Args[0]] {
				c.OK(r.Pos(), fn, construct, "math.Round of a finite value is finite")
				return
			}
			// the result of a helper introduced after the baseline: its returns
			// are judged in its own body, knowing which parameters are the input
			if h := staticCallee(x); h != nil && isNewHelper(h) && h != g && hdepth < 3 && len(h.Blocks) > 0 && h.Signature.Results().Len() == 1 {
				hin := map[ssa.Value]bool{}
				for i, a := range x.Call.Args {
					if inputs[a] && i < len(h.Params) {
						hin[h.Params[i]] = true
					}
				}
				for _, hr := range returnsOf(h) {
					check(h, hin, hr, hr.Results[0], 0, hdepth+1)
				}
				return
			}
		}
		notInf, notNaN := false, false
		for _, gd := range guardsAtBlock(r.Block()) {
			if call, ok := gd.Cond.(*ssa.Call); ok && !gd.Truth {
				switch calleeName(call) {
				case "math.IsInf":
					if call.Call.Args[0] == v {
						if k, ok := constInt(call.Call.Args[1]); ok && k == 0 {
							notInf = true
						}
					}
				case "math.IsNaN":
					if call.Call.Args[0] == v {
						notNaN = true
					}
				}
			}
		}
		switch {
		case notInf && notNaN:
			c.OK(r.Pos(), fn, construct, "guarded by !IsInf(v,0) and !IsNaN(v)")
		case !notInf:
			c.Bad(r.Pos(), fn, construct, "a value scaled by math.Pow10(dp) is returned without excluding overflow to +Inf AND -Inf (a one-sided `> MaxFloat64` test lets the negative side through): a finite ordinate can become infinite")
		default:
			c.Bad(r.Pos(), fn, construct, "a value scaled by math.Pow10(dp) is returned without excluding NaN (0 * +Inf when dp > 308)")
		}
	}
	for _, r := range returnsOf(f) {
		check(f, map[ssa.Value]bool{f.Params[0]: true}, r, r.Results[0], 0, 0)
	}
}

// seqGetCall: v is (a field of) the result of Sequence.Get / GetXY; returns
// the sequence value and the index value.
func seqGetCall(v ssa.Value) (seq, idx ssa.Value, ok bool) {
	for i := 0; i < 6; i++ {
		switch x := v.(type) {
		case *ssa.Field:
			v = x.X
			continue
		case *ssa.UnOp:
			if x.Op == token.MUL {
				if fa, isFA := x.X.(*ssa.FieldAddr); isFA {
					if a, isA := fa.X.(*ssa.Alloc); isA {
						if st := uniqueStore(a); st != nil {
							v = st
							continue
						}
					}
				}
				if a, isA := x.X.(*ssa.Alloc); isA {
					if st := uniqueStore(a); st != nil {
						v = st
						continue
					}
				}
			}
			return nil, nil, false
		case *ssa.Call:
			n := calleeName(x)
			if n == "geom.(Sequence).Get" || n == "geom.(Sequence).GetXY" {
				return x.Call.Args[0], x.Call.Args[1], true
			}
			return nil, nil, false
		}
		return nil, nil, false
	}
	return nil, nil, false
}

func runC17Adjacent(c *Ctx) {
	n := 0
	for _, f := range c.P.Funcs {
		if pkgOf(f) != "geom" {
			continue
		}
		fn := FuncName(f)
		eachInstr(f, func(in ssa.Instruction) {
			bo, ok := in.(*ssa.BinOp)
			if !ok || bo.Op != token.QUO || !isFloat(bo.Type()) {
				return
			}
			den := stripLoad(bo.Y)
			call, ok := den.(*ssa.Call)
			if !ok {
				return
			}
			name := calleeName(call)
			if name != "geom.(XY).distanceTo" {
				return
			}
			s1, i1, ok1 := seqGetCall(call.Call.Args[0])
			s2, i2, ok2 := seqGetCall(call.Call.Args[1])
			if !ok1 || !ok2 || !(s1 == s2 || sameValue(s1, s2)) {
				return
			}
			if i1 == i2 || sameValue(i1, i2) {
				return
			}
			n++
			construct := "divide by distance between control points"
			for _, g := range guardsAt(in) {
				gb, ok := g.Cond.(*ssa.BinOp)
				if !ok {
					continue
				}
				isDen := func(v ssa.Value) bool { v = stripLoad(v); return v == den || v == bo.Y }
				zero := func(v ssa.Value) bool {
					cst, ok := v.(*ssa.Const)
					return ok && cst.Value != nil && cst.Value.String() == "0"
				}
				switch {
				case gb.Op == token.GTR && g.Truth && isDen(gb.X) && zero(gb.Y),
					gb.Op == token.LSS && g.Truth && isDen(gb.Y) && zero(gb.X),
					gb.Op == token.NEQ && g.Truth && ((isDen(gb.X) && zero(gb.Y)) || (isDen(gb.Y) && zero(gb.X))),
					gb.Op == token.EQL && !g.Truth && ((isDen(gb.X) && zero(gb.Y)) || (isDen(gb.Y) && zero(gb.X))),
					gb.Op == token.LEQ && !g.Truth && isDen(gb.X) && zero(gb.Y):
					c.OK(in.Pos(), fn, construct, "dominating guard excludes a zero distance")
					return
				}
			}
			c.Bad(in.Pos(), fn, construct, "divides by the distance between two control points of the same sequence with no zero guard; coincident consecutive points are legal, giving 0/0 = NaN ordinates")
		})
	}
	if n < 1 {
		c.Errorf("no division by a control-point distance found (expected linearInterpolator.interpolate)")
	}
}

func finiteGuarded(r *ssa.Return, v ssa.Value) bool {
	notInf, notNaN := false, false
	for _, g := range guardsAtBlock(r.Block()) {
		if call, ok := g.Cond.(*ssa.Call); ok && !g.Truth {
			switch calleeName(call) {
			case "math.IsInf":
				if call.Call.Args[0] == v {
					if k, ok := constInt(call.Call.Args[1]); ok && k == 0 {
						notInf = true
					}
				}
			case "math.IsNaN":
				if call.Call.Args[0] == v {
					notNaN = true
				}
			}
		}
	}
	return notInf && notNaN
}
