package main

import (
	"encoding/json"
	"fmt"
	"os"
	"sort"
	"strings"
)

// propTitle: short titles (copied from properties.jsonl ids only for display).
var allProps = []string{"C01", "C02", "C03", "C04", "C05", "C06", "C07", "C08", "C09", "C10", "C11", "C12", "C13", "C14", "C15", "C16", "C17", "C18", "C19", "C20"}

// propNotDecided: the behavioural remainder that is not claimed.
var propNotDecided = map[string]string{}

// propDesignRef: DESIGN.md section.
var propDesignRef = map[string]string{}

func setProp(id, designRef, explanation, notDecided string, assumptions ...string) {
	propExplanation[id] = explanation + " NOT decided: " + notDecided
	propNotDecided[id] = notDecided
	propDesignRef[id] = designRef
	propAssumptions[id] = append([]string{
		"go/types and go/ssa (x/tools v0.29.0) model the program faithfully; the analysed build configurations are the ones listed in build_configs",
		"standard-library and third-party callees (encoding/json, text/scanner, sort, math) behave as documented",
	}, assumptions...)
}

const baselineCmd = "cd /repo && GOFLAGS=-mod=mod go test -json -vet=off -count=1 -timeout 25m ./..."

func cmdManifest() int {
	type level struct {
		Category  string `json:"category"`
		Text      string `json:"text"`
		DesignRef string `json:"design_ref"`
	}
	type check struct {
		PropertyID string `json:"property_id"`
		Quick      string `json:"quick_cmd"`
		Thorough   string `json:"thorough_cmd"`
		Evidence   string `json:"evidence_file"`
		Replay     string `json:"replay_cmd_template"`
		Engine     string `json:"engine"`
		Level      level  `json:"level_claimed"`
		Note       string `json:"level_note"`
		Technique  string `json:"technique"`
	}
	type na struct {
		PropertyID string `json:"property_id"`
		Reason     string `json:"reason"`
	}
	var checks []check
	nas := []na{}
	var served []string
	for _, p := range allProps {
		rs := rulesFor(p)
		if len(rs) == 0 {
			nas = append(nas, na{p, "no sound structural necessary condition of this property is implemented in the static checker yet; the behaviour itself quantifies over runtime values (geometry, floating point) that static analysis of the source cannot bound, so it is not claimed rather than checked by another technique"})
			continue
		}
		served = append(served, p)
		var ids []string
		for _, r := range rs {
			ids = append(ids, r.ID)
		}
		sort.Strings(ids)
		checks = append(checks, check{
			PropertyID: p,
			Quick:      fmt.Sprintf("/verif/bin/sfcheck check -prop %s -tier quick", p),
			Thorough:   fmt.Sprintf("/verif/bin/sfcheck check -prop %s -tier thorough", p),
			Evidence:   fmt.Sprintf("/verif/evidence/%s.json", p),
			Replay:     "/verif/bin/sfcheck explain {path}",
			Engine:     "sfcheck",
			Level: level{
				Category:  "other",
				Text:      "Static analysis of /repo's current source (type-checked program + SSA), exhaustive over every instance of each rule: decides structural NECESSARY conditions of the property on all paths/call sites at once, which example tests cannot. " + propExplanation[p],
				DesignRef: propDesignRef[p],
			},
			Note:      "Decides only the named structural clauses, not the behaviour. Trusted base: go/types, x/tools go/ssa v0.29.0, the rule specifications and reviewed exception tables in /verif/sfcheck (each exception is one function+construct with a reason). Not decided: " + propNotDecided[p],
			Technique: "static analysis: custom SSA/type-resolved rules (" + strings.Join(ids, ", ") + ") — dominator guard facts, value provenance, call-graph reachability, exhaustiveness, table agreement, path-condition comparison",
		})
	}
	m := map[string]interface{}{
		"version":   1,
		"setup_cmd": "cd /verif/sfcheck && GOFLAGS=-mod=mod GOPROXY=off GOSUMDB=off GOTOOLCHAIN=local GOWORK=off go build -o /verif/bin/sfcheck .",
		"hooks": map[string]interface{}{
			"guard":            "verif",
			"enable":           "-tags verif (the checker loads /repo with this tag; no guarded code exists, the analysis needs no instrumentation)",
			"baseline_off_cmd": baselineCmd,
			"source_commits":   []string{},
			"add_only":         true,
		},
		"engines": []map[string]interface{}{{
			"name":              "sfcheck",
			"path":              "/verif/sfcheck",
			"serves_properties": served,
			"kind_free_text":    "repository-specific static analyser (Go; go/packages + go/types + go/ssa): loads /repo's working tree on every run, enumerates rule instances as obligations keyed rule|function|construct, discharges each by a dominating guard / provenance / table / summary fact, fails on violated or undecided obligations and when an instance count drops below its hand-confirmed floor",
		}},
		"checks":         checks,
		"not_applicable": nas,
		"notes":          "All claims are level 'other': structural necessary conditions decided statically. See DESIGN.md. Known findings: /verif/known_findings.json. Seeded regressions used to test the checks: /verif/seeded/.",
	}
	b, _ := json.MarshalIndent(m, "", " ")
	os.Stdout.Write(append(b, '\n'))
	return 0
}
