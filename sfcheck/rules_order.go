package main

import (
	"fmt"
	"go/ast"
	"go/token"
	"go/types"
	"sort"
	"strings"

	"golang.org/x/tools/go/ssa"
)

func init() {
	register(&Rule{
		ID:    "C10.order",
		Props: []string{"C10"},
		Doc:   "map-iteration order cannot reach a result: for every `range` over a map in geom/rtree, the loop body's effects are order-insensitive (stores keyed by the iteration key/element, per-element field writes, commutative accumulation, set insertion) — or, when the body appends to a slice or stops at the first hit, the enclosing function is a reviewed entry whose canonicaliser (a sort of that slice / a fixpoint / an any-element-equal argument) is re-checked on every run",
		Floor: 15,
		Run:   runC10Order,
	})
	register(&Rule{
		ID:    "C20.switch",
		Props: []string{"C20", "C08"},
		Doc:   "exhaustiveness: every switch whose tag has one of the repository's closed enum types (GeometryType, CoordinatesType, imLocation, threePointOrientation, twkbGeometryType, side, operand …) has a case for every declared constant, or a default that does not panic; so does every tag-less switch made of g.IsPoint()/IsLineString()/… predicates on one value",
		Floor: 40,
		Run:   runC20Switch,
	})
}

// reviewedMapLoops: function -> how the order dependence is neutralised; the
// canonicaliser named here is verified structurally on every run.
var reviewedMapLoops = map[string]struct {
	needSortIn string // a sort.* call must exist in this function (or "" = reason only)
	reason     string
}{
	"geom.(*doublyConnectedEdgeList).extractPolygons":           {"geom.(*doublyConnectedEdgeList).extractPolygons", "polygons are sorted after extraction; ring order is fixed by orderPolygonRings and ring start by the minimal rotation"},
	"geom.(*doublyConnectedEdgeList).extractLineStrings":        {"geom.(*doublyConnectedEdgeList).extractLineStrings", "each edge is extracted in canonical direction and the line strings are sorted"},
	"geom.(*doublyConnectedEdgeList).extractPoints":             {"geom.(*doublyConnectedEdgeList).extractPoints", "points are sorted"},
	"geom.(*doublyConnectedEdgeList).fixVertex":                 {"geom.(*doublyConnectedEdgeList).fixVertex", "incident edges are sorted radially before being linked"},
	"geom.(*doublyConnectedEdgeList).fixVertices":               {"", "per-vertex fix-up; each vertex is handled independently"},
	"geom.(*doublyConnectedEdgeList).assignFaces":               {"", "cycle discovery marks whole cycles and the flood fill is a fixpoint: the labelling does not depend on the start edge (face slice order is internal)"},
	"geom.(*doublyConnectedEdgeList).populateInSetLabels":       {"", "monotone OR-accumulation to a fixpoint per element"},
	"geom.(*doublyConnectedEdgeList).extractIntersectionMatrix": {"", "matrix entries are set in dimension-ascending passes; within a pass every write stores the same constant"},
	"geom.(*vertexRecord).location":                             {"", "all incident edges of an unflagged vertex have the same location, so any element gives the same answer"},
	"geom.findFacesMakingPolygon":                               {"", "set construction by flood fill; the resulting set is order independent"},
	"geom.(nodeSet).list":                                       {"geom.(nodeSet).list", "the listed nodes are sorted before they are handed to the spatial index (the distance sort of the cut points has ties, so the list order would otherwise reach the output)"},
	"geom.(graph).hasCycle":                                     {"", "pure existence test"},
	"geom.(MultiLineString).Boundary":                           {"", "counts are accumulated in a map but emitted in first-occurrence order from a slice"},
	"geom.(*GeoJSONFeature).UnmarshalJSON":                      {"", "the error returned from inside the loop over the foreign members cannot occur: every member is a json.RawMessage that already parsed as part of the enclosing document, and decoding valid JSON into interface{} does not fail; the members themselves are stored keyed by their name"},
}

func runC10Order(c *Ctx) {
	n := 0
	for _, f := range c.P.Funcs {
		if pk := pkgOf(f); pk != "geom" && pk != "rtree" {
			continue
		}
		if strings.Contains(c.P.File(f.Pos()), "dcel_debug.go") {
			continue // debugging helpers, not reachable from the API (checked below)
		}
		fn := FuncName(f)
		eachInstr(f, func(in ssa.Instruction) {
			rg, ok := in.(*ssa.Range)
			if !ok {
				return
			}
			if _, isMap := rg.X.Type().Underlying().(*types.Map); !isMap {
				return
			}
			n++
			ms, _ := accessPath(rg.X)
			construct := "range over map " + trunc(ms)
			// loop blocks: those dominated by the block holding the Next instruction
			var next *ssa.Next
			for _, r := range *rg.Referrers() {
				if nx, ok := r.(*ssa.Next); ok {
					next = nx
				}
			}
			if next == nil {
				c.Undecided(rg.Pos(), fn, construct, "range without next")
				return
			}
			h := next.Block()
			var sensitive []string
			// the body's entry: the successor taken when Next reports another element; a block
			// it dominates runs only inside an iteration, also when it leaves the function
			var bodyEntry *ssa.BasicBlock
			if ifi, ok := h.Instrs[len(h.Instrs)-1].(*ssa.If); ok && len(h.Succs) == 2 {
				if ex, ok := ifi.Cond.(*ssa.Extract); ok && ex.Tuple == ssa.Value(next) && ex.Index == 0 {
					bodyEntry = h.Succs[0]
				}
			}
			for _, b := range f.Blocks {
				if b != h && bodyEntry != nil && bodyEntry.Dominates(b) && !reaches(b, h, nil) {
					if x, ok := b.Instrs[len(b.Instrs)-1].(*ssa.Return); ok {
						for _, rv := range x.Results {
							if computedFrom(rv, func(v ssa.Value) bool { return v == ssa.Value(next) }) {
								sensitive = append(sensitive, "returns a value computed from the element of whichever iteration comes first at "+c.P.Pos(x.Pos()))
							}
						}
					}
				}
				if b == h || !h.Dominates(b) || !reaches(b, h, nil) {
					continue
				}
				for _, in2 := range b.Instrs {
					switch x := in2.(type) {
					case *ssa.Return:
						// returning from inside the loop: first-hit semantics
						for _, rv := range x.Results {
							if _, isConst := rv.(*ssa.Const); !isConst {
								sensitive = append(sensitive, "returns a loop-dependent value from inside the loop at "+c.P.Pos(x.Pos()))
							}
						}
					case *ssa.Call:
						if bi, ok := x.Call.Value.(*ssa.Builtin); ok && bi.Name() == "append" {
							// append to a slice that lives outside the loop
							if !definedInLoop(x.Call.Args[0], h) {
								sensitive = append(sensitive, "appends to an outer slice at "+c.P.Pos(x.Pos()))
							}
						}
					}
				}
			}
			// loop-carried variables: a value assigned in the body that survives to
			// the next iteration / the code after the loop. Order-independent only
			// when every assignment stores one and the same constant (a flag), or
			// accumulates commutatively (+, |, &, *, ^, min/max) onto the variable.
			inLoop := func(b *ssa.BasicBlock) bool { return b == h || (h.Dominates(b) && reaches(b, h, nil)) }
			for _, phi := range headerPhis(h) {
				var leaves []ssa.Value
				seenV := map[ssa.Value]bool{}
				var walk func(v ssa.Value)
				walk = func(v ssa.Value) {
					if seenV[v] {
						return
					}
					seenV[v] = true
					if v == ssa.Value(phi) {
						return
					}
					if p2, ok := v.(*ssa.Phi); ok && inLoop(p2.Block()) {
						for _, e := range p2.Edges {
							walk(e)
						}
						return
					}
					leaves = append(leaves, v)
				}
				for i, e := range phi.Edges {
					if inLoop(phi.Block().Preds[i]) {
						walk(e)
					}
				}
				consts := map[string]bool{}
				for _, lf := range leaves {
					switch x := lf.(type) {
					case *ssa.Const:
						consts[x.String()] = true
						continue
					case *ssa.BinOp:
						switch x.Op {
						case token.ADD, token.OR, token.AND, token.MUL, token.XOR, token.LOR, token.LAND:
							if dependsOnPhi(x.X, phi) || dependsOnPhi(x.Y, phi) {
								continue
							}
						}
					case *ssa.Call:
						n := calleeName(x)
						if strings.HasSuffix(n, "fastMin") || strings.HasSuffix(n, "fastMax") || n == "math.Min" || n == "math.Max" || strings.HasPrefix(n, "builtin m") {
							continue
						}
						if bi, ok := x.Call.Value.(*ssa.Builtin); ok && bi.Name() == "append" {
							continue // judged by the append rule above
						}
					}
					// `if x < acc { acc = x }` (or >, with a "not set yet" sentinel): a running minimum / maximum
					if in0, ok := lf.(ssa.Instruction); ok || true {
						_ = in0
						isMinMax := false
						for i, e := range phi.Edges {
							_ = e
							pred := phi.Block().Preds[i]
							if !inLoop(pred) || len(pred.Instrs) == 0 {
								continue
							}
							for _, g := range guardsAt(pred.Instrs[len(pred.Instrs)-1]) {
								for _, ge := range expandGuardDeep(g) {
									bo, ok := ge.Cond.(*ssa.BinOp)
									if !ok {
										continue
									}
									switch bo.Op {
									case token.LSS, token.LEQ, token.GTR, token.GEQ:
										if (sameQuantity(bo.X, lf) && dependsOnPhi(bo.Y, phi)) || (sameQuantity(bo.Y, lf) && dependsOnPhi(bo.X, phi)) {
											isMinMax = true
										}
									}
								}
							}
						}
						if !isMinMax {
							isMinMax = sentinelMinMax(phi, lf, inLoop)
						}
						if isMinMax {
							continue
						}
					}
					if _, isNext := lf.(*ssa.Extract); isNext || !isConstLike(lf) {
						sensitive = append(sensitive, "assigns a loop-dependent value to a variable that outlives the iteration (last one wins) at "+c.P.Pos(lf.Pos()))
					}
				}
				if len(consts) > 1 {
					var ks []string
					for k := range consts {
						ks = append(ks, k)
					}
					sort.Strings(ks)
					sensitive = append(sensitive, "assigns different constants ("+strings.Join(ks, ", ")+") to one variable in different iterations (last one wins)")
				}
			}
			root := FuncName(rootFunc(f))
			if len(sensitive) == 0 {
				c.OK(rg.Pos(), fn, construct, "body has no order-carrying effect (no append to an outer slice, no loop-dependent early return)")
				return
			}
			rev, ok := reviewedMapLoops[root]
			if !ok && isNewHelper(rootFunc(f)) {
				// a helper introduced after the baseline: it is part of the bodies
				// of the functions it was extracted from — all its (transitive)
				// baseline callers must be reviewed loops, and share one entry
				var owners []string
				seen := map[*ssa.Function]bool{}
				var up func(g *ssa.Function, d int)
				up = func(g *ssa.Function, d int) {
					g = rootFunc(g)
					if seen[g] || d > 4 {
						return
					}
					seen[g] = true
					if !isNewHelper(g) {
						owners = append(owners, FuncName(g))
						return
					}
					for _, ci := range c.P.callersOf(g) {
						up(ci.Parent(), d+1)
					}
				}
				up(f, 0)
				if len(owners) == 1 {
					if r2, ok2 := reviewedMapLoops[owners[0]]; ok2 {
						rev, ok = r2, true
						rev.reason = "helper of " + owners[0] + ": " + rev.reason
					}
				}
			}
			if !ok {
				c.Bad(rg.Pos(), fn, construct, "iteration order of a map can reach the result: "+sensitive[0]+", and the function is not a reviewed loop with a canonicaliser (sort the collected values, or iterate a slice)")
				return
			}
			if rev.needSortIn != "" {
				sf := c.P.Func(rev.needSortIn)
				found := false
				if sf != nil {
					var where []*ssa.Function
					for _, g := range withNewHelpers(sf) {
						where = append(where, g)
						where = append(where, allAnon(g)...)
					}
					for _, g := range where {
						eachCall(g, func(call ssa.CallInstruction) {
							if strings.HasPrefix(calleeName(call), "sort.") {
								found = true
							}
						})
					}
				}
				if !found {
					c.Bad(rg.Pos(), fn, construct, "reviewed loop lost its canonicaliser: "+rev.reason+" — but no sort call remains in "+rev.needSortIn)
					return
				}
			}
			c.Except(rg.Pos(), fn, construct, rev.reason)
		})
	}
	if n < 15 {
		c.Errorf("only %d map-range loops found", n)
	}
}

// definedInLoop: the slice value is (re)created inside the loop headed by h
// (e.g. a per-iteration local), as opposed to an accumulator living outside.
func definedInLoop(v ssa.Value, h *ssa.BasicBlock) bool {
	switch x := v.(type) {
	case *ssa.Phi:
		// a phi in the loop header is the accumulator carried around the loop
		return x.Block() != h && h.Dominates(x.Block()) && x.Block() != h
	case *ssa.UnOp:
		if a, ok := x.X.(*ssa.Alloc); ok {
			return a.Block() != nil && h.Dominates(a.Block()) && a.Block() != h && reaches(a.Block(), h, nil)
		}
		return false
	case *ssa.Const:
		return true
	case ssa.Instruction:
		b := x.Block()
		return b != nil && b != h && h.Dominates(b) && reaches(b, h, nil)
	}
	return false
}

// switchDelegation: a call of a function, and — when the call sits in the default
// clause of a switch over an enum / a geometry-type predicate chain — what that
// switch already covers. A switch split in two ("the default arm hands the
// remaining cases to a second function") is exhaustive jointly.
type switchDelegation struct {
	inDefault bool
	kind      string // enum type name, or "chain"
	covered   map[string]bool
}

func collectSwitchDelegations(c *Ctx) map[string][]switchDelegation {
	out := map[string][]switchDelegation{}
	for _, pkg := range []string{"geom", "rtree", "carto"} {
		info := c.P.Info(pkg)
		for _, file := range c.P.Pkgs[pkg].Syntax {
			var visit func(n ast.Node, ctx *switchDelegation)
			calleeOf := func(call *ast.CallExpr) string {
				switch f := call.Fun.(type) {
				case *ast.Ident:
					return f.Name
				case *ast.SelectorExpr:
					return f.Sel.Name
				}
				return ""
			}
			visit = func(n ast.Node, ctx *switchDelegation) {
				ast.Inspect(n, func(node ast.Node) bool {
					switch x := node.(type) {
					case *ast.CallExpr:
						if name := calleeOf(x); name != "" {
							d := switchDelegation{}
							if ctx != nil {
								d = *ctx
							}
							out[name] = append(out[name], d)
						}
					case *ast.SwitchStmt:
						if x == n {
							return true
						}
						// classify this switch
						kind := ""
						covered := map[string]bool{}
						if x.Tag != nil {
							if nt, ok := info.TypeOf(x.Tag).(*types.Named); ok && len(enumConstsCached(nt)) >= 2 {
								kind = nt.Obj().Name()
								for _, st := range x.Body.List {
									for _, e := range st.(*ast.CaseClause).List {
										if tv, ok := info.Types[e]; ok && tv.Value != nil {
											covered[tv.Value.ExactString()] = true
										}
									}
								}
							}
						} else {
							kind = "chain"
							for _, st := range x.Body.List {
								for _, e := range st.(*ast.CaseClause).List {
									if call, ok := e.(*ast.CallExpr); ok {
										if sel, ok := call.Fun.(*ast.SelectorExpr); ok && strings.HasPrefix(sel.Sel.Name, "Is") {
											covered[strings.TrimPrefix(sel.Sel.Name, "Is")] = true
										}
									}
								}
							}
						}
						if x.Init != nil {
							visit(x.Init, ctx)
						}
						if x.Tag != nil {
							visit(x.Tag, ctx)
						}
						for _, st := range x.Body.List {
							cc := st.(*ast.CaseClause)
							for _, e := range cc.List {
								visit(e, ctx)
							}
							for _, b := range cc.Body {
								if cc.List == nil && kind != "" {
									visit(b, &switchDelegation{inDefault: true, kind: kind, covered: covered})
								} else {
									visit(b, nil)
								}
							}
						}
						return false
					}
					return true
				})
			}
			visit(file, nil)
		}
	}
	return out
}

// delegatedCover: the cases already handled by every switch whose default clause
// calls the function named fname — nil unless all calls of fname are of that kind.
func delegatedCover(dels map[string][]switchDelegation, fname, kind string) map[string]bool {
	ds := dels[fname]
	if len(ds) == 0 {
		return nil
	}
	var inter map[string]bool
	for _, d := range ds {
		if !d.inDefault || d.kind != kind {
			return nil
		}
		if inter == nil {
			inter = map[string]bool{}
			for k := range d.covered {
				inter[k] = true
			}
			continue
		}
		for k := range inter {
			if !d.covered[k] {
				delete(inter, k)
			}
		}
	}
	return inter
}

func runC20Switch(c *Ctx) {
	n := 0
	dels := collectSwitchDelegations(c)
	for _, pkg := range []string{"geom", "rtree", "carto"} {
		info := c.P.Info(pkg)
		for _, file := range c.P.Pkgs[pkg].Syntax {
			var curFunc, curName string
			ast.Inspect(file, func(node ast.Node) bool {
				if fd, ok := node.(*ast.FuncDecl); ok {
					curName = fd.Name.Name
					curFunc = pkg + "." + fd.Name.Name
					if fd.Recv != nil && len(fd.Recv.List) > 0 {
						if t := info.TypeOf(fd.Recv.List[0].Type); t != nil {
							curFunc = pkg + ".(" + namedName(t) + ")." + fd.Name.Name
						}
					}
				}
				sw, ok := node.(*ast.SwitchStmt)
				if !ok {
					return true
				}
				if sw.Tag != nil {
					t := info.TypeOf(sw.Tag)
					nt, isNamed := t.(*types.Named)
					if !isNamed {
						return true
					}
					consts := enumConstsCached(nt)
					if len(consts) < 2 {
						return true
					}
					n++
					covered := map[string]bool{}
					var def *ast.CaseClause
					for _, st := range sw.Body.List {
						cc := st.(*ast.CaseClause)
						if cc.List == nil {
							def = cc
						}
						for _, e := range cc.List {
							if tv, ok := info.Types[e]; ok && tv.Value != nil {
								covered[tv.Value.ExactString()] = true
							}
						}
					}
					joint := ""
					if dc := delegatedCover(dels, curName, nt.Obj().Name()); dc != nil {
						for k := range dc {
							covered[k] = true
						}
						joint = " (jointly with the switch whose default clause delegates here)"
					}
					var missing []string
					seenVal := map[string]bool{}
					for _, k := range consts {
						v := k.Val().ExactString()
						if seenVal[v] {
							continue
						}
						seenVal[v] = true
						if !covered[v] {
							missing = append(missing, k.Name())
						}
					}
					construct := "switch on " + nt.Obj().Name()
					switch {
					case len(missing) == 0:
						c.OK(sw.Pos(), curFunc, construct, fmt.Sprintf("all %d constants have a case%s", len(seenVal), joint))
					case def == nil:
						c.Triv(sw.Pos(), curFunc, construct, "partial switch without default: the remaining constants are deliberately no-ops")
					case !clausePanics(def, info):
						c.OK(sw.Pos(), curFunc, construct, "missing constants fall into a non-panicking default")
					case len(missing) == 1 && missing[0] == "TypeGeometryCollection" && onlyCalledOnWalkLeaves(c, c.P.Func(curFunc)):
						c.OK(sw.Pos(), curFunc, construct, "a helper that is only ever handed the leaves walk gives out (never a collection)")
					case curFunc == "geom.rotatedMinimumBoundingRectangle":
						c.Except(sw.Pos(), curFunc, construct, "the switch is on the type of a convex hull, which is a Point, LineString or Polygon by construction (convexHull builds only those)")
					default:
						sort.Strings(missing)
						c.Bad(sw.Pos(), curFunc, construct, fmt.Sprintf("no case for %s and a panicking default: a valid value of the enum crashes", strings.Join(missing, ", ")))
					}
					return true
				}
				// tag-less: predicate chain on geometry type
				preds := map[string]bool{}
				var recv string
				var def *ast.CaseClause
				chain := true
				for _, st := range sw.Body.List {
					cc := st.(*ast.CaseClause)
					if cc.List == nil {
						def = cc
						continue
					}
					for _, e := range cc.List {
						call, ok := e.(*ast.CallExpr)
						if !ok {
							chain = false
							continue
						}
						sel, ok := call.Fun.(*ast.SelectorExpr)
						if !ok || !strings.HasPrefix(sel.Sel.Name, "Is") || len(call.Args) != 0 {
							chain = false
							continue
						}
						if t := info.TypeOf(sel.X); t == nil || namedName(t) != "Geometry" {
							chain = false
							continue
						}
						r := types.ExprString(sel.X)
						if recv == "" {
							recv = r
						} else if recv != r {
							chain = false
						}
						preds[strings.TrimPrefix(sel.Sel.Name, "Is")] = true
					}
				}
				if !chain || len(preds) < 3 {
					return true
				}
				n++
				joint := ""
				if dc := delegatedCover(dels, curName, "chain"); dc != nil {
					for k := range dc {
						preds[k] = true
					}
					joint = " (jointly with the chain whose default clause delegates here)"
				}
				var missing []string
				for _, tn := range []string{"GeometryCollection", "Point", "LineString", "Polygon", "MultiPoint", "MultiLineString", "MultiPolygon"} {
					if !preds[tn] {
						missing = append(missing, tn)
					}
				}
				construct := "predicate chain on the geometry type of " + recv
				switch {
				case len(missing) == 0:
					c.OK(sw.Pos(), curFunc, construct, "all 7 geometry types handled"+joint)
				case def == nil:
					c.Triv(sw.Pos(), curFunc, construct, "partial chain without default (ordered dispatch; remaining types handled elsewhere)")
				case !clausePanics(def, info):
					c.OK(sw.Pos(), curFunc, construct, "remaining types fall into a non-panicking default")
				case curFunc == "geom.rotatedMinimumBoundingRectangle" && preds["Point"] && preds["LineString"] && preds["Polygon"]:
					c.Except(sw.Pos(), curFunc, construct, "the chain is on the type of a convex hull, which is a Point, LineString or Polygon by construction (convexHull builds only those)")
				default:
					c.Bad(sw.Pos(), curFunc, construct, "no arm for "+strings.Join(missing, ", ")+" and the default panics: a valid geometry type crashes")
				}
				return true
			})
		}
	}
	if n < 40 {
		c.Errorf("only %d enum switches found", n)
	}
}

func clausePanics(cc *ast.CaseClause, info *types.Info) bool {
	p := false
	for _, st := range cc.Body {
		ast.Inspect(st, func(n ast.Node) bool {
			if call, ok := n.(*ast.CallExpr); ok {
				if id, ok := call.Fun.(*ast.Ident); ok && id.Name == "panic" {
					if _, isBuiltin := info.Uses[id].(*types.Builtin); isBuiltin {
						p = true
					}
				}
			}
			return true
		})
	}
	return p
}

var _ = token.NoPos

// headerPhis: the phis of the loop whose iteration block is h — in h itself and
// in the block that jumps to it from outside and receives the back edge.
func headerPhis(h *ssa.BasicBlock) []*ssa.Phi {
	var out []*ssa.Phi
	cands := []*ssa.BasicBlock{h}
	for _, p := range h.Preds {
		cands = append(cands, p)
	}
	seen := map[*ssa.BasicBlock]bool{}
	for _, b := range cands {
		if seen[b] {
			continue
		}
		seen[b] = true
		// a loop head: has a predecessor inside the loop and one outside
		in, outp := false, false
		for _, p := range b.Preds {
			if p == h || (h.Dominates(p) && reaches(p, h, nil)) {
				in = true
			} else {
				outp = true
			}
		}
		if !in || !outp {
			continue
		}
		for _, ins := range b.Instrs {
			if phi, ok := ins.(*ssa.Phi); ok {
				out = append(out, phi)
			}
		}
	}
	return out
}

func dependsOnPhi(v ssa.Value, phi *ssa.Phi) bool {
	seen := map[ssa.Value]bool{}
	var rec func(v ssa.Value, d int) bool
	rec = func(v ssa.Value, d int) bool {
		if v == ssa.Value(phi) {
			return true
		}
		if d > 6 || seen[v] {
			return false
		}
		seen[v] = true
		switch x := v.(type) {
		case *ssa.Phi:
			for _, e := range x.Edges {
				if rec(e, d+1) {
					return true
				}
			}
		case *ssa.Convert:
			return rec(x.X, d+1)
		case *ssa.BinOp:
			return rec(x.X, d+1) || rec(x.Y, d+1)
		}
		return false
	}
	return rec(v, 0)
}

func isConstLike(v ssa.Value) bool {
	_, ok := v.(*ssa.Const)
	return ok
}

// onlyCalledOnWalkLeaves: f is a helper introduced since the baseline and at
// every call site it is handed the parameter of a function literal that is
// passed to GeometryCollection.walk — a leaf, never a collection.
func onlyCalledOnWalkLeaves(c *Ctx, f *ssa.Function) bool {
	if f == nil || !isNewHelper(f) {
		return false
	}
	sites := c.P.callSitesOf(f)
	if len(sites) == 0 {
		return false
	}
	gcTag := int64(-1)
	if o, ok := c.P.Pkgs["geom"].Types.Scope().Lookup("TypeGeometryCollection").(*types.Const); ok {
		gcTag, _ = constIntVal(o)
	}
	for _, s := range sites {
		// … or the argument is known not to be a collection where the call is made
		guarded := false
		for _, g := range guardsAt(s) {
			switch x := g.Cond.(type) {
			case *ssa.BinOp:
				k, isC := constInt(x.Y)
				call, isCall := x.X.(*ssa.Call)
				if isC && isCall && k == gcTag && strings.HasSuffix(calleeName(call), ").Type") && len(call.Call.Args) == 1 {
					for _, a := range s.Common().Args {
						if a == call.Call.Args[0] || sameValue(a, call.Call.Args[0]) {
							if (x.Op == token.NEQ && g.Truth) || (x.Op == token.EQL && !g.Truth) {
								guarded = true
							}
						}
					}
				}
			case *ssa.Call:
				if calleeName(x) == "geom.(Geometry).IsGeometryCollection" && !g.Truth && len(x.Call.Args) == 1 {
					for _, a := range s.Common().Args {
						if a == x.Call.Args[0] || sameValue(a, x.Call.Args[0]) {
							guarded = true
						}
					}
				}
			}
		}
		if guarded {
			continue
		}
		lit := s.Parent()
		if lit.Parent() == nil || len(lit.Params) == 0 {
			return false
		}
		isWalkLit := false
		eachCall(lit.Parent(), func(pc ssa.CallInstruction) {
			if strings.HasSuffix(calleeName(pc), ").walk") {
				for _, a := range pc.Common().Args {
					if mc, ok := a.(*ssa.MakeClosure); ok && mc.Fn == ssa.Value(lit) {
						isWalkLit = true
					}
				}
			}
		})
		if !isWalkLit {
			return false
		}
		handsLeaf := false
		for _, a := range s.Common().Args {
			if stripLoad(a) == ssa.Value(lit.Params[0]) {
				handsLeaf = true
			}
		}
		if !handsLeaf {
			return false
		}
	}
	return true
}

// sentinelMinMax recognises `if acc == S || x < acc { acc = x }` (or >): a running minimum
// / maximum whose "nothing yet" state is the constant S the accumulator starts from. Every
// way into the assigning block is either the comparison of x with the accumulator or the
// test of the accumulator against S, and x itself can never equal S there (integer
// bounds), so S is not confused with an element. The result is the extreme of the
// elements, whatever the order they come in.
func sentinelMinMax(phi *ssa.Phi, lf ssa.Value, inLoop func(*ssa.BasicBlock) bool) bool {
	ok, _, _ := sentinelMinMaxDir(phi, lf, inLoop)
	return ok
}

// sentinelMinMaxDir also tells whether the idiom keeps the minimum, and the smallest
// element value admitted to it (when the elements are filtered by a lower bound only).
func sentinelMinMaxDir(phi *ssa.Phi, lf ssa.Value, inLoop func(*ssa.BasicBlock) bool) (isIdiom, isMin bool, admitsFrom int64) {
	// the accumulator's value before the loop
	var init *ssa.Const
	for i, e := range phi.Edges {
		if inLoop(phi.Block().Preds[i]) {
			continue
		}
		k, ok := e.(*ssa.Const)
		if !ok || init != nil {
			return false, false, 0
		}
		init = k
	}
	sent, ok := constInt(init)
	if init == nil || !ok {
		return false, false, 0
	}
	found := false
	mins, maxs := 0, 0
	admits := int64(0)
	var entersWith func(b *ssa.BasicBlock, v ssa.Value, d int) []*ssa.BasicBlock
	// blocks from which the value lf is carried towards the header phi
	entersWith = func(b *ssa.BasicBlock, v ssa.Value, d int) []*ssa.BasicBlock {
		var out []*ssa.BasicBlock
		p2, ok := v.(*ssa.Phi)
		if !ok || d > 4 {
			return nil
		}
		for i, e := range p2.Edges {
			pred := p2.Block().Preds[i]
			if !inLoop(pred) {
				continue
			}
			if e == lf {
				out = append(out, pred)
			} else if _, isPhi := e.(*ssa.Phi); isPhi && e != ssa.Value(phi) {
				out = append(out, entersWith(pred, e, d+1)...)
			}
		}
		return out
	}
	for _, ab := range entersWith(phi.Block(), phi, 0) {
		// ab carries acc = x; it must do nothing else, and be entered only through
		// the two kinds of test
		if len(ab.Instrs) != 1 || len(ab.Preds) == 0 {
			return false, false, 0
		}
		cmp := 0
		for _, q := range ab.Preds {
			iff, ok := q.Instrs[len(q.Instrs)-1].(*ssa.If)
			if !ok {
				return false, false, 0
			}
			bo, ok := iff.Cond.(*ssa.BinOp)
			if !ok {
				return false, false, 0
			}
			onTrue := q.Succs[0] == ab
			if q.Succs[0] == q.Succs[1] {
				return false, false, 0
			}
			switch bo.Op {
			case token.LSS, token.LEQ, token.GTR, token.GEQ:
				if !onTrue {
					return false, false, 0
				}
				if (sameQuantity(bo.X, lf) && stripConv(bo.Y) == ssa.Value(phi)) || (sameQuantity(bo.Y, lf) && stripConv(bo.X) == ssa.Value(phi)) {
					cmp++
					less := bo.Op == token.LSS || bo.Op == token.LEQ
					if less == sameQuantity(bo.X, lf) {
						mins++
					} else {
						maxs++
					}
					continue
				}
				return false, false, 0
			case token.EQL, token.NEQ:
				if onTrue != (bo.Op == token.EQL) {
					return false, false, 0
				}
				var other ssa.Value
				switch {
				case stripConv(bo.X) == ssa.Value(phi):
					other = bo.Y
				case stripConv(bo.Y) == ssa.Value(phi):
					other = bo.X
				default:
					return false, false, 0
				}
				if k, ok := constInt(stripConv(other)); !ok || k != sent {
					return false, false, 0
				}
			default:
				return false, false, 0
			}
		}
		if cmp == 0 {
			return false, false, 0
		}
		// x can never be the sentinel
		lo, hi, hasLo, hasHi := intBounds(ab.Instrs[0], lf)
		if !(hasLo && lo > sent) && !(hasHi && hi < sent) {
			return false, false, 0
		}
		if hasLo && !hasHi {
			admits = lo
		} else {
			admits = -1 << 62
		}
		// "admits from lo" only when nothing else filters the elements: every test
		// inside the loop that the assignment depends on compares x with a constant
		for _, g := range guardsAt(ab.Instrs[0]) {
			gi, isIn := g.Cond.(ssa.Instruction)
			if !isIn || gi.Block() == phi.Block() || !inLoop(gi.Block()) {
				continue
			}
			bo, isBo := g.Cond.(*ssa.BinOp)
			plain := false
			if isBo {
				_, kx := constInt(stripConv(bo.X))
				_, ky := constInt(stripConv(bo.Y))
				plain = (sameQuantity(bo.X, lf) && ky) || (sameQuantity(bo.Y, lf) && kx)
			}
			if !plain {
				admits = -1 << 62
			}
		}
		found = true
	}
	if mins > 0 && maxs > 0 {
		return false, false, 0
	}
	return found, mins > 0, admits
}
