package main

import (
	"fmt"
	"go/token"
	"go/types"
	"sort"
	"strings"

	"golang.org/x/tools/go/ssa"
)

func init() {
	register(&Rule{
		ID:    "C18.optset",
		Props: []string{"C18", "C14", "C07"},
		Doc:   "functional options compose: (a) an option that receives a pointer to the option set writes individual fields only — a store of a whole struct through the pointer discards what earlier options set; (b) an option that receives the option set by value returns that value (with fields updated), never a fresh literal; (c) where options are applied in a loop, defaults are assigned before the loop: after it, no field of the option set is re-assigned under a test of that field's own value against a constant (a zero-value sentinel cannot tell an explicit 0 from 'not set')",
		Floor: 9,
		Run:   runC18Optset,
	})
}

// optionTypes: named func types of the repository with exactly one parameter
// that is (a pointer to) a repository struct: the functional-option idiom.
func optionTypes(p *Program) []*types.Named {
	var out []*types.Named
	for _, pkn := range []string{"geom", "rtree", "carto"} {
		pk := p.Pkgs[pkn]
		if pk == nil {
			continue
		}
		scope := pk.Types.Scope()
		for _, n := range scope.Names() {
			tn, ok := scope.Lookup(n).(*types.TypeName)
			if !ok {
				continue
			}
			nt, ok := tn.Type().(*types.Named)
			if !ok {
				continue
			}
			sig, ok := nt.Underlying().(*types.Signature)
			if !ok || sig.Params().Len() != 1 {
				continue
			}
			pt := sig.Params().At(0).Type()
			if _, isStruct := deref(pt).Underlying().(*types.Struct); !isStruct {
				continue
			}
			if named, ok := deref(pt).(*types.Named); !ok || named.Obj().Pkg() != pk.Types {
				continue
			}
			out = append(out, nt)
		}
	}
	sort.Slice(out, func(i, j int) bool { return out[i].Obj().Name() < out[j].Obj().Name() })
	return out
}

func runC18Optset(c *Ctx) {
	ots := optionTypes(c.P)
	if len(ots) < 3 {
		c.Errorf("only %d functional-option types found, expected 3 (ExactEqualsOption, TWKBWriterOption, AreaOption)", len(ots))
	}
	for _, ot := range ots {
		sig := ot.Underlying().(*types.Signature)
		byPtr := false
		if _, ok := sig.Params().At(0).Type().(*types.Pointer); ok {
			byPtr = true
		}
		setT := deref(sig.Params().At(0).Type())
		nOpts := 0
		for _, f := range c.P.Funcs {
			if f.Signature.Recv() != nil || !types.Identical(f.Signature, sig) {
				continue
			}
			// an option body: a closure made inside a function returning the option
			// type, or a top-level function of that signature defined next to it
			if f.Parent() != nil {
				if res := f.Parent().Signature.Results(); res.Len() != 1 || !types.Identical(res.At(0).Type(), ot) {
					continue
				}
			} else if !token.IsExported(f.Name()) {
				continue
			}
			nOpts++
			fn := FuncName(f)
			par := f.Params[0]
			if byPtr {
				bad := ""
				eachInstr(f, func(in ssa.Instruction) {
					st, ok := in.(*ssa.Store)
					if !ok {
						return
					}
					if st.Addr == ssa.Value(par) {
						bad = "stores a whole " + typeShort(setT) + " through the option-set pointer at " + c.P.Pos(st.Pos())
					}
				})
				c.Check(bad == "", f.Pos(), fn, "option writes its own fields only", "only field stores through the option-set pointer", bad+": every option applied before this one is discarded")
				continue
			}
			// by value: each return is the parameter's cell
			bad := ""
			for _, r := range returnsOf(f) {
				if len(r.Results) != 1 {
					continue
				}
				if !derivesFromParam(r.Results[0], par) {
					bad = "returns a value that is not the received option set (a fresh literal) at " + c.P.Pos(r.Pos())
				}
			}
			c.Check(bad == "", f.Pos(), fn, "option returns the received set", "the returned option set is the received one with fields updated", bad+": every option applied before this one is discarded")
		}
		if nOpts == 0 {
			c.Errorf("no option functions found for %s", ot.Obj().Name())
		}
		// (c) application sites: loops calling a value of the option type
		for _, f := range c.P.Funcs {
			var applyBlocks []*ssa.BasicBlock
			var setCell ssa.Value
			eachCall(f, func(ci ssa.CallInstruction) {
				cc := ci.Common()
				if cc.IsInvoke() || staticCallee(ci) != nil {
					return
				}
				if !types.Identical(cc.Value.Type(), ot) || len(cc.Args) != 1 {
					return
				}
				applyBlocks = append(applyBlocks, ci.Block())
				setCell = cc.Args[0]
			})
			if len(applyBlocks) == 0 {
				continue
			}
			fn := FuncName(f)
			// stores to fields of the option set in blocks that the application
			// loop dominates-or-precedes: "after" = reachable from the apply block
			// and not able to reach it again
			bad := ""
			n := 0
			eachInstr(f, func(in ssa.Instruction) {
				st, ok := in.(*ssa.Store)
				if !ok {
					return
				}
				fa, ok := st.Addr.(*ssa.FieldAddr)
				if !ok || !types.Identical(deref(fa.X.Type()), setT) {
					return
				}
				if byPtr && setCell != nil && fa.X != setCell {
					return
				}
				after := false
				for _, ab := range applyBlocks {
					if reaches(ab, st.Block(), nil) && !reaches(st.Block(), ab, nil) {
						after = true
					}
				}
				if !after {
					return
				}
				n++
				// guarded by a test of the same field against a constant?
				for _, g := range guardsAt(st) {
					bo, ok := g.Cond.(*ssa.BinOp)
					if !ok {
						continue
					}
					if _, isC := bo.Y.(*ssa.Const); !isC {
						continue
					}
					if ld, ok := bo.X.(*ssa.UnOp); ok && ld.Op == token.MUL {
						if fa2, ok := ld.X.(*ssa.FieldAddr); ok && fa2.Field == fa.Field && types.Identical(deref(fa2.X.Type()), setT) {
							bad = fmt.Sprintf("field %s is re-assigned after the options were applied, under a test of its own value (%s) at %s", fieldName(fa.X.Type(), fa.Field), strings.TrimSpace(bo.Op.String()), c.P.Pos(st.Pos()))
						}
					}
				}
			})
			c.Check(bad == "", f.Pos(), fn, "defaults precede options ("+ot.Obj().Name()+")", fmt.Sprintf("no sentinel-guarded re-assignment of an option field after the application loop (%d later stores inspected)", n), bad+": an explicitly requested value equal to the sentinel is silently replaced by the default")
		}
	}
}

// derivesFromParam: v is the parameter itself or a load of the cell the
// parameter was spilled into (the idiom for `c.field = x; return c`).
func derivesFromParam(v ssa.Value, par *ssa.Parameter) bool {
	if v == ssa.Value(par) {
		return true
	}
	if ld, ok := v.(*ssa.UnOp); ok && ld.Op == token.MUL {
		if al, ok := ld.X.(*ssa.Alloc); ok {
			for _, r := range *al.Referrers() {
				if st, ok := r.(*ssa.Store); ok && st.Addr == ssa.Value(al) {
					if st.Val != ssa.Value(par) {
						return false // the cell is overwritten wholesale by something else
					}
				}
			}
			for _, r := range *al.Referrers() {
				if st, ok := r.(*ssa.Store); ok && st.Addr == ssa.Value(al) && st.Val == ssa.Value(par) {
					return true
				}
			}
		}
	}
	if phi, ok := v.(*ssa.Phi); ok {
		for _, e := range phi.Edges {
			if !derivesFromParam(e, par) {
				return false
			}
		}
		return len(phi.Edges) > 0
	}
	return false
}

func init() {
	register(&Rule{
		ID:    "C03.forall",
		Props: []string{"C03", "C08", "C06"},
		Doc:   "universal checks visit every member: in a function that returns an error, a loop over the members of a geometry (slice of rings/points/polygons/geometries/JSON children, or i < NumX()) in whose body an error can be returned is a 'for all members' check — it may be left early only by returning a non-nil error; a break or a nil return out of it (e.g. 'first member was conclusive') lets the remaining members go unchecked, so the verdict depends on member order",
		Floor: 10,
		Run:   runC03Forall,
	})
}

// naturalLoop: the blocks of the loop with header h (nil when h is no header).
func naturalLoop(h *ssa.BasicBlock) map[*ssa.BasicBlock]bool {
	var tails []*ssa.BasicBlock
	for _, p := range h.Preds {
		if h.Dominates(p) {
			tails = append(tails, p)
		}
	}
	if len(tails) == 0 {
		return nil
	}
	loop := map[*ssa.BasicBlock]bool{h: true}
	work := tails
	for len(work) > 0 {
		b := work[len(work)-1]
		work = work[:len(work)-1]
		if loop[b] {
			continue
		}
		loop[b] = true
		work = append(work, b.Preds...)
	}
	return loop
}

// memberElemType: t is a type whose values are members of a geometry.
func memberElemType(t types.Type) bool {
	switch typeShort(t) {
	case "LineString", "Polygon", "Point", "Geometry", "MultiPoint", "MultiLineString", "MultiPolygon", "GeometryCollection", "GeoJSONFeature":
		return true
	}
	if it, ok := t.Underlying().(*types.Interface); ok && it.Empty() {
		return true
	}
	return false
}

// loopOverMembers: header h tests `i < len(S)` with S a slice of member type,
// or `i < X.NumY()`.
func loopOverMembers(h *ssa.BasicBlock) (string, bool) {
	if memberLoop(h) {
		return "i < NumX()", true
	}
	if len(h.Instrs) == 0 {
		return "", false
	}
	ifi, ok := h.Instrs[len(h.Instrs)-1].(*ssa.If)
	if !ok {
		return "", false
	}
	bo, ok := ifi.Cond.(*ssa.BinOp)
	if !ok || bo.Op != token.LSS {
		return "", false
	}
	call, ok := bo.Y.(*ssa.Call)
	if !ok {
		return "", false
	}
	if b, isB := call.Call.Value.(*ssa.Builtin); !isB || b.Name() != "len" {
		return "", false
	}
	st, ok := call.Call.Args[0].Type().Underlying().(*types.Slice)
	if !ok || !memberElemType(st.Elem()) {
		return "", false
	}
	return "range over []" + typeShort(st.Elem()), true
}

func runC03Forall(c *Ctx) {
	n := 0
	for _, f := range c.P.Funcs {
		if pkgOf(f) != "geom" {
			continue
		}
		res := f.Signature.Results()
		if res.Len() == 0 || !isErrorType(res.At(res.Len()-1).Type()) {
			continue
		}
		fn := FuncName(f)
		for _, h := range f.Blocks {
			what, ok := loopOverMembers(h)
			if !ok {
				continue
			}
			loop := naturalLoop(h)
			if loop == nil {
				continue
			}
			// only outermost member loops: skip when nested in another member loop of f
			// (the inner one is judged on its own exits too — a break of an inner loop
			// that stays inside the outer loop is not an exit of the outer loop)
			errInBody := false
			for b := range loop {
				for _, s := range b.Succs {
					if !loop[s] {
						if r := returnAfter(s); r != nil && !isNilConst(r.Results[len(r.Results)-1]) {
							errInBody = true
						}
					}
				}
			}
			if !errInBody {
				continue
			}
			n++
			bad := ""
			for b := range loop {
				if b == h {
					continue
				}
				for _, s := range b.Succs {
					if loop[s] {
						continue
					}
					// an exit edge from inside the body
					r := returnAfter(s)
					isRet := r != nil
					if isRet && provablyNonNilErr(r) {
						continue
					}
					if isRet && !isNilConst(r.Results[len(r.Results)-1]) {
						// returns an error value we cannot prove non-nil: accept when the exit edge itself is `err != nil`
						if ifi, ok := b.Instrs[len(b.Instrs)-1].(*ssa.If); ok {
							if bo, ok := ifi.Cond.(*ssa.BinOp); ok && isErrorType(bo.X.Type()) && isNilConst(bo.Y) {
								if (bo.Op == token.NEQ && b.Succs[0] == s) || (bo.Op == token.EQL && b.Succs[1] == s) {
									continue
								}
							}
						}
					}
					// panics are not exits
					if _, isPanic := s.Instrs[len(s.Instrs)-1].(*ssa.Panic); isPanic {
						continue
					}
					pos := firstPos(s)
					if !pos.IsValid() {
						pos = firstPos(b)
					}
					bad = "left early without an error at " + c.P.Pos(pos)
				}
			}
			lpos := firstPos(h)
			for _, b := range f.Blocks {
				if !lpos.IsValid() && loop[b] {
					lpos = firstPos(b)
				}
			}
			c.Check(bad == "", lpos, fn, "for-all loop ("+what+")", "left only at the end or with an error", "a loop that checks every member is "+bad+": the members after that point are never checked")
		}
	}
	if n < 10 {
		c.Errorf("only %d for-all member loops found, expected >= 10", n)
	}
}

// returnAfter: the Return reached from b through blocks with a single
// successor (straight-line code), or nil.
func returnAfter(b *ssa.BasicBlock) *ssa.Return {
	for i := 0; i < 4 && b != nil; i++ {
		if r, ok := b.Instrs[len(b.Instrs)-1].(*ssa.Return); ok {
			return r
		}
		if len(b.Succs) != 1 {
			return nil
		}
		b = b.Succs[0]
	}
	return nil
}

func init() {
	register(&Rule{
		ID:    "C16.coords",
		Props: []string{"C16", "C20"},
		Doc:   "the coordinate-list constructors (NewXxxXYZ… through the *FromCoords helpers) type every result by the requested coordinates type: on every return, the geometry is forced to / built from the ctype parameter, or built by a constructor over a list that is provably non-empty with members typed by it — an empty member (nil coordinate list) built by a bare constructor is XY and, through the constructors' AND-fold, strips Z/M from its siblings",
		Floor: 6,
		Run: func(c *Ctx) {
			var set []*ssa.Function
			for _, f := range c.P.Funcs {
				if pkgOf(f) != "geom" || f.Parent() != nil || f.Signature.Recv() != nil {
					continue
				}
				if !strings.Contains(c.P.File(f.Pos()), "ctor_from_coords.go") {
					continue
				}
				has := false
				for _, p := range f.Params {
					if namedName(p.Type()) == "CoordinatesType" {
						has = true
					}
				}
				if has {
					set = append(set, f)
				}
			}
			if len(set) < 6 {
				c.Errorf("only %d coordinate-list helper constructors found, expected 6", len(set))
			}
			isSrc := func(v ssa.Value) bool {
				p, ok := v.(*ssa.Parameter)
				return ok && namedName(p.Type()) == "CoordinatesType"
			}
			ctypeFlowStrictMembers = true
			defer func() { ctypeFlowStrictMembers = false }()
			checkCtypeFlow(c, set, isSrc, "the ctype parameter")
		},
	})
}

func init() {
	register(&Rule{
		ID:    "C12.join",
		Props: []string{"C12", "C20"},
		Doc:   "the envelope of a collection is the join of its members' envelopes with empty members as identity: MultiPoint/MultiLineString/MultiPolygon/GeometryCollection.Envelope interpreted on 2 members over every combination of member emptiness and of lattice positions of the member boxes return empty iff all members are empty and otherwise exactly the per-axis min of the non-empty members' mins and max of their maxes (an empty member contributes nothing — in particular not the origin); Point.Envelope is empty for the empty point and the degenerate box at its XY otherwise; Polygon.Envelope is the envelope of the exterior ring",
		Floor: 6,
		Run:   runC12Join,
	})
}

func runC12Join(c *Ctx) {
	inl := func(g *ssa.Function) bool {
		switch FuncName(g) {
		case "geom.(Envelope).ExpandToIncludeEnvelope", "geom.(Envelope).ExpandToIncludeXY", "geom.(Envelope).IsEmpty", "geom.fastMin", "geom.fastMax", "geom.newUncheckedEnvelope", "geom.NewEnvelope":
			return true
		}
		return false
	}
	for _, tc := range []struct{ fn, field string }{
		{"geom.(MultiPoint).Envelope", "points"},
		{"geom.(MultiLineString).Envelope", "lines"},
		{"geom.(MultiPolygon).Envelope", "polys"},
		{"geom.(GeometryCollection).Envelope", "geoms"},
	} {
		f := c.P.Func(tc.fn)
		if f == nil {
			c.Errorf("anchor %s does not resolve", tc.fn)
			continue
		}
		// the member slice: the (only) slice-typed field of the receiver
		field := ""
		if st, ok := f.Params[0].Type().Underlying().(*types.Struct); ok {
			for i := 0; i < st.NumFields(); i++ {
				if _, isSl := st.Field(i).Type().Underlying().(*types.Slice); isSl {
					field = canonFieldName(st.Field(i))
				}
			}
		}
		if field == "" {
			c.Errorf("%s: member list field not found", tc.fn)
			continue
		}
		problem, undec := "", ""
		models := 0
		for mask := 0; mask < 1024 && problem == "" && undec == ""; mask++ {
			// bits 0..7: coordinates (min in {0,1}, max = min + {0,1}); bits 8,9: non-empty flags
			var box [2][4]float64
			for k := 0; k < 2; k++ {
				b := (mask >> uint(4*k)) & 15
				box[k][0] = float64(b & 1)                // min.X
				box[k][1] = float64((b >> 1) & 1)         // min.Y
				box[k][2] = box[k][0] + float64((b>>2)&1) // max.X
				box[k][3] = box[k][1] + float64((b>>3)&1) // max.Y
			}
			ne := [2]bool{mask&256 != 0, mask&512 != 0}
			models++
			m := &Model{Num: map[string]float64{}, Bool: map[string]bool{}, Missing: map[string]bool{}}
			it := &k4interp{p: c.P, m: m, mem: map[string]k4val{}, inline: inl}
			it.mem["$0."+field] = k4val{kind: 8, s: "MEM", ln: 2, cp: 2}
			idx := map[string]int{}
			nCalls := 0
			it.onOpaque = func(name string, args []k4val) {
				if strings.HasSuffix(name, ").Envelope") && len(args) == 1 {
					k := name + "(" + args[0].String() + ")"
					if _, ok := idx[k]; !ok {
						idx[k] = nCalls
						nCalls++
					}
				}
			}
			it.answer = func(key string, isBool bool) (k4val, bool) {
				for k, i := range idx {
					if !strings.HasPrefix(key, k) || i > 1 {
						continue
					}
					rest := key[len(k):]
					switch rest {
					case ".nonEmpty":
						return k4val{kind: 1, b: ne[i]}, isBool
					case ".min.X":
						return k4val{kind: 2, f: box[i][0]}, !isBool
					case ".min.Y":
						return k4val{kind: 2, f: box[i][1]}, !isBool
					case ".max.X":
						return k4val{kind: 2, f: box[i][2]}, !isBool
					case ".max.Y":
						return k4val{kind: 2, f: box[i][3]}, !isBool
					}
				}
				return k4val{}, false
			}
			res, err := it.call(f, []k4val{{kind: 3, s: "$0"}}, nil)
			if err != nil || len(res) != 1 || res[0].kind != 3 {
				undec = fmt.Sprintf("%v %v %s", err, res, missingList(m))
				break
			}
			if nCalls != 2 {
				problem = fmt.Sprintf("the envelopes of %d members are consulted, the collection has 2", nCalls)
				break
			}
			env := res[0].s
			gb := func(p string) (bool, bool) { v, err := it.lookup(env+p, boolT); return v.b, err == nil && v.kind == 1 }
			gn := func(p string) (float64, bool) {
				v, err := it.lookup(env+p, nil0)
				return v.f, err == nil && v.kind == 2
			}
			wantNE := ne[0] || ne[1]
			gotNE, ok := gb(".nonEmpty")
			desc := fmt.Sprintf("members with envelopes %s and %s", boxStr(ne[0], box[0]), boxStr(ne[1], box[1]))
			if !ok || gotNE != wantNE {
				problem = fmt.Sprintf("for %s the collection's envelope has nonEmpty=%v, expected %v", desc, gotNE, wantNE)
				break
			}
			if !wantNE {
				continue
			}
			want := [4]float64{2, 2, -1, -1}
			for k := 0; k < 2; k++ {
				if ne[k] {
					want[0], want[1] = min2(want[0], box[k][0]), min2(want[1], box[k][1])
					want[2], want[3] = max2(want[2], box[k][2]), max2(want[3], box[k][3])
				}
			}
			for j, p := range []string{".min.X", ".min.Y", ".max.X", ".max.Y"} {
				got, ok := gn(p)
				if !ok || got != want[j] {
					problem = fmt.Sprintf("for %s the collection's envelope has %s = %v, expected %v (join of the non-empty members only)", desc, p[1:], got, want[j])
					break
				}
			}
		}
		reportK4(c, f, "join of member envelopes", undec, problem, fmt.Sprintf("empty iff all members empty, else per-axis min/max over the non-empty members, in all %d models", models))
	}

	// Point.Envelope
	if f := c.P.Func("geom.(Point).Envelope"); f == nil {
		c.Errorf("anchor geom.(Point).Envelope does not resolve")
	} else {
		problem, undec := "", ""
		for _, full := range []bool{false, true} {
			m := &Model{Num: map[string]float64{"$0.coords.XY.X": 3, "$0.coords.XY.Y": 5}, Bool: map[string]bool{"$0.full": full}, Missing: map[string]bool{}}
			it := &k4interp{p: c.P, m: m, mem: map[string]k4val{}, inline: func(g *ssa.Function) bool {
				return inl(g) || FuncName(g) == "geom.(Point).XY"
			}}
			res, err := it.call(f, []k4val{{kind: 3, s: "$0"}}, nil)
			if err != nil || len(res) != 1 {
				undec = fmt.Sprintf("%v %v %s", err, res, missingList(m))
				break
			}
			env := res[0].s
			ne, _ := it.lookup(env+".nonEmpty", boolT)
			if res[0].s == "zero" {
				ne = k4val{kind: 1, b: false}
			}
			if ne.b != full {
				problem = fmt.Sprintf("a point with full=%v has an envelope with nonEmpty=%v", full, ne.b)
				break
			}
			if full {
				for p, w := range map[string]float64{".min.X": 3, ".max.X": 3, ".min.Y": 5, ".max.Y": 5} {
					if v, err := it.lookup(env+p, nil0); err != nil || v.f != w {
						problem = fmt.Sprintf("the envelope of POINT(3 5) has %s = %v", p[1:], v.f)
					}
				}
			}
		}
		reportK4(c, f, "envelope of a point", undec, problem, "empty for the empty point, the degenerate box at its XY otherwise")
	}

	// Polygon.Envelope: envelope of the exterior ring
	if f := c.P.Func("geom.(Polygon).Envelope"); f == nil {
		c.Errorf("anchor geom.(Polygon).Envelope does not resolve")
	} else {
		m := &Model{Num: map[string]float64{}, Bool: map[string]bool{}, Missing: map[string]bool{}}
		it := &k4interp{p: c.P, m: m, mem: map[string]k4val{}}
		res, err := it.call(f, []k4val{{kind: 3, s: "$0"}}, nil)
		got := ""
		if err == nil && len(res) == 1 {
			got = res[0].String()
		}
		want := "geom.(LineString).Envelope(geom.(Polygon).ExteriorRing($0))"
		c.Check(got == want, f.Pos(), FuncName(f), "envelope of a polygon", "the envelope of its exterior ring", fmt.Sprintf("Polygon.Envelope returns %s (%v), expected %s: holes lie inside the shell, and nothing else bounds the polygon", trunc(got), err, want))
	}
}

func boxStr(ne bool, b [4]float64) string {
	if !ne {
		return "EMPTY"
	}
	return fmt.Sprintf("[%v %v, %v %v]", b[0], b[1], b[2], b[3])
}

func init() {
	register(&Rule{
		ID:    "C06.reset",
		Props: []string{"C06", "C10", "C08"},
		Doc:   "decoding into an existing value replaces it: every UnmarshalJSON / Scan method with a pointer receiver assigns the whole destination (`*recv = decoded`) on every path to a nil-error return, and never hands the address of a field of the destination to a decoder — field-by-field assignment leaves fields of a previous document behind when a member is absent, and encoding/json merges into existing maps",
		Floor: 10,
		Run:   runC06Reset,
	})
}

func runC06Reset(c *Ctx) {
	n := 0
	for _, f := range c.P.Funcs {
		if pkgOf(f) != "geom" || f.Parent() != nil || f.Signature.Recv() == nil {
			continue
		}
		if f.Name() != "UnmarshalJSON" && f.Name() != "Scan" {
			continue
		}
		if _, isPtr := f.Signature.Recv().Type().(*types.Pointer); !isPtr {
			continue
		}
		n++
		fn := FuncName(f)
		recv := f.Params[0]
		// blocks that overwrite the destination: a whole store through the
		// receiver, or stores to every field of it in one block
		st, _ := deref(recv.Type()).Underlying().(*types.Struct)
		overwrites := map[*ssa.BasicBlock]bool{}
		fieldAddrEscapes := ""
		for _, b := range f.Blocks {
			fields := map[int]bool{}
			for _, in := range b.Instrs {
				switch x := in.(type) {
				case *ssa.Store:
					if x.Addr == ssa.Value(recv) {
						overwrites[b] = true
					}
					if fa, ok := x.Addr.(*ssa.FieldAddr); ok && fa.X == ssa.Value(recv) {
						fields[fa.Field] = true
					}
				case *ssa.Call:
					for _, a := range x.Call.Args {
						v := a
						if mi, ok := v.(*ssa.MakeInterface); ok {
							v = mi.X
						}
						if cal := staticCallee(x); cal != nil && pkgOf(cal) == "geom" && (cal.Name() == "Scan" || cal.Name() == "UnmarshalJSON") {
							continue // a decoder method of the repository: replaces its destination (checked as its own instance)
						}
						if fa, ok := v.(*ssa.FieldAddr); ok && fa.X == ssa.Value(recv) {
							fieldAddrEscapes = "the address of field " + fieldName(recv.Type(), fa.Field) + " of the destination is passed to " + calleeName(x) + " at " + c.P.Pos(x.Pos())
						}
					}
				}
			}
			if st != nil && len(fields) == st.NumFields() && st.NumFields() > 0 {
				overwrites[b] = true
			}
		}
		// is a nil-error return reachable without passing an overwriting block?
		seen := map[*ssa.BasicBlock]bool{}
		var work []*ssa.BasicBlock
		if !overwrites[f.Blocks[0]] {
			work = append(work, f.Blocks[0])
			seen[f.Blocks[0]] = true
		}
		bad := ""
		for len(work) > 0 {
			b := work[len(work)-1]
			work = work[:len(work)-1]
			if r, ok := b.Instrs[len(b.Instrs)-1].(*ssa.Return); ok {
				if isNilConst(r.Results[len(r.Results)-1]) {
					bad = "the nil-error return at " + c.P.Pos(r.Pos()) + " can be reached without assigning the whole destination"
				}
			}
			for _, s := range b.Succs {
				if !seen[s] && !overwrites[s] {
					seen[s] = true
					work = append(work, s)
				}
			}
		}
		switch {
		case fieldAddrEscapes != "":
			c.Bad(f.Pos(), fn, "destination replaced", fieldAddrEscapes+": the decoder merges into what a previous document left there")
		case bad != "":
			c.Bad(f.Pos(), fn, "destination replaced", bad+": fields of a previously decoded value survive")
		default:
			c.OK(f.Pos(), fn, "destination replaced", "every successful path assigns the whole destination; no field address escapes to a decoder")
		}
	}
	if n < 10 {
		c.Errorf("only %d UnmarshalJSON/Scan methods with pointer receivers found, expected >= 12", n)
	}
}
