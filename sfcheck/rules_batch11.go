package main

import (
	"fmt"
	"go/token"
	"go/types"
	"os"
	"sort"
	"strings"

	"golang.org/x/tools/go/ssa"
)

func init() {
	register(&Rule{
		ID:    "C18.optset",
		Props: []string{"C18", "C14", "C07"},
		Doc:   "functional options compose: (a) an option that receives a pointer to the option set writes individual fields only — a store of a whole struct through the pointer discards what earlier options set; (b) an option that receives the option set by value returns that value (with fields updated), never a fresh literal; (c) where options are applied in a loop, defaults are assigned before the loop: after it, no field of the option set is re-assigned under a test of that field's own value against a constant (a zero-value sentinel cannot tell an explicit 0 from 'not set')",
		Floor: 9,
		Run:   runC18Optset,
	})
}

// optionTypes: named func types of the repository with exactly one parameter
// that is (a pointer to) a repository struct: the functional-option idiom.
func optionTypes(p *Program) []*types.Named {
	var out []*types.Named
	for _, pkn := range []string{"geom", "rtree", "carto"} {
		pk := p.Pkgs[pkn]
		if pk == nil {
			continue
		}
		scope := pk.Types.Scope()
		for _, n := range scope.Names() {
			tn, ok := scope.Lookup(n).(*types.TypeName)
			if !ok {
				continue
			}
			nt, ok := tn.Type().(*types.Named)
			if !ok {
				continue
			}
			sig, ok := nt.Underlying().(*types.Signature)
			if !ok || sig.Params().Len() != 1 {
				continue
			}
			pt := sig.Params().At(0).Type()
			if _, isStruct := deref(pt).Underlying().(*types.Struct); !isStruct {
				continue
			}
			if named, ok := deref(pt).(*types.Named); !ok || named.Obj().Pkg() != pk.Types {
				continue
			}
			out = append(out, nt)
		}
	}
	sort.Slice(out, func(i, j int) bool { return out[i].Obj().Name() < out[j].Obj().Name() })
	return out
}

func runC18Optset(c *Ctx) {
	ots := optionTypes(c.P)
	if len(ots) < 3 {
		c.Errorf("only %d functional-option types found, expected 3 (ExactEqualsOption, TWKBWriterOption, AreaOption)", len(ots))
	}
	for _, ot := range ots {
		sig := ot.Underlying().(*types.Signature)
		byPtr := false
		if _, ok := sig.Params().At(0).Type().(*types.Pointer); ok {
			byPtr = true
		}
		setT := deref(sig.Params().At(0).Type())
		nOpts := 0
		for _, f := range c.P.Funcs {
			if f.Signature.Recv() != nil || !types.Identical(f.Signature, sig) {
				continue
			}
			// an option body: a closure made inside a function returning the option
			// type, or a top-level function of that signature defined next to it
			if f.Parent() != nil {
				if res := f.Parent().Signature.Results(); res.Len() != 1 || !types.Identical(res.At(0).Type(), ot) {
					continue
				}
			} else if !token.IsExported(f.Name()) {
				continue
			}
			nOpts++
			fn := FuncName(f)
			par := f.Params[0]
			if byPtr {
				bad := ""
				eachInstr(f, func(in ssa.Instruction) {
					st, ok := in.(*ssa.Store)
					if !ok {
						return
					}
					if st.Addr == ssa.Value(par) {
						bad = "stores a whole " + typeShort(setT) + " through the option-set pointer at " + c.P.Pos(st.Pos())
					}
				})
				c.Check(bad == "", f.Pos(), fn, "option writes its own fields only", "only field stores through the option-set pointer", bad+": every option applied before this one is discarded")
				continue
			}
			// by value: each return is the parameter's cell
			bad := ""
			for _, r := range returnsOf(f) {
				if len(r.Results) != 1 {
					continue
				}
				if !derivesFromParam(r.Results[0], par) {
					bad = "returns a value that is not the received option set (a fresh literal) at " + c.P.Pos(r.Pos())
				}
			}
			c.Check(bad == "", f.Pos(), fn, "option returns the received set", "the returned option set is the received one with fields updated", bad+": every option applied before this one is discarded")
		}
		if nOpts == 0 {
			c.Errorf("no option functions found for %s", ot.Obj().Name())
		}
		// (c) application sites: loops calling a value of the option type
		for _, f := range c.P.Funcs {
			var applyBlocks []*ssa.BasicBlock
			var setCell ssa.Value
			eachCall(f, func(ci ssa.CallInstruction) {
				cc := ci.Common()
				if cc.IsInvoke() || staticCallee(ci) != nil {
					return
				}
				if !types.Identical(cc.Value.Type(), ot) || len(cc.Args) != 1 {
					return
				}
				applyBlocks = append(applyBlocks, ci.Block())
				setCell = cc.Args[0]
			})
			if len(applyBlocks) == 0 {
				continue
			}
			fn := FuncName(f)
			// stores to fields of the option set in blocks that the application
			// loop dominates-or-precedes: "after" = reachable from the apply block
			// and not able to reach it again
			bad := ""
			n := 0
			eachInstr(f, func(in ssa.Instruction) {
				st, ok := in.(*ssa.Store)
				if !ok {
					return
				}
				fa, ok := st.Addr.(*ssa.FieldAddr)
				if !ok || !types.Identical(deref(fa.X.Type()), setT) {
					return
				}
				if byPtr && setCell != nil && fa.X != setCell {
					return
				}
				after := false
				for _, ab := range applyBlocks {
					if reaches(ab, st.Block(), nil) && !reaches(st.Block(), ab, nil) {
						after = true
					}
				}
				if !after {
					return
				}
				n++
				// guarded by a test of the same field against a constant?
				for _, g := range guardsAt(st) {
					bo, ok := g.Cond.(*ssa.BinOp)
					if !ok {
						continue
					}
					if _, isC := bo.Y.(*ssa.Const); !isC {
						continue
					}
					if ld, ok := bo.X.(*ssa.UnOp); ok && ld.Op == token.MUL {
						if fa2, ok := ld.X.(*ssa.FieldAddr); ok && fa2.Field == fa.Field && types.Identical(deref(fa2.X.Type()), setT) {
							bad = fmt.Sprintf("field %s is re-assigned after the options were applied, under a test of its own value (%s) at %s", fieldName(fa.X.Type(), fa.Field), strings.TrimSpace(bo.Op.String()), c.P.Pos(st.Pos()))
						}
					}
				}
			})
			c.Check(bad == "", f.Pos(), fn, "defaults precede options ("+ot.Obj().Name()+")", fmt.Sprintf("no sentinel-guarded re-assignment of an option field after the application loop (%d later stores inspected)", n), bad+": an explicitly requested value equal to the sentinel is silently replaced by the default")
		}
	}
}

// derivesFromParam: v is the parameter itself or a load of the cell the
// parameter was spilled into (the idiom for `c.field = x; return c`).
func derivesFromParam(v ssa.Value, par *ssa.Parameter) bool {
	return derivesFromParamD(v, par, 0)
}

func derivesFromParamD(v ssa.Value, par *ssa.Parameter, d int) bool {
	if v == ssa.Value(par) {
		return true
	}
	// handed to a helper introduced since the baseline that returns what it received (with fields updated)
	if call, ok := v.(*ssa.Call); ok && d < 3 {
		if h := staticCallee(call); h != nil && isNewHelper(h) && len(h.Blocks) > 0 {
			for k, a := range call.Call.Args {
				if k >= len(h.Params) || !derivesFromParamD(a, par, d+1) {
					continue
				}
				all := true
				rets := returnsOf(h)
				for _, r := range rets {
					if len(r.Results) != 1 || !derivesFromParamD(r.Results[0], h.Params[k], d+1) {
						all = false
					}
				}
				if all && len(rets) > 0 {
					return true
				}
			}
		}
	}
	if ld, ok := v.(*ssa.UnOp); ok && ld.Op == token.MUL {
		if al, ok := ld.X.(*ssa.Alloc); ok {
			for _, r := range *al.Referrers() {
				if st, ok := r.(*ssa.Store); ok && st.Addr == ssa.Value(al) {
					if st.Val != ssa.Value(par) {
						return false // the cell is overwritten wholesale by something else
					}
				}
			}
			for _, r := range *al.Referrers() {
				if st, ok := r.(*ssa.Store); ok && st.Addr == ssa.Value(al) && st.Val == ssa.Value(par) {
					return true
				}
			}
		}
	}
	if phi, ok := v.(*ssa.Phi); ok {
		for _, e := range phi.Edges {
			if !derivesFromParam(e, par) {
				return false
			}
		}
		return len(phi.Edges) > 0
	}
	return false
}

func init() {
	register(&Rule{
		ID:    "C03.forall",
		Props: []string{"C03", "C08", "C06"},
		Doc:   "universal checks visit every member: in a function that returns an error, a loop over the members of a geometry (slice of rings/points/polygons/geometries/JSON children, or i < NumX()) in whose body an error can be returned is a 'for all members' check — it may be left early only by returning a non-nil error; a break or a nil return out of it (e.g. 'first member was conclusive') lets the remaining members go unchecked, so the verdict depends on member order",
		Floor: 10,
		Run:   runC03Forall,
	})
}

// naturalLoop: the blocks of the loop with header h (nil when h is no header).
func naturalLoop(h *ssa.BasicBlock) map[*ssa.BasicBlock]bool {
	var tails []*ssa.BasicBlock
	for _, p := range h.Preds {
		if h.Dominates(p) {
			tails = append(tails, p)
		}
	}
	if len(tails) == 0 {
		return nil
	}
	loop := map[*ssa.BasicBlock]bool{h: true}
	work := tails
	for len(work) > 0 {
		b := work[len(work)-1]
		work = work[:len(work)-1]
		if loop[b] {
			continue
		}
		loop[b] = true
		work = append(work, b.Preds...)
	}
	return loop
}

// memberElemType: t is a type whose values are members of a geometry.
func memberElemType(t types.Type) bool {
	switch typeShort(t) {
	case "LineString", "Polygon", "Point", "Geometry", "MultiPoint", "MultiLineString", "MultiPolygon", "GeometryCollection", "GeoJSONFeature":
		return true
	}
	if it, ok := t.Underlying().(*types.Interface); ok && it.Empty() {
		return true
	}
	return false
}

// loopOverMembers: header h tests `i < len(S)` with S a slice of member type,
// or `i < X.NumY()`.
func loopOverMembers(h *ssa.BasicBlock) (string, bool) {
	if memberLoop(h) {
		return "i < NumX()", true
	}
	if len(h.Instrs) == 0 {
		return "", false
	}
	ifi, ok := h.Instrs[len(h.Instrs)-1].(*ssa.If)
	if !ok {
		return "", false
	}
	bo, ok := ifi.Cond.(*ssa.BinOp)
	if !ok || bo.Op != token.LSS {
		return "", false
	}
	call, ok := bo.Y.(*ssa.Call)
	if !ok {
		return "", false
	}
	if b, isB := call.Call.Value.(*ssa.Builtin); !isB || b.Name() != "len" {
		return "", false
	}
	st, ok := call.Call.Args[0].Type().Underlying().(*types.Slice)
	if !ok || !memberElemType(st.Elem()) {
		return "", false
	}
	return "range over []" + typeShort(st.Elem()), true
}

func runC03Forall(c *Ctx) {
	n := 0
	for _, f := range c.P.Funcs {
		if pkgOf(f) != "geom" {
			continue
		}
		res := f.Signature.Results()
		if res.Len() == 0 || !isErrorType(res.At(res.Len()-1).Type()) {
			continue
		}
		fn := FuncName(f)
		for _, h := range f.Blocks {
			what, ok := loopOverMembers(h)
			if !ok {
				continue
			}
			loop := naturalLoop(h)
			if loop == nil {
				continue
			}
			// only outermost member loops: skip when nested in another member loop of f
			// (the inner one is judged on its own exits too — a break of an inner loop
			// that stays inside the outer loop is not an exit of the outer loop)
			errInBody := false
			for b := range loop {
				for _, s := range b.Succs {
					if !loop[s] {
						if r := returnAfter(s); r != nil && !isNilConst(r.Results[len(r.Results)-1]) {
							errInBody = true
						}
					}
				}
			}
			if !errInBody {
				continue
			}
			n++
			bad := ""
			for b := range loop {
				if b == h {
					continue
				}
				for _, s := range b.Succs {
					if loop[s] {
						continue
					}
					// an exit edge from inside the body
					r := returnAfter(s)
					isRet := r != nil
					if isRet && provablyNonNilErr(r) {
						continue
					}
					if isRet && !isNilConst(r.Results[len(r.Results)-1]) {
						// returns an error value we cannot prove non-nil: accept when the exit edge itself is `err != nil`
						if ifi, ok := b.Instrs[len(b.Instrs)-1].(*ssa.If); ok {
							if bo, ok := ifi.Cond.(*ssa.BinOp); ok && isErrorType(bo.X.Type()) && isNilConst(bo.Y) {
								if (bo.Op == token.NEQ && b.Succs[0] == s) || (bo.Op == token.EQL && b.Succs[1] == s) {
									continue
								}
							}
						}
					}
					// panics are not exits
					if _, isPanic := s.Instrs[len(s.Instrs)-1].(*ssa.Panic); isPanic {
						continue
					}
					pos := firstPos(s)
					if !pos.IsValid() {
						pos = firstPos(b)
					}
					bad = "left early without an error at " + c.P.Pos(pos)
				}
			}
			lpos := firstPos(h)
			for _, b := range f.Blocks {
				if !lpos.IsValid() && loop[b] {
					lpos = firstPos(b)
				}
			}
			c.Check(bad == "", lpos, fn, "for-all loop ("+what+")", "left only at the end or with an error", "a loop that checks every member is "+bad+": the members after that point are never checked")
		}
	}
	if n < 10 {
		c.Errorf("only %d for-all member loops found, expected >= 10", n)
	}
}

// returnAfter: the Return reached from b through blocks with a single
// successor (straight-line code), or nil.
func returnAfter(b *ssa.BasicBlock) *ssa.Return {
	for i := 0; i < 4 && b != nil; i++ {
		if r, ok := b.Instrs[len(b.Instrs)-1].(*ssa.Return); ok {
			return r
		}
		if len(b.Succs) != 1 {
			return nil
		}
		b = b.Succs[0]
	}
	return nil
}

func init() {
	register(&Rule{
		ID:    "C16.coords",
		Props: []string{"C16", "C20"},
		Doc:   "the coordinate-list constructors (NewXxxXYZ… through the *FromCoords helpers) type every result by the requested coordinates type: on every return, the geometry is forced to / built from the ctype parameter, or built by a constructor over a list that is provably non-empty with members typed by it — an empty member (nil coordinate list) built by a bare constructor is XY and, through the constructors' AND-fold, strips Z/M from its siblings",
		Floor: 6,
		Run: func(c *Ctx) {
			var set []*ssa.Function
			for _, f := range c.P.Funcs {
				if pkgOf(f) != "geom" || f.Parent() != nil || f.Signature.Recv() != nil {
					continue
				}
				if !strings.Contains(c.P.File(f.Pos()), "ctor_from_coords.go") {
					continue
				}
				has := false
				for _, p := range f.Params {
					if namedName(p.Type()) == "CoordinatesType" {
						has = true
					}
				}
				if has {
					set = append(set, f)
				}
			}
			if len(set) < 6 {
				c.Errorf("only %d coordinate-list helper constructors found, expected 6", len(set))
			}
			isSrc := func(v ssa.Value) bool {
				p, ok := v.(*ssa.Parameter)
				return ok && namedName(p.Type()) == "CoordinatesType"
			}
			ctypeFlowStrictMembers = true
			defer func() { ctypeFlowStrictMembers = false }()
			checkCtypeFlow(c, set, isSrc, "the ctype parameter")
		},
	})
}

func init() {
	register(&Rule{
		ID:    "C12.join",
		Props: []string{"C12", "C20"},
		Doc:   "the envelope of a collection is the join of its members' envelopes with empty members as identity: MultiPoint/MultiLineString/MultiPolygon/GeometryCollection.Envelope interpreted on 2 members over every combination of member emptiness and of lattice positions of the member boxes return empty iff all members are empty and otherwise exactly the per-axis min of the non-empty members' mins and max of their maxes (an empty member contributes nothing — in particular not the origin); Point.Envelope is empty for the empty point and the degenerate box at its XY otherwise; Polygon.Envelope is the envelope of the exterior ring",
		Floor: 6,
		Run:   runC12Join,
	})
}

func runC12Join(c *Ctx) {
	inl := func(g *ssa.Function) bool {
		switch FuncName(g) {
		case "geom.(Envelope).ExpandToIncludeEnvelope", "geom.(Envelope).ExpandToIncludeXY", "geom.(Envelope).IsEmpty", "geom.fastMin", "geom.fastMax", "geom.newUncheckedEnvelope", "geom.NewEnvelope":
			return true
		// the member accessors (count and i-th member), for loops written with them
		case "geom.(MultiPoint).NumPoints", "geom.(MultiPoint).PointN", "geom.(MultiLineString).NumLineStrings", "geom.(MultiLineString).LineStringN",
			"geom.(MultiPolygon).NumPolygons", "geom.(MultiPolygon).PolygonN", "geom.(GeometryCollection).NumGeometries", "geom.(GeometryCollection).GeometryN":
			return true
		}
		return false
	}
	for _, tc := range []struct{ fn, field string }{
		{"geom.(MultiPoint).Envelope", "points"},
		{"geom.(MultiLineString).Envelope", "lines"},
		{"geom.(MultiPolygon).Envelope", "polys"},
		{"geom.(GeometryCollection).Envelope", "geoms"},
	} {
		f := c.P.Func(tc.fn)
		if f == nil {
			c.Errorf("anchor %s does not resolve", tc.fn)
			continue
		}
		// the member slice: the (only) slice-typed field of the receiver
		field := ""
		if st, ok := f.Params[0].Type().Underlying().(*types.Struct); ok {
			for i := 0; i < st.NumFields(); i++ {
				if _, isSl := st.Field(i).Type().Underlying().(*types.Slice); isSl {
					field = canonFieldName(st.Field(i))
				}
			}
		}
		if field == "" {
			c.Errorf("%s: member list field not found", tc.fn)
			continue
		}
		problem, undec := "", ""
		models := 0
		for mask := 0; mask < 1024 && problem == "" && undec == ""; mask++ {
			// bits 0..7: coordinates (min in {0,1}, max = min + {0,1}); bits 8,9: non-empty flags
			var box [2][4]float64
			for k := 0; k < 2; k++ {
				b := (mask >> uint(4*k)) & 15
				box[k][0] = float64(b & 1)                // min.X
				box[k][1] = float64((b >> 1) & 1)         // min.Y
				box[k][2] = box[k][0] + float64((b>>2)&1) // max.X
				box[k][3] = box[k][1] + float64((b>>3)&1) // max.Y
			}
			ne := [2]bool{mask&256 != 0, mask&512 != 0}
			models++
			m := &Model{Num: map[string]float64{}, Bool: map[string]bool{}, Missing: map[string]bool{}}
			it := &k4interp{p: c.P, m: m, mem: map[string]k4val{}, inline: inl}
			it.mem["$0."+field] = k4val{kind: 8, s: "MEM", ln: 2, cp: 2}
			idx := map[string]int{}
			nCalls := 0
			xyIdx := map[string]int{} // members consulted through Point.XY(): their envelope is the point itself
			it.onOpaque = func(name string, args []k4val) {
				if strings.HasSuffix(name, ").Envelope") && len(args) == 1 {
					k := name + "(" + args[0].String() + ")"
					if _, ok := idx[k]; !ok {
						idx[k] = nCalls
						nCalls++
					}
				}
				if name == "geom.(Point).XY" && len(args) == 1 {
					k := name + "(" + args[0].String() + ")"
					if _, ok := xyIdx[k]; !ok {
						xyIdx[k] = nCalls
						if nCalls < 2 {
							box[nCalls][2], box[nCalls][3] = box[nCalls][0], box[nCalls][1]
						}
						nCalls++
					}
				}
			}
			it.answer = func(key string, isBool bool) (k4val, bool) {
				for k, i := range xyIdx {
					if !strings.HasPrefix(key, k) || i > 1 {
						continue
					}
					switch key[len(k):] {
					case "#1":
						return k4val{kind: 1, b: ne[i]}, isBool
					case "#0.X":
						return k4val{kind: 2, f: box[i][0]}, !isBool
					case "#0.Y":
						return k4val{kind: 2, f: box[i][1]}, !isBool
					}
				}
				for k, i := range idx {
					if !strings.HasPrefix(key, k) || i > 1 {
						continue
					}
					rest := key[len(k):]
					switch rest {
					case ".nonEmpty":
						return k4val{kind: 1, b: ne[i]}, isBool
					case ".min.X":
						return k4val{kind: 2, f: box[i][0]}, !isBool
					case ".min.Y":
						return k4val{kind: 2, f: box[i][1]}, !isBool
					case ".max.X":
						return k4val{kind: 2, f: box[i][2]}, !isBool
					case ".max.Y":
						return k4val{kind: 2, f: box[i][3]}, !isBool
					}
				}
				return k4val{}, false
			}
			res, err := it.call(f, []k4val{{kind: 3, s: "$0"}}, nil)
			if err != nil || len(res) != 1 || res[0].kind != 3 {
				undec = fmt.Sprintf("%v %v %s", err, res, missingList(m))
				break
			}
			if nCalls != 2 {
				problem = fmt.Sprintf("the envelopes of %d members are consulted, the collection has 2", nCalls)
				break
			}
			env := res[0].s
			gb := func(p string) (bool, bool) { v, err := it.lookup(env+p, boolT); return v.b, err == nil && v.kind == 1 }
			gn := func(p string) (float64, bool) {
				v, err := it.lookup(env+p, nil0)
				return v.f, err == nil && v.kind == 2
			}
			wantNE := ne[0] || ne[1]
			gotNE, ok := gb(".nonEmpty")
			desc := fmt.Sprintf("members with envelopes %s and %s", boxStr(ne[0], box[0]), boxStr(ne[1], box[1]))
			if !ok || gotNE != wantNE {
				problem = fmt.Sprintf("for %s the collection's envelope has nonEmpty=%v, expected %v", desc, gotNE, wantNE)
				break
			}
			if !wantNE {
				continue
			}
			want := [4]float64{2, 2, -1, -1}
			for k := 0; k < 2; k++ {
				if ne[k] {
					want[0], want[1] = min2(want[0], box[k][0]), min2(want[1], box[k][1])
					want[2], want[3] = max2(want[2], box[k][2]), max2(want[3], box[k][3])
				}
			}
			for j, p := range []string{".min.X", ".min.Y", ".max.X", ".max.Y"} {
				got, ok := gn(p)
				if !ok || got != want[j] {
					problem = fmt.Sprintf("for %s the collection's envelope has %s = %v, expected %v (join of the non-empty members only)", desc, p[1:], got, want[j])
					break
				}
			}
		}
		reportK4(c, f, "join of member envelopes", undec, problem, fmt.Sprintf("empty iff all members empty, else per-axis min/max over the non-empty members, in all %d models", models))
	}

	// Point.Envelope
	if f := c.P.Func("geom.(Point).Envelope"); f == nil {
		c.Errorf("anchor geom.(Point).Envelope does not resolve")
	} else {
		problem, undec := "", ""
		for _, full := range []bool{false, true} {
			m := &Model{Num: map[string]float64{"$0.coords.XY.X": 3, "$0.coords.XY.Y": 5}, Bool: map[string]bool{"$0.full": full}, Missing: map[string]bool{}}
			it := &k4interp{p: c.P, m: m, mem: map[string]k4val{}, inline: func(g *ssa.Function) bool {
				return inl(g) || FuncName(g) == "geom.(Point).XY"
			}}
			res, err := it.call(f, []k4val{{kind: 3, s: "$0"}}, nil)
			if err != nil || len(res) != 1 {
				undec = fmt.Sprintf("%v %v %s", err, res, missingList(m))
				break
			}
			env := res[0].s
			ne, _ := it.lookup(env+".nonEmpty", boolT)
			if res[0].s == "zero" {
				ne = k4val{kind: 1, b: false}
			}
			if ne.b != full {
				problem = fmt.Sprintf("a point with full=%v has an envelope with nonEmpty=%v", full, ne.b)
				break
			}
			if full {
				for p, w := range map[string]float64{".min.X": 3, ".max.X": 3, ".min.Y": 5, ".max.Y": 5} {
					if v, err := it.lookup(env+p, nil0); err != nil || v.f != w {
						problem = fmt.Sprintf("the envelope of POINT(3 5) has %s = %v", p[1:], v.f)
					}
				}
			}
		}
		reportK4(c, f, "envelope of a point", undec, problem, "empty for the empty point, the degenerate box at its XY otherwise")
	}

	// Polygon.Envelope: envelope of the exterior ring
	if f := c.P.Func("geom.(Polygon).Envelope"); f == nil {
		c.Errorf("anchor geom.(Polygon).Envelope does not resolve")
	} else {
		m := &Model{Num: map[string]float64{}, Bool: map[string]bool{}, Missing: map[string]bool{}}
		it := &k4interp{p: c.P, m: m, mem: map[string]k4val{}}
		res, err := it.call(f, []k4val{{kind: 3, s: "$0"}}, nil)
		got := ""
		if err == nil && len(res) == 1 {
			got = res[0].String()
		}
		want := "geom.(LineString).Envelope(geom.(Polygon).ExteriorRing($0))"
		c.Check(got == want, f.Pos(), FuncName(f), "envelope of a polygon", "the envelope of its exterior ring", fmt.Sprintf("Polygon.Envelope returns %s (%v), expected %s: holes lie inside the shell, and nothing else bounds the polygon", trunc(got), err, want))
	}
}

func boxStr(ne bool, b [4]float64) string {
	if !ne {
		return "EMPTY"
	}
	return fmt.Sprintf("[%v %v, %v %v]", b[0], b[1], b[2], b[3])
}

func init() {
	register(&Rule{
		ID:    "C06.reset",
		Props: []string{"C06", "C10", "C08", "C04"},
		Doc:   "decoding into an existing value replaces it: every UnmarshalJSON / Scan method with a pointer receiver assigns the whole destination (`*recv = decoded`) on every path to a nil-error return, and never hands the address of a field of the destination to a decoder — field-by-field assignment leaves fields of a previous document behind when a member is absent, and encoding/json merges into existing maps",
		Floor: 10,
		Run:   runC06Reset,
	})
}

func runC06Reset(c *Ctx) {
	n := 0
	for _, f := range c.P.Funcs {
		if pkgOf(f) != "geom" || f.Parent() != nil || f.Signature.Recv() == nil {
			continue
		}
		if f.Name() != "UnmarshalJSON" && f.Name() != "Scan" {
			continue
		}
		if _, isPtr := f.Signature.Recv().Type().(*types.Pointer); !isPtr {
			continue
		}
		n++
		fn := FuncName(f)
		recv := f.Params[0]
		// blocks that overwrite the destination: a whole store through the
		// receiver, or stores to every field of it in one block
		st, _ := deref(recv.Type()).Underlying().(*types.Struct)
		overwrites := map[*ssa.BasicBlock]bool{}
		fieldAddrEscapes := ""
		for _, b := range f.Blocks {
			fields := map[int]bool{}
			for _, in := range b.Instrs {
				switch x := in.(type) {
				case *ssa.Store:
					if x.Addr == ssa.Value(recv) {
						overwrites[b] = true
					}
					if fa, ok := x.Addr.(*ssa.FieldAddr); ok && fa.X == ssa.Value(recv) {
						fields[fa.Field] = true
					}
				case *ssa.Call:
					// a helper introduced since the baseline, called on the destination itself, that assigns every field of its receiver
					if h := staticCallee(x); h != nil && isNewHelper(h) && len(x.Call.Args) > 0 && x.Call.Args[0] == ssa.Value(recv) && len(h.Params) > 0 && len(h.Blocks) == 1 && st != nil {
						hf := map[int]bool{}
						whole := false
						for _, hin := range h.Blocks[0].Instrs {
							if hs, ok := hin.(*ssa.Store); ok {
								if hs.Addr == ssa.Value(h.Params[0]) {
									whole = true
								}
								if fa, ok := hs.Addr.(*ssa.FieldAddr); ok && fa.X == ssa.Value(h.Params[0]) {
									hf[fa.Field] = true
								}
							}
						}
						if whole || (len(hf) == st.NumFields() && st.NumFields() > 0) {
							overwrites[b] = true
						}
					}
					for _, a := range x.Call.Args {
						v := a
						if mi, ok := v.(*ssa.MakeInterface); ok {
							v = mi.X
						}
						if cal := staticCallee(x); cal != nil && pkgOf(cal) == "geom" && (cal.Name() == "Scan" || cal.Name() == "UnmarshalJSON") {
							continue // a decoder method of the repository: replaces its destination (checked as its own instance)
						}
						if fa, ok := v.(*ssa.FieldAddr); ok && fa.X == ssa.Value(recv) {
							fieldAddrEscapes = "the address of field " + fieldName(recv.Type(), fa.Field) + " of the destination is passed to " + calleeName(x) + " at " + c.P.Pos(x.Pos())
						}
					}
				}
			}
			if st != nil && len(fields) == st.NumFields() && st.NumFields() > 0 {
				overwrites[b] = true
			}
		}
		// is a nil-error return reachable without passing an overwriting block?
		seen := map[*ssa.BasicBlock]bool{}
		var work []*ssa.BasicBlock
		if !overwrites[f.Blocks[0]] {
			work = append(work, f.Blocks[0])
			seen[f.Blocks[0]] = true
		}
		bad := ""
		for len(work) > 0 {
			b := work[len(work)-1]
			work = work[:len(work)-1]
			if r, ok := b.Instrs[len(b.Instrs)-1].(*ssa.Return); ok {
				if isNilConst(r.Results[len(r.Results)-1]) {
					bad = "the nil-error return at " + c.P.Pos(r.Pos()) + " can be reached without assigning the whole destination"
				}
			}
			for _, s := range b.Succs {
				if !seen[s] && !overwrites[s] {
					seen[s] = true
					work = append(work, s)
				}
			}
		}
		switch {
		case fieldAddrEscapes != "":
			c.Bad(f.Pos(), fn, "destination replaced", fieldAddrEscapes+": the decoder merges into what a previous document left there")
		case bad != "":
			c.Bad(f.Pos(), fn, "destination replaced", bad+": fields of a previously decoded value survive")
		default:
			c.OK(f.Pos(), fn, "destination replaced", "every successful path assigns the whole destination; no field address escapes to a decoder")
		}
	}
	if n < 10 {
		c.Errorf("only %d UnmarshalJSON/Scan methods with pointer receivers found, expected >= 12", n)
	}
}

func init() {
	register(&Rule{
		ID:    "C11.enqueue",
		Props: []string{"C11", "C09"},
		Doc:   "PrioritySearch expands a node by pushing exactly its entries 0..numEntries-1 onto the queue, each once, identified by position: the node-expansion step (the closure of PrioritySearch, or the helper it calls, that calls heap.Push) interpreted for numEntries = 0..4 pushes &entries[0] … &entries[numEntries-1] and nothing else — slots beyond numEntries hold stale or zero data, and a slot must not be skipped because of its content (a record with ID 0 and a degenerate box at the origin is a valid entry)",
		Floor: 1,
		Run:   runC11Enqueue,
	})
}

func runC11Enqueue(c *Ctx) {
	ps := c.P.Func("rtree.(*RTree).PrioritySearch")
	if ps == nil {
		c.Errorf("anchor rtree.(*RTree).PrioritySearch does not resolve")
		return
	}
	callsPush := func(g *ssa.Function) bool {
		found := false
		eachCall(g, func(ci ssa.CallInstruction) {
			if calleeName(ci) == "container/heap.Push" {
				found = true
			}
		})
		return found
	}
	var step *ssa.Function
	for _, an := range ps.AnonFuncs {
		if callsPush(an) {
			step = an
		}
	}
	if step == nil {
		eachCall(ps, func(ci ssa.CallInstruction) {
			if cal := staticCallee(ci); cal != nil && cal.Blocks != nil && pkgOf(cal) == "rtree" && callsPush(cal) && step == nil {
				step = cal
			}
		})
	}
	if step == nil && callsPush(ps) {
		// the expansion is written inside the search loop itself: there is no separate step to interpret on its
		// own, and the loop as a whole (heap, callbacks) is outside what this rule models
		c.Triv(ps.Pos(), FuncName(ps), "entries pushed for a node", "the node expansion is inlined in the search loop: not judged by this rule")
		return
	}
	if step == nil {
		c.Errorf("anchor: the node-expansion step of PrioritySearch (the function calling heap.Push) does not resolve")
		return
	}
	// the *node parameter, and the layout of node
	nodeIdx := -1
	for i, p := range step.Params {
		if pt, ok := p.Type().(*types.Pointer); ok {
			if st, ok := pt.Elem().Underlying().(*types.Struct); ok {
				for k := 0; k < st.NumFields(); k++ {
					if _, isArr := st.Field(k).Type().Underlying().(*types.Array); isArr {
						nodeIdx = i
					}
				}
			}
		}
	}
	if nodeIdx < 0 {
		c.Errorf("anchor: %s has no *node parameter", FuncName(step))
		return
	}
	nodeT := deref(step.Params[nodeIdx].Type()).Underlying().(*types.Struct)
	fEntries, fNum := "", ""
	for i := 0; i < nodeT.NumFields(); i++ {
		switch t := nodeT.Field(i).Type().Underlying().(type) {
		case *types.Array:
			fEntries = canonFieldName(nodeT.Field(i))
		case *types.Basic:
			if t.Info()&types.IsInteger != 0 {
				fNum = canonFieldName(nodeT.Field(i))
			}
		}
	}
	problem, undec := "", ""
	for n := 0; n <= 4 && problem == "" && undec == ""; n++ {
		m := &Model{Num: map[string]float64{"N." + fNum: float64(n)}, Bool: map[string]bool{}, Missing: map[string]bool{}}
		it := &k4interp{p: c.P, m: m, mem: map[string]k4val{}}
		var pushed []string
		it.onOpaque = func(name string, args []k4val) {
			if name == "container/heap.Push" && len(args) == 2 {
				pushed = append(pushed, args[1].String())
			}
		}
		// entries compare unequal to the zero entry unless the model says otherwise:
		// a content-based skip would need such a comparison
		it.answer = func(key string, isBool bool) (k4val, bool) {
			if isBool {
				return k4val{kind: 1, b: true}, true // any content test "is this slot unused?" answers yes
			}
			return k4val{}, false
		}
		var args []k4val
		for i, p := range step.Params {
			if i == nodeIdx {
				args = append(args, k4val{kind: 3, s: "N"})
			} else {
				args = append(args, k4val{kind: 3, s: "arg:" + p.Name()})
			}
		}
		var fvs []k4val
		for _, fv := range step.FreeVars {
			fvs = append(fvs, k4val{kind: 3, s: "fv:" + fv.Name()})
		}
		if _, err := it.call(step, args, fvs); err != nil {
			undec = fmt.Sprintf("%v %s", err, missingList(m))
			break
		}
		var want []string
		for i := 0; i < n; i++ {
			want = append(want, fmt.Sprintf("N.%s[%d]", fEntries, i))
		}
		if strings.Join(pushed, " ") != strings.Join(want, " ") {
			problem = fmt.Sprintf("for a node with %d entries the step pushes [%s], expected [%s] (when every content test on a slot is answered 'looks unused')", n, strings.Join(pushed, " "), strings.Join(want, " "))
		}
	}
	reportK4(c, step, "node expansion", undec, problem, "pushes exactly &entries[0..numEntries-1], independent of the entries' content, for numEntries = 0..4")
}

func init() {
	register(&Rule{
		ID:    "C05.empty",
		Props: []string{"C05", "C20"},
		Doc:   "EMPTY at every level of WKT: the parenthesised coordinate list of a sequence is written (appendWKTSequence) only under a dominating test that the very object owning that sequence is not empty (its IsEmpty() is false, or its sequence length is non-zero) — a member writer that skips the test emits `()` for an empty ring or line, which is outside the grammar and does not re-parse",
		Floor: 1,
		Run:   runC05Empty,
	})
}

func runC05Empty(c *Ctx) {
	n := 0
	for _, f := range c.P.Funcs {
		if pkgOf(f) != "geom" {
			continue
		}
		fn := FuncName(f)
		for _, call := range callsTo(f, "geom.appendWKTSequence") {
			n++
			seq := call.Common().Args[1]
			owner, _ := accessPath(seq)
			// the owner of the sequence: strip a trailing field selection (.seq)
			ownerObj := owner
			if i := strings.LastIndex(ownerObj, "."); i > 0 {
				ownerObj = ownerObj[:i]
			}
			ok := false
			for _, g := range guardsAt(call) {
				switch x := g.Cond.(type) {
				case *ssa.Call:
					cal := staticCallee(x)
					if cal == nil || cal.Name() != "IsEmpty" || g.Truth {
						continue
					}
					rs, _ := accessPath(x.Call.Args[0])
					if rs == ownerObj || rs == owner {
						ok = true
					}
				case *ssa.BinOp:
					// seq.Length() == 0 is false / > 0 is true
					if lc, isCall := x.X.(*ssa.Call); isCall {
						if cal := staticCallee(lc); cal != nil && cal.Name() == "Length" {
							rs, _ := accessPath(lc.Call.Args[0])
							k, isC := constInt(x.Y)
							if rs == owner && isC && k == 0 && ((x.Op == token.EQL && !g.Truth) || (x.Op == token.NEQ && g.Truth) || (x.Op == token.GTR && g.Truth)) {
								ok = true
							}
						}
					}
				}
			}
			c.Check(ok, call.Pos(), fn, "coordinate list of "+trunc(owner), "written only when "+trunc(ownerObj)+" is known to be non-empty", "the parenthesised list of "+owner+" is written without a dominating test that "+ownerObj+" is not empty: an empty member is emitted as `()` instead of EMPTY")
		}
	}
	if n < 1 {
		c.Errorf("no appendWKTSequence call found")
	}
}

func init() {
	register(&Rule{
		ID:    "C14.pairing",
		Props: []string{"C14", "C20"},
		Doc:   "weighted means accumulate numerator and denominator together: in every centroid routine, each basic block that adds a term to an XY accumulator (sum = sum.Add(term)) also adds that term's weight to a scalar accumulator (n++, total += w), and vice versa — a weight counted where no term is added (e.g. counting empty points, or hoisting the count out of the guarded loop body) shifts the mean towards the origin",
		Floor: 6,
		Run:   runC14Pairing,
	})
}

// accumulates: instruction `in` computes acc' = acc (+) term where acc is a
// cell (captured variable / local) that receives the result, or a loop phi that
// the result flows back into.
func accumulates(in ssa.Instruction, acc ssa.Value, res ssa.Value) bool {
	switch a := acc.(type) {
	case *ssa.UnOp:
		if a.Op != token.MUL {
			return false
		}
		for _, r := range *res.Referrers() {
			if st, ok := r.(*ssa.Store); ok && st.Val == res && sameAddr(st.Addr, a.X, 0) {
				return true
			}
		}
	case *ssa.Phi:
		seen := map[ssa.Value]bool{}
		var flows func(v ssa.Value, d int) bool
		flows = func(v ssa.Value, d int) bool {
			if d > 4 || seen[v] {
				return false
			}
			seen[v] = true
			for _, r := range *v.Referrers() {
				if p, ok := r.(*ssa.Phi); ok {
					if p == a || flows(p, d+1) {
						return true
					}
				}
			}
			return false
		}
		return flows(res, 0)
	}
	return false
}

func runC14Pairing(c *Ctx) {
	n := 0
	for _, f := range c.P.Funcs {
		if pkgOf(f) != "geom" || !strings.Contains(strings.ToLower(FuncName(f)), "centroid") {
			continue
		}
		fn := FuncName(f)
		sumBlocks := map[*ssa.BasicBlock]token.Pos{}
		wBlocks := map[*ssa.BasicBlock]token.Pos{}
		eachInstr(f, func(in ssa.Instruction) {
			switch x := in.(type) {
			case *ssa.Call:
				if calleeName(x) == "geom.(XY).Add" && len(x.Call.Args) == 2 {
					if accumulates(x, x.Call.Args[0], x) || accumulates(x, x.Call.Args[1], x) {
						sumBlocks[x.Block()] = x.Pos()
					}
				}
			case *ssa.BinOp:
				if x.Op == token.ADD && isNumeric(x.Type()) {
					if accumulates(x, x.X, x) || accumulates(x, x.Y, x) {
						// loop counters (i++) are not weights: skip induction variables used in the loop test
						if isLoopCounter(x) {
							return
						}
						wBlocks[x.Block()] = x.Pos()
					}
				}
			}
		})
		if len(sumBlocks) == 0 {
			continue
		}
		n++
		both := false
		for b := range sumBlocks {
			if _, ok := wBlocks[b]; ok {
				both = true
			}
		}
		if !both {
			c.Triv(f.Pos(), fn, "numerator/denominator in lock step", "two-pass form: the weights are totalled in a separate pass and every term is pre-normalised; pairing does not apply")
			continue
		}
		bad := ""
		for b, pos := range sumBlocks {
			if _, ok := wBlocks[b]; !ok {
				bad = "a term is added to the XY sum at " + c.P.Pos(pos) + " but no weight is accumulated on the same path"
			}
		}
		for b, pos := range wBlocks {
			if _, ok := sumBlocks[b]; !ok {
				bad = "a weight is accumulated at " + c.P.Pos(pos) + " where no term is added to the XY sum"
			}
		}
		c.Check(bad == "", f.Pos(), fn, "numerator/denominator in lock step", fmt.Sprintf("%d accumulation site(s), each adds a term and its weight together", len(sumBlocks)), bad+": the mean is taken over a different set of members than the sum")
	}
	if n < 6 {
		c.Errorf("only %d centroid routines with an XY accumulator found, expected >= 6", n)
	}
}

// isLoopCounter: the sum feeds a phi that is compared in a loop condition.
func isLoopCounter(x *ssa.BinOp) bool {
	cmpIf := func(v ssa.Value) bool {
		for _, rr := range *v.Referrers() {
			if bo, ok := rr.(*ssa.BinOp); ok && (bo.Op == token.LSS || bo.Op == token.LEQ || bo.Op == token.GTR || bo.Op == token.GEQ || bo.Op == token.NEQ) {
				for _, r3 := range *bo.Referrers() {
					if _, isIf := r3.(*ssa.If); isIf {
						return true
					}
				}
			}
		}
		return false
	}
	// range loops: the incremented index itself is tested (i' = i + 1; if i' < n)
	if cmpIf(x) {
		return true
	}
	for _, r := range *x.Referrers() {
		if p, ok := r.(*ssa.Phi); ok {
			for _, rr := range *p.Referrers() {
				if bo, ok := rr.(*ssa.BinOp); ok && (bo.Op == token.LSS || bo.Op == token.LEQ || bo.Op == token.GTR || bo.Op == token.GEQ || bo.Op == token.NEQ) {
					for _, r3 := range *bo.Referrers() {
						if _, isIf := r3.(*ssa.If); isIf {
							return true
						}
					}
				}
			}
		}
	}
	return false
}

func init() {
	register(&Rule{
		ID:    "C15.topdim",
		Props: []string{"C15", "C20"},
		Doc:   "PointOnSurface of a collection lies on a member of the highest dimension: GeometryCollection.PointOnSurface interpreted with its traversals driven over 3 modelled leaves of every dimension/emptiness combination and order offers as candidates (nearest.consider) every non-empty leaf whose dimension is the maximum over the non-empty leaves, and no non-empty leaf of a lower dimension — whatever the order of the members",
		Floor: 1,
		Run:   runC15Topdim,
	})
}

func runC15Topdim(c *Ctx) {
	f := c.P.Func("geom.(GeometryCollection).PointOnSurface")
	if f == nil {
		c.Errorf("anchor geom.(GeometryCollection).PointOnSurface does not resolve")
		return
	}
	problem, undec := "", ""
	models := 0
	const nl = 3
	for mask := 0; mask < 27*8 && problem == "" && undec == ""; mask++ {
		var dim [nl]int
		var empty [nl]bool
		mm := mask
		for i := 0; i < nl; i++ {
			dim[i] = mm % 3
			mm /= 3
		}
		for i := 0; i < nl; i++ {
			empty[i] = mm&1 != 0
			mm >>= 1
		}
		models++
		m := &Model{Num: map[string]float64{}, Bool: map[string]bool{}, Missing: map[string]bool{}}
		// the collection is modelled as 3 leaves; its traversals (walk, or recursive
		// helpers written instead of it) are interpreted, everything about a leaf is
		// answered from the model
		it := &k4interp{p: c.P, m: m, mem: map[string]k4val{}, inline: func(g *ssa.Function) bool {
			n := FuncName(g)
			return n == "geom.maxInt" || n == "geom.(GeometryCollection).walk" || n == "geom.(GeometryCollection).IsEmpty" || (g.Parent() != nil && rootFunc(g) == f)
		}}
		it.mem["$0.geoms"] = k4val{kind: 8, s: "LEAF", ln: nl, cp: nl}
		considered := map[int]bool{}
		var hookErr error
		leafOf := func(s string) int {
			for i := 0; i < nl; i++ {
				if strings.Contains(s, fmt.Sprintf("LEAF[%d]", i)) {
					return i
				}
			}
			return -1
		}
		it.onOpaque = func(name string, args []k4val) {
			if os.Getenv("K4DBG") != "" {
				fmt.Fprintln(os.Stderr, "OPAQUE", name, args)
			}
			if strings.HasSuffix(name, ").consider") {
				for _, a := range args {
					if i := leafOf(a.String()); i >= 0 {
						considered[i] = true
					}
				}
			}
		}
		it.answer = func(key string, isBool bool) (k4val, bool) {
			i := leafOf(key)
			if i < 0 {
				return k4val{}, false
			}
			lf := fmt.Sprintf("(LEAF[%d])", i)
			switch {
			case isBool && key == "geom.(Geometry).IsGeometryCollection"+lf:
				return k4val{kind: 1, b: false}, true
			case isBool && key == "geom.(Geometry).IsEmpty"+lf:
				return k4val{kind: 1, b: empty[i]}, true
			case !isBool && key == "geom.(Geometry).Dimension"+lf:
				return k4val{kind: 2, f: float64(dim[i])}, true
			}
			return k4val{}, false
		}
		if _, err := it.call(f, []k4val{{kind: 3, s: "$0"}}, nil); err != nil || hookErr != nil {
			undec = fmt.Sprintf("%v %v %s", err, hookErr, missingList(m))
			break
		}
		maxDim := 0
		for i := 0; i < nl; i++ {
			if !empty[i] && dim[i] > maxDim {
				maxDim = dim[i]
			}
		}
		for i := 0; i < nl; i++ {
			if empty[i] {
				continue
			}
			desc := fmt.Sprintf("leaves (dimension, empty) = (%d,%v) (%d,%v) (%d,%v)", dim[0], empty[0], dim[1], empty[1], dim[2], empty[2])
			if dim[i] == maxDim && !considered[i] {
				problem = fmt.Sprintf("for %s leaf %d has the highest dimension but is not offered as a candidate", desc, i)
			}
			if dim[i] < maxDim && considered[i] {
				problem = fmt.Sprintf("for %s the non-empty leaf %d of dimension %d is offered as a candidate although a member of dimension %d exists: the result can lie off every highest-dimension member", desc, i, dim[i], maxDim)
			}
		}
	}
	reportK4(c, f, "candidates of the nearest-point search", undec, problem, fmt.Sprintf("exactly the non-empty leaves of the highest dimension (empty ones aside), in all %d models of 3 leaves", models))
}

func init() {
	register(&Rule{
		ID:    "C09.probe",
		Props: []string{"C09", "C02"},
		Doc:   "a single vertex stands in for a whole line only after the whole boundary has been excluded: in the Intersects kernels, a point-in-polygon test whose point is a control point of the other operand (StartPoint of a line or ring) is dominated by a negative line/line intersection test against the complete Boundary() of that same polygon or multipolygon (every ring, holes included) — otherwise a line that starts in a hole and crosses only the hole ring, or that crosses the shell, is misjudged from its first vertex",
		Floor: 3,
		Run:   runC09Probe,
	})
}

func runC09Probe(c *Ctx) {
	n := 0
	// guardedAt: at `at`, a dominating negative line/line intersection test against poly.Boundary();
	// when poly is a parameter of a helper introduced since the baseline, at every call site of the helper
	var guardedAt func(at ssa.Instruction, polyVal ssa.Value, d int) bool
	guardedAt = func(at ssa.Instruction, polyVal ssa.Value, d int) bool {
		poly, _ := accessPath(polyVal)
		for _, g := range guardsAt(at) {
			call, isCall := g.Cond.(*ssa.Call)
			if !isCall || g.Truth || !strings.HasPrefix(calleeName(call), "geom.hasIntersectionMultiLineStringWithMultiLineString") {
				continue
			}
			for _, a := range call.Call.Args {
				if dependsOn(a, func(v ssa.Value) bool {
					bc, ok := v.(*ssa.Call)
					if !ok {
						return false
					}
					cal := staticCallee(bc)
					if cal == nil || cal.Name() != "Boundary" {
						return false
					}
					rs, _ := accessPath(bc.Call.Args[0])
					return rs == poly
				}) {
					return true
				}
			}
		}
		h := at.Parent()
		par, isPar := stripLoad(polyVal).(*ssa.Parameter)
		if !isPar {
			// a spilled parameter: the cell holds the parameter
			if ld, ok := polyVal.(*ssa.UnOp); ok {
				if st := uniqueStore(ld.X); st != nil {
					par, isPar = st.(*ssa.Parameter)
				}
			}
		}
		if d < 3 && isPar && isNewHelper(h) && h.Parent() == nil {
			k := paramIndex(h, par)
			sites := c.P.callersOf(h)
			if k < 0 || len(sites) == 0 {
				return false
			}
			for _, cs := range sites {
				if k >= len(cs.Common().Args) || !guardedAt(cs, cs.Common().Args[k], d+1) {
					return false
				}
			}
			return true
		}
		return false
	}
	seen := map[*ssa.Function]bool{}
	var fs []*ssa.Function
	for _, f := range c.P.Funcs {
		if pkgOf(f) != "geom" || !strings.HasPrefix(f.Name(), "hasIntersection") {
			continue
		}
		for _, g := range withNewHelpers(f) {
			if !seen[g] {
				seen[g] = true
				fs = append(fs, g)
			}
		}
	}
	for _, f := range fs {
		fn := FuncName(f)
		eachCall(f, func(ci ssa.CallInstruction) {
			name := calleeName(ci)
			if name != "geom.hasIntersectionPointWithPolygon" && name != "geom.hasIntersectionPointWithMultiPolygon" {
				return
			}
			args := ci.Common().Args
			// is the point a vertex probe (…StartPoint())?
			probe := dependsOn(args[0], func(v ssa.Value) bool {
				call, ok := v.(*ssa.Call)
				if !ok {
					return false
				}
				cal := staticCallee(call)
				return cal != nil && (cal.Name() == "StartPoint" || cal.Name() == "EndPoint")
			})
			if !probe {
				return
			}
			n++
			poly, _ := accessPath(args[1])
			ok := guardedAt(ci, args[1], 0)
			c.Check(ok, ci.Pos(), fn, "vertex probe against "+trunc(poly), "dominated by `no line of the other operand meets "+trunc(poly)+".Boundary()`", "a start vertex is tested against "+poly+" without a dominating negative intersection test against the complete boundary of "+poly+" (all rings): the probe's verdict does not extend to the rest of the line")
		})
	}
	if n < 3 {
		c.Errorf("only %d vertex probes found in the Intersects kernels, expected 3", n)
	}
}

func init() {
	register(&Rule{
		ID:    "C05.append",
		Props: []string{"C05", "C13", "C10", "C06"},
		Doc:   "append-style helpers return their destination: a function that takes a slice and returns the same slice type, and on some path returns append(thatParam, …) (or passes it to another append-style function), returns a value derived from that parameter on every path — a `return nil` / fresh slice on an early exit (empty input, error case) silently discards everything accumulated by the caller so far (AppendWKT/AppendWKB prefixes, collected hull points, cut lists)",
		Floor: 30,
		Run:   runC05Append,
	})
}

func runC05Append(c *Ctx) {
	// fixpoint: append-style functions and their destination parameter
	dstOf := map[*ssa.Function]int{}
	type cand struct {
		f   *ssa.Function
		idx int
	}
	var cands []cand
	for _, f := range c.P.Funcs {
		if !c.P.InRepo(f) || f.Signature.Results().Len() != 1 {
			continue
		}
		rt := f.Signature.Results().At(0).Type()
		if _, ok := rt.Underlying().(*types.Slice); !ok {
			continue
		}
		for i, p := range f.Params {
			if types.Identical(p.Type(), rt) {
				cands = append(cands, cand{f, i})
				break // the first parameter of the result type is the destination
			}
		}
	}
	derived := func(f *ssa.Function, idx int, v ssa.Value) bool {
		par := f.Params[idx]
		seen := map[ssa.Value]bool{}
		var rec func(v ssa.Value, d int) bool
		rec = func(v ssa.Value, d int) bool {
			if v == ssa.Value(par) {
				return true
			}
			if d > 12 {
				return false
			}
			if _, isPhi := v.(*ssa.Phi); isPhi && seen[v] {
				return true // a loop-carried accumulator met again: derived if its other edges are
			}
			if seen[v] {
				// re-evaluation of a shared subexpression
			}
			seen[v] = true
			switch x := v.(type) {
			case *ssa.Phi:
				for _, e := range x.Edges {
					if !rec(e, d+1) {
						return false
					}
				}
				return len(x.Edges) > 0
			case *ssa.Slice:
				return rec(x.X, d+1)
			case *ssa.UnOp:
				if x.Op == token.MUL {
					if al, ok := x.X.(*ssa.Alloc); ok {
						okAll, any := true, false
						for _, r := range *al.Referrers() {
							if st, ok := r.(*ssa.Store); ok && st.Addr == ssa.Value(al) {
								any = true
								if !rec(st.Val, d+1) {
									okAll = false
								}
							}
						}
						return any && okAll
					}
				}
			case *ssa.Call:
				if b, ok := x.Call.Value.(*ssa.Builtin); ok && b.Name() == "append" {
					return rec(x.Call.Args[0], d+1)
				}
				if cal := staticCallee(x); cal != nil {
					if k, ok := dstOf[cal]; ok {
						args := x.Call.Args
						if k < len(args) {
							return rec(args[k], d+1)
						}
					}
					switch extName(cal) {
					case "strconv.AppendFloat", "strconv.AppendInt", "strconv.AppendUint", "strconv.AppendQuote", "encoding/binary.AppendUvarint", "encoding/binary.AppendVarint", "fmt.Appendf", "fmt.Append":
						return rec(x.Call.Args[0], d+1)
					}
				}
				// method call through an interface named Append…: treat the first slice argument as destination
				if x.Call.IsInvoke() && strings.HasPrefix(x.Call.Method.Name(), "Append") && len(x.Call.Args) > 0 {
					return rec(x.Call.Args[0], d+1)
				}
				// a function value (callback parameter / closure variable) of append shape
				// func(dst []T, …) []T: its result extends its first argument (the function
				// literals passed are themselves candidates and are checked on their own)
				if !x.Call.IsInvoke() && staticCallee(x) == nil {
					if sig, ok := x.Call.Value.Type().Underlying().(*types.Signature); ok && sig.Params().Len() > 0 && sig.Results().Len() == 1 &&
						types.Identical(sig.Params().At(0).Type(), sig.Results().At(0).Type()) && len(x.Call.Args) > 0 {
						return rec(x.Call.Args[0], d+1)
					}
				}
			}
			return false
		}
		return rec(v, 0)
	}
	// greatest fixpoint: start from "every candidate is append-style" and drop the
	// candidates none of whose returns extends the destination
	for _, cd := range cands {
		dstOf[cd.f] = cd.idx
	}
	for changed := true; changed; {
		changed = false
		for _, cd := range cands {
			if _, in := dstOf[cd.f]; !in {
				continue
			}
			extends := false
			for _, r := range returnsOf(cd.f) {
				v := r.Results[0]
				if v != ssa.Value(cd.f.Params[cd.idx]) && derived(cd.f, cd.idx, v) {
					extends = true
				}
			}
			if !extends {
				delete(dstOf, cd.f)
				changed = true
			}
		}
	}
	n := 0
	var fs []*ssa.Function
	for f := range dstOf {
		fs = append(fs, f)
	}
	sort.Slice(fs, func(i, j int) bool { return FuncName(fs[i]) < FuncName(fs[j]) })
	for _, f := range fs {
		idx := dstOf[f]
		n++
		bad := ""
		for _, r := range returnsOf(f) {
			if !derived(f, idx, r.Results[0]) {
				vs, _ := accessPath(r.Results[0])
				bad = "returns " + trunc(vs) + " at " + c.P.Pos(r.Pos()) + ", which is not built from the destination parameter " + f.Params[idx].Name()
			}
		}
		c.Check(bad == "", f.Pos(), FuncName(f), "append-style result", "every return is the destination (possibly extended)", bad+": what the caller had accumulated is lost on that path")
	}
	if n < 30 {
		c.Errorf("only %d append-style functions found, expected >= 30", n)
	}
}

func init() {
	register(&Rule{
		ID:    "C01.grouped",
		Props: []string{"C01", "C13", "C10"},
		Doc:   "adjacent-duplicate removal needs a grouped input: every call of a function that removes only ADJACENT duplicates (uniquifyGroupedXYs, and any function whose loop compares element i with element i-1 and compacts in place) receives the very slice value that a dominating sort call (sort.Slice/sort.Sort/sort.Float64s) has just sorted — de-duplicating before the sort leaves equal values that are not neighbours, e.g. a cut point reported by two crossing lines, which becomes a zero-length edge",
		Floor: 2,
		Run:   runC01Grouped,
	})
	register(&Rule{
		ID:    "C01.peroperand",
		Props: []string{"C01", "C02", "C10"},
		Doc:   "per-operand passes do not share scratch state: a function literal run once per operand (passed to forEachOperand) and the closures nested in it write only to maps created inside that literal — a visited/memo map captured from the enclosing function carries operand A's traversal into operand B's pass (faces visited for A are never entered for B)",
		Floor: 1,
		Run:   runC01PerOperand,
	})
}

// adjacentDedup: f compacts its slice parameter by comparing element i with
// element i-1 (removes adjacent duplicates only).
func adjacentDedup(f *ssa.Function) bool {
	if f.Blocks == nil || len(f.Params) != 1 {
		return false
	}
	if _, ok := f.Params[0].Type().Underlying().(*types.Slice); !ok {
		return false
	}
	found := false
	selfSorting := false
	eachCall(f, func(ci ssa.CallInstruction) {
		if strings.HasPrefix(calleeName(ci), "sort.") {
			selfSorting = true
		}
	})
	if selfSorting {
		return false // sorts its input itself: removes all duplicates
	}
	eachInstr(f, func(in ssa.Instruction) {
		bo, ok := in.(*ssa.BinOp)
		if !ok || (bo.Op != token.NEQ && bo.Op != token.EQL) {
			return
		}
		idx := func(v ssa.Value) (ssa.Value, bool) {
			ld, ok := v.(*ssa.UnOp)
			if !ok || ld.Op != token.MUL {
				return nil, false
			}
			ia, ok := ld.X.(*ssa.IndexAddr)
			if !ok || ia.X != ssa.Value(f.Params[0]) {
				return nil, false
			}
			return ia.Index, true
		}
		i1, ok1 := idx(bo.X)
		i2, ok2 := idx(bo.Y)
		if !ok1 || !ok2 {
			return
		}
		for _, pr := range [][2]ssa.Value{{i1, i2}, {i2, i1}} {
			if sub, ok := pr[1].(*ssa.BinOp); ok && sub.Op == token.SUB && sub.X == pr[0] {
				if k, isC := constInt(sub.Y); isC && k == 1 {
					found = true
				}
			}
		}
	})
	return found
}

func runC01Grouped(c *Ctx) {
	var dedups []*ssa.Function
	for _, f := range c.P.Funcs {
		// the known adjacent-duplicate remover (however its loop is written) and anything of that shape
		if c.P.InRepo(f) && f.Parent() == nil && (FuncName(f) == "geom.uniquifyGroupedXYs" || adjacentDedup(f)) {
			dedups = append(dedups, f)
		}
	}
	if len(dedups) < 1 {
		c.Errorf("no adjacent-duplicate remover found (uniquifyGroupedXYs expected)")
		return
	}
	isDedup := map[*ssa.Function]bool{}
	for _, d := range dedups {
		isDedup[d] = true
	}
	n := 0
	for _, f := range c.P.Funcs {
		if !c.P.InRepo(f) {
			continue
		}
		fn := FuncName(f)
		eachCall(f, func(ci ssa.CallInstruction) {
			cal := staticCallee(ci)
			if cal == nil || !isDedup[cal] {
				return
			}
			n++
			arg := ci.Common().Args[0]
			sorted := false
			eachCall(f, func(sc ssa.CallInstruction) {
				name := calleeName(sc)
				if !strings.HasPrefix(name, "sort.") || len(sc.Common().Args) == 0 {
					return
				}
				a0 := sc.Common().Args[0]
				if mi, ok := a0.(*ssa.MakeInterface); ok {
					a0 = mi.X
				}
				if a0 != arg && !sameValue(a0, arg) {
					return
				}
				// the sort comes first on every path: same block earlier, or a dominating block
				if sc.Block() == ci.Block() {
					for _, in := range sc.Block().Instrs {
						if in == sc.(ssa.Instruction) {
							sorted = true
							break
						}
						if in == ci.(ssa.Instruction) {
							break
						}
					}
				} else if sc.Block().Dominates(ci.Block()) {
					sorted = true
				}
			})
			// a self-contained dedup that sorts inside is not an adjacent-only remover; the
			// sorted-on-entry contract can also be met by the caller when f itself is such a remover
			as, _ := accessPath(arg)
			c.Check(sorted, ci.Pos(), fn, "adjacent de-duplication of "+trunc(as), "the same slice value was sorted by a dominating sort call", "`"+cal.Name()+"` removes only adjacent duplicates, but its argument has not been sorted first (no dominating sort of that slice value): equal elements that are not neighbours survive")
		})
	}
	if n < 2 {
		c.Errorf("only %d calls of adjacent-duplicate removers found, expected 2", n)
	}
}

func runC01PerOperand(c *Ctx) {
	n := 0
	for _, f := range c.P.Funcs {
		if pkgOf(f) != "geom" {
			continue
		}
		for _, call := range callsTo(f, "geom.forEachOperand") {
			mc, ok := call.Common().Args[0].(*ssa.MakeClosure)
			if !ok {
				continue // a plain function: has no captured state
			}
			lit := mc.Fn.(*ssa.Function)
			n++
			fn := FuncName(lit)
			bad := ""
			// maps written by lit or closures nested in it
			var visit func(g *ssa.Function)
			visit = func(g *ssa.Function) {
				eachInstr(g, func(in ssa.Instruction) {
					mu, ok := in.(*ssa.MapUpdate)
					if !ok {
						return
					}
					// resolve the map's cell up to lit
					v := mu.Map
					h := g
					for i := 0; i < 6; i++ {
						ld, ok := v.(*ssa.UnOp)
						if !ok || ld.Op != token.MUL {
							break
						}
						fv, ok := ld.X.(*ssa.FreeVar)
						if !ok {
							break
						}
						if h == lit {
							ms, _ := accessPath(mu.Map)
							bad = "writes to the map " + ms + " captured from " + FuncName(lit.Parent()) + " at " + c.P.Pos(mu.Pos())
							return
						}
						// find the binding of fv in the MakeClosure of h inside its parent
						idx := -1
						for k, x := range h.FreeVars {
							if x == fv {
								idx = k
							}
						}
						par := h.Parent()
						var bind ssa.Value
						if par != nil && idx >= 0 {
							eachInstr(par, func(in2 ssa.Instruction) {
								if m2, ok := in2.(*ssa.MakeClosure); ok && m2.Fn == ssa.Value(h) && idx < len(m2.Bindings) {
									bind = m2.Bindings[idx]
								}
							})
						}
						if bind == nil {
							break
						}
						if _, isFV := bind.(*ssa.FreeVar); isFV {
							// still a captured variable one level up: continue with a load of it
							v = &ssa.UnOp{Op: token.MUL, X: bind}
							h = par
							continue
						}
						break // an Alloc of the parent (inside lit or deeper): private to this pass
					}
				})
				for _, an := range g.AnonFuncs {
					visit(an)
				}
			}
			visit(lit)
			c.Check(bad == "", lit.Pos(), fn, "scratch maps of the per-operand pass", "created inside the pass", "the per-operand pass "+bad+": state of the first operand's pass leaks into the second's")
		}
	}
	if n < 1 {
		c.Errorf("no per-operand function literal found (%d)", n)
	}
}

func init() {
	register(&Rule{
		ID:    "C20.operanddim",
		Props: []string{"C20", "C02"},
		Doc:   "an operand's dimension that selects a formula or a DE-9IM pattern ignores EMPTY members: Geometry.Dimension() reports the highest dimension of a collection's members including empty ones, so outside the Dimension methods themselves it may be applied only to a value known not to be a collection (dominating !IsGeometryCollection(), a leaf handed out by walk, or inside the ignore-empties helper) — otherwise GEOMETRYCOLLECTION(POINT(1 1),POLYGON EMPTY) is treated as areal",
		Floor: 3,
		Run:   runC20OperandDim,
	})
}

// leafListHelper: h is a helper introduced after the baseline that returns a
// list of geometries and whose only appends put the parameter of a function
// literal passed to walk into that list.
func leafListHelper(h *ssa.Function) bool {
	if h == nil || !isNewHelper(h) || len(h.Blocks) == 0 || h.Signature.Results().Len() != 1 {
		return false
	}
	walkLits := map[*ssa.Function]bool{}
	eachCall(h, func(pc ssa.CallInstruction) {
		if strings.HasSuffix(calleeName(pc), ").walk") {
			for _, a := range pc.Common().Args {
				if mc, ok := a.(*ssa.MakeClosure); ok {
					if fnc, ok := mc.Fn.(*ssa.Function); ok {
						walkLits[fnc] = true
					}
				}
			}
		}
	})
	if len(walkLits) == 0 {
		return false
	}
	good, appends := true, 0
	for _, g := range append([]*ssa.Function{h}, allAnon(h)...) {
		eachInstr(g, func(in ssa.Instruction) {
			call, ok := in.(*ssa.Call)
			if !ok {
				return
			}
			b, ok := call.Call.Value.(*ssa.Builtin)
			if !ok || b.Name() != "append" || len(call.Call.Args) != 2 {
				return
			}
			appends++
			if !walkLits[g] {
				good = false
				return
			}
			// the appended element is the literal's own parameter
			sl, ok := call.Call.Args[1].(*ssa.Slice)
			if !ok {
				good = false
				return
			}
			al, ok := sl.X.(*ssa.Alloc)
			if !ok {
				good = false
				return
			}
			okEl := false
			for _, r := range *al.Referrers() {
				if ia, ok := r.(*ssa.IndexAddr); ok {
					for _, rr := range *ia.Referrers() {
						if st, ok := rr.(*ssa.Store); ok && st.Addr == ssa.Value(ia) && stripLoad(st.Val) == ssa.Value(g.Params[0]) {
							okEl = true
						}
					}
				}
			}
			if !okEl {
				good = false
			}
		})
	}
	return good && appends > 0
}

func runC20OperandDim(c *Ctx) {
	n := 0
	for _, f := range c.P.Funcs {
		if pkgOf(f) != "geom" {
			continue
		}
		root := FuncName(rootFunc(f))
		if root == "geom.(Geometry).Dimension" || root == "geom.(GeometryCollection).Dimension" {
			continue
		}
		// a helper introduced since the baseline that only the Dimension methods call is part of them
		if rf := rootFunc(f); isNewHelper(rf) {
			sites := c.P.callSitesOf(rf)
			only := len(sites) > 0
			for _, s := range sites {
				if o := FuncName(rootFunc(s.Parent())); o != "geom.(Geometry).Dimension" && o != "geom.(GeometryCollection).Dimension" {
					only = false
				}
			}
			if only {
				continue
			}
		}
		fn := FuncName(f)
		eachCall(f, func(call ssa.CallInstruction) {
			if calleeName(call) != "geom.(Geometry).Dimension" {
				return
			}
			n++
			recv := call.Common().Args[0]
			rs, _ := accessPath(recv)
			construct := "Dimension() of " + trunc(rs)
			// a leaf handed out by walk: the parameter of a function literal passed to walk
			if par, ok := stripLoad(recv).(*ssa.Parameter); ok && f.Parent() != nil {
				isWalkLit := false
				eachCall(f.Parent(), func(pc ssa.CallInstruction) {
					if strings.HasSuffix(calleeName(pc), ").walk") {
						for _, a := range pc.Common().Args {
							if mc, ok := a.(*ssa.MakeClosure); ok && mc.Fn == ssa.Value(f) {
								isWalkLit = true
							}
						}
					}
				})
				if isWalkLit && par == f.Params[0] {
					c.OK(call.Pos(), fn, construct, "a leaf handed out by walk (never a collection)")
					return
				}
			}
			// the same leaf when the function literal became a method of a small state struct
			// whose method value is what walk receives (and nothing else ever calls it)
			if par, ok := stripLoad(recv).(*ssa.Parameter); ok && f.Parent() == nil && isNewHelper(f) && f.Signature.Recv() != nil && len(f.Params) == 2 && par == f.Params[1] {
				if methodValueOnlyGivenToWalk(c, f) {
					c.OK(call.Pos(), fn, construct, "a leaf handed out by walk to this method value (never a collection)")
					return
				}
			}
			// an element of a list of leaves: a list returned by a helper introduced after the
			// baseline that only ever appends the geometries walk hands to its function literal
			if ld, ok := recv.(*ssa.UnOp); ok && ld.Op == token.MUL {
				if ia, ok := ld.X.(*ssa.IndexAddr); ok {
					if hc, ok := resolveCell(ia.X).(*ssa.Call); ok && leafListHelper(staticCallee(hc)) {
						c.OK(call.Pos(), fn, construct, "an element of the leaf list built by "+calleeName(hc)+" (walk never hands out a collection)")
						return
					}
				}
			}
			for _, g := range guardsAt(call) {
				gc, ok := g.Cond.(*ssa.Call)
				if !ok || len(gc.Call.Args) != 1 || calleeName(gc) != "geom.(Geometry).IsGeometryCollection" || g.Truth {
					continue
				}
				if gc.Call.Args[0] == recv || sameValue(gc.Call.Args[0], recv) || stripLoad(gc.Call.Args[0]) == stripLoad(recv) {
					c.OK(call.Pos(), fn, construct, "dominated by !IsGeometryCollection()")
					return
				}
			}
			c.Bad(call.Pos(), fn, construct, "Dimension() is applied to a geometry that may be a collection: its EMPTY members count towards the result, so an empty member of a higher dimension changes the formula / pattern chosen for the whole operand (empty members must be transparent)")
		})
	}
	if n < 3 {
		c.Errorf("only %d Geometry.Dimension() call sites found, expected >= 3", n)
	}
}

// methodValueOnlyGivenToWalk: every use of method f is its bound method value handed to a
// walk call (walk calls its argument on leaves only).
func methodValueOnlyGivenToWalk(c *Ctx, f *ssa.Function) bool {
	for _, s := range c.P.callSitesOf(f) {
		if !isBoundWrapper(s.Parent()) {
			return false // also called directly, on who knows what
		}
	}
	wrapsF := func(w *ssa.Function) bool {
		if w == nil || !isBoundWrapper(w) {
			return false
		}
		found := false
		eachCall(w, func(ci ssa.CallInstruction) {
			if staticCallee(ci) == f {
				found = true
			}
		})
		return found
	}
	given, bad := 0, false
	for _, g := range c.P.Funcs {
		if pkgOf(g) != "geom" {
			continue
		}
		eachInstr(g, func(in ssa.Instruction) {
			mc, ok := in.(*ssa.MakeClosure)
			if !ok {
				return
			}
			fnv, _ := mc.Fn.(*ssa.Function)
			if !wrapsF(fnv) {
				return
			}
			// every use of the method value: an argument of walk
			for _, r := range *mc.Referrers() {
				if _, isDbg := r.(*ssa.DebugRef); isDbg {
					continue
				}
				ci, isCall := r.(ssa.CallInstruction)
				if !isCall || !strings.HasSuffix(calleeName(ci), ").walk") {
					bad = true
					continue
				}
				given++
			}
		})
	}
	return !bad && given > 0
}
