package main

import (
	"fmt"
	"go/token"
	"go/types"

	"golang.org/x/tools/go/ssa"
)

func init() {
	register(&Rule{
		ID:    "C20.okflag",
		Props: []string{"C20", "C09", "C15", "C02", "C18", "C12", "C14", "C01"},
		Doc:   "comma-ok typestate: for every call of a repository function whose last result is a validity flag (XY, Coordinates, getLine, MinMaxXYs, AsBox, Distance, …; computed as: last result bool, another non-bool result, and some return has the flag constant false), every use of a value result is dominated by the flag being true, is forwarded together with the flag, or the value is discarded",
		Floor: 60,
		Run:   runOkFlag,
	})
}

// flagFuncs: repository functions with (values..., ok bool) where some return
// sets ok=false.
func flagFuncs(p *Program) map[*ssa.Function]bool {
	out := map[*ssa.Function]bool{}
	for n := -1; n != len(out); {
		n = len(out)
		flagFuncsPass(p, out)
	}
	return out
}

// flagDerived: the Boolean v is built (through phis, && / ||, negation and
// single-store cells) from the flag of a flag function or from a constant
// false on some path.
func flagDerived(v ssa.Value, out map[*ssa.Function]bool, d int) bool {
	if d > 6 {
		return false
	}
	v = resolveCell(v)
	switch x := v.(type) {
	case *ssa.Const:
		b, ok := constBool(x)
		return ok && !b
	case *ssa.Phi:
		for _, e := range x.Edges {
			if flagDerived(e, out, d+1) {
				return true
			}
		}
	case *ssa.BinOp:
		return flagDerived(x.X, out, d+1) || flagDerived(x.Y, out, d+1)
	case *ssa.UnOp:
		if x.Op == token.NOT {
			return flagDerived(x.X, out, d+1)
		}
	case *ssa.Extract:
		if c, ok := x.Tuple.(*ssa.Call); ok {
			if cal := staticCallee(c); cal != nil && out[cal] && x.Index == cal.Signature.Results().Len()-1 {
				return true
			}
		}
	}
	return false
}

func flagFuncsPass(p *Program, out map[*ssa.Function]bool) {
	for _, f := range p.Funcs {
		res := f.Signature.Results()
		n := res.Len()
		if n < 2 || !isBoolT(res.At(n-1).Type()) {
			continue
		}
		nonBool := false
		for i := 0; i < n-1; i++ {
			if !isBoolT(res.At(i).Type()) {
				nonBool = true
			}
		}
		if !nonBool {
			continue
		}
		hasFalse := false
		for _, r := range returnsOf(f) {
			if b, ok := constBool(r.Results[n-1]); ok && !b {
				hasFalse = true
			}
			// flag forwarded from another flag function also counts
			if ex, ok := r.Results[n-1].(*ssa.Extract); ok {
				if c, ok := ex.Tuple.(*ssa.Call); ok {
					if cal := staticCallee(c); cal != nil && out[cal] {
						hasFalse = true
					}
				}
			}
			if _, isConst := r.Results[n-1].(*ssa.Const); !isConst {
				// computed flag (e.g. `return x, t.root != nil`): every such
				// function of the baseline was confirmed by reading to be a
				// validity flag; in a helper introduced later a computed
				// Boolean result counts only when it derives from a validity
				// flag (any other Boolean — hasZ, isClosed — is ordinary data)
				if !isNewHelper(f) || flagDerived(r.Results[n-1], out, 0) {
					hasFalse = true
				}
			}
		}
		if hasFalse && isNewHelper(f) && discriminatorFlag(f) {
			// `(idx int, isXY bool)`: both answers come with a real value — the Boolean
			// tells two cases apart, it does not say whether the value exists
			continue
		}
		if hasFalse && isNewHelper(f) && invertedFlag(f) {
			// `(rings, exteriorCollapsed bool)`: true announces the placeholder, the
			// values are real when the flag is false — not the comma-ok convention
			// this rule is about
			continue
		}
		if hasFalse {
			out[f] = true
		}
	}
}

// discriminatorFlag: some return with the constant flag false carries a computed
// (non-placeholder) value: the flag is not a validity flag.
func discriminatorFlag(f *ssa.Function) bool {
	n := f.Signature.Results().Len()
	for _, r := range returnsOf(f) {
		b, ok := constBool(r.Results[n-1])
		if !ok || b {
			continue
		}
		for i := 0; i < n-1; i++ {
			if _, isC := r.Results[i].(*ssa.Const); !isC {
				if _, isZeroStruct := r.Results[i].(*ssa.UnOp); isZeroStruct {
					continue // load of a zero-valued local (e.g. `var c Coordinates`)
				}
				return true
			}
		}
	}
	return false
}

// invertedFlag: among f's returns with a constant last result, those with true
// carry only placeholders (nil / zero constants) and some return with false
// carries a real value.
func invertedFlag(f *ssa.Function) bool {
	n := f.Signature.Results().Len()
	placeholder := func(r *ssa.Return) bool {
		for i := 0; i < n-1; i++ {
			k, ok := r.Results[i].(*ssa.Const)
			if !ok {
				return false
			}
			if k.Value != nil {
				if v, isInt := constInt(k); !isInt || v != 0 {
					return false
				}
			}
		}
		return true
	}
	truePlaceholder, trueReal, falseReal := false, false, false
	for _, r := range returnsOf(f) {
		b, ok := constBool(r.Results[n-1])
		if !ok {
			return false
		}
		switch {
		case b && placeholder(r):
			truePlaceholder = true
		case b:
			trueReal = true
		case !placeholder(r):
			falseReal = true
		}
	}
	return truePlaceholder && falseReal && !trueReal
}

// resolveCell follows loads of single-store cells (locals and captured
// variables) back to the stored value.
func resolveCell(v ssa.Value) ssa.Value {
	for i := 0; i < 8; i++ {
		u, ok := v.(*ssa.UnOp)
		if !ok || u.Op != token.MUL {
			return v
		}
		switch a := u.X.(type) {
		case *ssa.Alloc, *ssa.FreeVar:
			st := uniqueStore(a)
			if st == nil {
				return v
			}
			v = st
		default:
			return v
		}
	}
	return v
}

func runOkFlag(c *Ctx) {
	ff := flagFuncs(c.P)
	if len(ff) < 15 {
		c.Errorf("only %d flag-returning functions found, expected >= 15", len(ff))
	}
	sites := 0
	for _, f := range c.P.Funcs {
		fn := FuncName(f)
		eachInstr(f, func(in ssa.Instruction) {
			call, ok := in.(*ssa.Call)
			if !ok {
				return
			}
			cal := staticCallee(call)
			if cal == nil || !ff[cal] {
				return
			}
			sites++
			nres := cal.Signature.Results().Len()
			var flag *ssa.Extract
			var vals []*ssa.Extract
			for _, r := range *call.Referrers() {
				if ex, ok := r.(*ssa.Extract); ok {
					if ex.Index == nres-1 {
						flag = ex
					} else {
						vals = append(vals, ex)
					}
				}
			}
			construct := "use of value result of " + FuncName(cal)
			if len(vals) == 0 {
				c.Triv(call.Pos(), fn, construct, "value results discarded (only the flag is used)")
				return
			}
			// isFlag: v is the flag (directly, via a cell, negated handled by expandGuard)
			isFlag := func(v ssa.Value) bool {
				if flag == nil {
					return false
				}
				return resolveCell(v) == ssa.Value(flag)
			}
			var flagTrueAt func(at ssa.Instruction) bool
			flagTrueAt = func(at ssa.Instruction) bool {
				for _, g := range guardsAt(at) {
					if g.Truth && isFlag(g.Cond) {
						return true
					}
				}
				if flagImpliedAt(at, flag, ff) {
					return true
				}
				// a use inside a closure: the guard may dominate the creation of the closure
				if at.Parent() != f && at.Parent() != nil && at.Parent().Parent() != nil {
					if mc := makeClosureOf(at.Parent()); mc != nil {
						return flagTrueAt(mc)
					}
				}
				return false
			}
			flagFalseAt := func(at ssa.Instruction) bool {
				for _, g := range guardsAt(at) {
					if !g.Truth && isFlag(g.Cond) {
						return true
					}
				}
				return false
			}
			var bad ssa.Instruction
			var badWhy string
			seen := map[ssa.Value]bool{}
			var checkUses func(v ssa.Value)
			checkUses = func(v ssa.Value) {
				if seen[v] || bad != nil {
					return
				}
				seen[v] = true
				refs := v.Referrers()
				if refs == nil {
					return
				}
				for _, r := range *refs {
					if bad != nil {
						return
					}
					switch u := r.(type) {
					case *ssa.DebugRef:
						continue
					case *ssa.Return:
						fwd := false
						for _, rv := range u.Results {
							if isFlag(rv) {
								fwd = true
							}
						}
						if fwd || flagTrueAt(u) {
							continue
						}
						bad, badWhy = u, "returned without the flag"
					case *ssa.Store:
						if u.Val != v {
							continue
						}
						if flagTrueAt(u) {
							continue
						}
						switch a := u.Addr.(type) {
						case *ssa.Alloc:
							// sentinel idiom: `v, ok := f(); if !ok { v = <constant> }`
							replaced := false
							for _, rr := range *a.Referrers() {
								if st2, ok := rr.(*ssa.Store); ok && st2 != u && st2.Addr == a && flagFalseAt(st2) {
									if _, isC := st2.Val.(*ssa.Const); isC {
										replaced = true
									}
								}
							}
							if replaced {
								continue
							}
							// local variable: its loads are uses
							for _, rr := range *a.Referrers() {
								if ld, ok := rr.(*ssa.UnOp); ok && ld.Op == token.MUL {
									if !flagTrueAt(ld) {
										checkUses(ld)
									}
								}
								if mc, ok := rr.(*ssa.MakeClosure); ok {
									fnc := mc.Fn.(*ssa.Function)
									for i, b := range mc.Bindings {
										if b == a {
											for _, r3 := range *fnc.FreeVars[i].Referrers() {
												if ld, ok := r3.(*ssa.UnOp); ok && ld.Op == token.MUL && !flagTrueAt(ld) {
													checkUses(ld)
												}
											}
										}
									}
								}
								if fa, ok := rr.(*ssa.FieldAddr); ok {
									// reading a field of the stored struct value
									for _, r3 := range *fa.Referrers() {
										if ld, ok := r3.(*ssa.UnOp); ok && ld.Op == token.MUL && !flagTrueAt(ld) {
											checkUses(ld)
										}
									}
								}
							}
						case *ssa.FieldAddr:
							// stored into a struct: OK if the flag is stored into the same struct
							if flag != nil && storedTogether(a, flag) {
								continue
							}
							if flagTrueAt(u) {
								continue
							}
							bad, badWhy = u, "stored into a field without the flag"
						default:
							if flagTrueAt(u) {
								continue
							}
							bad, badWhy = u, "stored while the flag is not known to be true"
						}
					case *ssa.Phi:
						if flagTrueAt(firstNonPhi(u.Block())) {
							continue
						}
						// sentinel idiom in SSA form: the edge carrying v is the flag-true edge
						okEdges := true
						for i, e := range u.Edges {
							if e != v {
								continue
							}
							p := u.Block().Preds[i]
							edgeOK := false
							if ifi, ok := p.Instrs[len(p.Instrs)-1].(*ssa.If); ok && isFlag(ifi.Cond) && p.Succs[0] == u.Block() && p.Succs[1] != u.Block() {
								edgeOK = true
							}
							if ifi, ok := p.Instrs[len(p.Instrs)-1].(*ssa.If); ok && p.Succs[1] == u.Block() && p.Succs[0] != u.Block() {
								if un, ok := ifi.Cond.(*ssa.UnOp); ok && un.Op == token.NOT && isFlag(un.X) {
									edgeOK = true
								}
							}
							for _, g := range guardsAtBlock(p) {
								if g.Truth && isFlag(g.Cond) {
									edgeOK = true
								}
							}
							if !edgeOK {
								okEdges = false
							}
						}
						if okEdges {
							continue
						}
						checkUses(u)
					case *ssa.Field, *ssa.FieldAddr, *ssa.Extract, *ssa.ChangeType, *ssa.Convert, *ssa.MakeInterface:
						if flagTrueAt(r) {
							continue
						}
						// pure projections: their uses are the real uses
						checkUses(r.(ssa.Value))
					case *ssa.Call:
						if flagTrueAt(u) {
							continue
						}
						// handed, together with its flag, to a helper introduced since the baseline: the pair travels on
						// (the helper's own uses of the value are then guarded by the flag it received, or not judged here)
						if h := staticCallee(u); h != nil && isNewHelper(h) {
							withFlag := false
							for _, a := range u.Call.Args {
								if isFlag(a) {
									withFlag = true
								}
							}
							if withFlag {
								continue
							}
						}
						bad, badWhy = r, "used"
					default:
						if flagTrueAt(r) {
							continue
						}
						bad, badWhy = r, "used"
					}
				}
			}
			for _, v := range vals {
				checkUses(v)
			}
			if bad != nil {
				fl := "the flag result is discarded"
				if flag != nil {
					fl = "the flag is not known to be true there"
				}
				c.Bad(instrPos(bad), fn, construct, fmt.Sprintf("value %s at %s but %s: on the invalid/empty path the value is a zero placeholder (e.g. XY{0,0}) that would be treated as real data", badWhy, c.P.Pos(instrPos(bad)), fl))
				return
			}
			c.OK(call.Pos(), fn, construct, "every use is dominated by the flag being true or forwards the flag")
		})
	}
	if sites < 60 {
		c.Errorf("only %d comma-ok call sites found", sites)
	}
}

func firstNonPhi(b *ssa.BasicBlock) ssa.Instruction {
	for _, in := range b.Instrs {
		if _, ok := in.(*ssa.Phi); !ok {
			return in
		}
	}
	return b.Instrs[0]
}

// storedTogether: the flag is stored into another field of the struct that fa
// addresses.
func storedTogether(fa *ssa.FieldAddr, flag ssa.Value) bool {
	for _, r := range *fa.X.Referrers() {
		if fa2, ok := r.(*ssa.FieldAddr); ok && fa2 != fa {
			for _, rr := range *fa2.Referrers() {
				if st, ok := rr.(*ssa.Store); ok && st.Addr == fa2 && resolveCell(st.Val) == flag {
					return true
				}
			}
		}
	}
	return false
}

// flagImpliedAt handles the equality-closure idiom: guards `okA != okB` false
// (i.e. okA == okB) together with okA true imply okB; and `!okA` returning.
func flagImpliedAt(at ssa.Instruction, flag *ssa.Extract, ff map[*ssa.Function]bool) bool {
	if flag == nil {
		return false
	}
	gs := guardsAt(at)
	isF := func(v ssa.Value) bool { return resolveCell(v) == ssa.Value(flag) }
	for _, g := range gs {
		bo, ok := g.Cond.(*ssa.BinOp)
		if !ok || !isBoolT(bo.X.Type()) {
			continue
		}
		eq := (bo.Op == token.EQL && g.Truth) || (bo.Op == token.NEQ && !g.Truth)
		if !eq {
			continue
		}
		var other ssa.Value
		if isF(bo.X) {
			other = bo.Y
		} else if isF(bo.Y) {
			other = bo.X
		} else {
			continue
		}
		// other must be known true
		for _, g2 := range gs {
			if g2.Truth && (g2.Cond == other || resolveCell(g2.Cond) == resolveCell(other)) {
				return true
			}
		}
	}
	return false
}

var _ = types.Identical

// makeClosureOf finds the MakeClosure instruction creating fn in its parent.
func makeClosureOf(fn *ssa.Function) ssa.Instruction {
	par := fn.Parent()
	if par == nil {
		return nil
	}
	var out ssa.Instruction
	eachInstr(par, func(in ssa.Instruction) {
		if mc, ok := in.(*ssa.MakeClosure); ok && mc.Fn == fn {
			out = mc
		}
	})
	return out
}
