package main

// Clauses added after the first build round (seed waves 6 and 8, mutation campaigns; DESIGN.md §11.3, §11.7, §11.10).
// They extend the "Decides:" text of each property; what is not decided stays as stated.
func init() {
	more := map[string]string{
		"C01": "the overlay's segment kernel equals exact rational arithmetic on 5760 lattice configurations; the ghost spanning tree's union-find agrees with reachability; member counts per edge are incremented unconditionally; the re-noding routines never return their input; no expression is min/max-ed with itself. re-noding keeps every control point of a line, the final one included (all sequences of up to 4 points).",
		"C02": "union-find of the ghost tree; the mod-2 flag machine also serves Boundary (C15).",
		"C03": "every checking loop of the validation code is left early only with an error; no Z/M in a validity decision; Sequence.validate checks every point, the first included; validateRing applies its four checks whatever the ring length; IsSimple-style predicates never answer their fall-through value from inside the loop; an error that is only compared with nil, or dropped on its non-nil branch, is a violation; nobody constructs NoValidate. an error assigned inside a loop is looked at inside it; the slice given to rtree.BulkLoad is not read again. a loop over a filtered list indexes that list only. The WKB point decoder returns the empty point only for NaN NaN and builds a point only when neither ordinate is NaN (path conditions).",
		"C04": "every raw read of the input is length-checked (no advance in between); byte order never copied from another parser; count sanity checks use at most the smallest element size; a float64 comes from one 64-bit decode; Scan rejects another geometry type; Value/AsBinary/Scan of all seven types are the documented thin wrappers. the WKB member count is the number of direct members written.",
		"C05": "scanner mode and white-space set; numerals are rejected only by ParseFloat/NaN/Inf; every success return of UnmarshalWKT lies behind the end-of-input request; AsText wrappers. keyword tables name all seven types; multi-accumulator append helpers hand every accumulator back. the number returned for a numeral is strconv.ParseFloat's own result.",
		"C06": "names kept out of ForeignMembers = names decoded into fields; every visited position is recorded for the 2D/3D decision; exactly stride elements of a position are used; UnmarshalJSON wrappers. a decode step succeeds only behind json.Unmarshal of its own input. pointers filled by encoding/json are nil-tested; no encoder returns pooled memory. No decode-into adapter re-slices what its receiver held before the call.",
		"C07": "the bbox is marked valid only where a point was folded in; a reused sub-writer clears every sticky flag; precision ranges and ID-count are rejected by interpretation of MarshalTWKB/writeIDList; the header-only bbox reader on (min, delta) pairs with per-dimension and decimal scalings; optional headers are read in the format's order. formTWKB only after writeGeometry/writeAdditionalHeaders on the same writer. ordinates are quantised by rounding, not integer division; a reused TWKB sub-parser is reset completely. TWKB count guards scale by no more than the smallest element. the header byte the writer emits is accepted by the reader for every kind and precision. the writer's varints are canonical around every byte boundary.",
		"C08": "single-byte/slice/fixed-width reads dominated by a sufficient length test; varint byte counts used only where n > 0; a signed count is tested < 0 before a callee computes with it; errors of every decoder step are propagated. nesting-depth counters are balanced on every successful return. No bound check of the binary decoders does its arithmetic in an integer type narrower than 64 bits.",
		"C09": "an existence search never answers false from inside its loop; the segment kernel and the point-on-segment predicate are exact (the latter at three scales). computed verdicts are not returned from inside a quantifier loop of the hasIntersection kernels; a PrioritySearch starts from the box of the item its pruning measures. loadTree numbers records the way the search callback decodes them; a selectively filled buffer leaves a function only re-sliced. no == on Coordinates records in the 2D kernels.",
		"C10": "clone helpers for nested coordinate slices are deep; coordinate constructors do not return values rooted in their slice arguments. (C10.consumed) the items slice of BulkLoad is not read after the load. an extracted ring starts at its smallest edge for every position of that edge (rotateSeqs interpreted, call amount evaluated). no returned byte slice aliases a pooled buffer; a return from inside a map iteration does not depend on its element. sort.Slice comparators index the slice being sorted.",
		"C11": "Nearest's found flag is independent of the sign of the record ID. RangeSearch as a whole on a modelled two-level tree (any traversal style); variable indexes into fixed-size local arrays are guarded. A pure box predicate of rtree with as many comparisons per axis mirrors each comparison on the other axis.",
		"C12": "Force2D is ForceCoordinatesType(DimXY) on every type (literally or by unfolding); Envelope.Center is the midpoint of the bounds, finite for envelopes spanning more than MaxFloat64. AsBox is ok exactly for non-empty envelopes; TransformXY is the per-axis min/max of the transformed corners. NewEnvelope of 0..3 points is the per-axis min/max whatever the order of the points.",
		"C13": "ConvexHull wrappers; the monotone chain's sort dominates every return; the raw floats of a Sequence are not walked outside Sequence. X ordinates are never compared for equality without the Y ordinates.",
		"C14": "centroid divisions are guarded by the total or the receiver's own IsEmpty; each term is weighted by its own element's measure; ring weights are +|A| / -|B| whatever the winding; point counts grow by 1 per point; ForceCW/ForceCCW wrappers. a length is never a bare difference. signed ring areas are ordered against zero only.",
		"C15": "LineString.IsClosed on 0..5 points; the mod-2 flag machine of the overlay input. MultiPolygon.Boundary is exactly the rings (0..2 per member); no built-in tolerance in geom/rtree. GeometryCollection.Boundary has one element per direct member. a point member only adds src/interior labels to its vertex. GeometryCollection.Dimension / IsEmpty fold over the direct members.",
		"C16": "the leaf ForceCoordinatesType of Point and Sequence on all 16 type pairs (stored representation included); Sequence-returning methods type their result by the receiver; collection literals only in the type's own code, members forced when the type is a constant; Force2D/SnapToGrid wrappers. a float list of X,Y pairs is typed DimXY. transformSequence keeps every point's own Z/M.",
		"C17": "evenly spaced fractions end at exactly 1; one cumulative length per segment; snapToGridFloat64 is decimal rounding and odd. list-building loops over a collection are not left by break.",
		"C18": "structureEq is a perfect-matching test for every element relation (n <= 3); geometriesEq decides by type and that type's comparator only; quantifier loops of the comparators; Coordinates values are not compared as whole structs. the element relation pairs index i with the first operand and j with the second. no comparator consults Area/Length/Centroid/Distance/Envelope.",
		"C19": "no division by a vanishing norm in Forward; no one-sided closeness test; a projection written with + - * / only (equirectangular) has Reverse∘Forward = identity as a rational function. setters store every parameter on every path; Reverse returns degrees.",
		"C20": "counting loops start at the first element (12 reviewed exceptions); an empty member never ends a member loop; the last control point is read only from a non-empty sequence; IsEmpty/IsCW/IsCCW loops; an index containing `count - k` is evaluated only where count >= k is established (9 reviewed functions); a variadic option list is forwarded to every delegate that takes one. an exact-capacity assertion counts points, not members. loops over slices look at more than the first element; constant indexes into geometry slice fields are guarded. no scan is cut short by a constant; a list split in two loses no element; package-level tables are indexed within bounds.",
	}
	for id, t := range more {
		if e, ok := propExplanation[id]; ok {
			i := len(e)
			if k := indexOf(e, " NOT decided: "); k >= 0 {
				i = k
			}
			propExplanation[id] = e[:i] + " Also decided (added later): " + t + e[i:]
		}
	}
}

func indexOf(s, sub string) int {
	for i := 0; i+len(sub) <= len(s); i++ {
		if s[i:i+len(sub)] == sub {
			return i
		}
	}
	return -1
}
