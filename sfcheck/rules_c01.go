package main

import (
	"fmt"
	"strings"

	"golang.org/x/tools/go/ssa"
)

func init() {
	register(&Rule{
		ID:    "C01.empty",
		Props: []string{"C01", "C20", "C16"},
		Doc:   "decision table of the binary set operations over (a.IsEmpty(), b.IsEmpty()), obtained by interpreting each function's control flow over the 4 models: every cell is either the full overlay setOp(a, <the operator's include function>, b) with operands in order, or the algebraically correct shortcut — the zero Geometry where A∘B is empty, UnaryUnion(x) (never x itself: the result must be in canonical form and XY) where A∘B = x",
		Floor: 16,
		Run:   runC01Empty,
	})
	register(&Rule{
		ID:    "C01.op",
		Props: []string{"C01"},
		Doc:   "truth tables of the include functions or/and/xor/andNot (interpreted over the 4 models of their [2]bool argument) equal the Boolean operators; UnaryUnion is setOp(g, or, zero Geometry); UnionMany is UnaryUnion of the collection",
		Floor: 5,
		Run:   runC01Op,
	})
	register(&Rule{
		ID:    "C01.validate",
		Props: []string{"C01", "C03"},
		Doc:   "setOp: the geometry extracted from the overlay is the one validated, the success return is unreachable unless Validate() returned nil, and the error is returned; extractGeometry and newDCELFromGeometries are called only from the reviewed entry points",
		Floor: 3,
		Run:   runC01Validate,
	})
}

func runC01Empty(c *Ctx) {
	type spec struct {
		fn  string
		op  string
		exp map[[2]bool]string // expected shortcut: "zero", "A", "B", "" (none: must be the op)
	}
	specs := []spec{
		{"Union", "geom.or", map[[2]bool]string{{true, true}: "zero", {true, false}: "B", {false, true}: "A"}},
		{"Intersection", "geom.and", map[[2]bool]string{{true, true}: "zero", {true, false}: "zero", {false, true}: "zero"}},
		{"Difference", "geom.andNot", map[[2]bool]string{{true, true}: "zero", {true, false}: "zero", {false, true}: "A"}},
		{"SymmetricDifference", "geom.xor", map[[2]bool]string{{true, true}: "zero", {true, false}: "B", {false, true}: "A"}},
	}
	for _, s := range specs {
		f := c.P.Func("geom." + s.fn)
		if f == nil {
			c.Errorf("anchor geom.%s does not resolve", s.fn)
			continue
		}
		fn := FuncName(f)
		for _, aE := range []bool{true, false} {
			for _, bE := range []bool{true, false} {
				m := &Model{Num: map[string]float64{}, Bool: map[string]bool{
					"geom.(Geometry).IsEmpty($0)": aE, "geom.(Geometry).IsEmpty($1)": bE,
				}}
				construct := fmt.Sprintf("result when a.IsEmpty()=%v, b.IsEmpty()=%v", aE, bE)
				full := fmt.Sprintf("geom.setOp($0,%s,$1)#0", s.op)
				want := s.exp[[2]bool{aE, bE}]
				acceptable := func(got string) bool {
					switch {
					case got == full:
						return true
					case want == "zero" && got == "zero":
						return true
					case want == "A" && got == "geom.UnaryUnion($0)#0":
						return true
					case want == "B" && got == "geom.UnaryUnion($1)#0":
						return true
					}
					return false
				}
				// other Boolean atoms the function consults are enumerated both ways: every
				// outcome must be acceptable.
				got, ok, undec := "", true, ""
				extra := []string{}
				for round := 0; round < 4; round++ {
					outcomes := map[string]bool{}
					missing := false
					k4enumerate(nil, nil, extra, func(mm *Model) bool {
						for k, v := range m.Bool {
							mm.Bool[k] = v
						}
						mm.Missing = map[string]bool{}
						res, err := k4run(c.P, f, mm, func(*ssa.Function) bool { return false })
						if err != nil || len(res) == 0 {
							for k := range mm.Missing {
								if strings.HasPrefix(k, "bool ") {
									extra = append(extra, strings.TrimPrefix(k, "bool "))
									missing = true
								}
							}
							if !missing {
								undec = fmt.Sprintf("cannot interpret the control flow: %v %s", err, missingList(mm))
							}
							return false
						}
						outcomes[res[0].String()] = true
						return true
					})
					if missing {
						continue
					}
					for o := range outcomes {
						if got == "" || !acceptable(o) {
							got = o
						}
						if !acceptable(o) {
							ok = false
						}
					}
					break
				}
				if undec != "" || got == "" {
					c.Undecided(f.Pos(), fn, construct, undec)
					continue
				}
				if ok {
					c.OK(f.Pos(), fn, construct, "returns "+got)
				} else {
					exp := full
					switch want {
					case "zero":
						exp += " or the zero Geometry"
					case "A":
						exp += " or UnaryUnion(a)"
					case "B":
						exp += " or UnaryUnion(b)"
					}
					c.Bad(f.Pos(), fn, construct, fmt.Sprintf("returns %s; the set algebra requires %s (a shortcut must be the canonical self-union of the surviving operand, not the operand itself or another operator)", got, strings.ReplaceAll(exp, "#0", "")))
				}
			}
		}
	}
}

func runC01Op(c *Ctx) {
	tables := map[string]func(a, b bool) bool{
		"or":     func(a, b bool) bool { return a || b },
		"and":    func(a, b bool) bool { return a && b },
		"xor":    func(a, b bool) bool { return a != b },
		"andNot": func(a, b bool) bool { return a && !b },
	}
	for _, name := range []string{"or", "and", "xor", "andNot"} {
		f := c.P.Func("geom." + name)
		if f == nil {
			c.Errorf("anchor geom.%s does not resolve", name)
			continue
		}
		bad := ""
		for _, a := range []bool{false, true} {
			for _, b := range []bool{false, true} {
				m := &Model{Num: map[string]float64{}, Bool: map[string]bool{"$0[0]": a, "$0[1]": b}}
				res, err := k4run(c.P, f, m, nil)
				if err != nil || len(res) != 1 || res[0].kind != 1 {
					bad = fmt.Sprintf("cannot interpret: %v %s", err, missingList(m))
					break
				}
				if res[0].b != tables[name](a, b) {
					bad = fmt.Sprintf("%s(%v,%v) = %v", name, a, b, res[0].b)
				}
			}
		}
		if bad == "" {
			c.OK(f.Pos(), FuncName(f), "truth table", "equals the Boolean operator on all 4 rows")
		} else {
			c.Bad(f.Pos(), FuncName(f), "truth table", "include function differs from its operator: "+bad)
		}
	}
	if f := c.P.Func("geom.UnaryUnion"); f != nil {
		m := &Model{Num: map[string]float64{}, Bool: map[string]bool{}}
		res, err := k4run(c.P, f, m, nil)
		got := ""
		if err == nil && len(res) > 0 {
			got = res[0].String()
		}
		c.Check(got == "geom.setOp($0,geom.or,zero)#0", f.Pos(), FuncName(f), "definition", "setOp(g, or, zero Geometry)", "UnaryUnion is not the union of its argument with the empty geometry: "+got)
	} else {
		c.Errorf("anchor geom.UnaryUnion does not resolve")
	}
}

func runC01Validate(c *Ctx) {
	f := c.P.Func("geom.setOp")
	if f == nil {
		c.Errorf("anchor geom.setOp does not resolve")
		return
	}
	fn := FuncName(f)
	// by interpretation (helpers introduced since the baseline are unfolded): with the overlay, its
	// extraction and Validate opaque, setOp returns the extracted geometry and a nil error exactly
	// when the extraction succeeded and Validate returned nil; otherwise a non-nil error
	{
		firstArg := func(t string) string {
			depth := 0
			for i, r := range t {
				switch r {
				case '(', '[', '{':
					depth++
				case ')', ']', '}':
					depth--
				case ',':
					if depth == 0 {
						return t[:i]
					}
				}
			}
			return t
		}
		problem, undec := "", ""
		models := 0
		for _, exOK := range []bool{true, false} {
			for _, valOK := range []bool{true, false} {
				models++
				var nilness func(t string) (bool, bool)
				nilness = func(t string) (bool, bool) {
					t = strings.Trim(t, "\"")
					switch {
					case t == "nil":
						return true, true
					case isFreshErrorTerm(t):
						return false, true
					case strings.HasPrefix(t, "geom.wrap("):
						return nilness(firstArg(t[len("geom.wrap("):]))
					case strings.Contains(t, ").Validate("):
						return valOK, true
					case strings.Contains(t, "extractGeometry("):
						return exOK, true
					}
					return false, false
				}
				m := &Model{Num: map[string]float64{}, Bool: map[string]bool{}, Missing: map[string]bool{}}
				it := &k4interp{p: c.P, m: m, mem: map[string]k4val{}}
				validated := ""
				it.onOpaque = func(name string, args []k4val) {
					if strings.HasSuffix(name, ").Validate") && len(args) > 0 {
						validated = args[0].String()
					}
				}
				it.answer = func(key string, isBool bool) (k4val, bool) {
					if !isBool || !strings.HasPrefix(key, "(") || !strings.HasSuffix(key, "==nil)") {
						return k4val{}, false
					}
					if isNil, ok := nilness(key[1 : len(key)-len("==nil)")]); ok {
						return k4val{kind: 1, b: isNil}, true
					}
					return k4val{}, false
				}
				res, err := it.call(f, []k4val{{kind: 3, s: "$0"}, {kind: 3, s: "$1"}, {kind: 3, s: "$2"}}, nil)
				if err != nil || len(res) != 2 {
					undec = fmt.Sprintf("%v %s", err, missingList(m))
					break
				}
				errNil, ok := nilness(res[1].String())
				if !ok {
					undec = "cannot tell whether the returned error " + trunc(res[1].String()) + " is nil"
					break
				}
				desc := fmt.Sprintf("extraction ok=%v, Validate ok=%v", exOK, valOK)
				switch {
				case exOK && valOK:
					if !errNil {
						problem = desc + ": setOp returns an error"
					} else if !strings.Contains(res[0].String(), "extractGeometry(") {
						problem = desc + ": the geometry returned (" + trunc(res[0].String()) + ") is not the one extracted from the overlay"
					} else if !strings.Contains(validated, "extractGeometry(") {
						problem = desc + ": Validate() is not called on the geometry extracted from the overlay"
					}
				case errNil:
					if exOK {
						problem = desc + ": the success return is reachable without Validate() having returned nil"
					} else {
						problem = desc + ": setOp returns no error although the extraction failed"
					}
				}
			}
		}
		switch {
		case undec != "":
			c.Undecided(f.Pos(), fn, "validate overlay result", "cannot interpret: "+undec)
		case problem != "":
			c.Bad(f.Pos(), fn, "validate overlay result", problem)
		default:
			c.OK(f.Pos(), fn, "validate overlay result", fmt.Sprintf("extracted geometry is validated on every success path and is the value returned (%d models)", models))
		}
	}
	// the reviewed callers, and the helpers introduced since the baseline that only they call
	ownersOf := func(g *ssa.Function) []string {
		var owners []string
		seen := map[*ssa.Function]bool{}
		var up func(g *ssa.Function, d int)
		up = func(g *ssa.Function, d int) {
			g = rootFunc(g)
			if seen[g] || d > 4 {
				return
			}
			seen[g] = true
			if !isNewHelper(g) {
				owners = append(owners, FuncName(g))
				return
			}
			for _, ci := range c.P.callersOf(g) {
				up(ci.Parent(), d+1)
			}
		}
		up(g, 0)
		return owners
	}
	// who may call
	for callee, allowed := range map[string][]string{
		"geom.(*doublyConnectedEdgeList).extractGeometry": {"geom.setOp"},
		"geom.newDCELFromGeometries":                      {"geom.setOp", "geom.Relate"},
	} {
		cf := c.P.Func(callee)
		if cf == nil {
			c.Errorf("anchor %s does not resolve", callee)
			continue
		}
		for _, call := range c.P.callersOf(cf) {
			caller := FuncName(rootFunc(call.Parent()))
			owners := ownersOf(call.Parent())
			ok := len(owners) > 0
			for _, o := range owners {
				isAllowed := false
				for _, a := range allowed {
					if a == o {
						isAllowed = true
					}
				}
				if !isAllowed {
					ok = false
				}
			}
			c.Check(ok, call.Pos(), caller, "call "+callee, "reviewed caller", "overlay internals called from an unreviewed function (its result would bypass validation / canonicalisation)")
		}
	}
}

func calleeNameOfValue(v ssa.Value) string {
	if c, ok := v.(*ssa.Call); ok {
		return calleeName(c)
	}
	return ""
}
