package main

import (
	"fmt"
	"go/token"
	"go/types"
	"sort"
	"strings"

	"golang.org/x/tools/go/ssa"
)

func init() {
	register(&Rule{
		ID:    "C11.axes",
		Props: []string{"C11", "C09", "C12"},
		Doc:   "a pure box predicate treats both axes alike: every function of rtree that takes boxes, returns one bool and consists of nothing but comparisons between bounds of one axis (overlap, and any later `contains` / `covers` / `disjoint` helper a fast path is built on) and makes as many comparisons on one axis as on the other must make, for every comparison between X bounds, the same comparison between the corresponding Y bounds and vice versa — a mis-copied bound (`outer.MinY <= inner.MaxY` beside `outer.MinX <= inner.MinX`) is reported",
		Floor: 0,
		Run:   runC11Axes,
	})
}

// boxBoundOf resolves v to "<param index>.<field name>" when it reads a float field of a
// parameter that is a struct of four float bounds (by value or through a pointer).
func boxBoundOf(v ssa.Value) (string, bool) {
	v = stripConv(v)
	var x ssa.Value
	var st *types.Struct
	var idx int
	switch f := v.(type) {
	case *ssa.Field:
		x, idx = f.X, f.Field
		st, _ = f.X.Type().Underlying().(*types.Struct)
	case *ssa.UnOp:
		fa, ok := f.X.(*ssa.FieldAddr)
		if f.Op != token.MUL || !ok {
			return "", false
		}
		x, idx = fa.X, fa.Field
		st, _ = deref(fa.X.Type()).Underlying().(*types.Struct)
		// a by-value parameter spilled to a local cell
		if al, isAl := x.(*ssa.Alloc); isAl {
			if sv := uniqueStore(al); sv != nil {
				x = sv
			}
		}
	default:
		return "", false
	}
	par, ok := x.(*ssa.Parameter)
	if !ok || st == nil || st.NumFields() != 4 {
		return "", false
	}
	for i := 0; i < 4; i++ {
		if b, ok := st.Field(i).Type().Underlying().(*types.Basic); !ok || b.Kind() != types.Float64 {
			return "", false
		}
	}
	pi := -1
	for i, p := range par.Parent().Params {
		if p == par {
			pi = i
		}
	}
	return fmt.Sprintf("%d.%s", pi, st.Field(idx).Name()), true
}

// axisOf: "X", "Y" or "" for a bound name such as MinX / MaxY.
func axisOf(bound string) string {
	n := bound[strings.Index(bound, ".")+1:]
	// the axis is the last letter of the bound's name (MinX, MaxY, lox, hiy …)
	switch {
	case strings.HasSuffix(n, "X") || strings.HasSuffix(n, "x"):
		return "X"
	case strings.HasSuffix(n, "Y") || strings.HasSuffix(n, "y"):
		return "Y"
	}
	return ""
}

func swapAxis(bound string) string {
	r := strings.NewReplacer("X", "Y", "Y", "X", "x", "y", "y", "x")
	return bound[:len(bound)-1] + r.Replace(bound[len(bound)-1:])
}

func runC11Axes(c *Ctx) {
	for _, f := range c.P.Funcs {
		if pkgOf(f) != "rtree" || f.Blocks == nil || f.Synthetic != "" {
			continue
		}
		res := f.Signature.Results()
		if res.Len() != 1 {
			continue
		}
		if b, ok := res.At(0).Type().Underlying().(*types.Basic); !ok || b.Kind() != types.Bool {
			continue
		}
		// pure: only reads of box bounds, comparisons between them, and the control
		// flow of && / ||
		pure := true
		var cmps []string
		axes := map[string]bool{}
		eachInstr(f, func(in ssa.Instruction) {
			switch x := in.(type) {
			case *ssa.Field, *ssa.FieldAddr, *ssa.If, *ssa.Jump, *ssa.Phi, *ssa.Return, *ssa.DebugRef:
			case *ssa.Alloc:
				if uniqueStore(x) == nil {
					pure = false
				}
			case *ssa.Store:
				if _, isPar := x.Val.(*ssa.Parameter); !isPar {
					pure = false
				}
			case *ssa.UnOp:
				if x.Op != token.MUL && x.Op != token.NOT {
					pure = false
				}
			case *ssa.BinOp:
				a, okA := boxBoundOf(x.X)
				b, okB := boxBoundOf(x.Y)
				if !okA || !okB || axisOf(a) == "" || axisOf(a) != axisOf(b) {
					pure = false
					return
				}
				op := x.Op
				switch op {
				case token.GTR:
					a, b, op = b, a, token.LSS
				case token.GEQ:
					a, b, op = b, a, token.LEQ
				case token.LSS, token.LEQ:
				case token.EQL, token.NEQ:
					if b < a {
						a, b = b, a
					}
				default:
					pure = false
					return
				}
				axes[axisOf(a)] = true
				cmps = append(cmps, a+" "+op.String()+" "+b)
			default:
				pure = false
			}
		})

		if !pure || len(cmps) == 0 || !axes["X"] || !axes["Y"] {
			continue
		}
		// a predicate that asks different questions of the two axes on purpose (above
		// and overlapping in X, say) makes a different number of comparisons per
		// axis; the copy error has the same number, with one bound off
		nx := 0
		for _, s := range cmps {
			if axisOf(strings.SplitN(s, " ", 2)[0]) == "X" {
				nx++
			}
		}
		if nx*2 != len(cmps) {
			continue
		}
		have := map[string]bool{}
		for _, s := range cmps {
			have[s] = true
		}
		var missing []string
		for _, s := range cmps {
			p := strings.SplitN(s, " ", 3)
			a, b := swapAxis(p[0]), swapAxis(p[2])
			if (p[1] == "==" || p[1] == "!=") && b < a {
				a, b = b, a
			}
			if !have[a+" "+p[1]+" "+b] {
				missing = append(missing, fmt.Sprintf("%s has no counterpart %s %s %s on the other axis", s, a, p[1], b))
			}
		}
		sort.Strings(missing)
		construct := "axis symmetry of a pure box predicate"
		if len(missing) == 0 {
			c.OK(f.Pos(), FuncName(f), construct, fmt.Sprintf("%d comparisons, each mirrored on the other axis", len(cmps)))
		} else {
			c.Bad(f.Pos(), FuncName(f), construct, "the predicate is a conjunction of per-axis comparisons of box bounds, but the two axes are not treated alike: "+missing[0]+" (parameters are numbered from 0): one bound is mis-copied, and whatever search fast path relies on the predicate takes the wrong branch for boxes that differ in that bound")
		}
	}
}

// sliceGrowth follows a slice value back through appends: the value is its root (a
// parameter, or whatever else it starts from) with at least g elements appended, and nothing
// on the way re-slices it. Calls of repository functions count when every return of the
// callee is, in the same sense, one of its own parameters grown.
func sliceGrowth(v ssa.Value, depth int, seen map[ssa.Value]bool) (g int64, ok bool) {
	if depth > 6 {
		return 0, false
	}
	switch x := v.(type) {
	case *ssa.Phi:
		if seen[x] {
			return 1 << 40, true // a cycle adds nothing to the minimum
		}
		seen[x] = true
		defer delete(seen, x)
		best := int64(1 << 40)
		for _, e := range x.Edges {
			ge, ok := sliceGrowth(e, depth, seen)
			if !ok {
				return 0, false
			}
			if ge < best {
				best = ge
			}
		}
		return best, true
	case *ssa.Call:
		if b, isB := x.Call.Value.(*ssa.Builtin); isB {
			if b.Name() != "append" || len(x.Call.Args) != 2 {
				return 0, false
			}
			n := int64(0)
			if sl, isSl := x.Call.Args[1].(*ssa.Slice); isSl && sl.Low == nil && sl.High == nil {
				if al, isAl := sl.X.(*ssa.Alloc); isAl {
					if at, isArr := deref(al.Type()).Underlying().(*types.Array); isArr {
						n = at.Len()
					}
				}
			}
			ga, ok := sliceGrowth(x.Call.Args[0], depth, seen)
			if !ok {
				return 0, false
			}
			return ga + n, true
		}
		cal := staticCallee(x)
		if cal != nil && cal.Pkg != nil && cal.Pkg.Pkg.Path() == "strconv" && strings.HasPrefix(cal.Name(), "Append") && len(x.Call.Args) > 0 {
			// strconv.AppendFloat & co.: documented to return dst extended
			return sliceGrowth(x.Call.Args[0], depth, seen)
		}
		if cal == nil || cal.Blocks == nil {
			return 0, false
		}
		// the callee hands one of its parameters back, grown
		pj, gmin := -1, int64(1<<40)
		for _, r := range returnsOf(cal) {
			if len(r.Results) != 1 {
				return 0, false
			}
			root, gr, ok := sliceGrowthRoot(r.Results[0], depth+1)
			par, isPar := root.(*ssa.Parameter)
			if !ok || !isPar {
				return 0, false
			}
			j := paramIndex(cal, par)
			if j < 0 || (pj >= 0 && pj != j) {
				return 0, false
			}
			pj = j
			if gr < gmin {
				gmin = gr
			}
		}
		if pj < 0 || pj >= len(x.Call.Args) {
			return 0, false
		}
		ga, ok := sliceGrowth(x.Call.Args[pj], depth, seen)
		if !ok {
			return 0, false
		}
		return ga + gmin, true
	case *ssa.Slice, *ssa.UnOp, *ssa.Extract, *ssa.Lookup, *ssa.MakeSlice:
		_ = x
		return 0, false
	}
	return 0, true // a root: parameter, constant nil, …
}

// sliceGrowthRoot: the single root all derivations of v start from, with the growth.
func sliceGrowthRoot(v ssa.Value, depth int) (root ssa.Value, g int64, ok bool) {
	g, ok = sliceGrowth(v, depth, map[ssa.Value]bool{})
	if !ok {
		return nil, 0, false
	}
	var roots []ssa.Value
	seen := map[ssa.Value]bool{}
	var walk func(v ssa.Value, d int)
	walk = func(v ssa.Value, d int) {
		if seen[v] || d > 12 {
			return
		}
		seen[v] = true
		switch x := v.(type) {
		case *ssa.Phi:
			for _, e := range x.Edges {
				walk(e, d+1)
			}
		case *ssa.Call:
			if b, isB := x.Call.Value.(*ssa.Builtin); isB && b.Name() == "append" {
				walk(x.Call.Args[0], d+1)
				return
			}
			if cal := staticCallee(x); cal != nil && cal.Pkg != nil && cal.Pkg.Pkg.Path() == "strconv" && strings.HasPrefix(cal.Name(), "Append") && len(x.Call.Args) > 0 {
				walk(x.Call.Args[0], d+1)
				return
			}
			if cal := staticCallee(x); cal != nil {
				for _, r := range returnsOf(cal) {
					if len(r.Results) == 1 {
						if rt, _, ok := sliceGrowthRoot(r.Results[0], depth+1); ok {
							if par, isPar := rt.(*ssa.Parameter); isPar {
								if j := paramIndex(cal, par); j >= 0 && j < len(x.Call.Args) {
									walk(x.Call.Args[j], d+1)
									return
								}
							}
						}
					}
				}
			}
			roots = append(roots, v)
		default:
			roots = append(roots, v)
		}
	}
	walk(v, 0)
	if len(roots) != 1 {
		return nil, 0, false
	}
	return roots[0], g, true
}

// storeIntoOwnAppendedTail: the address is x[len(x)-k] where x is a root slice with at least
// k elements appended by this very function (and its append-style helpers): the element
// written is one the function itself appended, beyond what the caller can see of the slice
// it passed in.
func storeIntoOwnAppendedTail(addr ssa.Value) bool {
	ia, ok := addr.(*ssa.IndexAddr)
	if !ok {
		return false
	}
	bo, ok := stripConv(ia.Index).(*ssa.BinOp)
	if !ok || bo.Op != token.SUB {
		return false
	}
	k, isC := constInt(bo.Y)
	if !isC || k < 1 {
		return false
	}
	ln, ok := lenOf(stripConv(bo.X))
	if !ok || !(ln == ia.X || sameValue(ln, ia.X)) {
		return false
	}
	g, ok := sliceGrowth(ia.X, 0, map[ssa.Value]bool{})
	return ok && g >= k && g < 1<<39
}
