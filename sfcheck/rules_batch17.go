package main

import (
	"fmt"
	"go/token"
	"go/types"
	"math"
	"sort"
	"strings"

	"golang.org/x/tools/go/ssa"
)

func init() {
	register(&Rule{
		ID:    "C11.axes",
		Props: []string{"C11", "C09", "C12"},
		Doc:   "a pure box predicate treats both axes alike: every function of rtree that takes boxes, returns one bool and consists of nothing but comparisons between bounds of one axis (overlap, and any later `contains` / `covers` / `disjoint` helper a fast path is built on) and makes as many comparisons on one axis as on the other must make, for every comparison between X bounds, the same comparison between the corresponding Y bounds and vice versa — a mis-copied bound (`outer.MinY <= inner.MaxY` beside `outer.MinX <= inner.MinX`) is reported",
		Floor: 0,
		Run:   runC11Axes,
	})
}

// boxBoundOf resolves v to "<param index>.<field name>" when it reads a float field of a
// parameter that is a struct of four float bounds (by value or through a pointer).
func boxBoundOf(v ssa.Value) (string, bool) {
	v = stripConv(v)
	var x ssa.Value
	var st *types.Struct
	var idx int
	switch f := v.(type) {
	case *ssa.Field:
		x, idx = f.X, f.Field
		st, _ = f.X.Type().Underlying().(*types.Struct)
	case *ssa.UnOp:
		fa, ok := f.X.(*ssa.FieldAddr)
		if f.Op != token.MUL || !ok {
			return "", false
		}
		x, idx = fa.X, fa.Field
		st, _ = deref(fa.X.Type()).Underlying().(*types.Struct)
		// a by-value parameter spilled to a local cell
		if al, isAl := x.(*ssa.Alloc); isAl {
			if sv := uniqueStore(al); sv != nil {
				x = sv
			}
		}
	default:
		return "", false
	}
	par, ok := x.(*ssa.Parameter)
	if !ok || st == nil || st.NumFields() != 4 {
		return "", false
	}
	for i := 0; i < 4; i++ {
		if b, ok := st.Field(i).Type().Underlying().(*types.Basic); !ok || b.Kind() != types.Float64 {
			return "", false
		}
	}
	pi := -1
	for i, p := range par.Parent().Params {
		if p == par {
			pi = i
		}
	}
	return fmt.Sprintf("%d.%s", pi, st.Field(idx).Name()), true
}

// axisOf: "X", "Y" or "" for a bound name such as MinX / MaxY.
func axisOf(bound string) string {
	n := bound[strings.Index(bound, ".")+1:]
	// the axis is the last letter of the bound's name (MinX, MaxY, lox, hiy …)
	switch {
	case strings.HasSuffix(n, "X") || strings.HasSuffix(n, "x"):
		return "X"
	case strings.HasSuffix(n, "Y") || strings.HasSuffix(n, "y"):
		return "Y"
	}
	return ""
}

func swapAxis(bound string) string {
	r := strings.NewReplacer("X", "Y", "Y", "X", "x", "y", "y", "x")
	return bound[:len(bound)-1] + r.Replace(bound[len(bound)-1:])
}

func runC11Axes(c *Ctx) {
	for _, f := range c.P.Funcs {
		if pkgOf(f) != "rtree" || f.Blocks == nil || f.Synthetic != "" {
			continue
		}
		res := f.Signature.Results()
		if res.Len() != 1 {
			continue
		}
		if b, ok := res.At(0).Type().Underlying().(*types.Basic); !ok || b.Kind() != types.Bool {
			continue
		}
		// pure: only reads of box bounds, comparisons between them, and the control
		// flow of && / ||
		pure := true
		var cmps []string
		axes := map[string]bool{}
		eachInstr(f, func(in ssa.Instruction) {
			switch x := in.(type) {
			case *ssa.Field, *ssa.FieldAddr, *ssa.If, *ssa.Jump, *ssa.Phi, *ssa.Return, *ssa.DebugRef:
			case *ssa.Alloc:
				if uniqueStore(x) == nil {
					pure = false
				}
			case *ssa.Store:
				if _, isPar := x.Val.(*ssa.Parameter); !isPar {
					pure = false
				}
			case *ssa.UnOp:
				if x.Op != token.MUL && x.Op != token.NOT {
					pure = false
				}
			case *ssa.BinOp:
				a, okA := boxBoundOf(x.X)
				b, okB := boxBoundOf(x.Y)
				if !okA || !okB || axisOf(a) == "" || axisOf(a) != axisOf(b) {
					pure = false
					return
				}
				op := x.Op
				switch op {
				case token.GTR:
					a, b, op = b, a, token.LSS
				case token.GEQ:
					a, b, op = b, a, token.LEQ
				case token.LSS, token.LEQ:
				case token.EQL, token.NEQ:
					if b < a {
						a, b = b, a
					}
				default:
					pure = false
					return
				}
				axes[axisOf(a)] = true
				cmps = append(cmps, a+" "+op.String()+" "+b)
			default:
				pure = false
			}
		})

		if !pure || len(cmps) == 0 || !axes["X"] || !axes["Y"] {
			continue
		}
		// a predicate that asks different questions of the two axes on purpose (above
		// and overlapping in X, say) makes a different number of comparisons per
		// axis; the copy error has the same number, with one bound off
		nx := 0
		for _, s := range cmps {
			if axisOf(strings.SplitN(s, " ", 2)[0]) == "X" {
				nx++
			}
		}
		if nx*2 != len(cmps) {
			continue
		}
		have := map[string]bool{}
		for _, s := range cmps {
			have[s] = true
		}
		var missing []string
		for _, s := range cmps {
			p := strings.SplitN(s, " ", 3)
			a, b := swapAxis(p[0]), swapAxis(p[2])
			if (p[1] == "==" || p[1] == "!=") && b < a {
				a, b = b, a
			}
			if !have[a+" "+p[1]+" "+b] {
				missing = append(missing, fmt.Sprintf("%s has no counterpart %s %s %s on the other axis", s, a, p[1], b))
			}
		}
		sort.Strings(missing)
		construct := "axis symmetry of a pure box predicate"
		if len(missing) == 0 {
			c.OK(f.Pos(), FuncName(f), construct, fmt.Sprintf("%d comparisons, each mirrored on the other axis", len(cmps)))
		} else {
			c.Bad(f.Pos(), FuncName(f), construct, "the predicate is a conjunction of per-axis comparisons of box bounds, but the two axes are not treated alike: "+missing[0]+" (parameters are numbered from 0): one bound is mis-copied, and whatever search fast path relies on the predicate takes the wrong branch for boxes that differ in that bound")
		}
	}
}

// sliceGrowth follows a slice value back through appends: the value is its root (a
// parameter, or whatever else it starts from) with at least g elements appended, and nothing
// on the way re-slices it. Calls of repository functions count when every return of the
// callee is, in the same sense, one of its own parameters grown.
func sliceGrowth(v ssa.Value, depth int, seen map[ssa.Value]bool) (g int64, ok bool) {
	if depth > 6 {
		return 0, false
	}
	switch x := v.(type) {
	case *ssa.Phi:
		if seen[x] {
			return 1 << 40, true // a cycle adds nothing to the minimum
		}
		seen[x] = true
		defer delete(seen, x)
		best := int64(1 << 40)
		for _, e := range x.Edges {
			ge, ok := sliceGrowth(e, depth, seen)
			if !ok {
				return 0, false
			}
			if ge < best {
				best = ge
			}
		}
		return best, true
	case *ssa.Call:
		if b, isB := x.Call.Value.(*ssa.Builtin); isB {
			if b.Name() != "append" || len(x.Call.Args) != 2 {
				return 0, false
			}
			n := int64(0)
			if sl, isSl := x.Call.Args[1].(*ssa.Slice); isSl && sl.Low == nil && sl.High == nil {
				if al, isAl := sl.X.(*ssa.Alloc); isAl {
					if at, isArr := deref(al.Type()).Underlying().(*types.Array); isArr {
						n = at.Len()
					}
				}
			}
			ga, ok := sliceGrowth(x.Call.Args[0], depth, seen)
			if !ok {
				return 0, false
			}
			return ga + n, true
		}
		cal := staticCallee(x)
		if cal != nil && cal.Pkg != nil && cal.Pkg.Pkg.Path() == "strconv" && strings.HasPrefix(cal.Name(), "Append") && len(x.Call.Args) > 0 {
			// strconv.AppendFloat & co.: documented to return dst extended
			return sliceGrowth(x.Call.Args[0], depth, seen)
		}
		if cal == nil || cal.Blocks == nil {
			return 0, false
		}
		// the callee hands one of its parameters back, grown
		pj, gmin := -1, int64(1<<40)
		for _, r := range returnsOf(cal) {
			if len(r.Results) != 1 {
				return 0, false
			}
			root, gr, ok := sliceGrowthRoot(r.Results[0], depth+1)
			par, isPar := root.(*ssa.Parameter)
			if !ok || !isPar {
				return 0, false
			}
			j := paramIndex(cal, par)
			if j < 0 || (pj >= 0 && pj != j) {
				return 0, false
			}
			pj = j
			if gr < gmin {
				gmin = gr
			}
		}
		if pj < 0 || pj >= len(x.Call.Args) {
			return 0, false
		}
		ga, ok := sliceGrowth(x.Call.Args[pj], depth, seen)
		if !ok {
			return 0, false
		}
		return ga + gmin, true
	case *ssa.Slice, *ssa.UnOp, *ssa.Extract, *ssa.Lookup, *ssa.MakeSlice:
		_ = x
		return 0, false
	}
	return 0, true // a root: parameter, constant nil, …
}

// sliceGrowthRoot: the single root all derivations of v start from, with the growth.
func sliceGrowthRoot(v ssa.Value, depth int) (root ssa.Value, g int64, ok bool) {
	g, ok = sliceGrowth(v, depth, map[ssa.Value]bool{})
	if !ok {
		return nil, 0, false
	}
	var roots []ssa.Value
	seen := map[ssa.Value]bool{}
	var walk func(v ssa.Value, d int)
	walk = func(v ssa.Value, d int) {
		if seen[v] || d > 12 {
			return
		}
		seen[v] = true
		switch x := v.(type) {
		case *ssa.Phi:
			for _, e := range x.Edges {
				walk(e, d+1)
			}
		case *ssa.Call:
			if b, isB := x.Call.Value.(*ssa.Builtin); isB && b.Name() == "append" {
				walk(x.Call.Args[0], d+1)
				return
			}
			if cal := staticCallee(x); cal != nil && cal.Pkg != nil && cal.Pkg.Pkg.Path() == "strconv" && strings.HasPrefix(cal.Name(), "Append") && len(x.Call.Args) > 0 {
				walk(x.Call.Args[0], d+1)
				return
			}
			if cal := staticCallee(x); cal != nil {
				for _, r := range returnsOf(cal) {
					if len(r.Results) == 1 {
						if rt, _, ok := sliceGrowthRoot(r.Results[0], depth+1); ok {
							if par, isPar := rt.(*ssa.Parameter); isPar {
								if j := paramIndex(cal, par); j >= 0 && j < len(x.Call.Args) {
									walk(x.Call.Args[j], d+1)
									return
								}
							}
						}
					}
				}
			}
			roots = append(roots, v)
		default:
			roots = append(roots, v)
		}
	}
	walk(v, 0)
	if len(roots) != 1 {
		return nil, 0, false
	}
	return roots[0], g, true
}

// storeIntoOwnAppendedTail: the address is x[len(x)-k] where x is a root slice with at least
// k elements appended by this very function (and its append-style helpers): the element
// written is one the function itself appended, beyond what the caller can see of the slice
// it passed in.
func storeIntoOwnAppendedTail(addr ssa.Value) bool {
	ia, ok := addr.(*ssa.IndexAddr)
	if !ok {
		return false
	}
	bo, ok := stripConv(ia.Index).(*ssa.BinOp)
	if !ok || bo.Op != token.SUB {
		return false
	}
	k, isC := constInt(bo.Y)
	if !isC || k < 1 {
		return false
	}
	ln, ok := lenOf(stripConv(bo.X))
	if !ok || !(ln == ia.X || sameValue(ln, ia.X)) {
		return false
	}
	g, ok := sliceGrowth(ia.X, 0, map[ssa.Value]bool{})
	return ok && g >= k && g < 1<<39
}

func init() {
	register(&Rule{
		ID:    "C08.guardwidth",
		Props: []string{"C08", "C04", "C07"},
		Doc:   "a bound check in the binary decoders does its arithmetic wide: in the methods of wkbParser and twkbParser (and helpers introduced later that they call), no comparison has an operand that is a product, sum or shift computed in an explicitly sized integer type narrower than 64 bits from a non-constant value — `n*minElemSize > uint32(len(body))` wraps to 0 for n = 2^30 and lets a 32 GiB allocation through, where `uint64(n)*4 > uint64(len(body))` cannot",
		Floor: 0,
		Run:   runC08GuardWidth,
	})
}

func runC08GuardWidth(c *Ctx) {
	narrow := func(t types.Type) bool {
		b, ok := t.Underlying().(*types.Basic)
		if !ok {
			return false
		}
		switch b.Kind() {
		case types.Int8, types.Int16, types.Int32, types.Uint8, types.Uint16, types.Uint32:
			return true
		}
		return false
	}
	seen := map[*ssa.Function]bool{}
	var scope []*ssa.Function
	for _, f := range c.P.Funcs {
		if pkgOf(f) != "geom" || f.Blocks == nil {
			continue
		}
		root := rootFunc(f)
		if recv := root.Signature.Recv(); recv != nil {
			switch namedName(recv.Type()) {
			case "wkbParser", "twkbParser":
				for _, g := range withHelpersAndLiterals(root) {
					if !seen[g] {
						seen[g] = true
						scope = append(scope, g)
					}
				}
			}
		}
	}
	if len(scope) < 10 {
		c.Errorf("only %d decoder functions found", len(scope))
		return
	}
	n := 0
	for _, f := range scope {
		k := 0
		eachInstr(f, func(in ssa.Instruction) {
			cmp, ok := in.(*ssa.BinOp)
			if !ok {
				return
			}
			switch cmp.Op {
			case token.LSS, token.LEQ, token.GTR, token.GEQ:
			default:
				return
			}
			n++
			for _, o := range []ssa.Value{cmp.X, cmp.Y} {
				ar, ok := o.(*ssa.BinOp)
				if !ok || !narrow(ar.Type()) {
					continue
				}
				switch ar.Op {
				case token.MUL, token.ADD, token.SHL:
				default:
					continue
				}
				_, cx := ar.X.(*ssa.Const)
				_, cy := ar.Y.(*ssa.Const)
				if cx && cy {
					continue
				}
				// a value already known to be small cannot wrap
				if ub, has := valueUpperBound(ar.X, 0); has && ub < 1<<15 {
					if ub2, has2 := valueUpperBound(ar.Y, 0); has2 && ub2 < 1<<15 {
						continue
					}
				}
				k++
				c.Bad(cmp.Pos(), FuncName(f), fmt.Sprintf("narrow arithmetic in bound check #%d", k), fmt.Sprintf("the check compares %s computed in %s: for a count near 2^32 / the multiplier the result wraps around and the check passes, so the allocation or loop it guards is driven by an unchecked count (convert to uint64 before multiplying)", ar.Op, ar.Type()))
			}
		})
	}
	c.Triv(token.NoPos, "-", "summary", fmt.Sprintf("%d comparisons in %d decoder functions examined", n, len(scope)))
}

func init() {
	register(&Rule{
		ID:    "C12.newenvelope",
		Props: []string{"C12"},
		Doc:   "NewEnvelope interpreted on 0..3 points over every arrangement of their ordinates in {0,1,2}: no points give the empty envelope, otherwise the result is non-empty with min = per-axis minimum and max = per-axis maximum of the points — whatever the order the points come in (a fast path that takes two arguments for (min, max) after looking at X only is reported for an anti-diagonal pair)",
		Floor: 1,
		Run:   runC12NewEnvelope,
	})
}

func runC12NewEnvelope(c *Ctx) {
	f := c.P.Func("geom.NewEnvelope")
	if f == nil {
		c.Errorf("anchor geom.NewEnvelope does not resolve")
		return
	}
	inl := map[string]bool{"geom.(Envelope).IsEmpty": true, "geom.fastMin": true, "geom.fastMax": true, "geom.newUncheckedEnvelope": true,
		"geom.(Envelope).ExpandToIncludeXY": true, "geom.(Envelope).ExpandToIncludeEnvelope": true}
	problem, undec := "", ""
	models := 0
	for n := 0; n <= 3 && problem == "" && undec == ""; n++ {
		var keys []string
		for i := 0; i < n; i++ {
			keys = append(keys, fmt.Sprintf("P[%d].X", i), fmt.Sprintf("P[%d].Y", i))
		}
		k4enumerate(keys, []float64{0, 1, 2}, nil, func(m *Model) bool {
			models++
			m.Missing = map[string]bool{}
			it := &k4interp{p: c.P, m: m, mem: map[string]k4val{}, inline: func(h *ssa.Function) bool { return inl[FuncName(h)] }}
			for i := 0; i < n; i++ {
				it.mem[fmt.Sprintf("P[%d]", i)] = k4val{kind: 3, s: fmt.Sprintf("P[%d]", i)}
			}
			res, err := it.call(f, []k4val{{kind: 8, s: "P", ln: n, cp: n}}, nil)
			if err != nil || len(res) != 1 || res[0].kind != 3 {
				undec = fmt.Sprintf("%v %v %s", err, res, missingList(m))
				return false
			}
			out := res[0].s
			ne := false
			if out != "zero" {
				v, err := it.lookup(out+".nonEmpty", boolT)
				if err != nil {
					undec = "non-empty flag of the result: " + missingList(m)
					return false
				}
				ne = v.b
			}
			if n == 0 {
				if ne {
					problem = "NewEnvelope() of no points is not the empty envelope"
				}
				return problem == ""
			}
			if !ne {
				problem = fmt.Sprintf("for %s the result is the empty envelope", modelString(m))
				return false
			}
			w := [4]float64{math.Inf(1), math.Inf(1), math.Inf(-1), math.Inf(-1)}
			for i := 0; i < n; i++ {
				x, y := m.Num[fmt.Sprintf("P[%d].X", i)], m.Num[fmt.Sprintf("P[%d].Y", i)]
				w[0], w[1], w[2], w[3] = math.Min(w[0], x), math.Min(w[1], y), math.Max(w[2], x), math.Max(w[3], y)
			}
			var gt [4]float64
			for i, k := range []string{".min.X", ".min.Y", ".max.X", ".max.Y"} {
				v, err := it.lookup(out+k, nil0)
				if err != nil || v.kind != 2 {
					undec = "bound " + k + " of the result: " + missingList(m)
					return false
				}
				gt[i] = v.f
			}
			if gt != w {
				problem = fmt.Sprintf("for %s the envelope is min (%v %v) max (%v %v), expected min (%v %v) max (%v %v): it does not contain its own control points", modelString(m), gt[0], gt[1], gt[2], gt[3], w[0], w[1], w[2], w[3])
				return false
			}
			return true
		})
	}
	reportK4(c, f, "envelope of a point list", undec, problem, fmt.Sprintf("empty for no points, per-axis min/max otherwise, in all %d models (0..3 points)", models))
}

func init() {
	register(&Rule{
		ID:    "C03.wkbnan",
		Props: []string{"C03", "C04"},
		Doc:   "the WKB point decoder takes NaN ordinates for the empty point only when BOTH X and Y are NaN, and builds a point only when NEITHER is: in wkbParser.parsePoint (and helpers introduced later), every non-error return that is reached under a math.IsNaN test of an ordinate is, when it hands back an empty point, dominated by IsNaN(X) and IsNaN(Y) both holding, and, when it builds a point from the ordinates, by both failing — `NaN 1` must be a syntax error, not POINT EMPTY, and must never reach NewPoint (which would put a NaN ordinate behind the validation gate)",
		Floor: 0,
		Run:   runC03WKBNaN,
	})
}

func runC03WKBNaN(c *Ctx) {
	f := c.P.Func("geom.(*wkbParser).parsePoint")
	if f == nil {
		c.Errorf("anchor geom.(*wkbParser).parsePoint does not resolve")
		return
	}
	n := 0
	for _, g := range withHelpersAndLiterals(f) {
		k := 0
		for _, r := range returnsOf(g) {
			if len(r.Results) != 2 || !isNilConst(r.Results[1]) {
				continue
			}
			// which NaN tests hold / fail on every path to this return
			nan := map[string]map[bool]bool{}
			for _, g0 := range guardsAt(r) {
				for _, ge := range expandGuardDeep(g0) {
					call, ok := ge.Cond.(*ssa.Call)
					if !ok || calleeName(call) != "math.IsNaN" || len(call.Call.Args) != 1 {
						continue
					}
					path, _ := accessPath(call.Call.Args[0])
					ax := ""
					switch {
					case strings.HasSuffix(path, ".X"):
						ax = "X"
					case strings.HasSuffix(path, ".Y"):
						ax = "Y"
					default:
						continue
					}
					if nan[ax] == nil {
						nan[ax] = map[bool]bool{}
					}
					nan[ax][ge.Truth] = true
				}
			}
			if len(nan) == 0 {
				continue // not decided by a NaN test in this form
			}
			res := stripLoad(r.Results[0])
			kind := ""
			if call, ok := res.(*ssa.Call); ok {
				switch nm := calleeName(call); {
				case strings.HasSuffix(nm, "NewPoint") || strings.HasSuffix(nm, "NewPointXY") || strings.HasSuffix(nm, "newUncheckedPoint"):
					kind = "point"
				case strings.HasSuffix(nm, ").ForceCoordinatesType") || strings.HasSuffix(nm, "NewEmptyPoint"):
					kind = "empty"
				}
			}
			if kind == "" {
				continue
			}
			n++
			k++
			construct := fmt.Sprintf("%s returned under NaN tests #%d", kind, k)
			switch kind {
			case "empty":
				c.Check(nan["X"][true] && nan["Y"][true], r.Pos(), FuncName(g), construct, "reached only when X and Y are both NaN", "the empty point is returned without both IsNaN(X) and IsNaN(Y) holding: a point with one NaN ordinate (NaN 1) decodes to POINT EMPTY instead of being rejected, and the finite ordinate is silently lost")
			case "point":
				c.Check(nan["X"][false] && nan["Y"][false], r.Pos(), FuncName(g), construct, "reached only when neither X nor Y is NaN", "a point is built from the ordinates without both IsNaN(X) and IsNaN(Y) having failed: a NaN ordinate can reach the constructor")
			}
		}
	}
	if n < 2 {
		// the tests may have moved to a place this rule does not follow (a classifying
		// helper, say): say so rather than guess; with no NaN test left at all the
		// decoder cannot tell the empty point from a position
		tests := 0
		for _, g := range withHelpersAndLiterals(f) {
			tests += len(callsTo(g, "math.IsNaN"))
		}
		if tests == 0 {
			c.Errorf("the WKB point decoder has no math.IsNaN test left: NaN NaN (the empty point) and mixed NaN input are not told apart")
		} else {
			c.Triv(f.Pos(), FuncName(f), "NaN handling", fmt.Sprintf("not judged in this form: %d NaN-guarded returns recognised, %d math.IsNaN tests present", n, tests))
		}
	}
}

func init() {
	register(&Rule{
		ID:    "C06.noreuse",
		Props: []string{"C06", "C10", "C04"},
		Doc:   "a decode-into adapter never builds its result in the storage of the value the receiver held before: in the pointer-receiver methods UnmarshalJSON / UnmarshalText / UnmarshalBinary / Scan of geom (with literals and later helpers), no slice expression re-slices memory read through the receiver (`(*c)[:0]` to \"save an allocation\") — a copy the caller kept from an earlier decode would be overwritten by the next one",
		Floor: 0,
		Run:   runC06NoReuse,
	})
}

func runC06NoReuse(c *Ctx) {
	adapters := 0
	for _, f := range c.P.Funcs {
		if pkgOf(f) != "geom" || f.Parent() != nil || f.Blocks == nil || f.Signature.Recv() == nil {
			continue
		}
		switch f.Name() {
		case "UnmarshalJSON", "UnmarshalText", "UnmarshalBinary", "Scan":
		default:
			continue
		}
		if _, isPtr := f.Signature.Recv().Type().(*types.Pointer); !isPtr {
			continue
		}
		adapters++
		recv := f.Params[0]
		k := 0
		// only the adapter itself and its literals see the receiver as `recv`
		for _, g := range append([]*ssa.Function{f}, allAnon(f)...) {
			eachInstr(g, func(in ssa.Instruction) {
				sl, ok := in.(*ssa.Slice)
				if !ok {
					return
				}
				if _, isSlice := sl.X.Type().Underlying().(*types.Slice); !isSlice {
					return
				}
				base, _ := baseObject(sl.X)
				if fv, isFV := base.(*ssa.FreeVar); isFV {
					if b := closureBinding(fv); b != nil {
						base, _ = baseObject(b)
					}
				}
				if base != ssa.Value(recv) {
					return
				}
				k++
				c.Bad(sl.Pos(), FuncName(g), fmt.Sprintf("re-slice of the receiver's previous value #%d", k), "the adapter re-slices the slice its receiver held before the call and decodes into that storage: a copy of the earlier result that the caller kept shares the backing array and is overwritten by this decode")
			})
		}
	}
	if adapters < 5 {
		c.Errorf("only %d decode-into adapters found", adapters)
		return
	}
	c.Triv(token.NoPos, "-", "summary", fmt.Sprintf("%d decode-into adapters examined", adapters))
}

// closureBinding: the value bound to a free variable where its closure is made.
func closureBinding(fv *ssa.FreeVar) ssa.Value {
	fn := fv.Parent()
	par := fn.Parent()
	if par == nil {
		return nil
	}
	idx := -1
	for i, v := range fn.FreeVars {
		if v == fv {
			idx = i
		}
	}
	var out ssa.Value
	eachInstr(par, func(in ssa.Instruction) {
		if mc, ok := in.(*ssa.MakeClosure); ok && mc.Fn == fn && idx >= 0 && idx < len(mc.Bindings) {
			out = mc.Bindings[idx]
		}
	})
	return out
}

// ---------------------------------------------------------------------------
// C04.bitexact: the WKB writer stores the ordinate it was given, bit for bit
// ---------------------------------------------------------------------------

func init() {
	register(&Rule{
		ID:    "C04.bitexact",
		Props: []string{"C04"},
		Doc:   "WKB is a bit-lossless encoding of every float64 (NaN payloads and signed zeros included): in the methods of wkbMarshaler the value handed to math.Float64bits is the method's own parameter (or a field / element read of it) with no arithmetic, selection or call in between — a writer that first 'normalises' the ordinate (canonical NaN, +0 for -0, rounding) emits bits the geometry does not hold, and UnmarshalWKB(AsBinary(g)) is no longer g",
		Floor: 1,
		Run:   runC04BitExact,
	})
}

func runC04BitExact(c *Ctx) {
	n := 0
	for _, f := range c.P.Funcs {
		if pkgOf(f) != "geom" || !strings.Contains(FuncName(rootFunc(f)), "(*wkbMarshaler)") {
			continue
		}
		eachCall(f, func(ci ssa.CallInstruction) {
			if calleeName(ci) != "math.Float64bits" {
				return
			}
			n++
			v := ci.Common().Args[0]
			var last ssa.Value = v
			var pure func(v ssa.Value, d int) bool
			pure = func(v ssa.Value, d int) bool {
				if d > 10 {
					return false
				}
				v = resolveCell(v)
				last = v
				switch x := v.(type) {
				case *ssa.Parameter:
					return true
				case *ssa.Field:
					return pure(x.X, d+1)
				case *ssa.FieldAddr:
					return pure(x.X, d+1)
				case *ssa.IndexAddr:
					return pure(x.X, d+1)
				case *ssa.Index:
					return pure(x.X, d+1)
				case *ssa.Slice:
					return pure(x.X, d+1)
				case *ssa.UnOp:
					if x.Op == token.MUL {
						return pure(x.X, d+1)
					}
				case *ssa.Alloc:
					// a local array or struct the ordinates are gathered in: everything stored into it is pure
					stores := 0
					ok := true
					var visit func(addr ssa.Value, dd int)
					visit = func(addr ssa.Value, dd int) {
						if dd > 3 || addr.Referrers() == nil {
							return
						}
						for _, r := range *addr.Referrers() {
							switch y := r.(type) {
							case *ssa.Store:
								if y.Addr == addr {
									stores++
									if !pure(y.Val, d+1) {
										ok = false
									}
								}
							case *ssa.IndexAddr:
								visit(y, dd+1)
							case *ssa.FieldAddr:
								visit(y, dd+1)
							}
						}
					}
					visit(x, 0)
					last = x
					return ok && stores > 0
				}
				return false
			}
			isParam := pure(v, 0)
			v = last
			c.Check(isParam, ci.Pos(), FuncName(f), "argument of math.Float64bits", "the parameter itself (or a field/element of it), unmodified", fmt.Sprintf("the value whose bits are written is %s, not the ordinate the method was given: some float64 values (NaN payloads, -0, …) are no longer written bit for bit", fmt.Sprintf("%T %s", v, v.String())))
		})
	}
	c.Triv(token.NoPos, "-", "summary", fmt.Sprintf("%d math.Float64bits calls in wkbMarshaler methods", n))
}

// ---------------------------------------------------------------------------
// C10.sortkey: lists of extracted parts are ordered by their whole content
// ---------------------------------------------------------------------------

func init() {
	register(&Rule{
		ID:    "C10.sortkey",
		Props: []string{"C10", "C01"},
		Doc:   "the lists of parts an overlay result is assembled from (polygons, inner rings, line strings — all filled in map-iteration order) are put in canonical order by a TOTAL order on their content: every sort.Slice / sort.SliceStable in geom over a slice of LineString or Polygon decides by Sequence.less on the elements' whole coordinate sequences. A comparison function that looks only at one point of each element (its start point, say) leaves elements that share that point tied, and sort.Slice keeps ties in arrival order — the order Go's randomised map iteration produced, so identical calls return differently ordered results",
		Floor: 1,
		Run:   runC10SortKey,
	})
}

func runC10SortKey(c *Ctx) {
	n := 0
	for _, f := range c.P.Funcs {
		if pkgOf(f) != "geom" || strings.Contains(c.P.File(f.Pos()), "dcel_debug.go") {
			continue
		}
		eachCall(f, func(ci ssa.CallInstruction) {
			name := calleeName(ci)
			if name != "sort.Slice" && name != "sort.SliceStable" {
				return
			}
			args := ci.Common().Args
			if len(args) != 2 {
				return
			}
			sorted := args[0]
			if mi, ok := sorted.(*ssa.MakeInterface); ok {
				sorted = mi.X
			}
			sl, ok := sorted.Type().Underlying().(*types.Slice)
			if !ok {
				return
			}
			en := namedName(sl.Elem())
			if en != "LineString" && en != "Polygon" {
				return
			}
			less := closureOf(args[1])
			if less == nil {
				return
			}
			n++
			whole := false
			seen := map[*ssa.Function]bool{}
			var scan func(g *ssa.Function, d int)
			scan = func(g *ssa.Function, d int) {
				if g == nil || seen[g] || d > 3 {
					return
				}
				seen[g] = true
				eachCall(g, func(cc ssa.CallInstruction) {
					if calleeName(cc) == "geom.(Sequence).less" {
						whole = true
						return
					}
					if sc := cc.Common().StaticCallee(); sc != nil && isNewHelper(rootFunc(sc)) {
						scan(sc, d+1)
					}
				})
				for _, an := range g.AnonFuncs {
					scan(an, d+1)
				}
			}
			scan(less, 0)
			c.Check(whole, ci.Pos(), FuncName(f), fmt.Sprintf("%s over []%s", name, en), "ordered by Sequence.less on the whole coordinate sequence", "the comparison function never compares the elements' whole coordinate sequences (no call of Sequence.less): elements that agree on the part it does look at are tied and keep their arrival order, which for these lists is map-iteration order — the result is no longer a deterministic function of the inputs")
		})
	}
	if n < 1 {
		c.Errorf("no sort of a part list found, expected >= 1 (3 when the rule was written)")
	}
}

// ---------------------------------------------------------------------------
// C17.chord: Douglas-Peucker measures against a chord that may be a point
// ---------------------------------------------------------------------------

func init() {
	register(&Rule{
		ID:    "C17.chord",
		Props: []string{"C17"},
		Doc:   "the chord a vertex is measured against in Simplify can have zero length (a closed sequence's first chord; a later chord whenever a retained vertex has the XY of the final point): in the simplification routines (alg_simplify.go and helpers split off them) every division by a vector's Length() — and every Unit() — is executed only after a test that the chord's two end points differ (an ==/!= between XY values, or the length against 0) in a dominating block. Without it the distance of every vertex is NaN, `d > maxDist` is never true and vertices farther than the threshold are dropped",
		Floor: 1,
		Run:   runC17Chord,
	})
}

// samePointRead: the same value, or two reads Sequence.GetXY(i) of the same sequence at the same index.
func samePointRead(a, b ssa.Value) bool {
	if sameValue(a, b) {
		return true
	}
	x, ok1 := a.(*ssa.Call)
	y, ok2 := b.(*ssa.Call)
	if !ok1 || !ok2 || calleeName(x) != "geom.(Sequence).GetXY" || calleeName(y) != calleeName(x) || len(x.Call.Args) != len(y.Call.Args) {
		return false
	}
	for i := range x.Call.Args {
		if !sameValue(x.Call.Args[i], y.Call.Args[i]) {
			return false
		}
	}
	return true
}

func runC17Chord(c *Ctx) {
	n := 0
	for _, f := range c.P.Funcs {
		if pkgOf(f) != "geom" || f.Blocks == nil {
			continue
		}
		if !strings.HasSuffix(c.P.File(rootFunc(f).Pos()), "alg_simplify.go") {
			continue
		}
		isLen := func(v ssa.Value) bool {
			call, ok := v.(*ssa.Call)
			return ok && calleeName(call) == "geom.(XY).Length"
		}
		var guardedIn func(g *ssa.Function, at *ssa.BasicBlock, d int, site ssa.CallInstruction) bool
		guarded := func(at *ssa.BasicBlock) bool { return guardedIn(f, at, 0, nil) }
		guardedIn = func(g *ssa.Function, at *ssa.BasicBlock, d int, site ssa.CallInstruction) bool {
			matchesArgs := func(bo *ssa.BinOp) bool {
				if site == nil {
					return true
				}
				// in a caller the test must be about the very points handed to the helper
				args := site.Common().Args
				for i := range args {
					for j := range args {
						if i != j && samePointRead(bo.X, args[i]) && samePointRead(bo.Y, args[j]) {
							return true
						}
					}
				}
				return false
			}
			if d == 0 {
				// the test may sit in the callers of an unexported helper: then in every one of them
				if sites := c.P.callSitesOf(g); d < 2 && g.Parent() == nil && len(sites) > 0 && !token.IsExported(g.Name()) {
					all := true
					for _, cs := range sites {
						if !guardedIn(cs.Parent(), cs.Block(), d+1, cs) {
							all = false
						}
					}
					if all {
						return true
					}
				}
			}
			for _, b := range g.Blocks {
				if b == at || !b.Dominates(at) {
					continue
				}
				for _, in := range b.Instrs {
					bo, ok := in.(*ssa.BinOp)
					if !ok {
						continue
					}
					switch bo.Op {
					case token.EQL, token.NEQ:
						if namedName(bo.X.Type()) == "XY" && matchesArgs(bo) || site == nil && (computedFrom(bo.X, isLen) || computedFrom(bo.Y, isLen)) {
							return true
						}
					case token.GTR, token.LSS, token.LEQ, token.GEQ:
						if site == nil && (computedFrom(bo.X, isLen) || computedFrom(bo.Y, isLen)) {
							return true
						}
					}
				}
			}
			return false
		}
		eachInstr(f, func(in ssa.Instruction) {
			switch x := in.(type) {
			case *ssa.BinOp:
				if x.Op != token.QUO || !computedFrom(x.Y, isLen) {
					return
				}
				n++
				c.Check(guarded(x.Block()), x.Pos(), FuncName(f), "division by a chord's length", "reached only after the chord's end points were tested for equality", "the chord's length divides without a preceding test that its end points differ: for a zero-length chord (retained vertex at the XY of the final point) every distance is NaN and vertices beyond the threshold are dropped")
			case *ssa.Call:
				if calleeName(x) != "geom.(XY).Unit" {
					return
				}
				n++
				c.Check(guarded(x.Block()), x.Pos(), FuncName(f), "Unit() of a chord", "reached only after the chord's end points were tested for equality", "Unit() of the chord is taken without a preceding test that its end points differ: for a zero-length chord every distance is NaN and vertices beyond the threshold are dropped")
			}
		})
	}
	if n < 1 {
		c.Errorf("no division by a chord length found in alg_simplify.go, expected >= 1")
	}
}

// ---------------------------------------------------------------------------
// C01.viaoverlay: whatever a set operation returns came out of the overlay
// ---------------------------------------------------------------------------

func init() {
	register(&Rule{
		ID:    "C01.viaoverlay",
		Props: []string{"C01", "C10"},
		Doc:   "a set operation's result is noded, merged and in canonical XY form because the overlay produced it: in every exported function of alg_set_op.go that returns (Geometry, error) — Union, Intersection, Difference, SymmetricDifference, UnaryUnion, UnionMany and any later sibling — the geometry of every return is the zero Geometry, the result of another function of that file (an entry point or setOp), or what extractGeometry produced. A return of an operand (or of something computed from an operand by other means: Force2D, a constructor) is a fast path that skips noding — a line string that doubles back over itself, a polygon list that overlaps, comes back as it went in",
		Floor: 4,
		Run:   runC01ViaOverlay,
	})
}

func runC01ViaOverlay(c *Ctx) {
	n := 0
	for _, f := range c.P.Funcs {
		if pkgOf(f) != "geom" || f.Parent() != nil || f.Blocks == nil || !token.IsExported(f.Name()) || f.Signature.Recv() != nil {
			continue
		}
		if !strings.HasSuffix(c.P.File(f.Pos()), "alg_set_op.go") {
			continue
		}
		res := f.Signature.Results()
		if res.Len() != 2 || namedName(res.At(0).Type()) != "Geometry" {
			continue
		}
		inFile := func(g *ssa.Function) bool {
			return g != nil && pkgOf(g) == "geom" && (strings.HasSuffix(c.P.File(rootFunc(g).Pos()), "alg_set_op.go") || FuncName(g) == "geom.(*doublyConnectedEdgeList).extractGeometry")
		}
		k := 0
		for _, b := range f.Blocks {
			ret, ok := b.Instrs[len(b.Instrs)-1].(*ssa.Return)
			if !ok || len(ret.Results) != 2 {
				continue
			}
			n++
			k++
			bad := ""
			seen := map[ssa.Value]bool{}
			var walk func(v ssa.Value, d int)
			walk = func(v ssa.Value, d int) {
				if bad != "" || seen[v] || d > 12 {
					return
				}
				seen[v] = true
				v = resolveCell(v)
				switch x := v.(type) {
				case *ssa.Const:
					return
				case *ssa.Phi:
					for _, e := range x.Edges {
						walk(e, d+1)
					}
					return
				case *ssa.Extract:
					if call, ok := x.Tuple.(*ssa.Call); ok && x.Index == 0 && inFile(call.Common().StaticCallee()) {
						return
					}
				case *ssa.Call:
					if inFile(x.Common().StaticCallee()) {
						return
					}
				case *ssa.UnOp:
					if al, ok := x.X.(*ssa.Alloc); ok && x.Op == token.MUL {
						// a local Geometry variable: zero unless stored to; every store is walked
						stored := false
						for _, r := range *al.Referrers() {
							if st, ok := r.(*ssa.Store); ok && st.Addr == ssa.Value(al) {
								stored = true
								walk(st.Val, d+1)
							}
						}
						if !stored || bad == "" {
							return
						}
					}
				}
				if bad == "" {
					bad = fmt.Sprintf("%T %s", v, v.String())
				}
			}
			walk(ret.Results[0], 0)
			c.Check(bad == "", ret.Pos(), FuncName(f), fmt.Sprintf("return #%d", k), "the zero Geometry, or the result of the overlay / of a sibling entry point", fmt.Sprintf("this return hands back %s, which did not come out of the overlay: the result is not noded or merged (a self-overlapping line string, overlapping members) and need not be XY or in canonical order", bad))
		}
	}
	if n < 5 {
		c.Errorf("only %d returns of set operations found, expected >= 5", n)
	}
}

// ---------------------------------------------------------------------------
// C07.ringclose: a TWKB ring is judged closed on all of its dimensions
// ---------------------------------------------------------------------------

func init() {
	register(&Rule{
		ID:    "C07.ringclose",
		Props: []string{"C07"},
		Doc:   "TWKB drops a ring's closing point and the parser puts it back unless the stored ring is already closed; 'already closed' is a statement about every ordinate the header announces: in twkbParser.nextPolygon (its literals and helpers split off it) every ==/!= between ordinates (float64 values, or XY/Coordinates values built from them) sits in a loop bounded by the parser's `dimensions` field or by the length of a slice. A comparison on a fixed pair of ordinates (X and Y) calls a Z/M ring closed whose last stored vertex repeats the start's X/Y with another Z or M — the closing point is not restored and the round trip changes the geometry",
		Floor: 1,
		Run:   runC07RingClose,
	})
}

func runC07RingClose(c *Ctx) {
	root := c.P.Func("geom.(*twkbParser).nextPolygon")
	if root == nil {
		c.Errorf("anchor geom.(*twkbParser).nextPolygon does not resolve")
		return
	}
	n := 0
	for _, f := range withHelpersAndLiterals(root) {
		if f.Blocks == nil {
			continue
		}
		isDimField := func(x ssa.Value) bool {
			if ld, ok := x.(*ssa.UnOp); ok && ld.Op == token.MUL {
				if fa, ok := ld.X.(*ssa.FieldAddr); ok {
					return fieldName(fa.X.Type(), fa.Field) == "dimensions"
				}
			}
			return false
		}
		dimLoop := func(at *ssa.BasicBlock) bool {
			for _, h := range f.Blocks {
				loop := naturalLoop(h)
				if loop == nil || !loop[at] {
					continue
				}
				iff, ok := h.Instrs[len(h.Instrs)-1].(*ssa.If)
				if !ok {
					continue
				}
				bound := func(v ssa.Value) bool {
					return computedFrom(v, func(x ssa.Value) bool {
						if ld, ok := x.(*ssa.UnOp); ok && ld.Op == token.MUL {
							if fa, ok := ld.X.(*ssa.FieldAddr); ok {
								return fieldName(fa.X.Type(), fa.Field) == "dimensions"
							}
						}
						if call, ok := x.(*ssa.Call); ok {
							if b, ok := call.Call.Value.(*ssa.Builtin); ok && b.Name() == "len" {
								return true
							}
						}
						// the dimension count handed to a helper: at every call site it is the parser's field
						if pa, ok := x.(*ssa.Parameter); ok && f != root {
							idx := -1
							for k, q := range f.Params {
								if q == pa {
									idx = k
								}
							}
							sites := c.P.callSitesOf(f)
							if idx < 0 || len(sites) == 0 {
								return false
							}
							for _, cs := range sites {
								args := cs.Common().Args
								if idx >= len(args) || !computedFrom(args[idx], isDimField) {
									return false
								}
							}
							return true
						}
						return false
					})
				}
				if bo, ok := iff.Cond.(*ssa.BinOp); ok && (bound(bo.X) || bound(bo.Y)) {
					return true
				}
			}
			return false
		}
		eachInstr(f, func(in ssa.Instruction) {
			bo, ok := in.(*ssa.BinOp)
			if !ok || (bo.Op != token.EQL && bo.Op != token.NEQ) {
				return
			}
			t := bo.X.Type()
			isOrd := false
			if bt, ok := t.Underlying().(*types.Basic); ok && bt.Info()&types.IsFloat != 0 {
				isOrd = true
			}
			if nn := namedName(t); nn == "XY" || nn == "Coordinates" {
				isOrd = true
			}
			if !isOrd {
				return
			}
			n++
			c.Check(dimLoop(bo.Block()), bo.Pos(), FuncName(f), fmt.Sprintf("%s between ordinates", bo.Op), "inside a loop over all of the parser's dimensions", "ordinates are compared outside any loop over the parser's dimensions, i.e. on a fixed subset of them (X and Y): a Z/M ring whose last stored vertex repeats the start's X/Y with a different Z or M is taken as already closed and its closing point is not restored")
		})
	}
	if n == 0 {
		c.Triv(token.NoPos, FuncName(root), "summary", "no ordinate comparison in this form: not judged")
	}
}
