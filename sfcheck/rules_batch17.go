package main

import (
	"fmt"
	"go/token"
	"go/types"
	"sort"
	"strings"

	"golang.org/x/tools/go/ssa"
)

func init() {
	register(&Rule{
		ID:    "C11.axes",
		Props: []string{"C11", "C09", "C12"},
		Doc:   "a pure box predicate treats both axes alike: every function of rtree that takes boxes, returns one bool and consists of nothing but comparisons between bounds of one axis (overlap, and any later `contains` / `covers` / `disjoint` helper a fast path is built on) and makes as many comparisons on one axis as on the other must make, for every comparison between X bounds, the same comparison between the corresponding Y bounds and vice versa — a mis-copied bound (`outer.MinY <= inner.MaxY` beside `outer.MinX <= inner.MinX`) is reported",
		Floor: 0,
		Run:   runC11Axes,
	})
}

// boxBoundOf resolves v to "<param index>.<field name>" when it reads a float field of a
// parameter that is a struct of four float bounds (by value or through a pointer).
func boxBoundOf(v ssa.Value) (string, bool) {
	v = stripConv(v)
	var x ssa.Value
	var st *types.Struct
	var idx int
	switch f := v.(type) {
	case *ssa.Field:
		x, idx = f.X, f.Field
		st, _ = f.X.Type().Underlying().(*types.Struct)
	case *ssa.UnOp:
		fa, ok := f.X.(*ssa.FieldAddr)
		if f.Op != token.MUL || !ok {
			return "", false
		}
		x, idx = fa.X, fa.Field
		st, _ = deref(fa.X.Type()).Underlying().(*types.Struct)
		// a by-value parameter spilled to a local cell
		if al, isAl := x.(*ssa.Alloc); isAl {
			if sv := uniqueStore(al); sv != nil {
				x = sv
			}
		}
	default:
		return "", false
	}
	par, ok := x.(*ssa.Parameter)
	if !ok || st == nil || st.NumFields() != 4 {
		return "", false
	}
	for i := 0; i < 4; i++ {
		if b, ok := st.Field(i).Type().Underlying().(*types.Basic); !ok || b.Kind() != types.Float64 {
			return "", false
		}
	}
	pi := -1
	for i, p := range par.Parent().Params {
		if p == par {
			pi = i
		}
	}
	return fmt.Sprintf("%d.%s", pi, st.Field(idx).Name()), true
}

// axisOf: "X", "Y" or "" for a bound name such as MinX / MaxY.
func axisOf(bound string) string {
	n := bound[strings.Index(bound, ".")+1:]
	// the axis is the last letter of the bound's name (MinX, MaxY, lox, hiy …)
	switch {
	case strings.HasSuffix(n, "X") || strings.HasSuffix(n, "x"):
		return "X"
	case strings.HasSuffix(n, "Y") || strings.HasSuffix(n, "y"):
		return "Y"
	}
	return ""
}

func swapAxis(bound string) string {
	r := strings.NewReplacer("X", "Y", "Y", "X", "x", "y", "y", "x")
	return bound[:len(bound)-1] + r.Replace(bound[len(bound)-1:])
}

func runC11Axes(c *Ctx) {
	for _, f := range c.P.Funcs {
		if pkgOf(f) != "rtree" || f.Blocks == nil || f.Synthetic != "" {
			continue
		}
		res := f.Signature.Results()
		if res.Len() != 1 {
			continue
		}
		if b, ok := res.At(0).Type().Underlying().(*types.Basic); !ok || b.Kind() != types.Bool {
			continue
		}
		// pure: only reads of box bounds, comparisons between them, and the control
		// flow of && / ||
		pure := true
		var cmps []string
		axes := map[string]bool{}
		eachInstr(f, func(in ssa.Instruction) {
			switch x := in.(type) {
			case *ssa.Field, *ssa.FieldAddr, *ssa.If, *ssa.Jump, *ssa.Phi, *ssa.Return, *ssa.DebugRef:
			case *ssa.Alloc:
				if uniqueStore(x) == nil {
					pure = false
				}
			case *ssa.Store:
				if _, isPar := x.Val.(*ssa.Parameter); !isPar {
					pure = false
				}
			case *ssa.UnOp:
				if x.Op != token.MUL && x.Op != token.NOT {
					pure = false
				}
			case *ssa.BinOp:
				a, okA := boxBoundOf(x.X)
				b, okB := boxBoundOf(x.Y)
				if !okA || !okB || axisOf(a) == "" || axisOf(a) != axisOf(b) {
					pure = false
					return
				}
				op := x.Op
				switch op {
				case token.GTR:
					a, b, op = b, a, token.LSS
				case token.GEQ:
					a, b, op = b, a, token.LEQ
				case token.LSS, token.LEQ:
				case token.EQL, token.NEQ:
					if b < a {
						a, b = b, a
					}
				default:
					pure = false
					return
				}
				axes[axisOf(a)] = true
				cmps = append(cmps, a+" "+op.String()+" "+b)
			default:
				pure = false
			}
		})

		if !pure || len(cmps) == 0 || !axes["X"] || !axes["Y"] {
			continue
		}
		// a predicate that asks different questions of the two axes on purpose (above
		// and overlapping in X, say) makes a different number of comparisons per
		// axis; the copy error has the same number, with one bound off
		nx := 0
		for _, s := range cmps {
			if axisOf(strings.SplitN(s, " ", 2)[0]) == "X" {
				nx++
			}
		}
		if nx*2 != len(cmps) {
			continue
		}
		have := map[string]bool{}
		for _, s := range cmps {
			have[s] = true
		}
		var missing []string
		for _, s := range cmps {
			p := strings.SplitN(s, " ", 3)
			a, b := swapAxis(p[0]), swapAxis(p[2])
			if (p[1] == "==" || p[1] == "!=") && b < a {
				a, b = b, a
			}
			if !have[a+" "+p[1]+" "+b] {
				missing = append(missing, fmt.Sprintf("%s has no counterpart %s %s %s on the other axis", s, a, p[1], b))
			}
		}
		sort.Strings(missing)
		construct := "axis symmetry of a pure box predicate"
		if len(missing) == 0 {
			c.OK(f.Pos(), FuncName(f), construct, fmt.Sprintf("%d comparisons, each mirrored on the other axis", len(cmps)))
		} else {
			c.Bad(f.Pos(), FuncName(f), construct, "the predicate is a conjunction of per-axis comparisons of box bounds, but the two axes are not treated alike: "+missing[0]+" (parameters are numbered from 0): one bound is mis-copied, and whatever search fast path relies on the predicate takes the wrong branch for boxes that differ in that bound")
		}
	}
}
