package main

import (
	"fmt"
	"math"
	"strings"

	"golang.org/x/tools/go/ssa"
)

func init() {
	register(&Rule{
		ID:    "C14.sign",
		Props: []string{"C14"},
		Doc:   "Polygon.Area interpreted over models of (signed option, number of holes 0..2, signed ring areas of either sign): unsigned = |shell| - sum |hole|, signed = shell + sum hole (raw signed areas, so Reverse negates it); the transform option reaches every ring's area computation",
		Floor: 1,
		Run:   runC14Sign,
	})
	register(&Rule{
		ID:    "C14.forward",
		Props: []string{"C14"},
		Doc:   "every Area/Length method that delegates to members forwards its variadic options unchanged to every nested Area call (so Area with a transform equals the Area of the transformed geometry at every nesting level)",
		Floor: 4,
		Run:   runC14Forward,
	})
	register(&Rule{
		ID:    "C14.dimsel",
		Props: []string{"C14", "C20"},
		Doc:   "the function that selects the centroid formula for a collection (highest dimension ignoring empties) applies Dimension() only to values known non-empty and not collections — Dimension() of a nested collection counts its empty members, which would select a formula whose total length/area is zero (NaN centroid) — and recurses into nested collections",
		Floor: 1,
		Run:   runC14DimSel,
	})
}

func runC14Sign(c *Ctx) {
	f := c.P.Func("geom.(Polygon).Area")
	if f == nil {
		c.Errorf("anchor geom.(Polygon).Area does not resolve")
		return
	}
	fn := FuncName(f)
	// discover the vocabulary: run with growing models until nothing is missing
	problem, undec := "", ""
	models := 0
	for _, nHoles := range []float64{0, 1, 2} {
		for _, signed := range []bool{false, true} {
			for mask := 0; mask < 8; mask++ {
				vals := []float64{7, 2, 1}
				for i := range vals {
					if mask&(1<<uint(i)) != 0 {
						vals[i] = -vals[i]
					}
				}
				m := &Model{Num: map[string]float64{}, Bool: map[string]bool{}, Missing: map[string]bool{}}
				var res []k4val
				var err error
				for round := 0; round < 12; round++ {
					m.Missing = map[string]bool{}
					// the ring list is modelled as a slice of opaque rings (shell first),
					// so accessor calls and direct reads of p.rings interpret alike
					it := &k4interp{p: c.P, m: m, mem: map[string]k4val{}, inline: func(g *ssa.Function) bool {
						switch FuncName(g) {
						case "geom.(Polygon).ExteriorRing", "geom.(Polygon).InteriorRingN", "geom.(Polygon).NumInteriorRings",
							"geom.(Polygon).NumRings", "geom.(Polygon).IsEmpty", "geom.maxInt":
							return true
						}
						return false
					}}
					nr := int(nHoles) + 1
					it.mem["$0.rings"] = k4val{kind: 8, s: "RING", ln: nr, cp: nr}
					for i := 0; i < nr; i++ {
						it.mem[fmt.Sprintf("RING[%d]", i)] = k4val{kind: 3, s: fmt.Sprintf("RING[%d]", i)}
					}
					res, err = it.call(f, []k4val{{kind: 3, v: f.Params[0], s: "$0"}, {kind: 3, v: f.Params[1], s: "$1"}}, nil)
					if err == nil || len(m.Missing) == 0 {
						break
					}
					for k := range m.Missing {
						key := strings.SplitN(k, " ", 2)[1]
						switch {
						case strings.HasPrefix(k, "bool ") && strings.HasSuffix(key, ".signed"):
							m.Bool[key] = signed
						case strings.HasPrefix(k, "num ") && strings.Contains(key, "NumInteriorRings"):
							m.Num[key] = nHoles
						case strings.HasPrefix(k, "num ") && strings.Contains(key, "signedAreaOfLinearRing") && (strings.Contains(key, "ExteriorRing") || strings.Contains(key, "(RING[0]")):
							m.Num[key] = vals[0]
						case strings.HasPrefix(k, "num ") && strings.Contains(key, "signedAreaOfLinearRing") && (strings.Contains(key, "InteriorRingN($0,0)") || strings.Contains(key, "(RING[1]")):
							m.Num[key] = vals[1]
						case strings.HasPrefix(k, "num ") && strings.Contains(key, "signedAreaOfLinearRing") && (strings.Contains(key, "InteriorRingN($0,1)") || strings.Contains(key, "(RING[2]")):
							m.Num[key] = vals[2]
						default:
							undec = "term outside the rule's vocabulary: " + k
						}
					}
					if undec != "" {
						break
					}
				}
				if undec != "" || err != nil {
					if undec == "" {
						undec = fmt.Sprintf("%v %s", err, missingList(m))
					}
					break
				}
				models++
				// every area term must have been computed with the options' transform
				for k := range m.Num {
					if strings.Contains(k, "signedAreaOfLinearRing") && !strings.Contains(k, ".transform)") {
						problem = "a ring's area is computed without the transform option: " + k
					}
				}
				want := vals[0]
				if !signed {
					want = math.Abs(want)
				}
				for i := 0; i < int(nHoles); i++ {
					if signed {
						want += vals[1+i]
					} else {
						want -= math.Abs(vals[1+i])
					}
				}
				if len(res) != 1 || res[0].kind != 2 || res[0].f != want {
					problem = fmt.Sprintf("with signed=%v, shell area %v and hole areas %v the function returns %v; the definition gives %v", signed, vals[0], vals[1:1+int(nHoles)], res, want)
				}
			}
		}
	}
	construct := "sign convention of shell and holes"
	switch {
	case undec != "":
		c.Undecided(f.Pos(), fn, construct, undec)
	case problem != "":
		c.Bad(f.Pos(), fn, construct, problem)
	default:
		c.OK(f.Pos(), fn, construct, fmt.Sprintf("unsigned = |shell| - sum|hole|, signed = shell + sum hole, transform forwarded, in all %d models", models))
	}
}

func runC14Forward(c *Ctx) {
	n := 0
	for _, f := range c.P.Funcs {
		if pkgOf(f) != "geom" || f.Parent() != nil || f.Name() != "Area" || f.Signature.Recv() == nil || !f.Signature.Variadic() {
			continue
		}
		fn := FuncName(f)
		opts := f.Params[len(f.Params)-1]
		eachCall(f, func(call ssa.CallInstruction) {
			cal := staticCallee(call)
			if cal == nil || cal.Name() != "Area" || !cal.Signature.Variadic() || pkgOf(cal) != "geom" {
				return
			}
			n++
			args := call.Common().Args
			last := args[len(args)-1]
			c.Check(last == ssa.Value(opts), call.Pos(), fn, "nested "+FuncName(cal), "forwards opts... unchanged", "a nested Area call does not receive the caller's options (signed/transform are lost for that member)")
		})
	}
	if n < 4 {
		c.Errorf("only %d nested Area calls found", n)
	}
}

func runC14XYOnly(c *Ctx) {
	var roots []*ssa.Function
	names := map[string]bool{"Area": true, "Length": true, "Centroid": true, "Envelope": true, "ConvexHull": true, "PointOnSurface": true}
	for _, f := range c.P.Funcs {
		if pkgOf(f) != "geom" || f.Parent() != nil {
			continue
		}
		if f.Signature.Recv() != nil && names[f.Name()] && geomTypeNames[namedName(f.Signature.Recv().Type())] {
			roots = append(roots, f)
		}
		if f.Signature.Recv() == nil && (f.Name() == "Distance" || f.Name() == "Intersects") {
			roots = append(roots, f)
		}
	}
	if len(roots) < 40 {
		c.Errorf("only %d XY-only entry points found", len(roots))
	}
	reach := c.P.reachableFrom(roots...)
	bad := 0
	for f := range reach {
		if pkgOf(f) != "geom" {
			continue
		}
		fn := FuncName(f)
		eachInstr(f, func(in ssa.Instruction) {
			var sn, fl string
			switch x := in.(type) {
			case *ssa.FieldAddr:
				if !addrIsRead(x) {
					return
				}
				sn, fl = fieldOfAddr(x)
			case *ssa.Field:
				sn, fl = fieldOfField(x)
			default:
				return
			}
			if sn == "Coordinates" && (fl == "Z" || fl == "M") {
				bad++
				c.Bad(in.Pos(), fn, "read Coordinates."+fl, "a function reachable from an XY-only operation (Area/Length/Centroid/Envelope/ConvexHull/PointOnSurface/Distance/Intersects) reads a Z or M ordinate: the result can depend on Z/M")
			}
		})
	}
	for _, r := range roots {
		if bad == 0 {
			c.OK(r.Pos(), FuncName(r), "no Z/M read reachable", "call graph closure contains no read of Coordinates.Z/.M")
		}
	}
}

func runC14DimSel(c *Ctx) {
	f := c.P.Func("geom.highestDimensionIgnoreEmpties")
	if f == nil {
		c.Errorf("anchor geom.highestDimensionIgnoreEmpties does not resolve")
		return
	}
	// by interpretation, on the collection ( leaf A, ( leaf B ) ): the result is the highest dimension
	// among the non-empty leaves, 0 when there is none — Dimension() of a collection is modelled as what
	// it really is (the maximum over ALL leaves, empty ones included), so using it where emptiness
	// matters shows
	const top, a, nested, b, cc = "$0", "M[0]", "M[1]", "N[0]", "N[1]"
	gcOf := func(x string) string { return "geom.(Geometry).MustAsGeometryCollection(" + x + ")" }
	problem, undec := "", ""
	models := 0
	for code := 0; code < 216 && problem == "" && undec == ""; code++ {
		dA, dB, dC := code%3, (code/3)%3, (code/9)%3
		eA, eB, eC := (code/27)%2 == 1, (code/54)%2 == 1, (code/108)%2 == 1
		models++
		m := &Model{Num: map[string]float64{}, Bool: map[string]bool{}, Missing: map[string]bool{}}
		it := &k4interp{p: c.P, m: m, mem: map[string]k4val{}, recurseNew: true, inline: func(g *ssa.Function) bool {
			return g == f || FuncName(g) == "geom.maxInt"
		}}
		it.mem[gcOf(top)+".geoms"] = k4val{kind: 8, s: "M", ln: 2, cp: 2}
		it.mem["M[0]"] = k4val{kind: 3, s: a}
		it.mem["M[1]"] = k4val{kind: 3, s: nested}
		it.mem[gcOf(nested)+".geoms"] = k4val{kind: 8, s: "N", ln: 2, cp: 2}
		it.mem["N[0]"] = k4val{kind: 3, s: b}
		it.mem["N[1]"] = k4val{kind: 3, s: cc}
		maxi := func(x, y int) int {
			if x > y {
				return x
			}
			return y
		}
		dim := map[string]int{a: dA, b: dB, cc: dC, nested: maxi(dB, dC), top: maxi(dA, maxi(dB, dC))}
		empty := map[string]bool{a: eA, b: eB, cc: eC, nested: eB && eC, top: eA && eB && eC}
		isGC := map[string]bool{top: true, nested: true}
		it.answer = func(key string, isBool bool) (k4val, bool) {
			for _, x := range []string{top, a, nested, b, cc} {
				switch key {
				case "geom.(Geometry).IsEmpty(" + x + ")":
					return k4val{kind: 1, b: empty[x]}, isBool
				case "geom.(Geometry).IsGeometryCollection(" + x + ")":
					return k4val{kind: 1, b: isGC[x]}, isBool
				case "geom.(Geometry).Dimension(" + x + ")":
					return k4val{kind: 2, f: float64(dim[x])}, !isBool
				case "geom.(GeometryCollection).IsEmpty(" + gcOf(x) + ")":
					return k4val{kind: 1, b: empty[x]}, isBool
				case "geom.(GeometryCollection).Dimension(" + gcOf(x) + ")":
					return k4val{kind: 2, f: float64(dim[x])}, !isBool
				}
			}
			return k4val{}, false
		}
		res, err := it.call(f, []k4val{{kind: 3, s: top}}, nil)
		if err != nil || len(res) != 1 || res[0].kind != 2 {
			undec = fmt.Sprintf("%v %s", err, missingList(m))
			break
		}
		want := 0
		for _, lf := range []struct {
			d int
			e bool
		}{{dA, eA}, {dB, eB}, {dC, eC}} {
			if !lf.e && lf.d > want {
				want = lf.d
			}
		}
		if int(res[0].f) != want {
			problem = fmt.Sprintf("for the collection (leaf of dimension %d, empty=%v; nested collection of leaves of dimension %d, empty=%v and %d, empty=%v) the result is %v; the highest dimension among the non-empty leaves is %d — an EMPTY member of higher dimension selects a centroid formula whose total length/area is zero (NaN centroid)", dA, eA, dB, eB, dC, eC, res[0].f, want)
		}
	}
	reportK4(c, f, "highest dimension ignoring empties", undec, problem, fmt.Sprintf("the maximum over the non-empty leaves, through nested collections, in all %d models", models))
}
