package main

import (
	"fmt"
	"go/ast"
	"go/token"
	"go/types"

	"golang.org/x/tools/go/ssa"
)

func init() {
	register(&Rule{
		ID:    "C13.turn",
		Props: []string{"C13"},
		Doc:   "orientation(p,q,s) interpreted over all 3^6 lattice models equals the sign of the cross product (left/right/collinear); both hull loops of monotoneChain pop on exactly the same predicate `orientation(...) != leftTurn` (collinear points are dropped on both chains, so no three consecutive hull vertices are collinear)",
		Floor: 2,
		Run:   runC13Turn,
	})
	register(&Rule{
		ID:    "C13.fma",
		Props: []string{"C13"},
		Doc:   "XY.Cross wraps each product in an explicit float64(...) conversion, which forbids fusing the multiply with the subtraction (a fused multiply-add makes the cross product of collinear points non-zero on FMA architectures); read from the typed AST because SSA elides no-op conversions",
		Floor: 2,
		Run:   runC13FMA,
	})
	register(&Rule{
		ID:    "C13.prealloc",
		Props: []string{"C13", "C20"},
		Doc:   "a slice made with a non-zero length (make([]T, n)) is never filled by append only: appending to it leaves n zero-valued leading elements (e.g. spurious (0,0) control points in the hull input) — either index into it or make it with length 0 and capacity n",
		Floor: 60,
		Run:   runC13Prealloc,
	})
	register(&Rule{
		ID:    "C13.post",
		Props: []string{"C13", "C03"},
		Doc:   "convexHull: the polygon built from the hull is validated and a failure is not swallowed (panic), and the empty/point/linear cases are decided before the polygon is constructed",
		Floor: 2,
		Run:   runC13Post,
	})
}

func runC13Turn(c *Ctx) {
	left := lookupConst(c, "geom", "leftTurn")
	right := lookupConst(c, "geom", "rightTurn")
	col := lookupConst(c, "geom", "collinear")
	var keys []string
	for _, p := range []string{"$0", "$1", "$2"} {
		keys = append(keys, p+".X", p+".Y")
	}
	runK4Spec(c, k4spec{rule: "C13.turn", fn: "geom.orientation", construct: "orientation", num: keys, vals: []float64{0, 1, 2},
		inline: []string{"geom.(XY).Sub", "geom.(XY).Cross"}, what: "sign of (q-p) x (s-q): >0 left, <0 right, 0 collinear",
		want: func(m *Model) []string {
			n := func(k string) float64 { return m.Num[k] }
			cp := (n("$1.X")-n("$0.X"))*(n("$2.Y")-n("$1.Y")) - (n("$1.Y")-n("$0.Y"))*(n("$2.X")-n("$1.X"))
			switch {
			case cp > 0:
				return []string{fmt.Sprint(left)}
			case cp < 0:
				return []string{fmt.Sprint(right)}
			}
			return []string{fmt.Sprint(col)}
		}})
	f := c.P.Func("geom.monotoneChain")
	if f == nil {
		c.Errorf("anchor geom.monotoneChain does not resolve")
		return
	}
	// orientation tests of the chain: in monotoneChain itself, or in helpers
	// introduced after the baseline that it calls (each call of such a helper
	// counts once per test it contains)
	n := 0
	var visit func(g *ssa.Function, mult, depth int)
	visit = func(g *ssa.Function, mult, depth int) {
		for _, call := range callsTo(g, "geom.orientation") {
			n += mult
			v := call.Value()
			ok := false
			desc := "result not compared"
			if v != nil {
				for _, r := range *v.Referrers() {
					if bo, isBo := r.(*ssa.BinOp); isBo {
						k, isC := constInt(bo.Y)
						desc = fmt.Sprintf("orientation %s %d", bo.Op, k)
						if isC && k == left && bo.Op == token.NEQ {
							ok = true
						}
						// the same decision written the other way round (`== leftTurn`
						// leaves the loop): judged by which branch reaches the pop
						// for each of the three orientations
						if isC && !ok && popsExactlyWhenNotLeft(bo, k, []int64{left, right, col}, left) {
							ok = true
						}
					}
				}
			}
			c.Check(ok, call.Pos(), FuncName(g), "pop condition of a hull loop", "pops while orientation != leftTurn", "a hull loop pops on `"+desc+"` instead of `orientation != leftTurn`: the two chains treat collinear points differently (collinear or concave vertices survive on one chain)")
		}
		if depth >= 3 {
			return
		}
		cnt := map[*ssa.Function]int{}
		var order []*ssa.Function
		eachCall(g, func(ci ssa.CallInstruction) {
			if cal := staticCallee(ci); cal != nil && cal != g && isNewHelper(cal) {
				if cnt[cal] == 0 {
					order = append(order, cal)
				}
				cnt[cal]++
			}
		})
		for _, cal := range order {
			visit(cal, mult*cnt[cal], depth+1)
		}
	}
	visit(f, 1, 0)
	if n < 2 {
		c.Bad(f.Pos(), FuncName(f), "turn tests of the two chains", fmt.Sprintf("monotoneChain (with the helpers it calls) makes %d of its pop decisions with geom.orientation, the exact sign of the cross product; both chains must: a turn test computed another way (normalised legs, a tolerance) is not exactly zero for collinear points, so collinear vertices survive on one chain and not on the other", n))
	}
}

// popsExactlyWhenNotLeft: bo compares an orientation with the constant k and
// feeds a branch; for each possible orientation the branch taken reaches a
// truncation of a slice (the pop) before the next append (the push) exactly
// when the orientation is not a left turn.
func popsExactlyWhenNotLeft(bo *ssa.BinOp, k int64, orientations []int64, left int64) bool {
	var ifi *ssa.If
	for _, r := range *bo.Referrers() {
		if x, ok := r.(*ssa.If); ok {
			ifi = x
		}
	}
	if ifi == nil || len(*bo.Referrers()) != 1 {
		return false
	}
	hasPop := func(b *ssa.BasicBlock) bool {
		for _, in := range b.Instrs {
			if sl, ok := in.(*ssa.Slice); ok && sl.High != nil {
				return true
			}
		}
		return false
	}
	hasPush := func(b *ssa.BasicBlock) bool {
		for _, in := range b.Instrs {
			if call, ok := in.(*ssa.Call); ok {
				if bi, ok := call.Call.Value.(*ssa.Builtin); ok && bi.Name() == "append" {
					return true
				}
			}
		}
		return false
	}
	reachesPop := func(start *ssa.BasicBlock) bool {
		seen := map[*ssa.BasicBlock]bool{start: true}
		work := []*ssa.BasicBlock{start}
		for len(work) > 0 {
			b := work[len(work)-1]
			work = work[:len(work)-1]
			if hasPop(b) {
				return true
			}
			if hasPush(b) || b == ifi.Block() {
				continue
			}
			for _, s := range b.Succs {
				if !seen[s] {
					seen[s] = true
					work = append(work, s)
				}
			}
		}
		return false
	}
	for _, o := range orientations {
		var truth bool
		switch bo.Op {
		case token.EQL:
			truth = o == k
		case token.NEQ:
			truth = o != k
		default:
			return false
		}
		succ := ifi.Block().Succs[1]
		if truth {
			succ = ifi.Block().Succs[0]
		}
		if reachesPop(succ) != (o != left) {
			return false
		}
	}
	return true
}

func runC13FMA(c *Ctx) {
	found := false
	c.P.FuncDecls("geom", func(fd *ast.FuncDecl) {
		if fd.Name.Name != "Cross" || fd.Recv == nil || fd.Body == nil {
			return
		}
		info := c.P.Info("geom")
		if t := info.TypeOf(fd.Recv.List[0].Type); t == nil || namedName(t) != "XY" {
			return
		}
		found = true
		// every multiplication of two floats in the body must be the direct operand of a float64 conversion
		parents := map[ast.Node]ast.Node{}
		var stack []ast.Node
		ast.Inspect(fd.Body, func(n ast.Node) bool {
			if n == nil {
				stack = stack[:len(stack)-1]
				return true
			}
			if len(stack) > 0 {
				parents[n] = stack[len(stack)-1]
			}
			stack = append(stack, n)
			return true
		})
		ast.Inspect(fd.Body, func(n ast.Node) bool {
			be, ok := n.(*ast.BinaryExpr)
			if !ok || be.Op != token.MUL {
				return true
			}
			if t := info.TypeOf(be); t == nil || !isFloat(t) {
				return true
			}
			par := parents[be]
			for {
				if pe, ok := par.(*ast.ParenExpr); ok {
					par = parents[pe]
					continue
				}
				break
			}
			conv := false
			if ce, ok := par.(*ast.CallExpr); ok && len(ce.Args) == 1 {
				if tv, ok := info.Types[ce.Fun]; ok && tv.IsType() {
					if b, ok := tv.Type.Underlying().(*types.Basic); ok && b.Kind() == types.Float64 {
						conv = true
					}
				}
			}
			c.Check(conv, be.Pos(), "geom.(XY).Cross", "product in the cross product", "wrapped in an explicit float64 conversion (no fused multiply-add)", "a product in XY.Cross is not wrapped in float64(...): the compiler may fuse it with the subtraction on arm64/ppc64/s390x, and the cross product of exactly collinear points is then not exactly zero")
			return true
		})
	})
	if !found {
		c.Errorf("anchor geom.(XY).Cross does not resolve in the syntax")
	}
}

func runC13Prealloc(c *Ctx) {
	n := 0
	for _, f := range c.P.Funcs {
		if pk := pkgOf(f); pk != "geom" && pk != "rtree" {
			continue
		}
		fn := FuncName(f)
		eachInstr(f, func(in ssa.Instruction) {
			ms, ok := in.(*ssa.MakeSlice)
			if !ok {
				return
			}
			if k, isC := constInt(ms.Len); isC && k == 0 {
				return
			}
			n++
			// classify uses of the slice (through local cells and phis)
			indexed, appended, escaped := false, false, false
			seen := map[ssa.Value]bool{}
			var visit func(v ssa.Value, d int)
			visit = func(v ssa.Value, d int) {
				if d > 5 || seen[v] || v.Referrers() == nil {
					return
				}
				seen[v] = true
				for _, r := range *v.Referrers() {
					switch x := r.(type) {
					case *ssa.IndexAddr:
						indexed = true
					case *ssa.Slice:
						indexed = true
					case *ssa.Store:
						if x.Val == v {
							if a, ok := x.Addr.(*ssa.Alloc); ok {
								for _, r2 := range *a.Referrers() {
									if ld, ok := r2.(*ssa.UnOp); ok && ld.Op == token.MUL {
										visit(ld, d+1)
									}
									if _, ok := r2.(*ssa.MakeClosure); ok {
										escaped = true
									}
								}
							} else {
								escaped = true
							}
						}
					case *ssa.Phi:
						visit(x, d+1)
					case ssa.CallInstruction:
						cc := x.Common()
						if b, ok := cc.Value.(*ssa.Builtin); ok {
							switch b.Name() {
							case "append":
								if cc.Args[0] == v {
									appended = true
									if call, ok := r.(*ssa.Call); ok {
										visit(call, d+1)
									}
								} else {
									indexed = true // used as the source of an append
								}
							case "copy":
								indexed = true
							case "len", "cap":
							default:
								escaped = true
							}
						} else {
							escaped = true // passed to a function: may be filled there
						}
					case *ssa.Return, *ssa.MakeInterface, *ssa.MakeClosure:
						escaped = true
					case *ssa.Range:
						indexed = true
					}
				}
			}
			visit(ms, 0)
			construct := "make(" + typeShort(ms.Type()) + ", n) usage"
			switch {
			case appended && !indexed:
				c.Bad(ms.Pos(), fn, construct, "the slice is created with a non-zero length and then only appended to: its first n elements stay zero-valued and the appended elements come after them (the length was probably meant to be the capacity)")
			case indexed || escaped:
				c.OK(ms.Pos(), fn, construct, "elements are assigned by index / copied / the slice is handed to a callee")
			default:
				c.Triv(ms.Pos(), fn, construct, "not appended to")
			}
		})
	}
	if n < 60 {
		c.Errorf("only %d make() sites with non-zero length found", n)
	}
}

func runC13Post(c *Ctx) {
	f := c.P.Func("geom.convexHull")
	if f == nil {
		c.Errorf("anchor geom.convexHull does not resolve")
		return
	}
	fn := FuncName(f)
	var vcalls []ssa.CallInstruction
	eachCall(f, func(call ssa.CallInstruction) {
		if isValidateCall(call) {
			vcalls = append(vcalls, call)
		}
	})
	// a helper split off convexHull that returns (polygon, polygon.Validate()) is a validation of its first result
	type vsite struct {
		call ssa.CallInstruction
		verr ssa.Value
		x    ssa.Value
	}
	var sites []vsite
	for _, vc := range vcalls {
		sites = append(sites, vsite{vc, vc.Value(), vc.Common().Args[0]})
	}
	if len(sites) == 0 {
		eachCall(f, func(call ssa.CallInstruction) {
			h := staticCallee(call)
			if h == nil || !isNewHelper(h) || len(h.Blocks) == 0 || h.Signature.Results().Len() != 2 || !isErrorType(h.Signature.Results().At(1).Type()) {
				return
			}
			allValidated := true
			nret := 0
			for _, r := range returnsOf(h) {
				nret++
				ec, ok := r.Results[1].(*ssa.Call)
				if !ok || !isValidateCall(ec) || !derivesFrom(r.Results[0], ec.Call.Args[0], 0) && !sameValue(r.Results[0], ec.Call.Args[0]) {
					allValidated = false
				}
			}
			if !allValidated || nret == 0 || call.Value() == nil {
				return
			}
			var x0, x1 ssa.Value
			for _, r := range *call.Value().Referrers() {
				if ex, ok := r.(*ssa.Extract); ok {
					if ex.Index == 0 {
						x0 = ex
					} else {
						x1 = ex
					}
				}
			}
			if x0 != nil && x1 != nil {
				sites = append(sites, vsite{call, x1, x0})
			}
		})
	}
	if len(sites) == 0 {
		c.Bad(f.Pos(), fn, "validate hull polygon", "convexHull no longer validates the polygon it constructs")
		return
	}
	for _, st := range sites {
		vc := st.call
		verr := st.verr
		x := st.x
		// on verr != nil the function must not return normally
		_, rets := exploreAfter(vc, verr, true, func(ssa.CallInstruction) bool { return false })
		c.Check(len(rets) == 0, vc.Pos(), fn, "validate hull polygon", "a validation failure panics (cannot return an invalid polygon)", "a failed validation of the hull polygon is swallowed and a geometry is returned anyway")
		// some return derives from the validated value
		ok := false
		for _, r := range returnsOf(f) {
			if derivesFrom(r.Results[0], x, 0) {
				ok = true
			}
		}
		c.Check(ok, vc.Pos(), fn, "validated value is returned", "the validated polygon is the one returned", "the polygon that is validated is not the one returned")
	}
}
