package main

import (
	"fmt"
	"go/token"
	"go/types"
	"regexp"
	"sort"
	"strings"

	"golang.org/x/tools/go/ssa"
)

func init() {
	register(&Rule{
		ID:    "C02.patterns",
		Props: []string{"C02"},
		Doc:   "the DE-9IM patterns each named predicate hands to the matcher — obtained by interpreting the predicate's control flow over all models of (a.IsEmpty, b.IsEmpty, dim a, dim b) — match exactly the same set of the 4^9 intersection matrices as the OGC/JTS definition (so Within = transpose(Contains), CoveredBy = transpose(Covers), and the dimension dispatch of Crosses/Overlaps is right); compared as matched sets, not as text",
		Floor: 9,
		Run:   runC02Patterns,
	})
	register(&Rule{
		ID:    "C02.matcher",
		Props: []string{"C02"},
		Doc:   "RelateMatches: the accepted (matrix entry, pattern character) pairs extracted from the guards of its `return false` blocks are exactly F:{F,*}, 0:{0,T,*}, 1:{1,T,*}, 2:{2,T,*}; both lengths are checked before indexing",
		Floor: 4,
		Run:   runC02Matcher,
	})
	register(&Rule{
		ID:    "C02.matrix",
		Props: []string{"C02", "C15"},
		Doc:   "matrix.index is 3*locA+locB with Interior/Boundary/Exterior = 0/1/2; transpose writes (locB,locA) <- (locA,locB); Relate's empty-operand branch (interpreted over the models of emptiness, dimension and boundary-emptiness) yields the closed-form matrix and transposes iff the first operand is the non-empty one",
		Floor: 5,
		Run:   runC02Matrix,
	})
	register(&Rule{
		ID:    "C02.location",
		Props: []string{"C02", "C15", "C10"},
		Doc:   "location decision tables (interpreted over all models of the flags): face -> interior iff inSet; half-edge -> interior if both faces present, boundary if exactly one, else interior iff the edge itself is in the set; vertex -> boundary flag wins over interior flag; and the lineal boundary flag machine in addLineString implements the mod-2 rule: boundary' = boundary XOR endpoint, and some flag is set afterwards",
		Floor: 4,
		Run:   runC02Location,
	})
}

// de9imMatches implements the pattern semantics independently.
func de9imMatches(mat, pat string) bool {
	for i := 0; i < 9; i++ {
		m, p := mat[i], pat[i]
		switch p {
		case '*':
		case 'T':
			if m == 'F' {
				return false
			}
		default:
			if m != p {
				return false
			}
		}
	}
	return true
}

func matchedSet(pats []string) []bool {
	const n = 262144 // 4^9
	out := make([]bool, n)
	chars := "F012"
	var buf [9]byte
	for i := 0; i < n; i++ {
		k := i
		for j := 0; j < 9; j++ {
			buf[j] = chars[k&3]
			k >>= 2
		}
		for _, p := range pats {
			if len(p) == 9 && de9imMatches(string(buf[:]), p) {
				out[i] = true
				break
			}
		}
	}
	return out
}

func sameSet(a, b []bool) (bool, string) {
	chars := "F012"
	for i := range a {
		if a[i] != b[i] {
			var buf [9]byte
			k := i
			for j := 0; j < 9; j++ {
				buf[j] = chars[k&3]
				k >>= 2
			}
			return false, string(buf[:])
		}
	}
	return true, ""
}

// parsePatternCall: "geom.relateMatchesAnyPattern($0,$1,["p1"|"p2"])#0" -> patterns, operand order ok
// globalStringList: the constant strings the package initialiser stores into the
// package-level []string variable name (a composite literal), in order.
func globalStringList(p *Program, pkg, name string) ([]string, bool) {
	sp := p.SPkgs[pkg]
	if sp == nil {
		return nil, false
	}
	g, ok := sp.Members[name].(*ssa.Global)
	if !ok {
		return nil, false
	}
	initf := sp.Func("init")
	if initf == nil {
		return nil, false
	}
	var out []string
	found := false
	// an array variable: the initialiser stores its elements one by one
	{
		vals := map[int64]string{}
		eachInstr(initf, func(in ssa.Instruction) {
			st, ok := in.(*ssa.Store)
			if !ok {
				return
			}
			ia, ok := st.Addr.(*ssa.IndexAddr)
			if !ok || ia.X != ssa.Value(g) {
				return
			}
			if i, ok := constInt(ia.Index); ok {
				if str, ok := constString(st.Val); ok {
					vals[i] = str
				}
			}
		})
		if len(vals) > 0 {
			for i := int64(0); i < int64(len(vals)); i++ {
				v, ok := vals[i]
				if !ok {
					return nil, false
				}
				out = append(out, v)
			}
			return out, true
		}
	}
	eachInstr(initf, func(in ssa.Instruction) {
		st, ok := in.(*ssa.Store)
		if !ok || st.Addr != ssa.Value(g) {
			return
		}
		sl, ok := st.Val.(*ssa.Slice)
		if !ok {
			return
		}
		al, ok := sl.X.(*ssa.Alloc)
		if !ok {
			return
		}
		vals := map[int64]string{}
		for _, r := range *al.Referrers() {
			ia, ok := r.(*ssa.IndexAddr)
			if !ok {
				continue
			}
			i, ok := constInt(ia.Index)
			if !ok {
				continue
			}
			for _, rr := range *ia.Referrers() {
				if s2, ok := rr.(*ssa.Store); ok && s2.Addr == ssa.Value(ia) {
					if str, ok := constString(s2.Val); ok {
						vals[i] = str
					}
				}
			}
		}
		for i := int64(0); i < int64(len(vals)); i++ {
			out = append(out, vals[i])
		}
		found = len(vals) > 0
	})
	return out, found
}

func parsePatternCall(s string) ([]string, bool) {
	const pre = "geom.relateMatchesAnyPattern($0,$1,["
	if !strings.HasPrefix(s, pre) {
		return nil, false
	}
	rest := strings.TrimPrefix(s, pre)
	i := strings.Index(rest, "]")
	if i < 0 {
		return nil, false
	}
	var out []string
	for _, p := range strings.Split(rest[:i], "|") {
		out = append(out, strings.Trim(p, "\""))
	}
	return out, true
}

func runC02Patterns(c *Ctx) {
	type spec struct {
		fn string
		// expected patterns as a function of (dimA, dimB); nil => constant false
		exp func(dA, dB int) []string
	}
	konst := func(p ...string) func(int, int) []string { return func(int, int) []string { return p } }
	specs := []spec{
		{"Equals", konst("T*F**FFF*")},
		{"Disjoint", konst("FF*FF****")},
		{"Touches", konst("FT*******", "F**T*****", "F***T****")},
		{"Contains", konst("T*****FF*")},
		{"Covers", konst("T*****FF*", "*T****FF*", "***T**FF*", "****T*FF*")},
		{"Within", konst("T*F**F***")},
		{"CoveredBy", konst("T*F**F***", "*TF**F***", "**FT*F***", "**F*TF***")},
		{"Crosses", func(dA, dB int) []string {
			switch {
			case dA < dB:
				return []string{"T*T******"}
			case dA > dB:
				return []string{"T*****T**"}
			case dA == 1 && dB == 1:
				return []string{"0********"}
			}
			return nil
		}},
		{"Overlaps", func(dA, dB int) []string {
			switch {
			case dA == 0 && dB == 0, dA == 2 && dB == 2:
				return []string{"T*T***T**"}
			case dA == 1 && dB == 1:
				return []string{"1*T***T**"}
			}
			return nil
		}},
	}
	cache := map[string][]bool{}
	set := func(p []string) []bool {
		k := strings.Join(p, "|")
		if s, ok := cache[k]; ok {
			return s
		}
		s := matchedSet(p)
		cache[k] = s
		return s
	}
	for _, sp := range specs {
		f := c.P.Func("geom." + sp.fn)
		if f == nil {
			c.Errorf("anchor geom.%s does not resolve", sp.fn)
			continue
		}
		fn := FuncName(f)
		problem, undec := "", ""
		models := 0
		k4enumerate([]string{"geom.(Geometry).Dimension($0)", "geom.(Geometry).Dimension($1)"}, []float64{0, 1, 2},
			[]string{"geom.(Geometry).IsEmpty($0)", "geom.(Geometry).IsEmpty($1)"}, func(m *Model) bool {
				models++
				m.Missing = map[string]bool{}
				// the operands' dimensions, however the code obtains them (that empty
				// members are ignored is C20.operanddim's obligation)
				for _, p := range []string{"$0", "$1"} {
					m.Num["geom.highestDimensionIgnoreEmpties("+p+")"] = m.Num["geom.(Geometry).Dimension("+p+")"]
				}
				dA, dB := int(m.Num["geom.(Geometry).Dimension($0)"]), int(m.Num["geom.(Geometry).Dimension($1)"])
				aE, bE := m.Bool["geom.(Geometry).IsEmpty($0)"], m.Bool["geom.(Geometry).IsEmpty($1)"]
				want := sp.exp(dA, dB)
				res, err := k4run(c.P, f, m, nil)
				if err != nil || len(res) < 1 {
					// the predicate calls Relate and RelateMatches itself: learn its pattern set by probing
					pats, constant, why := patternsByProbing(c.P, f, m)
					if why != "" {
						undec = fmt.Sprintf("%v %s; %s", err, missingList(m), why)
						return false
					}
					if constant != "" {
						res = []k4val{{kind: 1, b: constant == "true"}}
					} else {
						if eq, witness := sameSet(set(pats), set(want)); !eq {
							sort.Strings(pats)
							problem = fmt.Sprintf("for dimensions (%d,%d) the patterns %v differ from the definition %v: e.g. matrix %s is matched by one and not the other", dA, dB, pats, want, witness)
							return false
						}
						return true
					}
				}
				got := res[0].String()
				if sp.fn == "Equals" && aE && bE && got == "true" {
					return true // two empty geometries are equal by convention
				}
				if got == "false" {
					if len(want) == 0 {
						return true
					}
					problem = fmt.Sprintf("returns false for dimensions (%d,%d) where the definition applies pattern(s) %v", dA, dB, want)
					return false
				}
				// a pattern list kept in a package-level variable: its contents are what the
				// package initialiser stores there (and nothing else may write it, C10.global)
				if i := strings.Index(got, "global:"); i >= 0 {
					j := i + len("global:")
					for j < len(got) && (got[j] == '_' || got[j] >= '0' && got[j] <= '9' || got[j] >= 'a' && got[j] <= 'z' || got[j] >= 'A' && got[j] <= 'Z') {
						j++
					}
					if lst, ok := globalStringList(c.P, "geom", got[i+len("global:"):j]); ok {
						var q []string
						for _, x := range lst {
							q = append(q, "\""+x+"\"")
						}
						got = got[:i] + "[" + strings.Join(q, "|") + "]" + got[j:]
					}
				}
				pats, ok := parsePatternCall(got)
				if !ok {
					problem = fmt.Sprintf("returns %s instead of matching Relate(a,b) against DE-9IM patterns (operands in order a,b)", trunc(got))
					return false
				}
				if eq, witness := sameSet(set(pats), set(want)); !eq {
					sort.Strings(pats)
					problem = fmt.Sprintf("for dimensions (%d,%d) the patterns %v differ from the definition %v: e.g. matrix %s is matched by one and not the other", dA, dB, pats, want, witness)
					return false
				}
				return true
			})
		construct := "DE-9IM patterns"
		switch {
		case undec != "":
			c.Undecided(f.Pos(), fn, construct, "cannot interpret the predicate: "+undec)
		case problem != "":
			c.Bad(f.Pos(), fn, construct, problem)
		default:
			c.OK(f.Pos(), fn, construct, fmt.Sprintf("matched set equals the OGC definition in all %d models (emptiness x dimensions), compared over all 262144 matrices", models))
		}
	}
}

func runC02Matcher(c *Ctx) {
	f := c.P.Func("geom.RelateMatches")
	if f == nil {
		c.Errorf("anchor geom.RelateMatches does not resolve")
		return
	}
	fn := FuncName(f)
	// RelateMatches interpreted on the strings mmmmmmmmm / ppppppppp for every matrix
	// character m and pattern character p: which pattern characters each matrix
	// entry accepts (however the per-entry decision is written or factored out)
	want := map[byte]string{'F': "*F", '0': "*0T", '1': "*1T", '2': "*2T"}
	for _, m := range []byte{'F', '0', '1', '2'} {
		got, undec := "", ""
		for _, p := range []byte("*012FT") {
			mdl := &Model{Num: map[string]float64{}, Bool: map[string]bool{}, Missing: map[string]bool{}}
			it := &k4interp{p: c.P, m: mdl, mem: map[string]k4val{}}
			res, err := it.call(f, []k4val{{kind: 4, s: strings.Repeat(string(m), 9)}, {kind: 4, s: strings.Repeat(string(p), 9)}}, nil)
			if err != nil || len(res) != 2 || res[0].kind != 1 {
				undec = fmt.Sprintf("matrix %q pattern %q: %v %v %s", string(m), string(p), err, res, trunc(missingList(mdl)))
				break
			}
			if res[1].String() != "nil" {
				undec = fmt.Sprintf("matrix %q pattern %q: an error is returned for valid input (%s)", string(m), string(p), trunc(res[1].String()))
				break
			}
			if res[0].b {
				got += string(p)
			}
		}
		construct := fmt.Sprintf("pattern characters accepted for matrix entry %q", string(m))
		if undec != "" {
			c.Undecided(f.Pos(), fn, construct, "cannot interpret: "+undec)
			continue
		}
		c.Check(got == want[m], f.Pos(), fn, construct, "accepts exactly {"+want[m]+"}", fmt.Sprintf("accepts {%s}, the DE-9IM semantics require {%s}", got, want[m]))
	}
	// strings of the wrong length are refused with an error (not a panic, not an answer):
	// RelateMatches interpreted on matrices and patterns of 0, 8 and 10 characters
	bad, undecLen := "", ""
	for _, lens := range [][2]int{{8, 9}, {9, 8}, {10, 9}, {9, 10}, {0, 9}, {9, 0}} {
		mdl := &Model{Num: map[string]float64{}, Bool: map[string]bool{}, Missing: map[string]bool{}}
		it := &k4interp{p: c.P, m: mdl, mem: map[string]k4val{}}
		res, err := it.call(f, []k4val{{kind: 4, s: strings.Repeat("F", lens[0])}, {kind: 4, s: strings.Repeat("*", lens[1])}}, nil)
		switch {
		case err != nil && strings.Contains(err.Error(), "out of range"):
			bad = fmt.Sprintf("a matrix of %d and a pattern of %d characters are indexed out of range (a panic) instead of being refused", lens[0], lens[1])
		case err != nil || len(res) != 2:
			undecLen = fmt.Sprintf("lengths %v: %v %v %s", lens, err, res, trunc(missingList(mdl)))
		case res[1].String() == "nil":
			bad = fmt.Sprintf("a matrix of %d and a pattern of %d characters are accepted without an error (answer %s)", lens[0], lens[1], res[0].String())
		}
	}
	if undecLen != "" {
		c.Undecided(f.Pos(), fn, "length checks", "cannot interpret: "+undecLen)
	} else {
		c.Check(bad == "", f.Pos(), fn, "length checks", "strings that are not 9 characters long are refused with an error", bad)
	}
}

func runC02Matrix(c *Ctx) {
	// constants
	for name, want := range map[string]int64{"imInterior": 0, "imBoundary": 1, "imExterior": 2} {
		cst := lookupConst(c, "geom", name)
		c.Check(cst == want, token.NoPos, "geom."+name, "location constant", fmt.Sprintf("= %d", want), fmt.Sprintf("location constant %s is %d, the row-major DE-9IM order requires %d", name, cst, want))
	}
	if c.P.Func("geom.(matrix).index") != nil {
		runK4Spec(c, k4spec{rule: "C02.matrix", fn: "geom.(matrix).index", construct: "index", num: []string{"$1", "$2"}, vals: []float64{0, 1, 2},
			what: "3*locA + locB (row-major: rows are locations of A)", want: func(m *Model) []string {
				return []string{fmtNum(3*m.Num["$1"] + m.Num["$2"])}
			}})
	}
	// the accessors themselves, however they compute the position: set(a, b, e) writes element
	// 3a+b and get(a, b) reads it
	for _, acc := range []string{"set", "get"} {
		g := c.P.Func("geom.(*matrix)." + acc)
		if g == nil {
			c.Errorf("anchor geom.(*matrix).%s does not resolve", acc)
			continue
		}
		problem, undec := "", ""
		for a := 0; a < 3 && problem == "" && undec == ""; a++ {
			for b := 0; b < 3; b++ {
				m := &Model{Num: map[string]float64{}, Bool: map[string]bool{}, Missing: map[string]bool{}}
				it := &k4interp{p: c.P, m: m, mem: map[string]k4val{}, inline: func(h *ssa.Function) bool { return FuncName(h) == "geom.(matrix).index" }}
				for i := 0; i < 9; i++ {
					it.mem[fmt.Sprintf("$0[%d]", i)] = k4val{kind: 2, f: float64(100 + i)}
				}
				args := []k4val{{kind: 3, s: "$0", addr: true}, {kind: 2, f: float64(a)}, {kind: 2, f: float64(b)}}
				if acc == "set" {
					args = append(args, k4val{kind: 2, f: 77})
				}
				res, err := it.call(g, args, nil)
				if err != nil {
					undec = fmt.Sprintf("%v %s", err, missingList(m))
					break
				}
				want := 3*a + b
				if acc == "set" {
					for i := 0; i < 9; i++ {
						v := it.mem[fmt.Sprintf("$0[%d]", i)]
						if (i == want) != (v.kind == 2 && v.f == 77) {
							problem = fmt.Sprintf("set(%d, %d, e) does not write exactly element %d of the matrix (element %d holds %s afterwards)", a, b, want, i, v)
						}
					}
				} else if len(res) != 1 || res[0].kind != 2 || int(res[0].f) != 100+want {
					problem = fmt.Sprintf("get(%d, %d) does not read element %d of the matrix", a, b, want)
				}
			}
		}
		reportK4(c, g, "row-major position", undec, problem, "element 3*locA + locB for all 9 location pairs")
	}
	// Relate's empty-operand branch
	f := c.P.Func("geom.Relate")
	if f == nil {
		c.Errorf("anchor geom.Relate does not resolve")
		return
	}
	fn := FuncName(f)
	inl := map[string]bool{"geom.newMatrix": true, "geom.(*matrix).set": true, "geom.(*matrix).get": true, "geom.(matrix).index": true, "geom.(*matrix).transpose": true, "geom.(*matrix).code": true}
	problem, undec := "", ""
	models := 0
	dimKey := func(p string) string { return "geom.(Geometry).Dimension(" + p + ")" }
	k4enumerate([]string{dimKey("$0"), dimKey("$1")}, []float64{0, 1, 2},
		[]string{"geom.(Geometry).IsEmpty($0)", "geom.(Geometry).IsEmpty($1)", "geom.(Geometry).IsEmpty(geom.(Geometry).Boundary($0))", "geom.(Geometry).IsEmpty(geom.(Geometry).Boundary($1))"},
		func(m *Model) bool {
			aE, bE := m.Bool["geom.(Geometry).IsEmpty($0)"], m.Bool["geom.(Geometry).IsEmpty($1)"]
			if !aE && !bE {
				return true
			}
			models++
			it := &k4interp{p: c.P, m: m, mem: map[string]k4val{}, inline: func(g *ssa.Function) bool { return inl[FuncName(g)] }}
			m.Missing = map[string]bool{}
			for _, p := range []string{"$0", "$1"} {
				m.Num["geom.highestDimensionIgnoreEmpties("+p+")"] = m.Num[dimKey(p)]
			}
			res, err := it.call(f, []k4val{{kind: 3, s: "$0"}, {kind: 3, s: "$1"}}, nil)
			if err != nil {
				undec = fmt.Sprintf("%v %s", err, missingList(m))
				return false
			}
			// the returned code is string(m[:]) of the local matrix: read it from symbolic memory
			got := matrixFromMem(it)
			want := []byte("FFFFFFFF2")
			if aE != bE {
				ne := "$0"
				if aE {
					ne = "$1"
				}
				d := int(m.Num[dimKey(ne)])
				bdE := m.Bool["geom.(Geometry).IsEmpty(geom.(Geometry).Boundary("+ne+"))"]
				// entries for the non-empty operand N against the empty one: N's interior/boundary meet
				// the other's exterior.
				var i, b byte = 'F', 'F'
				switch d {
				case 0:
					i = '0'
				case 1:
					i = '1'
					if !bdE {
						b = '0'
					}
				case 2:
					i, b = '2', '1'
				}
				if ne == "$0" {
					want[2], want[5] = i, b // IE, BE
				} else {
					want[6], want[7] = i, b // EI, EB
				}
			}
			if got != string(want) {
				problem = fmt.Sprintf("for %s Relate returns %s, the closed form is %s", modelString(m), got, want)
				return false
			}
			_ = res
			return true
		})
	construct := "empty-operand closed form and transposition"
	switch {
	case undec != "":
		c.Undecided(f.Pos(), fn, construct, "cannot interpret: "+undec)
	case problem != "":
		c.Bad(f.Pos(), fn, construct, problem)
	default:
		c.OK(f.Pos(), fn, construct, fmt.Sprintf("matches the closed-form matrix (and its transpose when the first operand is the non-empty one) in all %d models", models))
	}
}

func lookupConst(c *Ctx, pkg, name string) int64 {
	o := c.P.Pkgs[pkg].Types.Scope().Lookup(name)
	if o == nil {
		c.Errorf("constant %s.%s not found", pkg, name)
		return -1
	}
	if k, ok := o.(*types.Const); ok {
		v, _ := constantInt64(k)
		return v
	}
	return -1
}

// matrixFromMem reads the 9 bytes of the (single) local matrix of Relate's frame.
func matrixFromMem(it *k4interp) string {
	// find keys of the form L<n>:<name>[i] holding numeric byte values, pick the frame-1 matrix
	byBase := map[string][9]byte{}
	seen := map[string]int{}
	for k, v := range it.mem {
		if v.kind != 2 {
			continue
		}
		i := strings.LastIndex(k, "[")
		if i < 0 || !strings.HasSuffix(k, "]") {
			continue
		}
		var idx int
		if _, err := fmt.Sscanf(k[i:], "[%d]", &idx); err != nil || idx < 0 || idx > 8 {
			continue
		}
		base := k[:i]
		arr := byBase[base]
		arr[idx] = byte(v.f)
		byBase[base] = arr
		seen[base]++
	}
	best := ""
	for b, n := range seen {
		if n == 9 && strings.HasPrefix(b, "L1:") {
			best = b
		}
	}
	if best == "" {
		// the matrix lives in the frame of a helper split off Relate: the one complete 9-byte local of matrix characters
		cands := 0
		for b, n := range seen {
			if n != 9 || !strings.HasPrefix(b, "L") {
				continue
			}
			arr := byBase[b]
			ok := true
			for _, ch := range arr {
				if ch != 'F' && ch != '0' && ch != '1' && ch != '2' {
					ok = false
				}
			}
			if ok {
				// the outermost frame owns the matrix (inner ones hold the scratch copies of transpose and the like)
				if best == "" || frameNo(b) < frameNo(best) {
					best = b
				}
				cands++
			}
		}
		if cands == 0 {
			return "?"
		}
	}
	arr := byBase[best]
	return string(arr[:])
}

func runC02Location(c *Ctx) {
	// faceRecord.location
	runK4Spec(c, k4spec{rule: "C02.location", fn: "geom.(*faceRecord).location", construct: "face location", num: []string{"$1"}, vals: []float64{0, 1},
		bools: []string{"$0.inSet[0]", "$0.inSet[1]"}, what: "interior iff the face is in the operand's set, else exterior",
		want: func(m *Model) []string {
			in := m.Bool[fmt.Sprintf("$0.inSet[%d]", int(m.Num["$1"]))]
			if in {
				return []string{"0"}
			}
			return []string{"2"}
		}})
	runK4Spec(c, k4spec{rule: "C02.location", fn: "geom.(*halfEdgeRecord).location", construct: "half-edge location", num: []string{"$1"}, vals: []float64{0, 1},
		bools: []string{"$0.incident.inSet[0]", "$0.incident.inSet[1]", "$0.twin.incident.inSet[0]", "$0.twin.incident.inSet[1]", "$0.inSet[0]", "$0.inSet[1]"},
		what:  "both adjacent faces in the set -> interior; exactly one -> boundary; none -> interior iff the edge itself is in the set",
		want: func(m *Model) []string {
			op := int(m.Num["$1"])
			f1 := m.Bool[fmt.Sprintf("$0.incident.inSet[%d]", op)]
			f2 := m.Bool[fmt.Sprintf("$0.twin.incident.inSet[%d]", op)]
			e := m.Bool[fmt.Sprintf("$0.inSet[%d]", op)]
			switch {
			case f1 && f2:
				return []string{"0"}
			case f1 != f2:
				return []string{"1"}
			case e:
				return []string{"0"}
			}
			return []string{"2"}
		}})
	// vertexRecord.location: only the two flag tests (the fallback ranges over a map)
	if f := c.P.Func("geom.(*vertexRecord).location"); f != nil {
		fn := FuncName(f)
		problem := ""
		for _, op := range []float64{0, 1} {
			for _, b := range []bool{false, true} {
				for _, i := range []bool{false, true} {
					if !b && !i {
						continue
					}
					m := &Model{Num: map[string]float64{"$1": op}, Bool: map[string]bool{}, Missing: map[string]bool{}}
					for _, o := range []int{0, 1} {
						m.Bool[fmt.Sprintf("$0.locations[%d].boundary", o)] = b
						m.Bool[fmt.Sprintf("$0.locations[%d].interior", o)] = i
					}
					res, err := k4run(c.P, f, m, nil)
					want := "0"
					if b {
						want = "1"
					}
					if err != nil || len(res) != 1 || res[0].String() != want {
						problem = fmt.Sprintf("with boundary=%v interior=%v the vertex location is %v (err %v), expected %s: the boundary flag must take precedence", b, i, res, err, want)
					}
				}
			}
		}
		c.Check(problem == "", f.Pos(), fn, "vertex location", "boundary flag is tested before the interior flag", problem)
	} else {
		c.Errorf("anchor geom.(*vertexRecord).location does not resolve")
	}
	// the flag machine of addLineString: the parent is interpreted and its
	// per-segment callback is driven for one modelled segment, so that values the
	// parent computes once (sequence length, closedness) and the callback reads
	// are handled wherever they are computed
	par := c.P.Func("geom.(*doublyConnectedEdgeList).addLineString")
	if par == nil || len(par.Params) < 3 {
		c.Errorf("anchor addLineString does not resolve")
		return
	}
	var clo *ssa.Function
	for _, a := range par.AnonFuncs {
		clo = a
	}
	if clo == nil {
		clo = par
	}
	fn := FuncName(clo)
	problem, undec := "", ""
	models := 0
	for _, op := range []float64{0, 1} {
		for mask := 0; mask < 32*16 && problem == "" && undec == ""; mask++ {
			fl := [4]bool{mask&1 != 0, mask&2 != 0, mask&4 != 0, mask&8 != 0} // start.boundary, start.interior, end.boundary, end.interior
			closed := mask&16 != 0
			si := float64((mask >> 5) & 3)
			sl := float64((mask >> 7) & 3)
			if sl < 2 || si+2 > sl {
				continue
			}
			models++
			m := &Model{Num: map[string]float64{}, Bool: map[string]bool{}, Missing: map[string]bool{}}
			it := &k4interp{p: c.P, m: m, mem: map[string]k4val{}}
			var hookErr error
			driven := false
			it.onOpaque = func(name string, args []k4val) {
				if !strings.HasSuffix(name, "forEachNonInteractingSegment") {
					return
				}
				for _, a := range args {
					if a.kind != 7 {
						continue
					}
					fnv, _ := a.v.(*ssa.Function)
					if fnv == nil {
						continue
					}
					var fvs []k4val
					if a.s != "" {
						for _, k := range strings.Split(a.s, "\x00") {
							fvs = append(fvs, k4val{kind: 3, s: k})
						}
					}
					driven = true
					if _, err := it.call(fnv, []k4val{{kind: 3, s: "SEG"}, {kind: 2, f: si}}, fvs); err != nil && hookErr == nil {
						hookErr = err
					}
				}
			}
			flagIdx := func(key string) int {
				for k, suf := range []string{".start.locations[%d].boundary", ".start.locations[%d].interior", ".end.locations[%d].boundary", ".end.locations[%d].interior"} {
					if strings.HasSuffix(key, fmt.Sprintf(suf, int(op))) {
						return k
					}
				}
				return -1
			}
			it.answer = func(key string, isBool bool) (k4val, bool) {
				switch {
				case isBool && strings.Contains(key, ").IsClosed("):
					return k4val{kind: 1, b: closed}, true
				case isBool && strings.Contains(key, "addOrGetEdge(") && flagIdx(key) >= 0:
					return k4val{kind: 1, b: fl[flagIdx(key)]}, true
				case !isBool && key == "geom.(Sequence).Length(SEG)":
					return k4val{kind: 2, f: 2}, true
				case !isBool && strings.HasPrefix(key, "geom.(Sequence).Length("):
					return k4val{kind: 2, f: sl}, true
				}
				return k4val{}, false
			}
			args := []k4val{{kind: 3, s: "$0"}, {kind: 3, s: "$1"}, {kind: 2, f: op}}
			for k := 3; k < len(par.Params); k++ {
				args = append(args, k4val{kind: 3, s: fmt.Sprintf("$%d", k)})
			}
			if _, err := it.call(par, args, nil); err != nil || hookErr != nil || !driven {
				undec = fmt.Sprintf("%v %v driven=%v %s", err, hookErr, driven, missingList(m))
				break
			}
			for vi, v := range []string{"start", "end"} {
				onB := !closed && ((v == "start" && si == 0) || (v == "end" && si+2 == sl))
				b0, i0 := fl[2*vi], fl[2*vi+1]
				b1, i1 := b0, i0
				for k, x := range it.mem {
					if x.kind != 1 || !strings.Contains(k, "addOrGetEdge(") {
						continue
					}
					switch flagIdx(k) {
					case 2 * vi:
						b1 = x.b
					case 2*vi + 1:
						i1 = x.b
					}
				}
				if b1 != (b0 != onB) {
					problem = fmt.Sprintf("vertex %s with flags (boundary=%v, interior=%v) receiving %s: boundary becomes %v, the mod-2 rule requires %v", v, b0, i0, map[bool]string{true: "an endpoint", false: "an interior visit"}[onB], b1, b0 != onB)
					break
				}
				if !b1 && !i1 {
					problem = fmt.Sprintf("vertex %s ends with neither flag set after a visit (flags before: boundary=%v interior=%v, endpoint=%v)", v, b0, i0, onB)
					break
				}
			}
		}
	}
	construct := "lineal boundary flag machine (mod-2 rule)"
	switch {
	case undec != "":
		c.Undecided(clo.Pos(), fn, construct, "cannot interpret the closure: "+undec)
	case problem != "":
		c.Bad(clo.Pos(), fn, construct, problem)
	default:
		c.OK(clo.Pos(), fn, construct, fmt.Sprintf("boundary' = boundary XOR endpoint and a flag is always set, in all %d models of (flags x endpoint-ness x closedness x operand)", models))
	}
}

var de9imPatRe = regexp.MustCompile(`"([TF012*]{9})"`)

// patternsByProbing learns the DE-9IM pattern set of a predicate that calls
// Relate and RelateMatches itself (instead of handing a pattern list to
// relateMatchesAnyPattern): with every match answered false it must return
// false, and the patterns it asked about are collected; with exactly the i-th
// of them answered true it must return true. constant is set when the
// predicate answers without consulting Relate at all.
func patternsByProbing(p *Program, f *ssa.Function, m0 *Model) (pats []string, constant string, why string) {
	run := func(hit int) (string, []string, string) {
		m := &Model{Num: m0.Num, Bool: m0.Bool, Missing: map[string]bool{}}
		it := &k4interp{p: p, m: m, mem: map[string]k4val{}}
		var asked []string
		order := ""
		it.answer = func(key string, isBool bool) (k4val, bool) {
			if !isBool {
				return k4val{}, false
			}
			if strings.Contains(key, "geom.Relate(") && !strings.Contains(key, "geom.Relate($0,$1)") {
				order = "Relate is not called with the operands in order (a, b)"
			}
			if strings.Contains(key, "geom.RelateMatches(") {
				if strings.HasSuffix(key, "#1==nil)") {
					return k4val{kind: 1, b: true}, true
				}
				if strings.HasSuffix(key, "#1!=nil)") {
					return k4val{kind: 1, b: false}, true
				}
				if strings.HasSuffix(key, "#0") {
					mm := de9imPatRe.FindStringSubmatch(key)
					if mm == nil || !strings.Contains(key, "geom.RelateMatches(geom.Relate($0,$1)#0,") {
						order = "RelateMatches is not applied to the matrix of Relate(a, b) with a constant pattern"
						return k4val{kind: 1, b: false}, true
					}
					idx := -1
					for i, a := range asked {
						if a == mm[1] {
							idx = i
						}
					}
					if idx < 0 {
						asked = append(asked, mm[1])
						idx = len(asked) - 1
					}
					return k4val{kind: 1, b: idx == hit}, true
				}
			}
			if strings.HasPrefix(key, "(geom.Relate($0,$1)#1") {
				return k4val{kind: 1, b: strings.HasSuffix(key, "==nil)")}, true
			}
			return k4val{}, false
		}
		res, err := it.call(f, []k4val{{kind: 3, s: "$0"}, {kind: 3, s: "$1"}}, nil)
		if err != nil || len(res) < 1 || res[0].kind != 1 {
			return "", nil, fmt.Sprintf("probing failed: %v %s", err, missingList(m))
		}
		if order != "" {
			return "", nil, order
		}
		return fmt.Sprint(res[0].b), asked, ""
	}
	r0, asked, w := run(-1)
	if w != "" {
		return nil, "", w
	}
	if len(asked) == 0 {
		return nil, r0, ""
	}
	if r0 != "false" {
		return nil, "", "returns true although no pattern matches"
	}
	for i := range asked {
		ri, _, w := run(i)
		if w != "" {
			return nil, "", w
		}
		if ri != "true" {
			return nil, "", "returns false although pattern " + asked[i] + " matches"
		}
	}
	return asked, "", ""
}

// frameNo: the frame number of a local's key "L<n>:name".
func frameNo(key string) int {
	n := 0
	fmt.Sscanf(key, "L%d:", &n)
	return n
}
