package main

func init() {
	setProp("C20", "DESIGN.md §4 C20",
		"Decides: the tagged-pointer discipline of Geometry (every literal pairs tag and pointee type, every unsafe conversion of .ptr is guarded by the matching tag and by ptr!=nil for tag 0, no store through a converted pointer).",
		"neutrality/transparency of empty members for every operation; absence of all runtime panics on empty inputs beyond the named access shapes.")
	setProp("C05", "DESIGN.md §4 C05",
		"Decides: AppendWKT on the zero Geometry cannot dereference nil (tagged-pointer rule shared with C20).",
		"value-level round trip of arbitrary ordinates, the grammar of the emitted text beyond keyword/tag tables.")
	setProp("C08", "DESIGN.md §4 C08",
		"Decides: no allocation reachable from the 26+ decoder entry points is sized by an input-supplied count without a dominating bound against the remaining input length.",
		"absence of every runtime panic in all callees; panics inside encoding/json and text/scanner; that returned geometries re-encode without panicking.")
	setProp("C11", "DESIGN.md §4 C11",
		"Decides: stop-typestate of search callbacks in rtree (no callback invocation reachable after a non-nil result; inner helpers propagate the error itself; the entry maps exactly errors.Is(err,Stop) to nil).",
		"completeness and exactly-once visiting of the searches for every tree shape; ordering of PrioritySearch; floating-point min/max behaviour.")
	setProp("C07", "DESIGN.md §4 C07",
		"Decides: Point.coords is never read for a possibly-empty point; sub-writer output is always paired with a bounding-box merge; optional header bytes are emitted only where their metadata bit was set (never after an 'is empty' header), every metadata byte carries the ext-precision bit under hasExt; ID lists are emitted only for kinds the reader accepts and only under count == len(list); every geometry the parser returns is typed by the header's coordinates type.",
		"numeric rounding to the requested grid, the varint arithmetic, and the value-level round trip.")
	setProp("C17", "DESIGN.md §4 C17",
		"Decides: snapToGridFloat64 can only return its input, a constant, Round(input) or a value proven neither Inf (both signs) nor NaN; no division by the distance of two control points without a zero guard.",
		"the geometric contracts of Densify/Simplify (gap bound, subsequence, tolerance), arc-length fractions, idempotence and oddness of SnapToGrid.")
	setProp("C19", "DESIGN.md §4 C19",
		"Decides: dimensional homogeneity in the earth radius of all 18 Forward/Reverse bodies (so inversion for R=1 implies inversion for every R), the zero guard of the removable singularity at the projection centre, and atan2-based longitude recovery for projections with a settable centre.",
		"that the formulas are the right projection, their equal-area/conformal/equidistant character (needs calculus on the formulas, another technique family), numeric accuracy of the inverse.")
	setProp("C03", "DESIGN.md §4 C03",
		"Decides: vertex probes against other rings treat 'on the boundary' as inconclusive (three-valued consumption), so the nested/inside verdicts cannot depend on a ring's start vertex; every decoder and validating operation validates exactly the value it returns on every success path unless NoValidate was passed, returns the validation error, and no adapter disables validation.",
		"completeness of the rule set with respect to the OGC validity definition; correctness of the segment-intersection and simplicity algorithms.")
	setProp("C09", "DESIGN.md §4 C09",
		"Decides: comma-ok discipline at every call of a flag-returning accessor (an empty Point's zero XY is never used as a position in Intersects/Distance kernels).",
		"agreement of Intersects/Distance with exact geometry and with Relate; numeric distance.")
	setProp("C15", "DESIGN.md §4 C15",
		"Decides: comma-ok discipline (empty members cannot contribute a (0,0) endpoint to Boundary or a candidate to PointOnSurface).",
		"that Boundary is the DE-9IM boundary and that PointOnSurface is interior.")
	setProp("C10", "DESIGN.md §4 C10",
		"Decides (whole program, all paths): nothing reachable from a geometry, sequence, envelope or R-tree passed to an operation is written (stores, copy, in-place sort/heap, map update, in-place append), with mutation of plain slice parameters summarised and checked at every call site; no package-level state is written after init; no goroutines, clocks, random sources or locks are used. A read-only heap cannot race.",
		"the Go memory model beyond 'shared memory is never written'; purity of third-party callees; that sort comparators are total orders; bit-identical output ordering (map-iteration order rule not yet included).")
	setProp("C01", "DESIGN.md §4 C01",
		"Decides: the empty-operand decision table of the four binary set operations (each cell is the full overlay with the right include function and operand order, or the algebraically correct canonical shortcut); the truth tables of the include functions; UnaryUnion's definition; that the overlay result is validated on every success path and only reviewed functions reach the overlay internals.",
		"geometric correctness of the arrangement, labels and extracted rings; area/length identities.")
	setProp("C16", "DESIGN.md §4 C16",
		"Decides: every decoder routine types its result by the announced coordinates type (no bare zero literals, no constructors over possibly-empty lists); index-filled geometry lists are assigned on every loop path; set-operation shortcuts return canonical XY results.",
		"that each vertex's Z/M travels with its XY through every operation (value-level).")
	setProp("C04", "DESIGN.md §4 C04",
		"Decides: coordinate-type propagation onto empty geometries and empty members in the WKB parser (ctype-flow).",
		"bit-exact round trip of payloads; byte-order symmetry (not yet covered).")
	setProp("C06", "DESIGN.md §4 C06",
		"Decides: coordinate-type propagation in the GeoJSON node-to-geometry conversion (an empty Point member cannot strip Z from its siblings).",
		"RFC 7946 syntax of the output; value-level round trip.")
	setProp("C12", "DESIGN.md §4 C12",
		"Decides: the Envelope predicates and measures (Contains, Intersects, Covers, IsPoint/IsLine/IsRectangle, Width/Height/Area, Distance) equal their closed-interval definitions on every weak ordering of the ordinates and every emptiness combination.",
		"that Envelope() of each geometry is the tightest box over its control points (fold rules not yet included); NaN behaviour.")
	setProp("C02", "DESIGN.md §4 C02",
		"Decides: the DE-9IM pattern sets of the nine named predicates (as matched sets over all 4^9 matrices, per dimension case), the matcher's acceptance table, the matrix index/closed-form/transposition of Relate's empty-operand branch, the face/half-edge/vertex location tables and the mod-2 boundary flag machine of lineal input.",
		"that the overlay labels (inSet) from which the matrix is read are geometrically right; the fill order of the matrix extraction (not yet included).")
	setProp("C14", "DESIGN.md §4 C14",
		"Decides: the shell/hole sign convention of Polygon.Area for both the signed and unsigned variants and the forwarding of the transform; options are forwarded to every nested Area call; the centroid formula selector never applies Dimension() to a possibly-empty or nested-collection member.",
		"numeric accuracy of the measures, centroid weights, additivity and invariances at value level.")
	setProp("C18", "DESIGN.md §4 C18",
		"Decides: the per-coordinate equality (type, XY tolerance, exact Z/M), the identifications IgnoreOrder allows for line strings (identity; reversal; rotation only between two rings), completeness and soundness of the backtracking member matcher, and that every composite comparator compares counts and coordinate types.",
		"equivalence with WKB equality on all inputs; behaviour of tolerance beyond the squared-distance test.")
	setProp("C13", "DESIGN.md §4 C13",
		"Decides: the orientation predicate equals the sign of the cross product on every lattice model; both hull loops pop on the same `!= leftTurn` predicate; XY.Cross forbids fused multiply-add; no slice is created with a non-zero length and then only appended to (spurious zero points in the hull input); the hull polygon is validated and the validated value returned.",
		"minimality of the hull, idempotence, correctness of the rotating calipers (their dependence on ring winding).")
}
