package main

import (
	"fmt"
	"go/token"
	"go/types"

	"golang.org/x/tools/go/ssa"
)

// geomTags derives the tag table GeometryType constant -> concrete type from
// the seven `Type() GeometryType` methods (each returns one constant).
func geomTags(c *Ctx) (byVal map[int64]*types.Named, byType map[string]int64) {
	byVal = map[int64]*types.Named{}
	byType = map[string]int64{}
	for _, tn := range []string{"GeometryCollection", "Point", "LineString", "Polygon", "MultiPoint", "MultiLineString", "MultiPolygon"} {
		f := c.P.Func("geom.(" + tn + ").Type")
		if f == nil {
			c.Errorf("anchor geom.(%s).Type does not resolve", tn)
			continue
		}
		rs := returnsOf(f)
		if len(rs) != 1 || len(rs[0].Results) != 1 {
			c.Errorf("geom.(%s).Type: expected a single constant return", tn)
			continue
		}
		k, ok := constInt(rs[0].Results[0])
		if !ok {
			c.Errorf("geom.(%s).Type does not return a constant", tn)
			continue
		}
		if _, dup := byVal[k]; dup {
			c.Errorf("geometry tag %d returned by two Type() methods", k)
		}
		byVal[k] = c.P.NamedType("geom", tn)
		byType[tn] = k
	}
	return
}

// checkIsTagAssert verifies that geom.(Geometry).check(g, k) panics unless
// g.gtype == k, so a dominating call acts as a guard.
func checkIsTagAssert(c *Ctx) bool {
	f := c.P.Func("geom.(Geometry).check")
	if f == nil {
		return false
	}
	okPanic := false
	okReturn := true
	for _, b := range f.Blocks {
		n := len(b.Instrs)
		if n == 0 {
			continue
		}
		switch b.Instrs[n-1].(type) {
		case *ssa.Panic:
			for _, g := range guardsAtBlock(b) {
				if tagCmp(g.Cond, f.Params[0], f.Params[1]) != 0 {
					okPanic = true
				}
			}
		case *ssa.Return:
			// the return must be reached only when gtype == k
			has := false
			for _, g := range guardsAtBlock(b) {
				s := tagCmp(g.Cond, f.Params[0], f.Params[1])
				if (s == +1 && g.Truth) || (s == -1 && !g.Truth) {
					has = true
				}
			}
			if !has {
				okReturn = false
			}
		}
	}
	return okPanic && okReturn
}

// tagAssertSummary: f (a helper introduced since the baseline) panics unless its
// parameter i — a GeometryType, or a Geometry whose gtype is meant — equals its
// parameter j: every return is reached only under that equality and some path
// panics. A dominating call then acts as a tag guard.
func tagAssertSummary(f *ssa.Function) (objIdx, kIdx int, objIsGeom, ok bool) {
	if f == nil || len(f.Blocks) == 0 || f.Signature.Results().Len() != 0 {
		return 0, 0, false, false
	}
	hasPanic := false
	for _, b := range f.Blocks {
		if n := len(b.Instrs); n > 0 {
			if _, isP := b.Instrs[n-1].(*ssa.Panic); isP {
				hasPanic = true
			}
		}
	}
	if !hasPanic {
		return 0, 0, false, false
	}
	for i, pi := range f.Params {
		for j, pj := range f.Params {
			if i == j || namedName(pj.Type()) != "GeometryType" {
				continue
			}
			isGeom := namedName(pi.Type()) == "Geometry"
			if !isGeom && namedName(pi.Type()) != "GeometryType" {
				continue
			}
			cmp := func(cond ssa.Value) int {
				if isGeom {
					return tagCmp(cond, pi, pj)
				}
				bo, ok := cond.(*ssa.BinOp)
				if !ok || (bo.Op != token.EQL && bo.Op != token.NEQ) {
					return 0
				}
				if (bo.X == ssa.Value(pi) && bo.Y == ssa.Value(pj)) || (bo.X == ssa.Value(pj) && bo.Y == ssa.Value(pi)) {
					if bo.Op == token.EQL {
						return +1
					}
					return -1
				}
				return 0
			}
			all := true
			for _, b := range f.Blocks {
				n := len(b.Instrs)
				if n == 0 {
					continue
				}
				if _, isRet := b.Instrs[n-1].(*ssa.Return); !isRet {
					continue
				}
				has := false
				for _, g := range guardsAtBlock(b) {
					s := cmp(g.Cond)
					if (s == +1 && g.Truth) || (s == -1 && !g.Truth) {
						has = true
					}
				}
				if !has {
					all = false
				}
			}
			if all {
				return i, j, isGeom, true
			}
		}
	}
	return 0, 0, false, false
}

// tagCmp: +1 if cond is `<obj>.gtype == k`, -1 if `!=`, 0 otherwise.
func tagCmp(cond ssa.Value, obj ssa.Value, k ssa.Value) int {
	bo, ok := cond.(*ssa.BinOp)
	if !ok || (bo.Op != token.EQL && bo.Op != token.NEQ) {
		return 0
	}
	match := func(a, b ssa.Value) bool {
		base, path := baseObject(a)
		return base == obj && len(path) == 1 && path[0] == "gtype" && (b == k || sameValue(b, k))
	}
	if match(bo.X, bo.Y) || match(bo.Y, bo.X) {
		if bo.Op == token.EQL {
			return +1
		}
		return -1
	}
	return 0
}

func init() {
	register(&Rule{
		ID:    "C20.tag",
		Props: []string{"C20", "C05"},
		Doc:   "tagged-pointer discipline of Geometry: every literal pairs tag K with a pointer to K's concrete type; every conversion of .ptr to *T is guarded by gtype==tag(T), and by ptr!=nil for the GeometryCollection tag (value 0 = zero Geometry); nothing stores through a converted pointer",
		Floor: 14,
		Run:   runTag,
	})
}

func runTag(c *Ctx) {
	byVal, byType := geomTags(c)
	if len(byVal) != 7 {
		c.Errorf("tag table has %d entries, expected 7", len(byVal))
		return
	}
	assertOK := checkIsTagAssert(c)
	geomT := c.P.NamedType("geom", "Geometry")
	if geomT == nil {
		c.Errorf("type Geometry not found")
		return
	}
	isGeomPtrField := func(v ssa.Value) (base ssa.Value, ok bool) {
		// v is a load of <x>.ptr where x : Geometry
		u, isU := v.(*ssa.UnOp)
		if isU && u.Op == token.MUL {
			if fa, isFA := u.X.(*ssa.FieldAddr); isFA {
				if types.Identical(deref(fa.X.Type()), geomT) && fieldName(fa.X.Type(), fa.Field) == "ptr" {
					b, _ := baseObject(fa.X)
					return b, true
				}
			}
		}
		if f, isF := v.(*ssa.Field); isF {
			if types.Identical(f.X.Type(), geomT) && fieldName(f.X.Type(), f.Field) == "ptr" {
				b, _ := baseObject(f.X)
				return b, true
			}
		}
		return nil, false
	}
	for _, f := range c.P.Funcs {
		fn := FuncName(f)
		eachInstr(f, func(in ssa.Instruction) {
			switch x := in.(type) {
			case *ssa.Convert:
				// (ii) conversions of .ptr
				base, ok := isGeomPtrField(x.X)
				if !ok {
					return
				}
				pt, isPtr := x.Type().(*types.Pointer)
				if !isPtr {
					c.Bad(x.Pos(), fn, "convert Geometry.ptr to "+typeShort(x.Type()), "conversion of Geometry.ptr to a non-pointer type")
					return
				}
				tn := namedName(pt.Elem())
				k, known := byType[tn]
				construct := "convert Geometry.ptr to *" + tn
				if !known {
					c.Bad(x.Pos(), fn, construct, "target type has no geometry tag")
					return
				}
				tagOK, nilOK := false, false
				why := ""
				for _, g := range guardsAt(x) {
					bo, isBo := g.Cond.(*ssa.BinOp)
					if !isBo {
						continue
					}
					// gtype == K
					for _, pair := range [][2]ssa.Value{{bo.X, bo.Y}, {bo.Y, bo.X}} {
						b2, path := baseObject(pair[0])
						if b2 == base && len(path) == 1 && path[0] == "gtype" {
							if kv, isC := constInt(pair[1]); isC && kv == k {
								if (bo.Op == token.EQL && g.Truth) || (bo.Op == token.NEQ && !g.Truth) {
									tagOK = true
									why = "dominating branch gtype==" + byVal[k].Obj().Name()
								}
							}
						}
						if b2 == base && len(path) == 1 && path[0] == "ptr" && isNilConst(pair[1]) {
							if (bo.Op == token.EQL && !g.Truth) || (bo.Op == token.NEQ && g.Truth) {
								nilOK = true
							}
						}
					}
				}
				if !tagOK && assertOK {
					// dominating call check(g, K)
					for _, call := range dominatingCalls(x) {
						if extName2(call) == "geom.(Geometry).check" && len(call.Common().Args) == 2 {
							b2, path := baseObject(call.Common().Args[0])
							if kv, isC := constInt(call.Common().Args[1]); isC && kv == k && b2 == base && len(path) == 0 {
								tagOK = true
								why = "dominating call check(" + byVal[k].Obj().Name() + ") which panics unless the tag matches"
							}
						}
					}
				}
				if !tagOK {
					// dominating call of a helper introduced since the baseline that panics unless the tag matches
					for _, call := range dominatingCalls(x) {
						h := staticCallee(call)
						if h == nil || !isNewHelper(h) {
							continue
						}
						oi, ki, isGeom, ok := tagAssertSummary(h)
						args := call.Common().Args
						if !ok || oi >= len(args) || ki >= len(args) {
							continue
						}
						kv, isC := constInt(args[ki])
						b2, path := baseObject(args[oi])
						if isC && kv == k && b2 == base && ((isGeom && len(path) == 0) || (!isGeom && len(path) == 1 && path[0] == "gtype")) {
							tagOK = true
							why = "dominating call " + FuncName(h) + "(…, " + byVal[k].Obj().Name() + ") which panics unless the tag matches"
						}
					}
				}
				if !tagOK {
					c.Bad(x.Pos(), fn, construct, fmt.Sprintf("no dominating guard establishes gtype == tag(%s)", tn))
					return
				}
				if k == 0 && !nilOK {
					c.Bad(x.Pos(), fn, construct, "tag value 0 is also the zero Geometry (ptr == nil): conversion needs a dominating ptr != nil guard, otherwise the zero Geometry dereferences nil")
					return
				}
				// (iii) no store through the converted pointer
				for _, r := range *x.Referrers() {
					if st, isSt := r.(*ssa.Store); isSt && st.Addr == x {
						c.Bad(st.Pos(), fn, construct+" store", "store through a pointer converted from Geometry.ptr mutates a shared geometry")
						return
					}
					if _, isFA := r.(*ssa.FieldAddr); isFA {
						c.Bad(r.Pos(), fn, construct+" fieldaddr", "address of a field taken through a pointer converted from Geometry.ptr")
						return
					}
				}
				if k == 0 {
					why += " and ptr != nil"
				}
				c.OK(x.Pos(), fn, construct, why)
			case *ssa.Store:
				// (i) literals: store of a constant into Geometry.gtype paired with a store into .ptr
				fa, isFA := x.Addr.(*ssa.FieldAddr)
				if !isFA || !types.Identical(deref(fa.X.Type()), geomT) || fieldName(fa.X.Type(), fa.Field) != "gtype" {
					return
				}
				construct := "Geometry literal"
				k, isC := constInt(x.Val)
				if !isC {
					// copying a tag from another Geometry is fine only with the same ptr; not used today
					c.Undecided(x.Pos(), fn, construct, "non-constant tag stored into Geometry.gtype")
					return
				}
				// find sibling store to .ptr on the same struct
				var ptrVal ssa.Value
				for _, r := range *fa.X.Referrers() {
					if fa2, ok := r.(*ssa.FieldAddr); ok && fieldName(fa2.X.Type(), fa2.Field) == "ptr" {
						for _, rr := range *fa2.Referrers() {
							if st, ok := rr.(*ssa.Store); ok && st.Addr == fa2 {
								ptrVal = st.Val
							}
						}
					}
				}
				if ptrVal == nil {
					if k == 0 {
						c.OK(x.Pos(), fn, construct+" tag 0 nil ptr", "zero Geometry")
					} else {
						c.Bad(x.Pos(), fn, construct, "tag stored without a pointer")
					}
					return
				}
				cv, isConv := ptrVal.(*ssa.Convert)
				if !isConv {
					c.Undecided(x.Pos(), fn, construct, "ptr is not a direct conversion of a typed pointer")
					return
				}
				pt, isPtr := cv.X.Type().(*types.Pointer)
				want := byVal[k]
				if !isPtr || want == nil || !types.Identical(pt.Elem(), want) {
					c.Bad(x.Pos(), fn, construct, fmt.Sprintf("tag %d paired with pointer of type %s", k, typeShort(cv.X.Type())))
					return
				}
				c.OK(x.Pos(), fn, construct+" "+want.Obj().Name(), "tag constant matches the pointee type by the Type() table")
			}
		})
	}
}

// dominatingCalls returns the call instructions that execute before `in` on
// every path: earlier in the same block or anywhere in a dominating block.
func dominatingCalls(in ssa.Instruction) []ssa.CallInstruction {
	var out []ssa.CallInstruction
	b := in.Block()
	for _, i := range b.Instrs {
		if i == in {
			break
		}
		if c, ok := i.(ssa.CallInstruction); ok {
			if _, isDefer := i.(*ssa.Defer); !isDefer {
				if _, isGo := i.(*ssa.Go); !isGo {
					out = append(out, c)
				}
			}
		}
	}
	for d := b.Idom(); d != nil; d = d.Idom() {
		for _, i := range d.Instrs {
			if c, ok := i.(ssa.CallInstruction); ok {
				if _, isDefer := i.(*ssa.Defer); !isDefer {
					if _, isGo := i.(*ssa.Go); !isGo {
						out = append(out, c)
					}
				}
			}
		}
	}
	return out
}

func extName2(c ssa.CallInstruction) string {
	if f := staticCallee(c); f != nil {
		return extName(f)
	}
	return ""
}
