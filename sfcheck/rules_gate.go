package main

import (
	"fmt"
	"go/token"
	"go/types"
	"strings"

	"golang.org/x/tools/go/ssa"
)

func init() {
	register(&Rule{
		ID:    "C03.gate",
		Props: []string{"C03", "C08", "C17", "C04", "C05", "C06", "C07"},
		Doc:   "validation gates: in every function with a ...NoValidate parameter, (1) the value whose Validate() is called is the value that is returned, (2) every success return of that value is unreachable from its definition once the 'caller passed NoValidate' edges and the 'Validate returned nil' edges are removed (must-pass-through), (3) the Validate error is returned; gate functions without their own Validate call forward their nv to every gate they call; every other caller of a gate (Scan, UnmarshalJSON, Feature decoding, …) passes no NoValidate",
		Floor: 13,
		Run:   runC03Gate,
	})
}

func isNoValidateSlice(t types.Type) bool {
	s, ok := t.Underlying().(*types.Slice)
	if !ok {
		return false
	}
	return namedName(s.Elem()) == "NoValidate"
}

// nvParam returns f's ...NoValidate parameter.
func nvParam(f *ssa.Function) *ssa.Parameter {
	if len(f.Params) > 0 && !f.Signature.Variadic() && isNewHelper(f) {
		// a helper introduced since the baseline that is handed its caller's NoValidate list as a plain slice
		for _, p := range f.Params {
			if isNoValidateSlice(p.Type()) {
				return p
			}
		}
	}
	if !f.Signature.Variadic() || len(f.Params) == 0 {
		return nil
	}
	p := f.Params[len(f.Params)-1]
	if isNoValidateSlice(p.Type()) {
		return p
	}
	return nil
}

// derivesFrom: v is x or is obtained from x by method calls on it
// (ForceCoordinatesType, AsGeometry, …), conversions, extracts and loads.
func derivesFrom(v, x ssa.Value, depth int) bool {
	if depth > 8 || v == nil {
		return false
	}
	if v == x || sameValue(v, x) {
		return true
	}
	switch y := v.(type) {
	case *ssa.Call:
		if len(y.Call.Args) > 0 && y.Call.StaticCallee() != nil && y.Call.StaticCallee().Signature.Recv() != nil {
			return derivesFrom(y.Call.Args[0], x, depth+1)
		}
	case *ssa.UnOp:
		if y.Op == token.MUL {
			if a, ok := y.X.(*ssa.Alloc); ok {
				if st := uniqueStore(a); st != nil {
					return derivesFrom(st, x, depth+1)
				}
			}
			// x may itself be a load of the same cell
			if ux, ok := x.(*ssa.UnOp); ok && ux.Op == token.MUL && ux.X == y.X {
				return true
			}
		}
	case *ssa.Extract:
		return derivesFrom(y.Tuple, x, depth+1)
	case *ssa.ChangeType:
		return derivesFrom(y.X, x, depth+1)
	case *ssa.MakeInterface:
		return derivesFrom(y.X, x, depth+1)
	case *ssa.Phi:
		for _, e := range y.Edges {
			if derivesFrom(e, x, depth+1) {
				return true
			}
		}
	}
	return false
}

func isValidateCall(c ssa.CallInstruction) bool {
	cal := staticCallee(c)
	return cal != nil && cal.Name() == "Validate" && cal.Signature.Recv() != nil && pkgOf(cal) == "geom" && cal.Signature.Results().Len() == 1
}

func runC03Gate(c *Ctx) {
	var gates []*ssa.Function
	isGate := map[*ssa.Function]bool{}
	for _, f := range c.P.Funcs {
		if pkgOf(f) == "geom" && f.Parent() == nil && nvParam(f) != nil {
			gates = append(gates, f)
			isGate[f] = true
		}
	}
	if len(gates) < 8 {
		c.Errorf("found %d functions with a ...NoValidate parameter, expected >= 8", len(gates))
	}
	withValidate := 0
	for _, f := range gates {
		fn := FuncName(f)
		nv := nvParam(f)
		var vcalls []ssa.CallInstruction
		eachCall(f, func(call ssa.CallInstruction) {
			if isValidateCall(call) {
				vcalls = append(vcalls, call)
			}
		})
		// edge filter: removes "nv supplied" edges and "validate ok" edges
		nvSupplied := func(cond ssa.Value, takenTrue bool) bool {
			bo, ok := cond.(*ssa.BinOp)
			if !ok {
				return false
			}
			lx, isLen := lenOf(bo.X)
			k, isC := constInt(bo.Y)
			if !isLen || !isC || k != 0 || lx != ssa.Value(nv) {
				return false
			}
			switch bo.Op {
			case token.EQL:
				return !takenTrue
			case token.NEQ, token.GTR:
				return takenTrue
			}
			return false
		}
		{
			// must forward nv to every gate it calls (and call at least one if it does not validate itself)
			forwards := 0
			eachCall(f, func(call ssa.CallInstruction) {
				cal := staticCallee(call)
				if cal == nil || !isGate[cal] {
					return
				}
				args := call.Common().Args
				last := args[len(args)-1]
				construct := "forward nv to " + FuncName(cal)
				if last == ssa.Value(nv) {
					forwards++
					c.OK(call.Pos(), fn, construct, "passes its own nv... unchanged")
				} else {
					c.Bad(call.Pos(), fn, construct, "calls a validating operation without forwarding the caller's NoValidate choice")
				}
			})
			if forwards == 0 && len(vcalls) == 0 {
				c.Bad(f.Pos(), fn, "validation", "function accepts ...NoValidate but neither validates its result nor delegates to a validating function")
			}
			if len(vcalls) == 0 {
				continue
			}
		}
		withValidate++
		for _, vc := range vcalls {
			x := vc.Common().Args[0]
			xs, _ := accessPath(x)
			construct := "Validate() on " + trunc(xs)
			verr := vc.Value()
			validateOK := func(cond ssa.Value, takenTrue bool) bool {
				bo, ok := cond.(*ssa.BinOp)
				if !ok || verr == nil {
					return false
				}
				if !((bo.X == verr && isNilConst(bo.Y)) || (bo.Y == verr && isNilConst(bo.X))) {
					return false
				}
				return (bo.Op == token.NEQ && !takenTrue) || (bo.Op == token.EQL && takenTrue)
			}
			// (3) error returned on failure
			errReturned := false
			if verr != nil {
				_, rets := exploreAfter(vc, verr, true, func(ssa.CallInstruction) bool { return false })
				for _, r := range rets {
					er := r.Results[len(r.Results)-1]
					if er == verr {
						errReturned = true
					}
					// wrapped: call taking verr as argument
					if call, ok := er.(*ssa.Call); ok {
						for _, a := range call.Call.Args {
							if a == verr {
								errReturned = true
							}
						}
					}
					if mi, ok := er.(*ssa.MakeInterface); ok {
						if call, ok := mi.X.(*ssa.Call); ok {
							for _, a := range call.Call.Args {
								if a == verr {
									errReturned = true
								}
							}
						}
					}
				}
			}
			if !errReturned {
				c.Bad(vc.Pos(), fn, construct, "the error returned by Validate() is not returned to the caller (dropped or replaced by nil)")
				continue
			}
			// (1) + (2)
			var derived []*ssa.Return
			for _, r := range returnsOf(f) {
				if len(r.Results) >= 2 && derivesFrom(r.Results[0], x, 0) {
					derived = append(derived, r)
				}
			}
			if len(derived) == 0 {
				c.Bad(vc.Pos(), fn, construct, "the validated value is not the value that is returned: the geometry handed to the caller is never validated")
				continue
			}
			// reachability from entry with the sanctioned edges removed
			bad := false
			reached := reachableReturns(f, func(cond ssa.Value, takenTrue bool) bool {
				return !(nvSupplied(cond, takenTrue) || validateOK(cond, takenTrue))
			})
			for _, r := range derived {
				if reached[r] && !provablyNonNilErr(r) {
					bad = true
					c.Bad(r.Pos(), fn, construct, fmt.Sprintf("the success return at %s is reachable without the caller having passed NoValidate and without Validate() having returned nil: an unvalidated geometry escapes", c.P.Pos(r.Pos())))
					break
				}
			}
			if !bad {
				c.OK(vc.Pos(), fn, construct, fmt.Sprintf("validated value is the returned one; all %d success return(s) of it pass through Validate()==nil unless NoValidate was given; error returned", len(derived)))
			}
		}
	}
	if withValidate < 6 {
		c.Errorf("only %d gate functions call Validate(), expected >= 6 (4 decoders, Polygon.Simplify, MultiPolygon.Simplify)", withValidate)
	}
	// adapters: every non-gate caller of a gate passes no NoValidate
	adapters := 0
	for _, f := range c.P.Funcs {
		if pkgOf(f) != "geom" {
			continue
		}
		root := f
		for root.Parent() != nil {
			root = root.Parent()
		}
		if isGate[root] {
			continue
		}
		fn := FuncName(f)
		eachCall(f, func(call ssa.CallInstruction) {
			cal := staticCallee(call)
			if cal == nil || !isGate[cal] {
				return
			}
			adapters++
			args := call.Common().Args
			last := args[len(args)-1]
			construct := "call " + strings.TrimPrefix(FuncName(cal), "geom.") + " from a non-gate function"
			if isNilConst(last) {
				c.OK(call.Pos(), fn, construct, "passes no NoValidate: the decoder validates")
			} else {
				c.Bad(call.Pos(), fn, construct, "passes NoValidate{} to a validating decoder/operation although its own caller cannot ask for that: an invalid geometry can be returned from an API that promises validated results")
			}
		})
	}
	if adapters < 3 {
		c.Errorf("only %d adapter call sites of gate functions found, expected >= 12", adapters)
	}
}

var nonNilErrVisiting = map[*ssa.Return]bool{}

func provablyNonNilErr(r *ssa.Return) bool {
	if nonNilErrVisiting[r] {
		return false // recursion: assume nothing
	}
	nonNilErrVisiting[r] = true
	defer delete(nonNilErrVisiting, r)
	er := r.Results[len(r.Results)-1]
	if isNilConst(er) {
		return false
	}
	switch x := er.(type) {
	case *ssa.MakeInterface:
		return true
	case *ssa.Call:
		// error constructors
		switch calleeName(x) {
		case "fmt.Errorf", "errors.New":
			return true
		}
		if cal := staticCallee(x); cal != nil && cal.Blocks != nil && cal != r.Parent() {
			all := true
			rs := returnsOf(cal)
			for _, r2 := range rs {
				if len(r2.Results) != 1 || !provablyNonNilErr(r2) {
					all = false
				}
			}
			if all && len(rs) > 0 {
				return true
			}
		}
	}
	// wrapping idiom: wrap(err, ...) / fmt.Errorf("%w", err) with err known non-nil
	cands := []ssa.Value{er}
	if call, ok := er.(*ssa.Call); ok {
		for _, a := range call.Call.Args {
			if isErrorType(a.Type()) {
				cands = append(cands, a)
			}
		}
	}
	for _, g := range guardsAtBlock(r.Block()) {
		bo, ok := g.Cond.(*ssa.BinOp)
		if !ok {
			continue
		}
		for _, cand := range cands[1:] {
			if (bo.X == cand && isNilConst(bo.Y)) || (bo.Y == cand && isNilConst(bo.X)) {
				if (bo.Op == token.NEQ && g.Truth) || (bo.Op == token.EQL && !g.Truth) {
					return true
				}
			}
		}
		if (bo.X == er && isNilConst(bo.Y)) || (bo.Y == er && isNilConst(bo.X)) {
			if (bo.Op == token.NEQ && g.Truth) || (bo.Op == token.EQL && !g.Truth) {
				return true
			}
		}
	}
	return false
}

// reachableReturns: returns reachable from the entry block when If edges for
// which keep(cond, takenTrue) is false are removed.
func reachableReturns(f *ssa.Function, keep func(cond ssa.Value, takenTrue bool) bool) map[*ssa.Return]bool {
	out := map[*ssa.Return]bool{}
	seen := map[*ssa.BasicBlock]bool{}
	work := []*ssa.BasicBlock{f.Blocks[0]}
	seen[f.Blocks[0]] = true
	for len(work) > 0 {
		b := work[len(work)-1]
		work = work[:len(work)-1]
		last := b.Instrs[len(b.Instrs)-1]
		if r, ok := last.(*ssa.Return); ok {
			out[r] = true
		}
		for i, s := range b.Succs {
			if ifi, ok := last.(*ssa.If); ok && b.Succs[0] != b.Succs[1] {
				if !keep(ifi.Cond, i == 0) {
					continue
				}
			}
			if !seen[s] {
				seen[s] = true
				work = append(work, s)
			}
		}
	}
	return out
}

// reachableBlocks: blocks reachable from the entry when If edges for which
// keep(cond, takenTrue) is false are removed.
func reachableBlocks(f *ssa.Function, keep func(cond ssa.Value, takenTrue bool) bool) map[*ssa.BasicBlock]bool {
	seen := map[*ssa.BasicBlock]bool{f.Blocks[0]: true}
	work := []*ssa.BasicBlock{f.Blocks[0]}
	for len(work) > 0 {
		b := work[len(work)-1]
		work = work[:len(work)-1]
		last := b.Instrs[len(b.Instrs)-1]
		for i, s := range b.Succs {
			if ifi, ok := last.(*ssa.If); ok && b.Succs[0] != b.Succs[1] {
				if !keep(ifi.Cond, i == 0) {
					continue
				}
			}
			if !seen[s] {
				seen[s] = true
				work = append(work, s)
			}
		}
	}
	return seen
}
