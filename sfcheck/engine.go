package main

import (
	"crypto/sha1"
	"encoding/json"
	"fmt"
	"go/token"
	"os"
	"path/filepath"
	"sort"
	"strings"
	"time"
)

type Status string

const (
	Discharged Status = "discharged"
	Violated   Status = "violated"
	Excepted   Status = "excepted"
	Undecided  Status = "undecided"
)

// Obligation is one instance of a rule.
type Obligation struct {
	Rule     string `json:"rule"`
	Key      string `json:"key"` // rule | function | construct (no positions)
	Pos      string `json:"pos"`
	Status   Status `json:"status"`
	Fact     string `json:"fact"`              // discharging fact, or what is wrong
	Trivial  bool   `json:"trivial,omitempty"` // discharged without any non-trivial fact
	Config   string `json:"config,omitempty"`
	posSort  [3]int
	fileSort string
}

// Rule is a rule template; Run enumerates its instances on a Program.
type Rule struct {
	ID    string   // e.g. "C08.alloc"
	Props []string // properties it serves (first is the owner)
	Doc   string
	Floor int // minimum number of instances confirmed by hand on today's tree
	Run   func(c *Ctx)
}

// Ctx is handed to a rule.
type Ctx struct {
	P    *Program
	Rule *Rule
	Tier string
	obs  []*Obligation
	errs []string
}

func (c *Ctx) add(pos token.Pos, st Status, fn, construct, fact string, trivial bool) {
	key := c.Rule.ID + " | " + fn + " | " + construct
	o := &Obligation{Rule: c.Rule.ID, Key: key, Pos: c.P.Pos(pos), Status: st, Fact: fact, Trivial: trivial, Config: c.P.Config.String()}
	if pos.IsValid() {
		ps := c.P.Fset.Position(pos)
		o.fileSort = ps.Filename
		o.posSort = [3]int{ps.Line, ps.Column, 0}
	}
	c.obs = append(c.obs, o)
}

// OK records a discharged obligation with the discharging fact.
func (c *Ctx) OK(pos token.Pos, fn, construct, fact string) {
	c.add(pos, Discharged, fn, construct, fact, false)
}

// Triv records an obligation discharged without a non-trivial fact.
func (c *Ctx) Triv(pos token.Pos, fn, construct, fact string) {
	c.add(pos, Discharged, fn, construct, fact, true)
}

// Bad records a violation.
func (c *Ctx) Bad(pos token.Pos, fn, construct, what string) {
	c.add(pos, Violated, fn, construct, what, false)
}

// Except records an obligation matched by a reviewed exception.
func (c *Ctx) Except(pos token.Pos, fn, construct, reason string) {
	c.add(pos, Excepted, fn, construct, "reviewed exception: "+reason, false)
}

// Undecided records an instance the rule does not recognise.
func (c *Ctx) Undecided(pos token.Pos, fn, construct, why string) {
	c.add(pos, Undecided, fn, construct, why, false)
}

// Check is sugar: OK if cond, else Bad.
func (c *Ctx) Check(cond bool, pos token.Pos, fn, construct, okFact, badFact string) {
	if cond {
		c.OK(pos, fn, construct, okFact)
	} else {
		c.Bad(pos, fn, construct, badFact)
	}
}

// Errorf records an analysis error (anchor not resolved, etc.). Any error
// makes the check fail with exit 2.
func (c *Ctx) Errorf(format string, a ...interface{}) {
	c.errs = append(c.errs, c.Rule.ID+": "+fmt.Sprintf(format, a...))
}

// ---- known findings ----

type Finding struct {
	Property string `json:"property"`
	Key      string `json:"key"`
	Status   string `json:"status"` // known | fixed
	Commit   string `json:"commit,omitempty"`
	What     string `json:"what"`
}

func loadFindings(path string) ([]Finding, error) {
	b, err := os.ReadFile(path)
	if err != nil {
		if os.IsNotExist(err) {
			return nil, nil
		}
		return nil, err
	}
	var fs []Finding
	if err := json.Unmarshal(b, &fs); err != nil {
		return nil, fmt.Errorf("%s: %w", path, err)
	}
	return fs, nil
}

// ---- running ----

type RunResult struct {
	Prop       string
	Tier       string
	Obs        []*Obligation
	Errs       []string
	Rules      []*Rule
	Counts     map[string]int // per rule instance count
	Configs    []string
	Funcs      int
	Packages   int
	Fixtures   []string
	MutantsRun []string
	Wall       float64
}

func sortObs(obs []*Obligation) {
	sort.SliceStable(obs, func(i, j int) bool {
		a, b := obs[i], obs[j]
		if a.fileSort != b.fileSort {
			return a.fileSort < b.fileSort
		}
		if a.posSort != b.posSort {
			for k := 0; k < 3; k++ {
				if a.posSort[k] != b.posSort[k] {
					return a.posSort[k] < b.posSort[k]
				}
			}
		}
		if a.Key != b.Key {
			return a.Key < b.Key
		}
		return a.Config < b.Config
	})
}

// runRules evaluates rules on p; panics in a rule become errors.
func runRules(p *Program, rules []*Rule, tier string) (obs []*Obligation, errs []string, counts map[string]int) {
	counts = map[string]int{}
	for _, r := range rules {
		c := &Ctx{P: p, Rule: r, Tier: tier}
		func() {
			defer func() {
				if e := recover(); e != nil {
					c.errs = append(c.errs, fmt.Sprintf("%s: analysis panic: %v", r.ID, e))
					if os.Getenv("SFCHECK_DEBUG") != "" {
						panic(e)
					}
				}
			}()
			r.Run(c)
		}()
		counts[r.ID] = len(c.obs)
		if len(c.obs) < r.Floor {
			c.errs = append(c.errs, fmt.Sprintf("%s: found %d instances on %s, below the confirmed floor %d (rule would pass vacuously)", r.ID, len(c.obs), p.Config, r.Floor))
		}
		// duplicate keys get a numeric suffix in order of position so keys stay unique
		obs = append(obs, c.obs...)
		errs = append(errs, c.errs...)
	}
	sortObs(obs)
	seen := map[string]int{}
	for _, o := range obs {
		seen[o.Key]++
		if n := seen[o.Key]; n > 1 {
			o.Key = fmt.Sprintf("%s #%d", o.Key, n)
		}
	}
	return
}

func writeJSON(path string, v interface{}) error {
	b, err := json.MarshalIndent(v, "", " ")
	if err != nil {
		return err
	}
	if err := os.MkdirAll(filepath.Dir(path), 0o755); err != nil {
		return err
	}
	return os.WriteFile(path, append(b, '\n'), 0o644)
}

func hashKey(s string) string {
	h := sha1.Sum([]byte(s))
	return fmt.Sprintf("%x", h[:6])
}

// report prints the result, writes replay + evidence files and returns the
// exit code.
func report(res *RunResult, verifDir string, seed int64, findings []Finding) int {
	prop := res.Prop
	known := map[string]Finding{}
	for _, f := range findings {
		if f.Property == prop && f.Status == "known" {
			known[f.Key] = f
		}
	}
	var viol, und, exc, dis, knownHit, nontriv int
	distinct := map[string]bool{}
	exit := 0
	replayDir := filepath.Join(verifDir, "evidence", "replay")
	printedKnown := map[string]bool{}
	for _, o := range res.Obs {
		switch o.Status {
		case Discharged:
			dis++
			if !o.Trivial && !distinct[o.Key] {
				distinct[o.Key] = true
				nontriv++
			}
		case Excepted:
			exc++
		case Violated, Undecided:
			if kf, ok := known[baseKey(o.Key)]; ok && o.Status == Violated {
				knownHit++
				if !printedKnown[o.Key] {
					printedKnown[o.Key] = true
					fmt.Printf("KNOWN-FINDING: property=%s %s [%s at %s]\n", prop, kf.What, o.Key, o.Pos)
				}
				continue
			}
			if o.Status == Violated {
				viol++
			} else {
				und++
			}
			rp := filepath.Join(replayDir, fmt.Sprintf("%s-%s.json", prop, hashKey(o.Key+o.Config)))
			_ = writeJSON(rp, map[string]interface{}{"property": prop, "obligation": o, "tier": res.Tier})
			fmt.Printf("%s: [%s] %s: %s (%s; key=%q; config=%s)\n", o.Pos, o.Rule, o.Status, o.Fact, o.Rule, o.Key, o.Config)
			fmt.Printf("VIOLATION property=%s replay=%s\n", prop, rp)
			exit = 1
		}
	}
	for _, e := range res.Errs {
		fmt.Printf("ERROR property=%s %s\n", prop, e)
	}
	if len(res.Errs) > 0 {
		exit = 2
	}

	// evidence
	var ruleDescr []string
	for _, r := range res.Rules {
		ruleDescr = append(ruleDescr, fmt.Sprintf("%s (floor %d, found %d): %s", r.ID, r.Floor, res.Counts[r.ID], r.Doc))
	}
	var samples []interface{}
	step := 1
	if len(res.Obs) > 12 {
		step = len(res.Obs) / 12
	}
	for i := 0; i < len(res.Obs) && len(samples) < 12; i += step {
		o := res.Obs[i]
		samples = append(samples, map[string]string{"key": o.Key, "pos": o.Pos, "status": string(o.Status), "fact": o.Fact})
	}
	if len(samples) == 0 {
		samples = append(samples, "no obligations enumerated")
	}
	expl := propExplanation[prop]
	ev := map[string]interface{}{
		"property_id": prop,
		"tier":        res.Tier,
		"seed":        seed,
		"level":       "other",
		"coverage": map[string]interface{}{
			"explanation":         expl,
			"evaluations":         len(res.Obs),
			"distinct_nontrivial": nontriv,
			"rule":                "static rules, each exhaustive over every instance in the loaded program; an obligation is non-trivial when its discharge needed a fact (dominating guard, provenance, table row, summary). Rules: " + strings.Join(ruleDescr, " || "),
			"samples":             samples,
			"obligations":         len(res.Obs),
			"discharged":          dis,
			"excepted":            exc,
			"known_findings_hit":  knownHit,
			"undecided":           und,
			"packages":            res.Packages,
			"functions_analysed":  res.Funcs,
			"build_configs":       res.Configs,
			"per_rule_instances":  res.Counts,
			"fixtures_fired":      res.Fixtures,
			"mutants_checked":     res.MutantsRun,
			"exhaustive":          true,
			"checker_cmd":         fmt.Sprintf("/verif/bin/sfcheck check -prop %s -tier %s", prop, res.Tier),
			"trusted_base":        []string{"go/types type checker", "golang.org/x/tools/go/ssa v0.29.0", "the rule specifications in /verif/sfcheck"},
		},
		"assumptions": propAssumptions[prop],
		"wall_s":      res.Wall,
		"violations":  viol + und,
	}
	evPath := filepath.Join(verifDir, "evidence", prop+".json")
	if err := writeJSON(evPath, ev); err != nil {
		fmt.Printf("ERROR property=%s cannot write evidence: %v\n", prop, err)
		exit = 2
	}
	fmt.Printf("sfcheck %s tier=%s configs=%v functions=%d obligations=%d discharged=%d excepted=%d known=%d violated=%d undecided=%d errors=%d wall=%.1fs\n",
		prop, res.Tier, res.Configs, res.Funcs, len(res.Obs), dis, exc, knownHit, viol, und, len(res.Errs), res.Wall)
	return exit
}

// baseKey strips the " #n" duplicate suffix.
func baseKey(k string) string { return k }

func since(t time.Time) float64 { return float64(time.Since(t).Milliseconds()) / 1000 }
