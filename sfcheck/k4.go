package main

import (
	"fmt"
	"go/constant"
	"go/token"
	"go/types"
	"math"
	"sort"
	"strings"

	"golang.org/x/tools/go/ssa"
)

// K4: comparison of small predicates with their specification by exhaustive
// enumeration of finite models. The function's SSA is *interpreted
// symbolically over a model*: a model assigns a number to every numeric term
// (field path of a parameter, e.g. $0.min.X) and a truth value to every opaque
// Boolean atom (e.g. IsEmpty($0)); arithmetic comparisons, Boolean operators,
// phis, branches and calls to small repository helpers (inlined) are evaluated
// exactly. This is a decision procedure on the extracted formula, not an
// execution of the program on inputs.

var paramAsIndex bool

// pathKey renders a value with parameters named $0, $1, … (so specifications
// do not depend on parameter names).
func pathKey(v ssa.Value) (string, bool) {
	paramAsIndex = true
	defer func() { paramAsIndex = false }()
	return pathD(v, 0)
}

type k4val struct {
	kind int // 0 undefined, 1 bool, 2 num, 3 opaque (ssa value identity), 4 string
	b    bool
	f    float64
	s    string
	v    ssa.Value
	tup  []k4val
}

func (v k4val) String() string {
	switch v.kind {
	case 1:
		return fmt.Sprint(v.b)
	case 2:
		return fmt.Sprint(v.f)
	case 3:
		if v.s != "" {
			return v.s
		}
		s, _ := pathKey(v.v)
		return s
	case 4:
		return fmt.Sprintf("%q", v.s)
	case 5:
		var p []string
		for _, t := range v.tup {
			p = append(p, t.String())
		}
		return "(" + strings.Join(p, ", ") + ")"
	}
	return "?"
}

// Model supplies values for terms/atoms by key.
type Model struct {
	Num  map[string]float64
	Bool map[string]bool
	// Unknown keys that were requested (so the rule can report "undecided").
	Missing map[string]bool
}

type k4interp struct {
	p      *Program
	m      *Model
	depth  int
	steps  int
	inline func(f *ssa.Function) bool
}

type k4frame struct {
	fn     *ssa.Function
	args   []k4val
	prev   *ssa.BasicBlock
	cur    *ssa.BasicBlock
	vals   map[ssa.Value]k4val
	cells  map[ssa.Value]k4val // local alloc contents (whole-value stores)
	fields map[string]k4val    // alloc field stores: key = alloc name + "." + path
}

var errK4Undecided = fmt.Errorf("undecided")

// call interprets f with the given arguments; returns its results.
func (it *k4interp) call(f *ssa.Function, args []k4val) ([]k4val, error) {
	if it.depth > 6 {
		return nil, fmt.Errorf("inlining too deep at %s", FuncName(f))
	}
	it.depth++
	defer func() { it.depth-- }()
	fr := &k4frame{fn: f, args: args, vals: map[ssa.Value]k4val{}, cells: map[ssa.Value]k4val{}, fields: map[string]k4val{}}
	fr.cur = f.Blocks[0]
	for {
		it.steps++
		if it.steps > 20000 {
			return nil, fmt.Errorf("step bound exceeded (loop?) in %s", FuncName(f))
		}
		b := fr.cur
		// phis first, all evaluated against prev
		for _, in := range b.Instrs {
			phi, ok := in.(*ssa.Phi)
			if !ok {
				break
			}
			idx := -1
			for i, p := range b.Preds {
				if p == fr.prev {
					idx = i
				}
			}
			if idx < 0 {
				return nil, fmt.Errorf("phi without predecessor")
			}
			v, err := it.eval(fr, phi.Edges[idx])
			if err != nil {
				return nil, err
			}
			fr.vals[phi] = v
		}
		for _, in := range b.Instrs {
			switch x := in.(type) {
			case *ssa.Phi, *ssa.DebugRef:
				continue
			case *ssa.Store:
				v, err := it.eval(fr, x.Val)
				if err != nil {
					return nil, err
				}
				switch a := x.Addr.(type) {
				case *ssa.Alloc:
					fr.cells[a] = v
				case *ssa.FieldAddr, *ssa.IndexAddr:
					if k, ok := it.localKey(a); ok {
						fr.fields[k] = v
					} else {
						return nil, fmt.Errorf("store to non-local memory in %s", FuncName(f))
					}
				default:
					return nil, fmt.Errorf("store to non-local memory in %s", FuncName(f))
				}
			case *ssa.If:
				c, err := it.eval(fr, x.Cond)
				if err != nil {
					return nil, err
				}
				if c.kind != 1 {
					return nil, fmt.Errorf("non-boolean branch condition")
				}
				fr.prev = b
				if c.b {
					fr.cur = b.Succs[0]
				} else {
					fr.cur = b.Succs[1]
				}
			case *ssa.Jump:
				fr.prev = b
				fr.cur = b.Succs[0]
			case *ssa.Return:
				var out []k4val
				for _, r := range x.Results {
					v, err := it.eval(fr, r)
					if err != nil {
						// non-evaluable results are returned opaque
						v = k4val{kind: 3, v: r}
					}
					out = append(out, v)
				}
				return out, nil
			case *ssa.Panic:
				return []k4val{{kind: 4, s: "panic"}}, nil
			case ssa.Value:
				// evaluated lazily
			default:
				// other effects (calls are values) ignored
			}
		}
		if fr.cur == b {
			return nil, fmt.Errorf("block without terminator")
		}
	}
}

// localKey: address rooted in a local Alloc -> stable key.
func (it *k4interp) localKey(addr ssa.Value) (string, bool) {
	var parts []string
	for i := 0; i < 10; i++ {
		switch a := addr.(type) {
		case *ssa.Alloc:
			return fmt.Sprintf("%p", a) + strings.Join(parts, ""), true
		case *ssa.FieldAddr:
			parts = append([]string{"." + fieldName(a.X.Type(), a.Field)}, parts...)
			addr = a.X
		case *ssa.IndexAddr:
			k, ok := constInt(a.Index)
			if !ok {
				return "", false
			}
			parts = append([]string{fmt.Sprintf("[%d]", k)}, parts...)
			addr = a.X
		default:
			return "", false
		}
	}
	return "", false
}

func (it *k4interp) atomBool(fr *k4frame, v ssa.Value) (k4val, error) {
	k, ok := it.keyOf(fr, v)
	if !ok {
		return k4val{}, fmt.Errorf("no key for boolean atom %s", v.Name())
	}
	if b, ok := it.m.Bool[k]; ok {
		return k4val{kind: 1, b: b}, nil
	}
	it.m.Missing["bool "+k] = true
	return k4val{}, errK4Undecided
}

func (it *k4interp) atomNum(fr *k4frame, v ssa.Value) (k4val, error) {
	k, ok := it.keyOf(fr, v)
	if !ok {
		return k4val{}, fmt.Errorf("no key for numeric term %s", v.Name())
	}
	if f, ok := it.m.Num[k]; ok {
		return k4val{kind: 2, f: f}, nil
	}
	it.m.Missing["num "+k] = true
	return k4val{}, errK4Undecided
}

// keyOf renders v in terms of the *outermost* call's parameters: values of
// inlined frames are substituted by their argument expressions.
func (it *k4interp) keyOf(fr *k4frame, v ssa.Value) (string, bool) {
	var rec func(v ssa.Value, d int) (string, bool)
	rec = func(v ssa.Value, d int) (string, bool) {
		if d > 12 {
			return "", false
		}
		switch x := v.(type) {
		case *ssa.Parameter:
			for i, p := range fr.fn.Params {
				if p == x {
					a := fr.args[i]
					switch a.kind {
					case 3:
						return a.s, true
					case 2:
						return fmt.Sprint(a.f), true
					case 1:
						return fmt.Sprint(a.b), true
					}
					return "", false
				}
			}
			return "", false
		case *ssa.Alloc:
			if c, ok := fr.cells[x]; ok && c.kind == 3 {
				return c.s, true
			}
			return "", false
		case *ssa.FieldAddr:
			s, ok := rec(x.X, d+1)
			return s + "." + fieldName(x.X.Type(), x.Field), ok
		case *ssa.Field:
			s, ok := rec(x.X, d+1)
			return s + "." + fieldName(x.X.Type(), x.Field), ok
		case *ssa.IndexAddr:
			s, ok := rec(x.X, d+1)
			if k, isC := constInt(x.Index); isC {
				return fmt.Sprintf("%s[%d]", s, k), ok
			}
			return "", false
		case *ssa.Index:
			s, ok := rec(x.X, d+1)
			if k, isC := constInt(x.Index); isC {
				return fmt.Sprintf("%s[%d]", s, k), ok
			}
			return "", false
		case *ssa.UnOp:
			if x.Op == token.MUL {
				return rec(x.X, d+1)
			}
		case *ssa.Call:
			name := calleeName(x)
			var parts []string
			for _, a := range x.Call.Args {
				s, ok := rec(a, d+1)
				if !ok {
					// constant argument
					if c, isC := a.(*ssa.Const); isC && c.Value != nil {
						s, ok = c.Value.ExactString(), true
					}
				}
				if !ok {
					return "", false
				}
				parts = append(parts, s)
			}
			return name + "(" + strings.Join(parts, ",") + ")", true
		case *ssa.Extract:
			s, ok := rec(x.Tuple, d+1)
			return fmt.Sprintf("%s#%d", s, x.Index), ok
		case *ssa.Const:
			if x.Value != nil {
				return x.Value.ExactString(), true
			}
			switch x.Type().Underlying().(type) {
			case *types.Struct, *types.Array:
				return "zero", true
			}
			return "nil", true
		case *ssa.ChangeType:
			return rec(x.X, d+1)
		case *ssa.Convert:
			return rec(x.X, d+1)
		case *ssa.FreeVar:
			return "fv:" + x.Name(), true
		case *ssa.BinOp:
			a, ok := rec(x.X, d+1)
			b, ok2 := rec(x.Y, d+1)
			return "(" + a + x.Op.String() + b + ")", ok && ok2
		case *ssa.Function:
			return extName(x), true
		case *ssa.MakeClosure:
			return extName(x.Fn.(*ssa.Function)), true
		}
		return "", false
	}
	return rec(v, 0)
}

func (it *k4interp) eval(fr *k4frame, v ssa.Value) (k4val, error) {
	if r, ok := fr.vals[v]; ok {
		return r, nil
	}
	r, err := it.eval1(fr, v)
	if err == nil {
		fr.vals[v] = r
	}
	return r, err
}

func constVal(c *ssa.Const) (k4val, bool) {
	if c.Value == nil {
		switch c.Type().Underlying().(type) {
		case *types.Struct, *types.Array:
			return k4val{kind: 3, v: c, s: "zero"}, true
		}
		return k4val{kind: 3, v: c, s: "nil"}, true
	}
	switch c.Value.Kind() {
	case constant.Bool:
		return k4val{kind: 1, b: constant.BoolVal(c.Value)}, true
	case constant.Int, constant.Float:
		f, _ := constant.Float64Val(c.Value)
		return k4val{kind: 2, f: f}, true
	case constant.String:
		return k4val{kind: 4, s: constant.StringVal(c.Value)}, true
	}
	return k4val{}, false
}

func (it *k4interp) eval1(fr *k4frame, v ssa.Value) (k4val, error) {
	switch x := v.(type) {
	case *ssa.Const:
		if r, ok := constVal(x); ok {
			return r, nil
		}
		return k4val{kind: 3, v: x, s: "zero"}, nil
	case *ssa.Parameter:
		for i, p := range fr.fn.Params {
			if p == x {
				return fr.args[i], nil
			}
		}
	case *ssa.UnOp:
		switch x.Op {
		case token.NOT:
			a, err := it.eval(fr, x.X)
			if err != nil {
				return a, err
			}
			return k4val{kind: 1, b: !a.b}, nil
		case token.SUB:
			a, err := it.eval(fr, x.X)
			if err != nil {
				return a, err
			}
			return k4val{kind: 2, f: -a.f}, nil
		case token.MUL:
			// load
			if a, ok := x.X.(*ssa.Alloc); ok {
				if c, ok := fr.cells[a]; ok {
					return c, nil
				}
			}
			if k, ok := it.localKey(x.X); ok {
				if c, ok := fr.fields[k]; ok {
					return c, nil
				}
			}
			return it.termOf(fr, x)
		}
	case *ssa.Field, *ssa.Index:
		// field of a struct value: maybe of a tuple-valued inlined call result
		return it.termOf(fr, v)
	case *ssa.BinOp:
		a, err := it.eval(fr, x.X)
		if err != nil {
			return a, err
		}
		b, err := it.eval(fr, x.Y)
		if err != nil {
			return b, err
		}
		if a.kind == 1 && b.kind == 1 {
			switch x.Op {
			case token.EQL:
				return k4val{kind: 1, b: a.b == b.b}, nil
			case token.NEQ:
				return k4val{kind: 1, b: a.b != b.b}, nil
			case token.AND, token.LAND:
				return k4val{kind: 1, b: a.b && b.b}, nil
			case token.OR, token.LOR:
				return k4val{kind: 1, b: a.b || b.b}, nil
			}
		}
		if a.kind == 2 && b.kind == 2 {
			switch x.Op {
			case token.EQL:
				return k4val{kind: 1, b: a.f == b.f}, nil
			case token.NEQ:
				return k4val{kind: 1, b: a.f != b.f}, nil
			case token.LSS:
				return k4val{kind: 1, b: a.f < b.f}, nil
			case token.LEQ:
				return k4val{kind: 1, b: a.f <= b.f}, nil
			case token.GTR:
				return k4val{kind: 1, b: a.f > b.f}, nil
			case token.GEQ:
				return k4val{kind: 1, b: a.f >= b.f}, nil
			case token.ADD:
				return k4val{kind: 2, f: a.f + b.f}, nil
			case token.SUB:
				return k4val{kind: 2, f: a.f - b.f}, nil
			case token.MUL:
				return k4val{kind: 2, f: a.f * b.f}, nil
			case token.QUO:
				if b.f == 0 {
					return k4val{kind: 2, f: math.NaN()}, nil
				}
				return k4val{kind: 2, f: a.f / b.f}, nil
			case token.REM:
				if b.f == 0 {
					return k4val{}, fmt.Errorf("mod by zero")
				}
				return k4val{kind: 2, f: float64(int64(a.f) % int64(b.f))}, nil
			case token.AND:
				return k4val{kind: 2, f: float64(int64(a.f) & int64(b.f))}, nil
			case token.OR:
				return k4val{kind: 2, f: float64(int64(a.f) | int64(b.f))}, nil
			}
		}
		if a.kind == 4 && b.kind == 4 {
			switch x.Op {
			case token.EQL:
				return k4val{kind: 1, b: a.s == b.s}, nil
			case token.NEQ:
				return k4val{kind: 1, b: a.s != b.s}, nil
			}
		}
		// equality of structs of numbers: field-wise over the model
		if a.kind == 3 && b.kind == 3 && (x.Op == token.EQL || x.Op == token.NEQ) {
			if st, ok := x.X.Type().Underlying().(*types.Struct); ok {
				eq, all := true, true
				for i := 0; i < st.NumFields(); i++ {
					if !isNumeric(st.Field(i).Type()) {
						all = false
						break
					}
					fa, okA := it.m.Num[a.s+"."+st.Field(i).Name()]
					fb, okB := it.m.Num[b.s+"."+st.Field(i).Name()]
					if !okA {
						it.m.Missing["num "+a.s+"."+st.Field(i).Name()] = true
					}
					if !okB {
						it.m.Missing["num "+b.s+"."+st.Field(i).Name()] = true
					}
					if !okA || !okB {
						return k4val{}, errK4Undecided
					}
					if fa != fb {
						eq = false
					}
				}
				if all {
					return k4val{kind: 1, b: eq == (x.Op == token.EQL)}, nil
				}
			}
		}
		// struct/opaque equality: an atom
		if isBoolT(x.Type()) {
			return it.atomBool(fr, x)
		}
		return k4val{}, fmt.Errorf("cannot evaluate %s", x.Op)
	case *ssa.Phi:
		return k4val{}, fmt.Errorf("phi evaluated out of order")
	case *ssa.Convert:
		return it.eval(fr, x.X)
	case *ssa.ChangeType:
		return it.eval(fr, x.X)
	case *ssa.Extract:
		t, err := it.eval(fr, x.Tuple)
		if err != nil {
			return t, err
		}
		if t.kind == 5 && x.Index < len(t.tup) {
			return t.tup[x.Index], nil
		}
		return it.termOf(fr, x)
	case *ssa.Call:
		cal := staticCallee(x)
		if cal != nil {
			if r, ok, err := it.nativeMath(fr, x, extName(cal)); ok {
				return r, err
			}
		}
		if cal != nil && cal.Blocks != nil && it.inline != nil && it.inline(cal) {
			var args []k4val
			for _, a := range x.Call.Args {
				av, err := it.eval(fr, a)
				if err != nil {
					// pass opaque expression
					if k, ok := it.keyOf(fr, a); ok {
						av = k4val{kind: 3, v: a, s: k}
					} else {
						return k4val{}, err
					}
				}
				args = append(args, av)
			}
			res, err := it.call(cal, args)
			if err != nil {
				return k4val{}, err
			}
			if len(res) == 1 {
				return res[0], nil
			}
			return k4val{kind: 5, tup: res}, nil
		}
		return it.termOf(fr, x)
	case *ssa.Alloc:
		if c, ok := fr.cells[x]; ok {
			return c, nil
		}
	case *ssa.MakeInterface:
		return it.eval(fr, x.X)
	}
	return it.termOf(fr, v)
}

// termOf: v is a leaf of the model: numeric term, Boolean atom, or opaque.
func (it *k4interp) termOf(fr *k4frame, v ssa.Value) (k4val, error) {
	t := v.Type()
	if isBoolT(t) {
		return it.atomBool(fr, v)
	}
	if b, ok := t.Underlying().(*types.Basic); ok && b.Info()&types.IsNumeric != 0 {
		return it.atomNum(fr, v)
	}
	if k, ok := it.keyOf(fr, v); ok {
		return k4val{kind: 3, v: v, s: k}, nil
	}
	return k4val{kind: 3, v: v, s: v.Name()}, nil
}

// k4run interprets f with opaque parameters $0..$n under the model.
func k4run(p *Program, f *ssa.Function, m *Model, inline func(*ssa.Function) bool) ([]k4val, error) {
	if m.Missing == nil {
		m.Missing = map[string]bool{}
	}
	it := &k4interp{p: p, m: m, inline: inline}
	var args []k4val
	for i, par := range f.Params {
		k := fmt.Sprintf("$%d", i)
		switch {
		case isBoolT(par.Type()):
			b, ok := m.Bool[k]
			if !ok {
				m.Missing["bool "+k] = true
				return nil, errK4Undecided
			}
			args = append(args, k4val{kind: 1, b: b})
		case isNumeric(par.Type()):
			fv, ok := m.Num[k]
			if !ok {
				m.Missing["num "+k] = true
				return nil, errK4Undecided
			}
			args = append(args, k4val{kind: 2, f: fv})
		default:
			args = append(args, k4val{kind: 3, v: par, s: k})
		}
	}
	return it.call(f, args)
}

// enumerate all assignments of vals to the numeric keys and of {false,true} to
// the bool keys; stops when fn returns false.
func k4enumerate(numKeys []string, vals []float64, boolKeys []string, fn func(m *Model) bool) int {
	sort.Strings(numKeys)
	sort.Strings(boolKeys)
	n := 0
	m := &Model{Num: map[string]float64{}, Bool: map[string]bool{}, Missing: map[string]bool{}}
	var recB func(i int) bool
	recB = func(i int) bool {
		if i == len(boolKeys) {
			n++
			return fn(m)
		}
		for _, b := range []bool{false, true} {
			m.Bool[boolKeys[i]] = b
			if !recB(i + 1) {
				return false
			}
		}
		return true
	}
	var recN func(i int) bool
	recN = func(i int) bool {
		if i == len(numKeys) {
			return recB(0)
		}
		for _, v := range vals {
			m.Num[numKeys[i]] = v
			if !recN(i + 1) {
				return false
			}
		}
		return true
	}
	recN(0)
	return n
}

func missingList(m *Model) string {
	var ks []string
	for k := range m.Missing {
		ks = append(ks, k)
	}
	sort.Strings(ks)
	return strings.Join(ks, "; ")
}

// nativeMath evaluates pure math functions on numeric arguments.
func (it *k4interp) nativeMath(fr *k4frame, x *ssa.Call, name string) (k4val, bool, error) {
	switch name {
	case "math.Sqrt", "math.Abs", "math.IsNaN", "math.Max", "math.Min", "math.IsInf", "math.Floor", "math.Ceil", "math.Round":
	default:
		return k4val{}, false, nil
	}
	var fs []float64
	for _, a := range x.Call.Args {
		v, err := it.eval(fr, a)
		if err != nil {
			return k4val{}, true, err
		}
		if v.kind != 2 {
			return k4val{}, false, nil
		}
		fs = append(fs, v.f)
	}
	switch name {
	case "math.Sqrt":
		return k4val{kind: 2, f: math.Sqrt(fs[0])}, true, nil
	case "math.Abs":
		return k4val{kind: 2, f: math.Abs(fs[0])}, true, nil
	case "math.Floor":
		return k4val{kind: 2, f: math.Floor(fs[0])}, true, nil
	case "math.Ceil":
		return k4val{kind: 2, f: math.Ceil(fs[0])}, true, nil
	case "math.Round":
		return k4val{kind: 2, f: math.Round(fs[0])}, true, nil
	case "math.IsNaN":
		return k4val{kind: 1, b: math.IsNaN(fs[0])}, true, nil
	case "math.IsInf":
		return k4val{kind: 1, b: math.IsInf(fs[0], int(fs[1]))}, true, nil
	case "math.Max":
		return k4val{kind: 2, f: math.Max(fs[0], fs[1])}, true, nil
	case "math.Min":
		return k4val{kind: 2, f: math.Min(fs[0], fs[1])}, true, nil
	}
	return k4val{}, false, nil
}

// ---- generic spec runner ----

type k4spec struct {
	rule      string
	fn        string // anchor function (canonical name)
	construct string
	num       []string
	vals      []float64
	bools     []string
	inline    []string
	// want returns the expected results rendered as strings (one per result
	// that is checked; "" = don't care).
	want func(m *Model) []string
	what string // prose of the definition, for the report
	// valid (optional) restricts the models to those satisfying the data
	// type's representation invariant (e.g. min <= max).
	valid func(m *Model) bool
}

func fmtNum(f float64) string { return fmt.Sprint(f) }

func runK4Spec(c *Ctx, sp k4spec) {
	f := c.P.Func(sp.fn)
	if f == nil {
		c.Errorf("anchor %s does not resolve", sp.fn)
		return
	}
	inl := map[string]bool{}
	for _, n := range sp.inline {
		inl[n] = true
	}
	fn := FuncName(f)
	models := 0
	var mismatch, undecided string
	k4enumerate(sp.num, sp.vals, sp.bools, func(m *Model) bool {
		if sp.valid != nil && !sp.valid(m) {
			return true
		}
		models++
		m.Missing = map[string]bool{}
		res, err := k4run(c.P, f, m, func(g *ssa.Function) bool { return inl[FuncName(g)] })
		if err != nil {
			undecided = fmt.Sprintf("%v; terms outside the rule's vocabulary: %s", err, missingList(m))
			return false
		}
		want := sp.want(m)
		for i, w := range want {
			if w == "" {
				continue
			}
			got := "?"
			if i < len(res) {
				got = res[i].String()
			}
			if w == "NONNIL" && got != "nil" && got != "?" {
				continue
			}
			if got != w {
				mismatch = fmt.Sprintf("for the model %s the function returns %s but the definition (%s) gives %s", modelString(m), got, sp.what, w)
				return false
			}
		}
		return true
	})
	switch {
	case undecided != "":
		c.Undecided(f.Pos(), fn, sp.construct, undecided)
	case mismatch != "":
		c.Bad(f.Pos(), fn, sp.construct, mismatch)
	default:
		c.OK(f.Pos(), fn, sp.construct, fmt.Sprintf("agrees with the definition (%s) on all %d models (every weak ordering of the compared terms x truth values of the atoms)", sp.what, models))
	}
}

func modelString(m *Model) string {
	var ks []string
	for k, v := range m.Num {
		ks = append(ks, fmt.Sprintf("%s=%v", k, v))
	}
	for k, v := range m.Bool {
		ks = append(ks, fmt.Sprintf("%s=%v", k, v))
	}
	sort.Strings(ks)
	return "{" + strings.Join(ks, " ") + "}"
}

func sqrtf(f float64) float64 { return math.Sqrt(f) }
func nan() float64            { return math.NaN() }
