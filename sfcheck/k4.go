package main

import (
	"fmt"
	"go/constant"
	"go/token"
	"go/types"
	"math"
	"os"
	"sort"
	"strings"
	"unicode/utf8"

	"golang.org/x/tools/go/ssa"
)

// K4: comparison of small predicates with their specification by exhaustive
// enumeration of finite models. The function's SSA is *interpreted
// symbolically over a model*: a model assigns a number to every numeric term
// (field path of a parameter, e.g. $0.min.X) and a truth value to every opaque
// Boolean atom (e.g. IsEmpty($0)); arithmetic comparisons, Boolean operators,
// phis, branches and calls to small repository helpers (inlined) are evaluated
// exactly. This is a decision procedure on the extracted formula, not an
// execution of the program on inputs.

var paramAsIndex bool

// pathKey renders a value with parameters named $0, $1, … (so specifications
// do not depend on parameter names).
func pathKey(v ssa.Value) (string, bool) {
	paramAsIndex = true
	defer func() { paramAsIndex = false }()
	return pathD(v, 0)
}

type k4val struct {
	kind int // 0 undefined, 1 bool, 2 num, 3 opaque (path key), 4 string, 5 tuple, 7 func, 8 slice
	b    bool
	f    float64
	s    string
	v    ssa.Value
	tup  []k4val
	// slices (kind 8): s = base key of the backing array
	off, ln, cp int
	// addr: the value is the address of a variable, field or element (never nil)
	addr bool
}

func (v k4val) String() string {
	switch v.kind {
	case 1:
		return fmt.Sprint(v.b)
	case 2:
		return fmt.Sprint(v.f)
	case 3:
		if v.s != "" {
			return v.s
		}
		s, _ := pathKey(v.v)
		return s
	case 4:
		return fmt.Sprintf("%q", v.s)
	case 7:
		if f, ok := v.v.(*ssa.Function); ok {
			return extName(f)
		}
		return "func"
	case 8:
		return fmt.Sprintf("%s[%d:%d]", v.s, v.off, v.off+v.ln)
	case 5:
		var p []string
		for _, t := range v.tup {
			p = append(p, t.String())
		}
		return "(" + strings.Join(p, ", ") + ")"
	}
	return "?"
}

// Model supplies values for terms/atoms by key.
type Model struct {
	Num  map[string]float64
	Bool map[string]bool
	Str  map[string]string
	// Unknown keys that were requested (so the rule can report "undecided").
	Missing map[string]bool
}

type k4interp struct {
	p       *Program
	m       *Model
	depth   int
	steps   int
	frameID int
	inline  func(f *ssa.Function) bool
	mem     map[string]k4val // symbolic memory: address key -> value (overrides the model)
	// calls: every non-inlined call evaluated, in order (keys)
	calls []string
	// opaqueCall (optional) names calls of opaque function values by their arguments
	opaqueCall func(args []k4val) (string, bool)
	// stores performed on non-local memory, in order (for rules that inspect effects)
	effects []string
	// onOpaque (optional) is told about every call that is not interpreted, with
	// its evaluated arguments, before the result is looked up: a specification can
	// model the callee's effect on memory (e.g. what a search callback did)
	onOpaque func(name string, args []k4val)
	stack    []*ssa.Function // functions being interpreted (a new helper that recurses is not unfolded)
	// recurseNew: unfold recursive new helpers too (bounded by the inlining depth); for searches that were recursive closures
	recurseNew bool
	// answer (optional) supplies values for opaque queries the model does not list
	answer func(key string, isBool bool) (k4val, bool)
	// iters: string iterators (range over a known string), by iterator key
	iters map[string]*k4strIter
}

type k4strIter struct {
	s   string
	pos int
}

type k4frame struct {
	id   int
	fn   *ssa.Function
	args []k4val
	prev *ssa.BasicBlock
	cur  *ssa.BasicBlock
	vals map[ssa.Value]k4val
	fvs  []k4val // free variable cells (address keys)
	// pending: model keys that were missing when a call was evaluated eagerly but not (yet) needed
	pending []string
}

var errK4Undecided = fmt.Errorf("undecided")

func (it *k4interp) newFrame(f *ssa.Function, args []k4val, fvs []k4val) *k4frame {
	it.frameID++
	return &k4frame{id: it.frameID, fn: f, args: args, vals: map[ssa.Value]k4val{}, fvs: fvs, cur: f.Blocks[0]}
}

// call interprets f with the given arguments; returns its results.
func (it *k4interp) call(f *ssa.Function, args []k4val, fvs []k4val) ([]k4val, error) {
	if it.depth > 6 {
		return nil, fmt.Errorf("inlining too deep at %s", FuncName(f))
	}
	it.depth++
	it.stack = append(it.stack, f)
	defer func() { it.depth--; it.stack = it.stack[:len(it.stack)-1] }()
	fr := it.newFrame(f, args, fvs)
	for {
		b := fr.cur
		// phis first, all evaluated against prev
		var phiVals []k4val
		var phis []*ssa.Phi
		for _, in := range b.Instrs {
			phi, ok := in.(*ssa.Phi)
			if !ok {
				break
			}
			idx := -1
			for i, p := range b.Preds {
				if p == fr.prev {
					idx = i
				}
			}
			if idx < 0 {
				return nil, fmt.Errorf("phi without predecessor")
			}
			v, err := it.eval(fr, phi.Edges[idx])
			if err != nil {
				return nil, err
			}
			phis = append(phis, phi)
			phiVals = append(phiVals, v)
		}
		// a new iteration invalidates the values computed in this block before
		for _, in := range b.Instrs {
			if v, ok := in.(ssa.Value); ok {
				delete(fr.vals, v)
			}
		}
		for i, phi := range phis {
			fr.vals[phi] = phiVals[i]
		}
		for _, in := range b.Instrs {
			it.steps++
			if it.steps > 200000 {
				return nil, fmt.Errorf("step bound exceeded (unbounded loop?) in %s", FuncName(f))
			}
			switch x := in.(type) {
			case *ssa.Phi, *ssa.DebugRef:
				continue
			case *ssa.Store:
				v, err := it.eval(fr, x.Val)
				if err != nil {
					return nil, err
				}
				k, err := it.addrKey(fr, x.Addr)
				if err != nil {
					return nil, err
				}
				it.store(k, v)
			case *ssa.If:
				c, err := it.eval(fr, x.Cond)
				if err != nil {
					return nil, err
				}
				if c.kind != 1 {
					return nil, fmt.Errorf("non-boolean branch condition")
				}
				fr.prev = b
				if c.b {
					fr.cur = b.Succs[0]
				} else {
					fr.cur = b.Succs[1]
				}
			case *ssa.Jump:
				fr.prev = b
				fr.cur = b.Succs[0]
			case *ssa.Return:
				var out []k4val
				for _, r := range x.Results {
					v, err := it.eval(fr, r)
					if err != nil {
						// a result that is not used for control flow stays symbolic
						if k, ok := it.keyOf(fr, r); ok {
							v = k4val{kind: 3, v: r, s: k}
							delete(it.m.Missing, "bool "+k)
							delete(it.m.Missing, "num "+k)
						} else if err == errK4Undecided {
							return nil, err
						} else {
							v = k4val{kind: 3, v: r, s: "?" + r.Name()}
						}
					}
					out = append(out, v)
				}
				return out, nil
			case *ssa.Panic:
				return []k4val{{kind: 4, s: "panic"}}, nil
			case *ssa.Call:
				// calls are evaluated in program order; an opaque result that the model does not
				// define stays unevaluated (it is an error only if control flow depends on it)
				_, err := it.eval(fr, x)
				if err != nil && err != errK4Undecided && os.Getenv("SFCHECK_K4DEBUG") != "" {
					fmt.Fprintf(os.Stderr, "k4: call %s in %s: %v\n", x, FuncName(fr.fn), err)
				}
				if err == errK4Undecided {
					if k, ok := it.keyOf(fr, x); ok {
						it.calls = append(it.calls, k)
						delete(it.m.Missing, "bool "+k)
						delete(it.m.Missing, "num "+k)
						fr.pending = append(fr.pending, "bool "+k, "num "+k)
					}
				}
			case *ssa.UnOp:
				// loads are evaluated in program order (a later store must not be observed)
				if x.Op == token.MUL {
					_, _ = it.eval(fr, x)
				}
			case *ssa.Lookup:
				if _, err := it.eval(fr, x); err == errK4Undecided {
					return nil, err
				}
			case *ssa.Next:
				// advances its iterator: evaluated exactly once, where it stands
				if _, err := it.eval(fr, x); err != nil {
					return nil, err
				}
			case *ssa.MapUpdate:
				mv, err1 := it.eval(fr, x.Map)
				kv, err2 := it.eval(fr, x.Key)
				if err1 == nil && err2 == nil {
					it.effects = append(it.effects, "mapupdate("+mv.String()+","+kv.String()+")")
				}
			case ssa.Value:
				// pure: evaluated lazily
			}
		}
		if fr.cur == b {
			if len(b.Succs) == 0 {
				return nil, fmt.Errorf("block without successor")
			}
		}
	}
}

func (it *k4interp) store(key string, v k4val) {
	for k := range it.mem {
		if strings.HasPrefix(k, key+".") || strings.HasPrefix(k, key+"[") {
			delete(it.mem, k)
		}
	}
	it.mem[key] = v
	if v.kind == 3 && strings.HasPrefix(v.s, "S") {
		// storing a snapshot: copy its entries so later reads through key see them
		for mk, mv := range it.mem {
			if strings.HasPrefix(mk, v.s+".") || strings.HasPrefix(mk, v.s+"[") {
				it.mem[key+mk[len(v.s):]] = mv
			}
		}
		if base, ok := it.mem[v.s]; ok {
			it.mem[key] = base
		} else {
			delete(it.mem, key)
		}
	}
	if !strings.HasPrefix(key, "L") || !strings.Contains(key, ":") {
		it.effects = append(it.effects, key+" := "+v.String())
	}
}

// addrKey renders an address as a path key with evaluated indices.
func (it *k4interp) addrKey(fr *k4frame, addr ssa.Value) (string, error) {
	switch a := addr.(type) {
	case *ssa.Alloc:
		return fmt.Sprintf("L%d:%s", fr.id, a.Name()), nil
	case *ssa.FreeVar:
		for i, fv := range fr.fn.FreeVars {
			if fv == a && i < len(fr.fvs) {
				return fr.fvs[i].s, nil
			}
		}
		return "fv:" + a.Name(), nil
	case *ssa.Global:
		return "global:" + a.Name(), nil
	case *ssa.FieldAddr:
		b, err := it.addrKey(fr, a.X)
		if err != nil {
			return "", err
		}
		return b + "." + fieldName(a.X.Type(), a.Field), nil
	case *ssa.IndexAddr:
		iv, err := it.eval(fr, a.Index)
		if err != nil {
			return "", err
		}
		if _, isSlice := a.X.Type().Underlying().(*types.Slice); isSlice {
			sv, err := it.eval(fr, a.X)
			if err != nil {
				return "", err
			}
			if sv.kind == 8 {
				if iv.kind != 2 {
					return "", fmt.Errorf("symbolic index into a modelled slice")
				}
				if int(iv.f) < 0 || int(iv.f) >= sv.ln {
					return "", fmt.Errorf("index %d out of range [0,%d) in interpreted code", int(iv.f), sv.ln)
				}
				return fmt.Sprintf("%s[%d]", sv.s, sv.off+int(iv.f)), nil
			}
		}
		b, err := it.addrKey(fr, a.X)
		if err != nil {
			return "", err
		}
		switch iv.kind {
		case 2:
			return fmt.Sprintf("%s[%d]", b, int64(iv.f)), nil
		case 3:
			return fmt.Sprintf("%s[%s]", b, iv.s), nil
		}
		return "", fmt.Errorf("unevaluable index")
	}
	// a pointer/slice value held in a register
	v, err := it.eval(fr, addr)
	if err != nil {
		return "", err
	}
	if v.kind == 3 && v.s != "" {
		return v.s, nil
	}
	return "", fmt.Errorf("address of unknown origin: %s", addr.Name())
}

// lookup reads the value at a path key: symbolic memory first (following
// whole-struct aliases), then the model.
func (it *k4interp) lookup(key string, t types.Type) (k4val, error) {
	for i := 0; i < 8; i++ {
		if v, ok := it.mem[key]; ok {
			return v, nil
		}
		// longest stored proper prefix that holds an opaque struct reference
		best := ""
		for k, v := range it.mem {
			if v.kind == 3 && len(k) > len(best) && len(k) < len(key) && strings.HasPrefix(key, k) && (key[len(k)] == '.' || key[len(k)] == '[') {
				best = k
			}
		}
		if best == "" {
			break
		}
		key = it.mem[best].s + key[len(best):]
	}
	if strings.HasPrefix(key, "global:") {
		// an element of a package-level table that only the package initialiser writes
		if v, ok := globalInitValue(it.p, key); ok {
			return v, nil
		}
	}
	if strings.HasPrefix(key, "zero.") || strings.HasPrefix(key, "zero[") {
		// a field/element of a zero-value aggregate
		if isBoolT(t) {
			return k4val{kind: 1, b: false}, nil
		}
		if isNumeric(t) {
			return k4val{kind: 2, f: 0}, nil
		}
	}
	if isAppendedElemKey(key) {
		// a field of an element of a slice built by this interpretation (append/make) that
		// was never assigned: the literal left it at its zero value
		if isBoolT(t) {
			return k4val{kind: 1, b: false}, nil
		}
		if isNumeric(t) {
			return k4val{kind: 2, f: 0}, nil
		}
	}
	if isSnapshotKey(key) {
		// a field of a copied local aggregate that was never assigned: zero value
		if isBoolT(t) {
			return k4val{kind: 1, b: false}, nil
		}
		if isNumeric(t) {
			return k4val{kind: 2, f: 0}, nil
		}
	}
	if strings.HasPrefix(key, "L") && strings.Contains(key, ":") && !strings.Contains(key, "$") {
		// never-written local: zero value
		if isBoolT(t) {
			return k4val{kind: 1, b: false}, nil
		}
		if isNumeric(t) {
			return k4val{kind: 2, f: 0}, nil
		}
		if _, isSlice := t.Underlying().(*types.Slice); isSlice {
			it.frameID++
			return k4val{kind: 8, s: fmt.Sprintf("NIL%d", it.frameID), ln: 0, cp: 0}, nil
		}
		// `var err error`, `var p *T`, … never assigned: nil (only for a plain local, not a field or element of one)
		if !strings.ContainsAny(key[strings.Index(key, ":"):], ".[") {
			switch t.Underlying().(type) {
			case *types.Interface, *types.Pointer, *types.Signature, *types.Map:
				return k4val{kind: 3, s: "nil"}, nil
			}
		}
	}
	if it.answer != nil && (isBoolT(t) || isNumeric(t)) {
		if v, ok := it.answer(key, isBoolT(t)); ok {
			return v, nil
		}
	}
	if isBoolT(t) {
		if b, ok := it.m.Bool[key]; ok {
			return k4val{kind: 1, b: b}, nil
		}
		it.m.Missing["bool "+key] = true
		return k4val{}, errK4Undecided
	}
	if b, ok := t.Underlying().(*types.Basic); ok && b.Info()&types.IsNumeric != 0 {
		if f, ok := it.m.Num[key]; ok {
			return k4val{kind: 2, f: f}, nil
		}
		it.m.Missing["num "+key] = true
		return k4val{}, errK4Undecided
	}
	if b, ok := t.Underlying().(*types.Basic); ok && b.Info()&types.IsString != 0 {
		if sv, ok := it.m.Str[key]; ok {
			return k4val{kind: 4, s: sv}, nil
		}
	}
	return k4val{kind: 3, s: key}, nil
}

// keyOf renders a non-address value (call, comparison of opaques, …) as a key.
func (it *k4interp) keyOf(fr *k4frame, v ssa.Value) (string, bool) {
	switch x := v.(type) {
	case *ssa.Call:
		name := calleeName(x)
		var parts []string
		if x.Call.IsInvoke() {
			a, err := it.eval(fr, x.Call.Value)
			if err != nil {
				return "", false
			}
			parts = append(parts, a.String())
		}
		for _, a := range x.Call.Args {
			if sl, ok := a.(*ssa.Slice); ok {
				if lst, ok := it.sliceContents(fr, sl); ok {
					parts = append(parts, lst)
					continue
				}
			}
			av, err := it.eval(fr, a)
			if err != nil {
				return "", false
			}
			parts = append(parts, av.String())
		}
		return name + "(" + strings.Join(parts, ",") + ")", true
	case *ssa.BinOp:
		a, err := it.eval(fr, x.X)
		b, err2 := it.eval(fr, x.Y)
		if err != nil || err2 != nil {
			return "", false
		}
		return "(" + a.String() + x.Op.String() + b.String() + ")", true
	case *ssa.Extract:
		t, err := it.eval(fr, x.Tuple)
		if err != nil {
			return "", false
		}
		return fmt.Sprintf("%s#%d", t.String(), x.Index), true
	case *ssa.Function:
		return extName(x), true
	case *ssa.MakeClosure:
		return extName(x.Fn.(*ssa.Function)), true
	case *ssa.Slice:
		if lst, ok := it.sliceContents(fr, x); ok {
			return lst, true
		}
		a, err := it.eval(fr, x.X)
		if err != nil {
			return "", false
		}
		return a.String() + "[:]", true
	case *ssa.TypeAssert:
		a, err := it.eval(fr, x.X)
		if err != nil {
			return "", false
		}
		return a.String() + ".(" + typeShort(x.AssertedType) + ")", true
	case *ssa.MakeInterface:
		a, err := it.eval(fr, x.X)
		if err != nil {
			return "", false
		}
		return a.String(), true
	}
	return "", false
}

func (it *k4interp) eval(fr *k4frame, v ssa.Value) (k4val, error) {
	if r, ok := fr.vals[v]; ok {
		return r, nil
	}
	r, err := it.eval1(fr, v)
	if err == nil {
		fr.vals[v] = r
	}
	return r, err
}

func constVal(c *ssa.Const) (k4val, bool) {
	if c.Value == nil {
		switch c.Type().Underlying().(type) {
		case *types.Struct, *types.Array:
			return k4val{kind: 3, v: c, s: "zero"}, true
		}
		return k4val{kind: 3, v: c, s: "nil"}, true
	}
	switch c.Value.Kind() {
	case constant.Bool:
		return k4val{kind: 1, b: constant.BoolVal(c.Value)}, true
	case constant.Int, constant.Float:
		f, _ := constant.Float64Val(c.Value)
		return k4val{kind: 2, f: f}, true
	case constant.String:
		return k4val{kind: 4, s: constant.StringVal(c.Value)}, true
	}
	return k4val{}, false
}

func (it *k4interp) opaque(fr *k4frame, v ssa.Value) (k4val, error) {
	k, ok := it.keyOf(fr, v)
	if !ok {
		return k4val{}, fmt.Errorf("cannot name value %s (%T)", v.Name(), v)
	}
	r, err := it.lookup(k, v.Type())
	if _, isCall := v.(*ssa.Call); isCall && err == nil {
		it.calls = append(it.calls, k)
	}
	return r, err
}

var nil0 types.Type = types.Typ[types.Float64]

func (it *k4interp) eval1(fr *k4frame, v ssa.Value) (k4val, error) {
	switch x := v.(type) {
	case *ssa.Const:
		if r, ok := constVal(x); ok {
			return r, nil
		}
		return k4val{kind: 3, v: x, s: "zero"}, nil
	case *ssa.Parameter:
		for i, p := range fr.fn.Params {
			if p == x {
				return fr.args[i], nil
			}
		}
	case *ssa.Alloc, *ssa.FieldAddr, *ssa.IndexAddr, *ssa.FreeVar, *ssa.Global:
		k, err := it.addrKey(fr, v)
		if err != nil {
			return k4val{}, err
		}
		_, isFV := v.(*ssa.FreeVar)
		return k4val{kind: 3, s: k, addr: !isFV}, nil
	case *ssa.UnOp:
		switch x.Op {
		case token.NOT:
			a, err := it.eval(fr, x.X)
			if err != nil {
				return a, err
			}
			if a.kind != 1 {
				return k4val{}, fmt.Errorf("! of non-boolean")
			}
			return k4val{kind: 1, b: !a.b}, nil
		case token.SUB:
			a, err := it.eval(fr, x.X)
			if err != nil {
				return a, err
			}
			return k4val{kind: 2, f: -a.f}, nil
		case token.MUL:
			k, err := it.addrKey(fr, x.X)
			if err != nil {
				return k4val{}, err
			}
			switch x.Type().Underlying().(type) {
			case *types.Struct, *types.Array:
				// loading an aggregate copies it: snapshot the stored sub-entries
				sub := false
				for mk := range it.mem {
					if strings.HasPrefix(mk, k+".") || strings.HasPrefix(mk, k+"[") {
						sub = true
						break
					}
				}
				if sub {
					it.frameID++
					snap := fmt.Sprintf("S%d", it.frameID)
					for mk, mv := range it.mem {
						if strings.HasPrefix(mk, k+".") || strings.HasPrefix(mk, k+"[") {
							it.mem[snap+mk[len(k):]] = mv
						}
					}
					if base, ok := it.mem[k]; ok {
						it.mem[snap] = base
					}
					return k4val{kind: 3, s: snap}, nil
				}
			}
			return it.lookup(k, x.Type())
		}
	case *ssa.Field:
		a, err := it.eval(fr, x.X)
		if err != nil {
			return a, err
		}
		if a.kind == 5 {
			return k4val{}, fmt.Errorf("field of tuple")
		}
		if a.kind != 3 {
			return k4val{}, fmt.Errorf("field of non-struct")
		}
		if a.s == "zero" {
			return zeroOf(x.Type()), nil
		}
		return it.lookup(a.s+"."+fieldName(x.X.Type(), x.Field), x.Type())
	case *ssa.Index:
		a, err := it.eval(fr, x.X)
		if err != nil {
			return a, err
		}
		iv, err := it.eval(fr, x.Index)
		if err != nil {
			return iv, err
		}
		if a.kind == 3 && iv.kind == 2 {
			return it.lookup(fmt.Sprintf("%s[%d]", a.s, int64(iv.f)), x.Type())
		}
		if a.kind == 4 && iv.kind == 2 {
			i := int(iv.f)
			if i < 0 || i >= len(a.s) {
				return k4val{}, fmt.Errorf("string index %d out of range in interpreted code", i)
			}
			return k4val{kind: 2, f: float64(a.s[i])}, nil
		}
		return k4val{}, fmt.Errorf("unevaluable index expression")
	case *ssa.BinOp:
		a, err := it.eval(fr, x.X)
		if err != nil {
			return a, err
		}
		b, err := it.eval(fr, x.Y)
		if err != nil {
			return b, err
		}
		if a.kind == 1 && b.kind == 1 {
			switch x.Op {
			case token.EQL:
				return k4val{kind: 1, b: a.b == b.b}, nil
			case token.NEQ:
				return k4val{kind: 1, b: a.b != b.b}, nil
			case token.AND, token.LAND:
				return k4val{kind: 1, b: a.b && b.b}, nil
			case token.OR, token.LOR:
				return k4val{kind: 1, b: a.b || b.b}, nil
			}
		}
		if a.kind == 2 && b.kind == 2 {
			switch x.Op {
			case token.EQL:
				return k4val{kind: 1, b: a.f == b.f}, nil
			case token.NEQ:
				return k4val{kind: 1, b: a.f != b.f}, nil
			case token.LSS:
				return k4val{kind: 1, b: a.f < b.f}, nil
			case token.LEQ:
				return k4val{kind: 1, b: a.f <= b.f}, nil
			case token.GTR:
				return k4val{kind: 1, b: a.f > b.f}, nil
			case token.GEQ:
				return k4val{kind: 1, b: a.f >= b.f}, nil
			case token.ADD:
				return k4val{kind: 2, f: a.f + b.f}, nil
			case token.SUB:
				return k4val{kind: 2, f: a.f - b.f}, nil
			case token.MUL:
				return k4val{kind: 2, f: a.f * b.f}, nil
			case token.QUO:
				if isFloat(x.Type()) {
					return k4val{kind: 2, f: a.f / b.f}, nil
				}
				if b.f == 0 {
					return k4val{}, fmt.Errorf("integer division by zero")
				}
				return k4val{kind: 2, f: float64(int64(a.f) / int64(b.f))}, nil
			case token.REM:
				if b.f == 0 {
					return k4val{}, fmt.Errorf("mod by zero")
				}
				return k4val{kind: 2, f: float64(int64(a.f) % int64(b.f))}, nil
			case token.AND:
				return k4val{kind: 2, f: float64(int64(a.f) & int64(b.f))}, nil
			case token.OR:
				return k4val{kind: 2, f: float64(int64(a.f) | int64(b.f))}, nil
			case token.XOR:
				return k4val{kind: 2, f: float64(int64(a.f) ^ int64(b.f))}, nil
			case token.AND_NOT:
				return k4val{kind: 2, f: float64(int64(a.f) &^ int64(b.f))}, nil
			case token.SHL:
				return k4val{kind: 2, f: float64(int64(a.f) << uint(b.f))}, nil
			case token.SHR:
				return k4val{kind: 2, f: float64(int64(a.f) >> uint(b.f))}, nil
			}
		}
		if a.kind == 4 && b.kind == 4 {
			switch x.Op {
			case token.EQL:
				return k4val{kind: 1, b: a.s == b.s}, nil
			case token.NEQ:
				return k4val{kind: 1, b: a.s != b.s}, nil
			case token.ADD:
				return k4val{kind: 4, s: a.s + b.s}, nil
			}
		}
		// equality of structs of numbers: field-wise
		if a.kind == 3 && b.kind == 3 && (x.Op == token.EQL || x.Op == token.NEQ) {
			if a.s == b.s {
				return k4val{kind: 1, b: x.Op == token.EQL}, nil
			}
			if st, ok := x.X.Type().Underlying().(*types.Struct); ok {
				eq, all := true, true
				for i := 0; i < st.NumFields(); i++ {
					if !isNumeric(st.Field(i).Type()) {
						all = false
						break
					}
					var fa, fb k4val
					var errA, errB error
					if a.s == "zero" {
						fa = k4val{kind: 2}
					} else {
						fa, errA = it.lookup(a.s+"."+canonFieldName(st.Field(i)), st.Field(i).Type())
					}
					if b.s == "zero" {
						fb = k4val{kind: 2}
					} else {
						fb, errB = it.lookup(b.s+"."+canonFieldName(st.Field(i)), st.Field(i).Type())
					}
					if errA != nil {
						return k4val{}, errA
					}
					if errB != nil {
						return k4val{}, errB
					}
					if fa.f != fb.f {
						eq = false
					}
				}
				if all {
					return k4val{kind: 1, b: eq == (x.Op == token.EQL)}, nil
				}
			}
			// pointer / interface identity vs nil etc: an atom
		}
		// the address of a variable, field or element compared with nil
		if a.kind == 3 && b.kind == 3 && (x.Op == token.EQL || x.Op == token.NEQ) && ((a.addr && b.s == "nil" && !b.addr) || (b.addr && a.s == "nil" && !a.addr)) {
			return k4val{kind: 1, b: x.Op == token.NEQ}, nil
		}
		// a freshly made error (fmt.Errorf / errors.New) compared with nil
		if a.kind == 3 && b.kind == 3 && (x.Op == token.EQL || x.Op == token.NEQ) && ((isFreshErrorTerm(a.s) && b.s == "nil" && !b.addr) || (isFreshErrorTerm(b.s) && a.s == "nil" && !a.addr)) {
			return k4val{kind: 1, b: x.Op == token.NEQ}, nil
		}
		if isBoolT(x.Type()) {
			// `X != Y` on opaque operands is the negation of the atom `X == Y`
			// (so a rewritten `err != nil` needs no second model entry)
			if x.Op == token.NEQ {
				key := "(" + a.String() + "==" + b.String() + ")"
				known := false
				if _, ok := it.m.Bool[key]; ok {
					known = true
				}
				if it.answer != nil {
					if _, ok := it.answer(key, true); ok {
						known = true
					}
				}
				if known {
					v, err := it.lookup(key, boolT)
					if err == nil && v.kind == 1 {
						return k4val{kind: 1, b: !v.b}, nil
					}
				}
			}
			if x.Op == token.EQL {
				key := "(" + a.String() + "!=" + b.String() + ")"
				if _, ok := it.m.Bool[key]; ok {
					v, err := it.lookup(key, boolT)
					if err == nil && v.kind == 1 {
						return k4val{kind: 1, b: !v.b}, nil
					}
				}
			}
			return it.opaque(fr, x)
		}
		// arithmetic on a number that a callee handed back unevaluated (an opaque call
		// whose value the model did not define when the callee returned it): the model
		// lacks that number
		if isNumeric(x.X.Type()) && isNumeric(x.Y.Type()) {
			lacking := false
			for _, o := range []k4val{a, b} {
				if o.kind == 3 && strings.Contains(o.s, "(") {
					if _, has := it.m.Num[o.s]; !has {
						it.m.Missing["num "+o.s] = true
						lacking = true
					}
				}
			}
			if lacking {
				return k4val{}, errK4Undecided
			}
		}
		return k4val{}, fmt.Errorf("cannot evaluate %s on %s and %s", x.Op, a, b)
	case *ssa.Phi:
		return k4val{}, fmt.Errorf("phi evaluated out of order")
	case *ssa.Convert:
		a, err := it.eval(fr, x.X)
		if err != nil {
			return a, err
		}
		if a.kind == 2 && isNumeric(x.Type()) && !isFloat(x.Type()) && isFloat(x.X.Type()) {
			return k4val{kind: 2, f: math.Trunc(a.f)}, nil
		}
		if a.kind == 2 {
			if bt, ok := x.Type().Underlying().(*types.Basic); ok {
				switch bt.Kind() {
				case types.Uint8:
					return k4val{kind: 2, f: float64(uint8(int64(a.f)))}, nil
				case types.Int8:
					return k4val{kind: 2, f: float64(int8(int64(a.f)))}, nil
				case types.Uint16:
					return k4val{kind: 2, f: float64(uint16(int64(a.f)))}, nil
				case types.Uint32:
					return k4val{kind: 2, f: float64(uint32(int64(a.f)))}, nil
				case types.Int32:
					return k4val{kind: 2, f: float64(int32(int64(a.f)))}, nil
				}
			}
		}
		return a, nil
	case *ssa.ChangeType:
		return it.eval(fr, x.X)
	case *ssa.MakeInterface:
		return it.eval(fr, x.X)
	case *ssa.Extract:
		t, err := it.eval(fr, x.Tuple)
		if err != nil {
			return t, err
		}
		if t.kind == 5 && x.Index < len(t.tup) {
			return t.tup[x.Index], nil
		}
		return it.opaque(fr, x)
	case *ssa.Range:
		sv, err := it.eval(fr, x.X)
		if err != nil {
			return sv, err
		}
		if sv.kind != 4 {
			return k4val{}, fmt.Errorf("range over a value that is not a known string")
		}
		if it.iters == nil {
			it.iters = map[string]*k4strIter{}
		}
		it.frameID++
		key := fmt.Sprintf("ITER%d", it.frameID)
		it.iters[key] = &k4strIter{s: sv.s}
		return k4val{kind: 3, s: key}, nil
	case *ssa.Next:
		iv, err := it.eval(fr, x.Iter)
		if err != nil {
			return iv, err
		}
		st := it.iters[iv.s]
		if st == nil || !x.IsString {
			return k4val{}, fmt.Errorf("next on an unknown iterator")
		}
		if st.pos >= len(st.s) {
			return k4val{kind: 5, tup: []k4val{{kind: 1, b: false}, {kind: 2}, {kind: 2}}}, nil
		}
		r, w := utf8.DecodeRuneInString(st.s[st.pos:])
		res := k4val{kind: 5, tup: []k4val{{kind: 1, b: true}, {kind: 2, f: float64(st.pos)}, {kind: 2, f: float64(r)}}}
		st.pos += w
		return res, nil
	case *ssa.Lookup:
		// map lookup: an opaque query named by its evaluated key
		mv, err := it.eval(fr, x.X)
		if err != nil {
			return mv, err
		}
		iv, err := it.eval(fr, x.Index)
		if err != nil {
			return iv, err
		}
		if mv.kind == 4 && iv.kind == 2 {
			// s[i] of a known string
			i := int(iv.f)
			if i < 0 || i >= len(mv.s) {
				return k4val{}, fmt.Errorf("string index %d out of range in interpreted code", i)
			}
			return k4val{kind: 2, f: float64(mv.s[i])}, nil
		}
		ks := iv.String()
		if iv.kind == 3 {
			if st, ok := x.Index.Type().Underlying().(*types.Struct); ok {
				var parts []string
				for i := 0; i < st.NumFields(); i++ {
					fv, err := it.lookup(iv.s+"."+canonFieldName(st.Field(i)), st.Field(i).Type())
					if err != nil {
						return fv, err
					}
					parts = append(parts, fv.String())
				}
				ks = "{" + strings.Join(parts, ",") + "}"
			}
		}
		key := "lookup(" + mv.String() + "," + ks + ")"
		it.calls = append(it.calls, key)
		if x.CommaOk {
			okv, err := it.lookup(key+"#ok", boolT)
			if err != nil {
				return okv, err
			}
			return k4val{kind: 5, tup: []k4val{{kind: 3, s: key}, okv}}, nil
		}
		return it.lookup(key, x.Type())
	case *ssa.MakeSlice:
		l, err := it.eval(fr, x.Len)
		if err != nil {
			return l, err
		}
		cp, err := it.eval(fr, x.Cap)
		if err != nil {
			return cp, err
		}
		if l.kind != 2 || cp.kind != 2 {
			return k4val{}, fmt.Errorf("make with symbolic length")
		}
		it.frameID++
		base := fmt.Sprintf("M%d", it.frameID)
		el := x.Type().Underlying().(*types.Slice).Elem()
		for i := 0; i < int(cp.f); i++ {
			it.mem[fmt.Sprintf("%s[%d]", base, i)] = zeroOf(el)
		}
		return k4val{kind: 8, s: base, ln: int(l.f), cp: int(cp.f)}, nil
	case *ssa.Slice:
		sv, err := k4val{}, error(nil)
		if pt, isPtr := x.X.Type().Underlying().(*types.Pointer); isPtr && (x.Low != nil || x.High != nil) {
			// a[lo:hi] of an array variable: a window on its elements
			if at, ok := pt.Elem().Underlying().(*types.Array); ok {
				var k string
				if k, err = it.addrKey(fr, x.X); err == nil {
					sv = k4val{kind: 8, s: k, ln: int(at.Len()), cp: int(at.Len())}
				}
			}
		} else {
			sv, err = it.eval(fr, x.X)
		}
		if err == nil && sv.kind == 8 {
			lo, hi := 0, sv.ln
			if x.Low != nil {
				v, err := it.eval(fr, x.Low)
				if err != nil || v.kind != 2 {
					return k4val{}, fmt.Errorf("symbolic slice bound")
				}
				lo = int(v.f)
			}
			if x.High != nil {
				v, err := it.eval(fr, x.High)
				if err != nil || v.kind != 2 {
					return k4val{}, fmt.Errorf("symbolic slice bound")
				}
				hi = int(v.f)
			}
			if lo < 0 || hi < lo || hi > sv.cp {
				return k4val{}, fmt.Errorf("slice bounds [%d:%d] out of capacity %d in interpreted code", lo, hi, sv.cp)
			}
			return k4val{kind: 8, s: sv.s, off: sv.off + lo, ln: hi - lo, cp: sv.cp - lo}, nil
		}
		if x.Low == nil && x.High == nil {
			if pt, isPtr := x.X.Type().Underlying().(*types.Pointer); isPtr {
				k, err := it.addrKey(fr, x.X)
				if err != nil {
					return k4val{}, err
				}
				if at, ok := pt.Elem().Underlying().(*types.Array); ok {
					return k4val{kind: 8, s: k, ln: int(at.Len()), cp: int(at.Len())}, nil
				}
				return k4val{kind: 3, s: k}, nil
			}
			return it.eval(fr, x.X)
		}
		return it.opaque(fr, x)
	case *ssa.MakeClosure:
		var cells []string
		for _, b := range x.Bindings {
			k, err := it.addrKey(fr, b)
			if err != nil {
				return k4val{}, err
			}
			cells = append(cells, k)
		}
		return k4val{kind: 7, v: x.Fn, s: strings.Join(cells, "\x00")}, nil
	case *ssa.Function:
		return k4val{kind: 7, v: x}, nil
	case *ssa.Call:
		if b, ok := x.Call.Value.(*ssa.Builtin); ok {
			switch b.Name() {
			case "append":
				dst, err := it.eval(fr, x.Call.Args[0])
				if err != nil {
					return dst, err
				}
				src, err := it.eval(fr, x.Call.Args[1])
				if err != nil {
					return src, err
				}
				if (dst.kind == 8 || dst.s == "nil") && src.kind == 4 {
					// append(bytes, "str"...)
					it.frameID++
					sb := fmt.Sprintf("M%d", it.frameID)
					for i := 0; i < len(src.s); i++ {
						it.mem[fmt.Sprintf("%s[%d]", sb, i)] = k4val{kind: 2, f: float64(src.s[i])}
					}
					src = k4val{kind: 8, s: sb, ln: len(src.s), cp: len(src.s)}
				}
				if (dst.kind == 8 || dst.s == "nil") && src.kind == 8 {
					it.frameID++
					base := fmt.Sprintf("M%d", it.frameID)
					n := 0
					cp := func(sv k4val) {
						for i := 0; i < sv.ln; i++ {
							src := fmt.Sprintf("%s[%d]", sv.s, sv.off+i)
							if v, ok := it.mem[src]; ok {
								it.mem[fmt.Sprintf("%s[%d]", base, n)] = v
							} else if it.hasSubEntries(src) {
								// an aggregate element held field by field (a literal built in a
								// reused temporary): appending copies it, so freeze its fields now
								dst := fmt.Sprintf("%s[%d]", base, n)
								for mk, mv := range it.mem {
									if strings.HasPrefix(mk, src+".") || strings.HasPrefix(mk, src+"[") {
										it.mem[dst+mk[len(src):]] = mv
									}
								}
							} else {
								it.mem[fmt.Sprintf("%s[%d]", base, n)] = k4val{kind: 3, s: src}
							}
							n++
						}
					}
					if dst.kind == 8 {
						cp(dst)
					}
					cp(src)
					return k4val{kind: 8, s: base, ln: n, cp: n}, nil
				}
				if dst.kind == 3 {
					return k4val{kind: 3, s: "append(" + dst.s + "," + src.String() + ")"}, nil
				}
				return k4val{}, fmt.Errorf("append on unmodelled slices")
			case "len":
				if sl, ok := x.Call.Args[0].(*ssa.Slice); ok && sl.Low == nil && sl.High == nil {
					if pt, ok := sl.X.Type().Underlying().(*types.Pointer); ok {
						if at, ok := pt.Elem().Underlying().(*types.Array); ok {
							return k4val{kind: 2, f: float64(at.Len())}, nil
						}
					}
				}
				a, err := it.eval(fr, x.Call.Args[0])
				if err != nil {
					return a, err
				}
				if a.kind == 4 {
					return k4val{kind: 2, f: float64(len(a.s))}, nil
				}
				if a.kind == 8 {
					return k4val{kind: 2, f: float64(a.ln)}, nil
				}
				return it.lookup("len("+a.String()+")", x.Type())
			}
		}
		cal := staticCallee(x)
		var fvs []k4val
		if cal == nil {
			// call of a closure value held in a register
			fv, err := it.eval(fr, x.Call.Value)
			if err == nil && fv.kind == 7 {
				cal, _ = fv.v.(*ssa.Function)
				if fv.s != "" {
					for _, k := range strings.Split(fv.s, "\x00") {
						fvs = append(fvs, k4val{kind: 3, s: k})
					}
				}
			}
		}
		if cal == nil && it.opaqueCall != nil && !x.Call.IsInvoke() {
			var args []k4val
			for _, a := range x.Call.Args {
				av, err := it.eval(fr, a)
				if err != nil {
					return k4val{}, err
				}
				args = append(args, av)
			}
			if k, ok := it.opaqueCall(args); ok {
				it.calls = append(it.calls, k)
				return it.lookup(k, x.Type())
			}
		}
		if cal != nil {
			if r, ok, err := it.nativeMath(fr, x, extName(cal)); ok {
				return r, err
			}
		}
		if cal != nil && cal.Blocks != nil && (isBoundWrapper(cal) || (it.inline != nil && it.inline(cal)) || (k4WrapperInline != nil && k4WrapperInline(cal) && !it.onStack(cal)) || (isNewHelper(cal) && (it.recurseNew || !it.onStack(cal))) || (cal.Parent() != nil && len(it.stack) > 0 && rootFunc(cal) == rootFunc(it.stack[0]) && (it.recurseNew || !it.onStack(cal)))) {
			var args []k4val
			for _, a := range x.Call.Args {
				av, err := it.eval(fr, a)
				if err != nil {
					return k4val{}, err
				}
				args = append(args, av)
			}
			if len(cal.FreeVars) > 0 && fvs == nil {
				fv, err := it.eval(fr, x.Call.Value)
				if err != nil {
					return k4val{}, err
				}
				if fv.kind == 7 && fv.s != "" {
					for _, k := range strings.Split(fv.s, "\x00") {
						fvs = append(fvs, k4val{kind: 3, s: k})
					}
				}
			}
			res, err := it.call(cal, args, fvs)
			if err != nil {
				return k4val{}, err
			}
			if len(res) == 1 {
				return res[0], nil
			}
			return k4val{kind: 5, tup: res}, nil
		}
		if it.onOpaque != nil && cal != nil {
			var args []k4val
			for _, a := range x.Call.Args {
				av, err := it.eval(fr, a)
				if err != nil {
					return k4val{}, err
				}
				args = append(args, av)
			}
			it.onOpaque(extName(cal), args)
		}
		return it.opaque(fr, x)
	}
	return it.opaque(fr, v)
}

// isBoundWrapper: the synthetic wrapper behind a method value x.m (its body
// calls m with the captured receiver): always unfolded, so the call is seen as
// a call of the method itself.
func isBoundWrapper(f *ssa.Function) bool {
	return f.Synthetic != "" && strings.HasSuffix(f.Name(), "$bound")
}

func zeroOf(t types.Type) k4val {
	switch {
	case isBoolT(t):
		return k4val{kind: 1}
	case isNumeric(t):
		return k4val{kind: 2}
	}
	if b, ok := t.Underlying().(*types.Basic); ok && b.Info()&types.IsString != 0 {
		return k4val{kind: 4}
	}
	return k4val{kind: 3, s: "zero"}
}

// k4run interprets f with opaque parameters $0..$n under the model.
func k4run(p *Program, f *ssa.Function, m *Model, inline func(*ssa.Function) bool) ([]k4val, error) {
	if m.Missing == nil {
		m.Missing = map[string]bool{}
	}
	it := &k4interp{p: p, m: m, inline: inline, mem: map[string]k4val{}}
	var args []k4val
	for i, par := range f.Params {
		k := fmt.Sprintf("$%d", i)
		switch {
		case isBoolT(par.Type()):
			b, ok := m.Bool[k]
			if !ok {
				m.Missing["bool "+k] = true
				return nil, errK4Undecided
			}
			args = append(args, k4val{kind: 1, b: b})
		case isNumeric(par.Type()):
			fv, ok := m.Num[k]
			if !ok {
				m.Missing["num "+k] = true
				return nil, errK4Undecided
			}
			args = append(args, k4val{kind: 2, f: fv})
		default:
			args = append(args, k4val{kind: 3, v: par, s: k})
		}
	}
	res, err := it.call(f, args, nil)
	lastCalls = it.calls
	return res, err
}

// enumerate all assignments of vals to the numeric keys and of {false,true} to
// the bool keys; stops when fn returns false.
var k4ValsFor map[string][]float64 // optional per-key value domains for the next k4enumerate call

func k4enumerate(numKeys []string, vals []float64, boolKeys []string, fn func(m *Model) bool) int {
	valsFor := k4ValsFor
	k4ValsFor = nil
	sort.Strings(numKeys)
	sort.Strings(boolKeys)
	n := 0
	m := &Model{Num: map[string]float64{}, Bool: map[string]bool{}, Missing: map[string]bool{}}
	var recB func(i int) bool
	recB = func(i int) bool {
		if i == len(boolKeys) {
			n++
			return fn(m)
		}
		for _, b := range []bool{false, true} {
			m.Bool[boolKeys[i]] = b
			if !recB(i + 1) {
				return false
			}
		}
		return true
	}
	var recN func(i int) bool
	recN = func(i int) bool {
		if i == len(numKeys) {
			return recB(0)
		}
		vs := vals
		if d, ok := valsFor[numKeys[i]]; ok {
			vs = d
		}
		for _, v := range vs {
			m.Num[numKeys[i]] = v
			if !recN(i + 1) {
				return false
			}
		}
		return true
	}
	recN(0)
	return n
}

func missingList(m *Model) string {
	var ks []string
	for k := range m.Missing {
		ks = append(ks, k)
	}
	sort.Strings(ks)
	return strings.Join(ks, "; ")
}

// nativeMath evaluates pure math functions on numeric arguments.
func (it *k4interp) nativeMath(fr *k4frame, x *ssa.Call, name string) (k4val, bool, error) {
	switch name {
	case "math.Sqrt", "math.Abs", "math.IsNaN", "math.Max", "math.Min", "math.IsInf", "math.Floor", "math.Ceil", "math.Round", "math.Pow10", "math.Inf", "math.Hypot":
	default:
		return k4val{}, false, nil
	}
	var fs []float64
	for _, a := range x.Call.Args {
		v, err := it.eval(fr, a)
		if err != nil {
			return k4val{}, true, err
		}
		if v.kind != 2 {
			return k4val{}, false, nil
		}
		fs = append(fs, v.f)
	}
	switch name {
	case "math.Pow10":
		return k4val{kind: 2, f: math.Pow10(int(fs[0]))}, true, nil
	case "math.Inf":
		return k4val{kind: 2, f: math.Inf(int(fs[0]))}, true, nil
	case "math.Hypot":
		if len(fs) == 2 {
			return k4val{kind: 2, f: math.Hypot(fs[0], fs[1])}, true, nil
		}
	case "math.Sqrt":
		return k4val{kind: 2, f: math.Sqrt(fs[0])}, true, nil
	case "math.Abs":
		return k4val{kind: 2, f: math.Abs(fs[0])}, true, nil
	case "math.Floor":
		return k4val{kind: 2, f: math.Floor(fs[0])}, true, nil
	case "math.Ceil":
		return k4val{kind: 2, f: math.Ceil(fs[0])}, true, nil
	case "math.Round":
		return k4val{kind: 2, f: math.Round(fs[0])}, true, nil
	case "math.IsNaN":
		return k4val{kind: 1, b: math.IsNaN(fs[0])}, true, nil
	case "math.IsInf":
		return k4val{kind: 1, b: math.IsInf(fs[0], int(fs[1]))}, true, nil
	case "math.Max":
		return k4val{kind: 2, f: math.Max(fs[0], fs[1])}, true, nil
	case "math.Min":
		return k4val{kind: 2, f: math.Min(fs[0], fs[1])}, true, nil
	}
	return k4val{}, false, nil
}

// ---- generic spec runner ----

type k4spec struct {
	rule      string
	fn        string // anchor function (canonical name)
	construct string
	num       []string
	vals      []float64
	bools     []string
	inline    []string
	// want returns the expected results rendered as strings (one per result
	// that is checked; "" = don't care).
	want func(m *Model) []string
	what string // prose of the definition, for the report
	// valid (optional) restricts the models to those satisfying the data
	// type's representation invariant (e.g. min <= max).
	valid func(m *Model) bool
	// valsFor (optional) gives per-key value domains
	valsFor map[string][]float64
}

func fmtNum(f float64) string { return fmt.Sprint(f) }

func runK4Spec(c *Ctx, sp k4spec) {
	f := c.P.Func(sp.fn)
	if f == nil {
		c.Errorf("anchor %s does not resolve", sp.fn)
		return
	}
	inl := map[string]bool{}
	for _, n := range sp.inline {
		inl[n] = true
	}
	fn := FuncName(f)
	models := 0
	var mismatch, undecided string
	k4ValsFor = sp.valsFor
	k4enumerate(sp.num, sp.vals, sp.bools, func(m *Model) bool {
		if sp.valid != nil && !sp.valid(m) {
			return true
		}
		models++
		m.Missing = map[string]bool{}
		res, err := k4run(c.P, f, m, func(g *ssa.Function) bool { return inl[FuncName(g)] })
		if err != nil {
			undecided = fmt.Sprintf("%v; terms outside the rule's vocabulary: %s", err, missingList(m))
			return false
		}
		want := sp.want(m)
		for i, w := range want {
			if w == "" {
				continue
			}
			got := "?"
			if i < len(res) {
				got = res[i].String()
			}
			if w == "NONNIL" && got != "nil" && got != "?" {
				continue
			}
			if strings.HasPrefix(w, "≈") {
				// numeric result, equal to within 2 ulps (the correctly rounded value of an
				// irrational result is not unique to one formula)
				var wv, gv float64
				if _, err := fmt.Sscan(strings.TrimPrefix(w, "≈"), &wv); err == nil {
					if _, err := fmt.Sscan(got, &gv); err == nil {
						ulp := math.Nextafter(math.Abs(wv), math.Inf(1)) - math.Abs(wv)
						if math.Abs(gv-wv) <= 2*ulp {
							continue
						}
					}
				}
			}
			if got != w {
				mismatch = fmt.Sprintf("for the model %s the function returns %s but the definition (%s) gives %s", modelString(m), got, sp.what, w)
				return false
			}
		}
		return true
	})
	switch {
	case undecided != "":
		c.Undecided(f.Pos(), fn, sp.construct, undecided)
	case mismatch != "":
		c.Bad(f.Pos(), fn, sp.construct, mismatch)
	default:
		c.OK(f.Pos(), fn, sp.construct, fmt.Sprintf("agrees with the definition (%s) on all %d models (every weak ordering of the compared terms x truth values of the atoms)", sp.what, models))
	}
}

func modelString(m *Model) string {
	var ks []string
	for k, v := range m.Num {
		ks = append(ks, fmt.Sprintf("%s=%v", k, v))
	}
	for k, v := range m.Bool {
		ks = append(ks, fmt.Sprintf("%s=%v", k, v))
	}
	sort.Strings(ks)
	return "{" + strings.Join(ks, " ") + "}"
}

func sqrtf(f float64) float64 { return math.Sqrt(f) }
func nan() float64            { return math.NaN() }

// sliceContents renders a full slice of a local array whose elements were all
// stored as constants: ["a"|"b"].
func (it *k4interp) sliceContents(fr *k4frame, x *ssa.Slice) (string, bool) {
	al, ok := x.X.(*ssa.Alloc)
	if !ok || x.Low != nil || x.High != nil {
		return "", false
	}
	base := fmt.Sprintf("L%d:%s", fr.id, al.Name())
	var parts []string
	for i := 0; i < 64; i++ {
		v, ok := it.mem[fmt.Sprintf("%s[%d]", base, i)]
		if !ok {
			break
		}
		parts = append(parts, v.String())
	}
	if len(parts) == 0 {
		return "", false
	}
	return "[" + strings.Join(parts, "|") + "]", true
}

var boolT types.Type = types.Typ[types.Bool]

func (it *k4interp) onStack(f *ssa.Function) bool {
	for _, g := range it.stack {
		if g == f {
			return true
		}
	}
	return false
}

func (it *k4interp) hasSubEntries(k string) bool {
	for mk := range it.mem {
		if strings.HasPrefix(mk, k+".") || strings.HasPrefix(mk, k+"[") {
			return true
		}
	}
	return false
}

// isAppendedElemKey: "M<digits>[<digits>]." — a field of an element of a backing array
// created by the interpreter itself
func isAppendedElemKey(k string) bool {
	if len(k) < 6 || k[0] != 'M' {
		return false
	}
	i := 1
	for i < len(k) && k[i] >= '0' && k[i] <= '9' {
		i++
	}
	if i == 1 || i >= len(k) || k[i] != '[' {
		return false
	}
	j := i + 1
	for j < len(k) && k[j] >= '0' && k[j] <= '9' {
		j++
	}
	return j > i+1 && j+1 < len(k) && k[j] == ']' && k[j+1] == '.'
}

// isSnapshotKey: "S<digits>." or "S<digits>[" — a sub-entry of a snapshot of a local aggregate
func isSnapshotKey(k string) bool {
	if len(k) < 3 || k[0] != 'S' {
		return false
	}
	i := 1
	for i < len(k) && k[i] >= '0' && k[i] <= '9' {
		i++
	}
	return i > 1 && i < len(k) && (k[i] == '.' || k[i] == '[')
}

// isFreshErrorTerm: the opaque term is the result of a standard error
// constructor, which never returns nil.
func isFreshErrorTerm(s string) bool {
	return strings.HasPrefix(s, "fmt.Errorf(") || strings.HasPrefix(s, "errors.New(")
}

// globalInitValue: the constant that the package initialiser stores at the
// given path of a package-level variable ("global:name[3]", "global:name.f"),
// provided no other function of the repository stores into that variable.
var globalInitMemo = map[*Program]map[string]k4val{}

func globalInitValue(p *Program, key string) (k4val, bool) {
	tab, ok := globalInitMemo[p]
	if !ok {
		tab = map[string]k4val{}
		written := map[string]bool{} // globals stored to outside init
		var pathOf func(a ssa.Value, d int) (string, *ssa.Global)
		pathOf = func(a ssa.Value, d int) (string, *ssa.Global) {
			if d > 5 {
				return "", nil
			}
			switch x := a.(type) {
			case *ssa.Global:
				return "global:" + x.Name(), x
			case *ssa.IndexAddr:
				b, g := pathOf(x.X, d+1)
				if k, isC := constInt(x.Index); isC && g != nil {
					return fmt.Sprintf("%s[%d]", b, k), g
				}
				return "", g
			case *ssa.FieldAddr:
				b, g := pathOf(x.X, d+1)
				if g != nil && b != "" {
					return b + "." + fieldName(x.X.Type(), x.Field), g
				}
				return "", g
			}
			return "", nil
		}
		for _, f := range p.Funcs {
			if !p.InRepo(f) {
				continue
			}
			isInit := f.Name() == "init" || strings.HasPrefix(f.Name(), "init#")
			eachInstr(f, func(in ssa.Instruction) {
				st, ok := in.(*ssa.Store)
				if !ok {
					return
				}
				path, g := pathOf(st.Addr, 0)
				if g == nil {
					return
				}
				if !isInit {
					written["global:"+g.Name()] = true
					return
				}
				cst, ok := st.Val.(*ssa.Const)
				if !ok || path == "" || cst.Value == nil {
					return
				}
				switch {
				case isBoolT(cst.Type()):
					tab[path] = k4val{kind: 1, b: cst.Value.String() == "true"}
				case isNumeric(cst.Type()):
					if fv, ok := constantFloat(cst); ok {
						tab[path] = k4val{kind: 2, f: fv}
					}
				default:
					if sv, ok := constString(cst); ok {
						tab[path] = k4val{kind: 4, s: sv}
					}
				}
			})
		}
		for k := range tab {
			root := k
			if i := strings.IndexAny(k[len("global:"):], ".["); i >= 0 {
				root = k[:len("global:")+i]
			}
			if written[root] {
				delete(tab, k)
			}
		}
		globalInitMemo[p] = tab
	}
	v, ok := tab[key]
	return v, ok
}
