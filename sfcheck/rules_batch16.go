package main

import (
	"fmt"
	"go/token"
	"go/types"
	"strings"

	"golang.org/x/tools/go/ssa"
)

// ---------------------------------------------------------------------------
// C18.sides: in an element relation eq(i, j), i indexes the first operand and
// j the second
// ---------------------------------------------------------------------------

func init() {
	register(&Rule{
		ID:    "C18.sides",
		Props: []string{"C18"},
		Doc:   "the element relation handed to structureEq is eq(i, j) = member i of the first operand equals member j of the second: inside the function literal (and the literals nested in it) the first index is only ever used with values derived from the first operand and the second index with values derived from the second — an index applied to the other side's accessor, cache or member list compares the wrong pair as soon as IgnoreOrder permutes the members",
		Floor: 2,
		Run:   runC18Sides,
	})
	register(&Rule{
		ID:    "C06.jsonnull",
		Props: []string{"C06", "C20"},
		Doc:   "a JSON null can stand wherever encoding/json fills a pointer: for every struct type that geom hands to json.Unmarshal, pointers reachable through its fields (pointer fields, slices or maps of pointers) are nil for `null`, so a function that receives such a pointer dereferences it only under a nil test (or the decoder keeps values, as it does today) — otherwise a document with a null member panics instead of being rejected",
		Floor: 0,
		Run:   runC06JSONNull,
	})
	register(&Rule{
		ID:    "C10.pooled",
		Props: []string{"C10", "C04", "C05", "C06", "C07"},
		Doc:   "memory handed to a caller is not shared scratch space: no function of geom / rtree / carto returns (or stores into a returned value) a slice or string header obtained from a buffer that came out of a sync.Pool or a package-level variable — the bytes returned by an encoder would be overwritten by the next call that reuses the buffer",
		Floor: 0,
		Run:   runC10Pooled,
	})
}

// derivesFrom: v is computed from a value satisfying src — through calls
// (arguments, the called function value and the variables its literal
// captured), loads of local cells, captured variables, phis, conversions.
func computedFrom(v ssa.Value, src func(ssa.Value) bool, stop ...func(ssa.Value) bool) bool {
	seen := map[ssa.Value]bool{}
	var rec func(v ssa.Value, d int) bool
	rec = func(v ssa.Value, d int) bool {
		if v == nil || d > 14 {
			return false
		}
		if src(v) {
			return true
		}
		if seen[v] {
			return false
		}
		seen[v] = true
		for _, st := range stop {
			if st(v) {
				return false
			}
		}
		switch x := v.(type) {
		case *ssa.Call:
			for _, a := range x.Call.Args {
				if rec(a, d+1) {
					return true
				}
			}
			return rec(x.Call.Value, d+1)
		case *ssa.MakeClosure:
			for _, b := range x.Bindings {
				if rec(b, d+1) {
					return true
				}
			}
		case *ssa.FreeVar:
			fn := x.Parent()
			if mc, ok := makeClosureOf(fn).(*ssa.MakeClosure); ok {
				for i, fv := range fn.FreeVars {
					if fv == x && i < len(mc.Bindings) {
						return rec(mc.Bindings[i], d+1)
					}
				}
			}
		case *ssa.Alloc:
			for _, r := range *x.Referrers() {
				if st, ok := r.(*ssa.Store); ok && st.Addr == ssa.Value(x) && rec(st.Val, d+1) {
					return true
				}
			}
		case *ssa.UnOp:
			return rec(x.X, d+1)
		case *ssa.BinOp:
			return rec(x.X, d+1) || rec(x.Y, d+1)
		case *ssa.Extract:
			return rec(x.Tuple, d+1)
		case *ssa.ChangeType:
			return rec(x.X, d+1)
		case *ssa.Convert:
			return rec(x.X, d+1)
		case *ssa.MakeInterface:
			return rec(x.X, d+1)
		case *ssa.TypeAssert:
			return rec(x.X, d+1)
		case *ssa.FieldAddr:
			return rec(x.X, d+1)
		case *ssa.Field:
			return rec(x.X, d+1)
		case *ssa.IndexAddr:
			return rec(x.X, d+1)
		case *ssa.Index:
			return rec(x.X, d+1)
		case *ssa.Slice:
			return rec(x.X, d+1)
		case *ssa.Phi:
			for _, e := range x.Edges {
				if rec(e, d+1) {
					return true
				}
			}
		}
		return false
	}
	return rec(v, 0)
}

func runC18Sides(c *Ctx) {
	seq := c.P.Func("geom.(exactEqualsComparator).structureEq")
	if seq == nil {
		c.Errorf("anchor geom.(exactEqualsComparator).structureEq does not resolve")
		return
	}
	n := 0
	for _, f := range c.P.Funcs {
		if pkgOf(f) != "geom" || f.Parent() != nil {
			continue
		}
		for _, call := range callsTo(f, FuncName(seq)) {
			args := call.Common().Args
			rel := closureOf(args[len(args)-1])
			if rel == nil || len(rel.Params) != 2 || rel.Parent() != f {
				continue
			}
			// the two operands: the last two parameters of the enclosing function
			if len(f.Params) < 2 {
				continue
			}
			opA, opB := f.Params[len(f.Params)-2], f.Params[len(f.Params)-1]
			if !types.Identical(opA.Type(), opB.Type()) {
				continue
			}
			n++
			fn := FuncName(f)
			isParam := func(p *ssa.Parameter) func(ssa.Value) bool {
				return func(v ssa.Value) bool { return v == ssa.Value(p) }
			}
			problem := ""
			uses := 0
			var scan func(g *ssa.Function)
			scan = func(g *ssa.Function) {
				eachCall(g, func(ci ssa.CallInstruction) {
					cc := ci.Common()
					for k, idx := range []*ssa.Parameter{rel.Params[0], rel.Params[1]} {
						own, other := opA, opB
						if k == 1 {
							own, other = opB, opA
						}
						usesIdx := false
						var rest []ssa.Value
						for _, a := range cc.Args {
							if computedFrom(a, isParam(idx)) && isIntegerT(a.Type()) {
								usesIdx = true
							} else {
								rest = append(rest, a)
							}
						}
						if !usesIdx {
							continue
						}
						rest = append(rest, cc.Value)
						onOwn, onOther := false, false
						for _, r := range rest {
							// counts and flags say nothing about which side a value belongs to
							scalar := func(v ssa.Value) bool { return isIntegerT(v.Type()) || isBoolT(v.Type()) }
							if computedFrom(r, isParam(own), scalar) {
								onOwn = true
							}
							if computedFrom(r, isParam(other), scalar) {
								onOther = true
							}
						}
						uses++
						if onOther && !onOwn {
							problem = fmt.Sprintf("at %s the %s index of the element relation is applied to something derived from the %s operand (%s): the pair compared is not (member i of the first, member j of the second)", c.P.Pos(ci.Pos()), []string{"first", "second"}[k], []string{"second", "first"}[k], other.Name())
						}
					}
				})
				for _, a := range g.AnonFuncs {
					scan(a)
				}
			}
			scan(rel)
			construct := "index/operand pairing in the element relation"
			switch {
			case problem != "":
				c.Bad(call.Pos(), fn, construct, problem)
			case uses == 0:
				c.Triv(call.Pos(), fn, construct, "the relation applies its indexes to neither operand directly")
			default:
				c.OK(call.Pos(), fn, construct, fmt.Sprintf("%d indexed uses: first index only with %s, second only with %s", uses, opA.Name(), opB.Name()))
			}
		}
	}
	if n < 2 {
		c.Errorf("only %d element relations handed to structureEq found", n)
	}
}

func isIntegerT(t types.Type) bool {
	b, ok := t.Underlying().(*types.Basic)
	return ok && b.Info()&types.IsInteger != 0
}

// ---------------------------------------------------------------------------
// C06.jsonnull
// ---------------------------------------------------------------------------

func runC06JSONNull(c *Ctx) {
	// struct types handed to json.Unmarshal in geom, and the pointer types reachable through their fields
	ptrTargets := map[string]bool{}
	var walk func(t types.Type, viaPtr bool, seen map[types.Type]bool)
	walk = func(t types.Type, viaPtr bool, seen map[types.Type]bool) {
		if seen[t] {
			return
		}
		seen[t] = true
		switch u := t.(type) {
		case *types.Named:
			if viaPtr {
				ptrTargets[u.String()] = true
			}
			walk(u.Underlying(), false, seen)
		case *types.Pointer:
			walk(u.Elem(), true, seen)
		case *types.Slice:
			walk(u.Elem(), false, seen)
		case *types.Array:
			walk(u.Elem(), false, seen)
		case *types.Map:
			walk(u.Elem(), false, seen)
		case *types.Struct:
			for i := 0; i < u.NumFields(); i++ {
				walk(u.Field(i).Type(), false, seen)
			}
		}
	}
	roots := 0
	for _, f := range c.P.Funcs {
		if pkgOf(f) != "geom" {
			continue
		}
		for _, call := range callsTo(f, "encoding/json.Unmarshal") {
			dst := call.Common().Args[1]
			if mi, ok := dst.(*ssa.MakeInterface); ok {
				dst = mi.X
			}
			pt, ok := dst.Type().Underlying().(*types.Pointer)
			if !ok {
				continue
			}
			if nt, ok := pt.Elem().(*types.Named); ok && nt.Obj().Pkg() != nil && nt.Obj().Pkg().Name() == "geom" {
				if _, isStruct := nt.Underlying().(*types.Struct); isStruct {
					roots++
					walk(nt.Underlying(), false, map[types.Type]bool{})
				}
			}
		}
	}
	if roots == 0 {
		c.Errorf("no struct type of geom is handed to json.Unmarshal")
		return
	}
	n := 0
	for _, f := range c.P.Funcs {
		if pkgOf(f) != "geom" {
			continue
		}
		fn := FuncName(f)
		// values of a nullable pointer type that are not provably non-nil: parameters, elements, fields
		eachInstr(f, func(in ssa.Instruction) {
			var base ssa.Value
			switch x := in.(type) {
			case *ssa.FieldAddr:
				base = x.X
			default:
				return
			}
			pt, ok := base.Type().(*types.Pointer)
			if !ok {
				return
			}
			nt, ok := pt.Elem().(*types.Named)
			if !ok || !ptrTargets[nt.String()] {
				return
			}
			// where does the pointer come from? only parameters and loads of elements/fields are nullable
			nullable := false
			switch b := base.(type) {
			case *ssa.Parameter:
				nullable = f.Signature.Recv() == nil || b != f.Params[0]
			case *ssa.UnOp:
				if b.Op == token.MUL {
					switch b.X.(type) {
					case *ssa.IndexAddr, *ssa.FieldAddr:
						nullable = true
					}
				}
			case *ssa.Extract, *ssa.Lookup:
				nullable = true
			}
			if !nullable {
				return
			}
			n++
			guarded := false
			for _, g := range guardsAt(in) {
				for _, e := range expandGuard(g) {
					bo, ok := e.Cond.(*ssa.BinOp)
					if !ok {
						continue
					}
					for _, pr := range [][2]ssa.Value{{bo.X, bo.Y}, {bo.Y, bo.X}} {
						if (pr[0] == base || sameValue(pr[0], base)) && isNilConst(pr[1]) {
							if (bo.Op == token.NEQ && e.Truth) || (bo.Op == token.EQL && !e.Truth) {
								guarded = true
							}
						}
					}
				}
			}
			vs, _ := accessPath(base)
			c.Check(guarded, in.Pos(), fn, "dereference of "+trunc(vs)+" (*"+nt.Obj().Name()+", filled by encoding/json)", "under a nil test", "a pointer that encoding/json leaves nil for a JSON null is dereferenced without a nil test: a document with a null in that place panics (nil pointer dereference) instead of being rejected with an error")
		})
	}
	if n == 0 {
		c.OK(token.NoPos, "-", "pointers filled by encoding/json", fmt.Sprintf("%d struct types of geom are handed to json.Unmarshal; no function dereferences a pointer reachable through their fields (the decoder keeps values, %d pointer target types)", roots, len(ptrTargets)))
	}
}

// ---------------------------------------------------------------------------
// C10.pooled
// ---------------------------------------------------------------------------

func runC10Pooled(c *Ctx) {
	isScratch := func(v ssa.Value) bool {
		switch x := v.(type) {
		case *ssa.Call:
			if calleeName(x) == "(*sync.Pool).Get" || calleeName(x) == "sync.(*Pool).Get" {
				return true
			}
		case *ssa.Global:
			// a package-level buffer (not a constant table: only byte buffers and slices of bytes)
			t := x.Type().(*types.Pointer).Elem()
			if strings.HasSuffix(t.String(), "bytes.Buffer") || strings.HasSuffix(t.String(), "strings.Builder") {
				return true
			}
			if st, ok := t.Underlying().(*types.Slice); ok {
				if b, ok := st.Elem().Underlying().(*types.Basic); ok && b.Kind() == types.Uint8 {
					return x.Pkg != nil && (x.Pkg.Pkg.Name() == "geom" || x.Pkg.Pkg.Name() == "rtree" || x.Pkg.Pkg.Name() == "carto") && !strings.HasPrefix(x.Name(), "init$")
				}
			}
		}
		return false
	}
	n := 0
	for _, f := range c.P.Funcs {
		pk := pkgOf(f)
		if pk != "geom" && pk != "rtree" && pk != "carto" {
			continue
		}
		fn := FuncName(f)
		for _, r := range returnsOf(f) {
			for i, v := range r.Results {
				if !isSliceType(v.Type()) {
					continue
				}
				st := v.Type().Underlying().(*types.Slice)
				if b, ok := st.Elem().Underlying().(*types.Basic); !ok || b.Kind() != types.Uint8 {
					continue
				}
				n++
				// a copy (append to nil / make+copy) does not derive from the buffer in this sense:
				// derivesFrom follows calls through their arguments, so stop at the copying builtins
				shared := derivesFromNoCopy(v, isScratch)
				if shared {
					c.Bad(r.Pos(), fn, fmt.Sprintf("returned byte slice (result %d)", i), "the bytes returned come from a buffer taken out of a sync.Pool or a package-level buffer, without a copy: the next call that reuses the buffer overwrites what this caller still holds")
				}
			}
		}
	}
	c.OK(token.NoPos, "-", "byte slices returned", fmt.Sprintf("none of the %d returned byte slices derives from a pooled or package-level buffer", n))
}

// derivesFromNoCopy is derivesFrom, except that the result of append(nil-or-fresh, x...)
// and of string conversions is a copy.
func derivesFromNoCopy(v ssa.Value, src func(ssa.Value) bool) bool {
	seen := map[ssa.Value]bool{}
	var rec func(v ssa.Value, d int) bool
	rec = func(v ssa.Value, d int) bool {
		if v == nil || d > 12 || seen[v] {
			return false
		}
		if src(v) {
			return true
		}
		seen[v] = true
		switch x := v.(type) {
		case *ssa.Call:
			if b, ok := x.Call.Value.(*ssa.Builtin); ok {
				if b.Name() == "append" {
					return rec(x.Call.Args[0], d+1) // the appended elements are copied
				}
				return false
			}
			// a method of the buffer (Bytes, Next, …) or a function applied to it
			for _, a := range x.Call.Args {
				if isSliceType(a.Type()) || isPointerT(a.Type()) {
					if rec(a, d+1) {
						return true
					}
				}
			}
			return false
		case *ssa.TypeAssert:
			return rec(x.X, d+1)
		case *ssa.Extract:
			return rec(x.Tuple, d+1)
		case *ssa.ChangeType:
			return rec(x.X, d+1)
		case *ssa.Slice:
			return rec(x.X, d+1)
		case *ssa.UnOp:
			if x.Op == token.MUL {
				if a, ok := x.X.(*ssa.Alloc); ok {
					for _, r := range *a.Referrers() {
						if st, ok := r.(*ssa.Store); ok && st.Addr == ssa.Value(a) && rec(st.Val, d+1) {
							return true
						}
					}
					return false
				}
			}
			return rec(x.X, d+1)
		case *ssa.FieldAddr:
			return rec(x.X, d+1)
		case *ssa.Phi:
			for _, e := range x.Edges {
				if rec(e, d+1) {
					return true
				}
			}
		}
		return false
	}
	return rec(v, 0)
}

func isPointerT(t types.Type) bool {
	_, ok := t.Underlying().(*types.Pointer)
	return ok
}

// ---------------------------------------------------------------------------
// C15.gcdim: Dimension / IsEmpty of a collection fold over its direct members
// ---------------------------------------------------------------------------

func init() {
	register(&Rule{
		ID:    "C15.gcdim",
		Props: []string{"C15", "C20"},
		Doc:   "GeometryCollection.Dimension and IsEmpty agree with the structure: interpreted on modelled member lists of length 0..3, Dimension is the maximum of the direct members' Dimension() — empty members included, so MULTIPOLYGON EMPTY inside a collection still counts as areal — and 0 for no members; IsEmpty is true exactly when every direct member is empty",
		Floor: 2,
		Run:   runC15GCDim,
	})
}

func runC15GCDim(c *Ctx) {
	fd := c.P.Func("geom.(GeometryCollection).Dimension")
	fe := c.P.Func("geom.(GeometryCollection).IsEmpty")
	if fd == nil || fe == nil {
		c.Errorf("anchors GeometryCollection.Dimension / IsEmpty do not resolve")
		return
	}
	inl := func(g *ssa.Function) bool {
		switch FuncName(g) {
		case "geom.maxInt", "geom.(GeometryCollection).NumGeometries", "geom.(GeometryCollection).GeometryN":
			return true
		}
		return false
	}
	for _, f := range []*ssa.Function{fd, fe} {
		problem, undec := "", ""
		models := 0
		for n := 0; n <= 3 && problem == "" && undec == ""; n++ {
			total := 1
			for i := 0; i < n; i++ {
				total *= 6
			}
			for code := 0; code < total && problem == "" && undec == ""; code++ {
				dims := make([]int, n)
				empt := make([]bool, n)
				cc := code
				for i := 0; i < n; i++ {
					dims[i] = cc % 3
					empt[i] = (cc/3)%2 == 1
					cc /= 6
				}
				models++
				m := &Model{Num: map[string]float64{}, Bool: map[string]bool{}, Missing: map[string]bool{}}
				it := &k4interp{p: c.P, m: m, mem: map[string]k4val{}, inline: inl}
				it.mem["$0.geoms"] = k4val{kind: 8, s: "G", ln: n, cp: n}
				for i := 0; i < n; i++ {
					it.mem[fmt.Sprintf("G[%d]", i)] = k4val{kind: 3, s: fmt.Sprintf("G[%d]", i)}
				}
				it.answer = func(key string, isBool bool) (k4val, bool) {
					for i := 0; i < n; i++ {
						el := fmt.Sprintf("(G[%d])", i)
						switch {
						case !isBool && key == "geom.(Geometry).Dimension"+el:
							return k4val{kind: 2, f: float64(dims[i])}, true
						case isBool && key == "geom.(Geometry).IsEmpty"+el:
							return k4val{kind: 1, b: empt[i]}, true
						}
					}
					return k4val{}, false
				}
				res, err := it.call(f, []k4val{{kind: 3, s: "$0"}}, nil)
				if err != nil || len(res) != 1 {
					undec = fmt.Sprintf("%v %s", err, missingList(m))
					break
				}
				desc := fmt.Sprintf("members (dimension, empty) = %v %v", dims, empt)
				if f == fd {
					want := 0
					for _, d := range dims {
						if d > want {
							want = d
						}
					}
					if res[0].kind != 2 || int(res[0].f) != want {
						problem = fmt.Sprintf("for %s Dimension returns %s; the maximum over the direct members (empty ones included) is %d", desc, res[0], want)
					}
				} else {
					want := true
					for _, e := range empt {
						if !e {
							want = false
						}
					}
					if res[0].kind != 1 || res[0].b != want {
						problem = fmt.Sprintf("for %s IsEmpty returns %s, expected %v", desc, res[0], want)
					}
				}
			}
		}
		construct := "fold over the direct members"
		reportK4(c, f, construct, undec, problem, fmt.Sprintf("agrees with the definition in all %d models of 0..3 members", models))
	}
}

// ---------------------------------------------------------------------------
// C05.keywordtable: a table of WKT geometry keywords names all seven types
// ---------------------------------------------------------------------------

func init() {
	register(&Rule{
		ID:    "C05.keywordtable",
		Props: []string{"C05", "C20"},
		Doc:   "sibling tables agree on the set of geometry types: every table (array, slice or map literal, local or package-level) in geom that holds four or more of the seven WKT geometry keywords (in any letter case) holds all seven — a keyword table that forgets one type makes the parser or writer treat that type differently from its six siblings (e.g. case-insensitive matching for all but GEOMETRYCOLLECTION)",
		Floor: 0,
		Run:   runC05KeywordTable,
	})
}

func runC05KeywordTable(c *Ctx) {
	all := []string{"POINT", "LINESTRING", "POLYGON", "MULTIPOINT", "MULTILINESTRING", "MULTIPOLYGON", "GEOMETRYCOLLECTION"}
	isKW := map[string]bool{}
	for _, k := range all {
		isKW[k] = true
	}
	type group struct {
		pos  token.Pos
		fn   string
		have map[string]bool
	}
	groups := map[ssa.Value]*group{}
	add := func(base ssa.Value, s string, pos token.Pos, fn string) {
		u := strings.ToUpper(strings.TrimSpace(s))
		if !isKW[u] {
			return
		}
		g := groups[base]
		if g == nil {
			g = &group{pos: pos, fn: fn, have: map[string]bool{}}
			groups[base] = g
		}
		g.have[u] = true
	}
	for _, f := range c.P.Funcs {
		if pkgOf(f) != "geom" {
			continue
		}
		fn := FuncName(f)
		eachInstr(f, func(in ssa.Instruction) {
			switch x := in.(type) {
			case *ssa.Store:
				s, ok := constString(x.Val)
				if !ok {
					return
				}
				addr := x.Addr
				// element of an array / slice literal, possibly a field of a struct element
				for i := 0; i < 3; i++ {
					switch a := addr.(type) {
					case *ssa.FieldAddr:
						addr = a.X
						continue
					case *ssa.IndexAddr:
						add(a.X, s, x.Pos(), fn)
					}
					break
				}
			case *ssa.MapUpdate:
				if s, ok := constString(x.Key); ok {
					add(x.Map, s, x.Pos(), fn)
				}
				if s, ok := constString(x.Value); ok {
					add(x.Map, s, x.Pos(), fn)
				}
			}
		})
	}
	n := 0
	for _, g := range groups {
		if len(g.have) < 4 {
			continue // the three single types, or the three Multi types, form tables of their own
		}
		n++
		var missing []string
		for _, k := range all {
			if !g.have[k] {
				missing = append(missing, k)
			}
		}
		c.Check(len(missing) == 0, g.pos, g.fn, "table of geometry keywords", "names all seven geometry types", "a table that names "+fmt.Sprint(len(g.have))+" of the seven geometry keywords lacks "+strings.Join(missing, ", ")+": that type is handled differently from its siblings wherever the table is consulted")
	}
	c.Triv(token.NoPos, "-", "summary", fmt.Sprintf("%d keyword tables examined", n))
}

// ---------------------------------------------------------------------------
// C20.truncated: a scan bounded both by a length and by a constant
// ---------------------------------------------------------------------------

func init() {
	register(&Rule{
		ID:    "C20.truncated",
		Props: []string{"C20", "C03", "C09"},
		Doc:   "a scan over the control points / members of a geometry is not cut short by a constant: no counting loop in geom leaves both when its counter reaches a length (len(x), Length(), NumX()) and when it reaches a constant — `for k := 0; k < 2 && k < seq.Length(); k++` looks at the first two elements only, which is right for the inputs the author had in mind (no repeated points, rings that touch once) and wrong for the others",
		Floor: 0,
		Run:   runC20Truncated,
	})
}

func runC20Truncated(c *Ctx) {
	n := 0
	isLengthCall := func(v ssa.Value) bool {
		call, ok := stripConv(v).(*ssa.Call)
		if !ok {
			return false
		}
		if b, ok := call.Call.Value.(*ssa.Builtin); ok {
			return b.Name() == "len"
		}
		name := calleeName(call)
		short := name[strings.LastIndex(name, ".")+1:]
		return short == "Length" || (strings.HasPrefix(short, "Num") && len(call.Call.Args) == 1)
	}
	for _, f := range c.P.Funcs {
		if pkgOf(f) != "geom" {
			continue
		}
		for _, cl := range countingLoops(f) {
			if cl.phi == nil {
				continue
			}
			n++
			var constExit, lenExit token.Pos
			var kconst int64
			for b := range cl.loop {
				ifi, ok := b.Instrs[len(b.Instrs)-1].(*ssa.If)
				if !ok {
					continue
				}
				bo, ok := ifi.Cond.(*ssa.BinOp)
				if !ok || stripConv(bo.X) != ssa.Value(cl.phi) || (bo.Op != token.LSS && bo.Op != token.LEQ) {
					continue
				}
				// the false edge leaves the loop
				if cl.loop[b.Succs[1]] {
					continue
				}
				if k, ok := constInt(stripConv(bo.Y)); ok {
					constExit, kconst = ifi.Pos(), k
					if constExit == token.NoPos {
						constExit = bo.Pos()
					}
				} else if isLengthCall(bo.Y) {
					lenExit = bo.Pos()
				}
			}
			if constExit != token.NoPos && lenExit != token.NoPos {
				c.Bad(constExit, FuncName(f), "scan bounded by a length and by a constant", fmt.Sprintf("the loop stops at element %d even when the sequence is longer (the other exit, at %s, is the end of the sequence): elements beyond the constant are never looked at", kconst, c.P.Pos(lenExit)))
			}
		}
	}
	c.Triv(token.NoPos, "-", "summary", fmt.Sprintf("%d counting loops examined for a second, constant exit", n))
}

// ---------------------------------------------------------------------------
// C19.setter: a configuration setter takes effect on every path
// ---------------------------------------------------------------------------

func init() {
	register(&Rule{
		ID:    "C19.setter",
		Props: []string{"C19"},
		Doc:   "a configuration setter of a projection (exported Set* method in carto) takes effect for every argument: each of its parameters is stored into the receiver (directly or as a function of it) by a store that every return of the method is dominated by — a guard that silently drops some arguments (`if |lat1| == |lat2| { return }`) leaves the previous configuration in force, and Forward/Reverse then agree with each other but not with what the caller asked for",
		Floor: 6,
		Run:   runC19Setter,
	})
}

func runC19Setter(c *Ctx) {
	n := 0
	for _, f := range c.P.Funcs {
		if pkgOf(f) != "carto" || f.Parent() != nil || f.Signature.Recv() == nil || !strings.HasPrefix(f.Name(), "Set") || len(f.Params) < 2 {
			continue
		}
		recv := f.Params[0]
		fn := FuncName(f)
		group := withNewHelpers(f)
		for _, par := range f.Params[1:] {
			n++
			stored := false
			for _, g := range group {
				eachInstr(g, func(in ssa.Instruction) {
					st, ok := in.(*ssa.Store)
					if !ok {
						return
					}
					if g == f && !computedFrom(st.Addr, func(v ssa.Value) bool { return v == ssa.Value(recv) }) {
						return
					}
					if g != f {
						// a helper: its stores count when it is called on every path (checked below through the call)
						return
					}
					if !computedFrom(st.Val, func(v ssa.Value) bool { return v == ssa.Value(par) }) {
						return
					}
					dominatesAll := true
					for _, r := range returnsOf(f) {
						if !st.Block().Dominates(r.Block()) {
							dominatesAll = false
						}
					}
					if dominatesAll {
						stored = true
					}
				})
			}
			// or handed, together with the receiver, to a call that dominates every return (a helper or another setter)
			eachCall(f, func(ci ssa.CallInstruction) {
				cc := ci.Common()
				hasRecv, hasPar := false, false
				for _, a := range cc.Args {
					if b, _ := baseObject(a); b == ssa.Value(recv) || a == ssa.Value(recv) {
						hasRecv = true
					}
					if computedFrom(a, func(v ssa.Value) bool { return v == ssa.Value(par) }) {
						hasPar = true
					}
				}
				if !hasRecv || !hasPar {
					return
				}
				for _, r := range returnsOf(f) {
					if !ci.Block().Dominates(r.Block()) {
						return
					}
				}
				stored = true
			})
			c.Check(stored, f.Pos(), fn, "parameter "+par.Name()+" takes effect", "stored into the receiver on every path", "the setter has a path on which parameter "+par.Name()+" is not stored into the projection: for those arguments the call is silently ignored and the previous configuration stays in force")
		}
	}
	if n < 6 {
		c.Errorf("only %d setter parameters found in carto", n)
	}
}

// ---------------------------------------------------------------------------
// C05.appendmulti: append-style helpers with several accumulators
// ---------------------------------------------------------------------------

func init() {
	register(&Rule{
		ID:    "C05.appendmulti",
		Props: []string{"C05", "C09", "C13", "C10"},
		Doc:   "append-style helpers with several accumulators return all of them: a function with two or more results that, for some result position, has exactly one parameter of the same slice type and on some path returns append(thatParam, …) in that position, returns a value built from that parameter in that position on every path — a `return nil, …` left over from the non-accumulating version silently discards what the caller (an earlier member of the same collection) had accumulated",
		Floor: 0,
		Run:   runC05AppendMulti,
	})
	register(&Rule{
		ID:    "C20.halves",
		Props: []string{"C20", "C01", "C11"},
		Doc:   "a list split in two loses no element: where a function slices one list as x[:m] and as x[m+1:] with the same m (and never reads x[m] on its own), element m belongs to neither part — a recursive halving written that way silently drops one input per split",
		Floor: 0,
		Run:   runC20Halves,
	})
	register(&Rule{
		ID:    "C09.xyonly",
		Props: []string{"C09", "C02", "C16"},
		Doc:   "the 2D predicates compare positions, not coordinate records: in the Intersects and Distance kernels (functions of alg_intersects.go and alg_distance.go) no `==`/`!=` is applied to values of type Coordinates — that comparison includes Z, M and the coordinates type, so two geometries sharing an XY position stop intersecting as soon as their Z/M or coordinate types differ",
		Floor: 0,
		Run:   runC09XYOnly,
	})
}

func runC05AppendMulti(c *Ctx) {
	n := 0
	for _, f := range c.P.Funcs {
		if !c.P.InRepo(f) || len(f.Blocks) == 0 || f.Signature.Results().Len() < 2 {
			continue
		}
		res := f.Signature.Results()
		for ri := 0; ri < res.Len(); ri++ {
			rt := res.At(ri).Type()
			if _, ok := rt.Underlying().(*types.Slice); !ok {
				continue
			}
			pi := -1
			cnt := 0
			for i, p := range f.Params {
				if types.Identical(p.Type(), rt) {
					pi = i
					cnt++
				}
			}
			if cnt != 1 {
				continue
			}
			par := f.Params[pi]
			var derived func(v ssa.Value, d int, seen map[ssa.Value]bool) bool
			derived = func(v ssa.Value, d int, seen map[ssa.Value]bool) bool {
				if v == ssa.Value(par) {
					return true
				}
				if d > 10 {
					return false
				}
				if seen[v] {
					_, isPhi := v.(*ssa.Phi)
					return isPhi
				}
				seen[v] = true
				switch x := v.(type) {
				case *ssa.Phi:
					for _, e := range x.Edges {
						if !derived(e, d+1, seen) {
							return false
						}
					}
					return len(x.Edges) > 0
				case *ssa.Slice:
					return derived(x.X, d+1, seen)
				case *ssa.Call:
					if b, ok := x.Call.Value.(*ssa.Builtin); ok && b.Name() == "append" {
						return derived(x.Call.Args[0], d+1, seen)
					}
				case *ssa.Extract:
					// the same position of a recursive call that was handed the accumulator
					if call, ok := x.Tuple.(*ssa.Call); ok && staticCallee(call) == f && x.Index == ri && pi < len(call.Call.Args) {
						return derived(call.Call.Args[pi], d+1, seen)
					}
				case *ssa.UnOp:
					if al, ok := x.X.(*ssa.Alloc); ok && x.Op == token.MUL {
						all, any := true, false
						for _, r := range *al.Referrers() {
							if st, ok := r.(*ssa.Store); ok && st.Addr == ssa.Value(al) {
								any = true
								if !derived(st.Val, d+1, seen) {
									all = false
								}
							}
						}
						return any && all
					}
				}
				return false
			}
			// append-style: some return is append(accumulator…, …) (through local cells / phis), not merely a slice of it
			extends := false
			var appended func(v ssa.Value, d int) bool
			appended = func(v ssa.Value, d int) bool {
				if d > 6 {
					return false
				}
				switch x := v.(type) {
				case *ssa.Call:
					if b, ok := x.Call.Value.(*ssa.Builtin); ok && b.Name() == "append" {
						return derived(x.Call.Args[0], 0, map[ssa.Value]bool{})
					}
				case *ssa.Phi:
					for _, e := range x.Edges {
						if appended(e, d+1) {
							return true
						}
					}
				case *ssa.UnOp:
					if al, ok := x.X.(*ssa.Alloc); ok && x.Op == token.MUL {
						for _, r := range *al.Referrers() {
							if st, ok := r.(*ssa.Store); ok && st.Addr == ssa.Value(al) && appended(st.Val, d+1) {
								return true
							}
						}
					}
				}
				return false
			}
			for _, r := range returnsOf(f) {
				if appended(r.Results[ri], 0) {
					extends = true
				}
			}
			if !extends {
				continue
			}
			n++
			bad := ""
			for _, r := range returnsOf(f) {
				if !derived(r.Results[ri], 0, map[ssa.Value]bool{}) && !provablyNonNilErrAny(r) {
					vs, _ := accessPath(r.Results[ri])
					bad = "returns " + trunc(vs) + " in position " + fmt.Sprint(ri) + " at " + c.P.Pos(r.Pos()) + ", which is not built from the accumulator parameter " + par.Name()
				}
			}
			c.Check(bad == "", f.Pos(), FuncName(f), "accumulator "+par.Name()+" handed back", "every return is the accumulator (possibly extended)", bad+": what the caller had accumulated is lost on that path")
		}
	}
	c.Triv(token.NoPos, "-", "summary", fmt.Sprintf("%d accumulators of multi-result append-style functions", n))
}

// provablyNonNilErrAny: the return's last result is an error that is provably non-nil (an error path).
func provablyNonNilErrAny(r *ssa.Return) bool {
	if len(r.Results) == 0 || !isErrorType(r.Results[len(r.Results)-1].Type()) {
		return false
	}
	return provablyNonNilErr(r)
}

func runC20Halves(c *Ctx) {
	n := 0
	for _, f := range c.P.Funcs {
		if !c.P.InRepo(f) {
			continue
		}
		var slices []*ssa.Slice
		eachInstr(f, func(in ssa.Instruction) {
			if sl, ok := in.(*ssa.Slice); ok {
				if _, isSlice := sl.X.Type().Underlying().(*types.Slice); isSlice {
					slices = append(slices, sl)
				}
			}
		})
		for _, lo := range slices {
			if lo.High == nil || lo.Low != nil {
				continue
			}
			for _, hi := range slices {
				if hi.Low == nil || hi.High != nil || !(hi.X == lo.X || sameValue(hi.X, lo.X)) {
					continue
				}
				n++
				// hi.Low == lo.High + 1 ?
				bo, ok := stripConv(hi.Low).(*ssa.BinOp)
				if !ok || bo.Op != token.ADD {
					continue
				}
				k, isC := constInt(bo.Y)
				if !isC || k != 1 || !(bo.X == lo.High || sameValue(bo.X, lo.High)) {
					continue
				}
				// append(x[:m], x[m+1:]...) is the idiom that deletes element m on purpose
				deletion := false
				for _, r := range *lo.Referrers() {
					if call, ok := r.(*ssa.Call); ok {
						if b, isB := call.Call.Value.(*ssa.Builtin); isB && b.Name() == "append" && len(call.Call.Args) == 2 && call.Call.Args[0] == ssa.Value(lo) && call.Call.Args[1] == ssa.Value(hi) {
							deletion = true
						}
					}
				}
				if deletion {
					continue
				}
				// x[m] read on its own?
				own := false
				eachInstr(f, func(in ssa.Instruction) {
					if ia, ok := in.(*ssa.IndexAddr); ok && (ia.X == lo.X || sameValue(ia.X, lo.X)) && (ia.Index == lo.High || sameValue(ia.Index, lo.High)) {
						own = true
					}
				})
				ms, _ := accessPath(lo.High)
				xs, _ := accessPath(lo.X)
				c.Check(own, hi.Pos(), FuncName(f), "split of "+trunc(xs)+" at "+trunc(ms), "the element at the split point is used on its own", "the list is split into "+trunc(xs)+"[:"+trunc(ms)+"] and "+trunc(xs)+"[("+trunc(ms)+")+1:], and element "+trunc(ms)+" is never read on its own: it belongs to neither part and is silently dropped")
			}
		}
	}
	c.Triv(token.NoPos, "-", "summary", fmt.Sprintf("%d prefix/suffix pairs of one list examined", n))
}

func runC09XYOnly(c *Ctx) {
	n := 0
	for _, f := range c.P.Funcs {
		if pkgOf(f) != "geom" {
			continue
		}
		file := c.P.File(f.Pos())
		if !strings.HasSuffix(file, "alg_intersects.go") && !strings.HasSuffix(file, "alg_distance.go") {
			continue
		}
		n++
		eachInstr(f, func(in ssa.Instruction) {
			bo, ok := in.(*ssa.BinOp)
			if !ok || (bo.Op != token.EQL && bo.Op != token.NEQ) {
				return
			}
			if namedName(bo.X.Type()) != "Coordinates" {
				return
			}
			c.Bad(bo.Pos(), FuncName(f), "comparison of Coordinates values", "a 2D predicate compares whole coordinate records (XY, Z, M and the coordinates type) with "+bo.Op.String()+": positions that coincide in XY but differ in Z/M or in coordinates type are taken for different points")
		})
	}
	c.Triv(token.NoPos, "-", "summary", fmt.Sprintf("%d functions of the Intersects/Distance kernels examined", n))
}

// ---------------------------------------------------------------------------
// C07.varintwrite: the TWKB writer's varints are the standard encoding
// ---------------------------------------------------------------------------

func init() {
	register(&Rule{
		ID:    "C07.varintwrite",
		Props: []string{"C07", "C08"},
		Doc:   "what the TWKB writer appends for a count or a delta is the standard base-128 varint: writeUnsignedVarint and writeSignedVarint interpreted (binary.PutUvarint / PutVarint modelled exactly) for values around every byte boundary — 0, 1, 63, 64, 127, 128, 129, 255, 300, 16383, 16384, 2^32 and their negatives — append exactly the bytes of the canonical encoding; a hand-written single-byte fast path with the boundary off by one (`val <= 0x80`) writes a lone continuation byte for 128 and the decoder swallows the next field",
		Floor: 2,
		Run:   runC07VarintWrite,
	})
}

func runC07VarintWrite(c *Ctx) {
	uvarint := func(v uint64) []byte {
		var out []byte
		for v >= 0x80 {
			out = append(out, byte(v)|0x80)
			v >>= 7
		}
		return append(out, byte(v))
	}
	zigzag := func(v int64) uint64 { return uint64(v<<1) ^ uint64(v>>63) }
	vals := []int64{0, 1, 63, 64, 127, 128, 129, 255, 300, 16383, 16384, 1 << 32}
	for _, w := range []struct {
		name   string
		signed bool
	}{{"writeUnsignedVarint", false}, {"writeSignedVarint", true}} {
		f := c.P.Func("geom.(*twkbWriter)." + w.name)
		if f == nil {
			c.Errorf("anchor geom.(*twkbWriter).%s does not resolve", w.name)
			continue
		}
		problem, undec := "", ""
		skipped := 0
		var tests []int64
		for _, v := range vals {
			tests = append(tests, v)
			if w.signed && v != 0 {
				tests = append(tests, -v)
			}
		}
		for _, v := range tests {
			want := uvarint(uint64(v))
			if w.signed {
				want = uvarint(zigzag(v))
			}
			m := &Model{Num: map[string]float64{}, Bool: map[string]bool{}, Missing: map[string]bool{}}
			it := &k4interp{p: c.P, m: m, mem: map[string]k4val{}, inline: func(g *ssa.Function) bool {
				// one writer may be written in terms of the other
				nm := FuncName(g)
				return nm == "geom.(*twkbWriter).writeUnsignedVarint" || nm == "geom.(*twkbWriter).writeSignedVarint" || nm == "geom.encodeZigZagInt64"
			}}
			it.mem["$0.twkbContents"] = k4val{kind: 8, s: "OUT", ln: 0, cp: 0}
			lastN := -1
			it.onOpaque = func(name string, args []k4val) {
				if (name == "encoding/binary.PutUvarint" || name == "encoding/binary.PutVarint") && len(args) == 2 && args[0].kind == 8 && args[1].kind == 2 {
					var enc []byte
					if name == "encoding/binary.PutVarint" {
						enc = uvarint(zigzag(int64(args[1].f)))
					} else {
						enc = uvarint(uint64(args[1].f))
					}
					for i, b := range enc {
						it.mem[fmt.Sprintf("%s[%d]", args[0].s, args[0].off+i)] = k4val{kind: 2, f: float64(b)}
					}
					lastN = len(enc)
				}
			}
			it.answer = func(key string, isBool bool) (k4val, bool) {
				if !isBool && (strings.HasPrefix(key, "encoding/binary.PutUvarint(") || strings.HasPrefix(key, "encoding/binary.PutVarint(")) && lastN >= 0 {
					return k4val{kind: 2, f: float64(lastN)}, true
				}
				return k4val{}, false
			}
			if _, err := it.call(f, []k4val{{kind: 3, s: "$0"}, {kind: 2, f: float64(v)}}, nil); err != nil {
				if v < 0 {
					// two's-complement bit tricks on a negative value (^x, uint64(x) of x < 0) are outside what the
					// interpreter models exactly: negative values are then not judged
					skipped++
					continue
				}
				undec = fmt.Sprintf("value %d: %v %s", v, err, missingList(m))
				break
			}
			out, ok := it.mem["$0.twkbContents"]
			if !ok || out.kind != 8 {
				undec = fmt.Sprintf("value %d: the writer's contents are not a byte list afterwards", v)
				break
			}
			var got []byte
			known := true
			for i := 0; i < out.ln; i++ {
				e, ok := it.mem[fmt.Sprintf("%s[%d]", out.s, out.off+i)]
				if !ok || e.kind != 2 {
					known = false
					break
				}
				got = append(got, byte(int64(e.f)))
			}
			if !known {
				undec = fmt.Sprintf("value %d: a byte appended to the contents is not known", v)
				break
			}
			if fmt.Sprint(got) != fmt.Sprint(want) {
				problem = fmt.Sprintf("for the value %d the writer appends % x; the varint encoding is % x", v, got, want)
				break
			}
		}
		reportK4(c, f, "bytes appended for a value", undec, problem, fmt.Sprintf("the canonical varint for %d values around the byte boundaries (%d negative ones not interpretable, not judged)", len(tests)-skipped, skipped))
	}
}

// ---------------------------------------------------------------------------
// C04.count: the WKB member count is the number of members written
// ---------------------------------------------------------------------------

func init() {
	register(&Rule{
		ID:    "C04.count",
		Props: []string{"C04", "C08"},
		Doc:   "a WKB count announces exactly the members that follow: AppendWKB of Polygon, MultiPoint, MultiLineString, MultiPolygon and GeometryCollection, interpreted on modelled member lists of length 0..3 (any other count the type offers, such as the recursive NumTotalGeometries, is modelled as a different number), hands writeCount the number of direct members and then writes exactly that many members — otherwise the decoder reads past the end or leaves bytes over",
		Floor: 5,
		Run:   runC04Count,
	})
}

func runC04Count(c *Ctx) {
	for _, t := range []struct{ typ, field string }{
		{"Polygon", "rings"}, {"MultiPoint", "points"}, {"MultiLineString", "lines"}, {"MultiPolygon", "polys"}, {"GeometryCollection", "geoms"},
	} {
		f := c.P.Func("geom.(" + t.typ + ").AppendWKB")
		if f == nil {
			c.Errorf("anchor geom.(%s).AppendWKB does not resolve", t.typ)
			continue
		}
		inl := func(g *ssa.Function) bool {
			if g.Signature.Recv() == nil || namedName(g.Signature.Recv().Type()) != t.typ {
				return false
			}
			n := g.Name()
			// the accessors of the direct members (NumPoints/PointN, NumGeometries/GeometryN, …), not the recursive totals
			return (strings.HasPrefix(n, "Num") && !strings.Contains(n, "Total") && n != "NumRings") || (strings.HasSuffix(n, "N") && !strings.HasPrefix(n, "Num")) || n == "CoordinatesType"
		}
		problem, undec := "", ""
		for n := 0; n <= 3 && problem == "" && undec == ""; n++ {
			m := &Model{Num: map[string]float64{"$0.ctype": 0}, Bool: map[string]bool{}, Missing: map[string]bool{}}
			it := &k4interp{p: c.P, m: m, mem: map[string]k4val{}, inline: inl}
			it.mem["$0."+t.field] = k4val{kind: 8, s: "MEM", ln: n, cp: n}
			for i := 0; i < n; i++ {
				it.mem[fmt.Sprintf("MEM[%d]", i)] = k4val{kind: 3, s: fmt.Sprintf("MEM[%d]", i)}
			}
			announced, members := -1.0, 0
			it.onOpaque = func(name string, args []k4val) {
				switch {
				case strings.HasSuffix(name, ").writeCount") && len(args) == 2 && args[1].kind == 2:
					announced = args[1].f
				case strings.HasSuffix(name, ").AppendWKB") || strings.HasSuffix(name, ").writeSequence"):
					members++
				}
			}
			it.answer = func(key string, isBool bool) (k4val, bool) {
				// any other count the type offers is some other number
				if !isBool && strings.Contains(key, ").Num") {
					return k4val{kind: 2, f: float64(n + 5)}, true
				}
				return k4val{}, false
			}
			if _, err := it.call(f, []k4val{{kind: 3, s: "$0"}, {kind: 8, s: "DST", ln: 0, cp: 0}}, nil); err != nil {
				undec = fmt.Sprintf("%d members: %v %s", n, err, missingList(m))
				break
			}
			if announced != float64(n) || members != n {
				problem = fmt.Sprintf("with %d direct members the count written is %v and %d members are written after it", n, announced, members)
			}
		}
		reportK4(c, f, "count and members written", undec, problem, "count = number of direct members = members written, for 0..3 members")
	}
}

// ---------------------------------------------------------------------------
// C12.convert: AsBox and TransformXY
// ---------------------------------------------------------------------------

func init() {
	register(&Rule{
		ID:    "C12.convert",
		Props: []string{"C12"},
		Doc:   "Envelope.AsBox reports ok exactly for non-empty envelopes — degenerate ones (a point, an axis-parallel line) included — with the four bounds copied; Envelope.TransformXY of a non-empty envelope is the per-axis min/max of the two transformed corners (so a transform that flips one axis still gives min <= max on both), and the empty envelope stays empty: both interpreted over every weak ordering of the values involved",
		Floor: 2,
		Run:   runC12Convert,
	})
}

func runC12Convert(c *Ctx) {
	inl := func(g *ssa.Function) bool {
		switch FuncName(g) {
		case "geom.(Envelope).IsEmpty", "geom.fastMin", "geom.fastMax", "geom.(Envelope).MinMaxXYs", "geom.newUncheckedEnvelope", "geom.(Envelope).IsPoint", "geom.(Envelope).IsLine", "geom.(Envelope).IsRectangle",
			"geom.NewEnvelope", "geom.(Envelope).ExpandToIncludeXY", "geom.(Envelope).ExpandToIncludeEnvelope":
			return true
		}
		return false
	}
	if f := c.P.Func("geom.(Envelope).AsBox"); f == nil {
		c.Errorf("anchor geom.(Envelope).AsBox does not resolve")
	} else {
		problem, undec := "", ""
		models := 0
		k4enumerate([]string{"$0.min.X", "$0.min.Y", "$0.max.X", "$0.max.Y"}, []float64{0, 1, 3}, []string{"$0.nonEmpty"}, func(m *Model) bool {
			if !envValid(m) {
				return true
			}
			models++
			m.Missing = map[string]bool{}
			it := &k4interp{p: c.P, m: m, mem: map[string]k4val{}, inline: inl}
			res, err := it.call(f, []k4val{{kind: 3, s: "$0"}}, nil)
			if err != nil || len(res) != 2 || res[1].kind != 1 {
				undec = fmt.Sprintf("%v %v %s", err, res, missingList(m))
				return false
			}
			ne := m.Bool["$0.nonEmpty"]
			if res[1].b != ne {
				problem = fmt.Sprintf("for %s AsBox reports ok=%v; a non-empty envelope (also a point or a line) converts, the empty one does not", modelString(m), res[1].b)
				return false
			}
			if ne {
				for _, fk := range [][2]string{{"MinX", "$0.min.X"}, {"MinY", "$0.min.Y"}, {"MaxX", "$0.max.X"}, {"MaxY", "$0.max.Y"}} {
					v, err := it.lookup(res[0].s+"."+fk[0], types.Typ[types.Float64])
					if err != nil || v.kind != 2 || v.f != m.Num[fk[1]] {
						problem = fmt.Sprintf("for %s the box's %s is %s, expected %v", modelString(m), fk[0], v, m.Num[fk[1]])
						return false
					}
				}
			}
			return true
		})
		reportK4(c, f, "conversion to an rtree box", undec, problem, fmt.Sprintf("ok iff non-empty, bounds copied, in all %d models", models))
	}
	if f := c.P.Func("geom.(Envelope).TransformXY"); f == nil {
		c.Errorf("anchor geom.(Envelope).TransformXY does not resolve")
	} else {
		problem, undec := "", ""
		models := 0
		k4enumerate([]string{"FN1.X", "FN1.Y", "FN2.X", "FN2.Y"}, []float64{0, 1, 2}, []string{"$0.nonEmpty"}, func(m *Model) bool {
			models++
			m.Missing = map[string]bool{}
			for k, v := range map[string]float64{"$0.min.X": 0, "$0.min.Y": 0, "$0.max.X": 1, "$0.max.Y": 1} {
				m.Num[k] = v
			}
			it := &k4interp{p: c.P, m: m, mem: map[string]k4val{}, inline: inl}
			calls := 0
			it.opaqueCall = func(args []k4val) (string, bool) {
				if len(args) == 1 {
					calls++
					return fmt.Sprintf("FN%d", calls), true
				}
				return "", false
			}
			res, err := it.call(f, []k4val{{kind: 3, s: "$0"}, {kind: 3, s: "$fn"}}, nil)
			if err != nil || len(res) != 1 {
				undec = fmt.Sprintf("%v %v %s", err, res, missingList(m))
				return false
			}
			rd := func(k string, t types.Type) (k4val, bool) {
				if res[0].s == "zero" {
					return zeroOf(t), true
				}
				v, err := it.lookup(res[0].s+"."+k, t)
				return v, err == nil
			}
			ne, ok := rd("nonEmpty", boolT)
			if !ok || ne.kind != 1 || ne.b != m.Bool["$0.nonEmpty"] {
				problem = fmt.Sprintf("for %s the transformed envelope's non-empty flag is %s", modelString(m), ne)
				return false
			}
			if !m.Bool["$0.nonEmpty"] {
				return true
			}
			if calls != 2 {
				undec = fmt.Sprintf("the transform is applied %d times, not to the two corners", calls)
				return false
			}
			mn := func(a, b float64) float64 {
				if a < b {
					return a
				}
				return b
			}
			mx := func(a, b float64) float64 {
				if a > b {
					return a
				}
				return b
			}
			want := map[string]float64{
				"min.X": mn(m.Num["FN1.X"], m.Num["FN2.X"]), "min.Y": mn(m.Num["FN1.Y"], m.Num["FN2.Y"]),
				"max.X": mx(m.Num["FN1.X"], m.Num["FN2.X"]), "max.Y": mx(m.Num["FN1.Y"], m.Num["FN2.Y"]),
			}
			for k, w := range want {
				v, ok := rd(k, types.Typ[types.Float64])
				if !ok || v.kind != 2 {
					undec = fmt.Sprintf("the result's %s cannot be read back (%s): the envelope is not built from per-axis minima and maxima in a form this rule can follow", k, v)
					return false
				}
				if v.f != w {
					problem = fmt.Sprintf("with the corners transformed to (%v %v) and (%v %v) the result's %s is %s; the per-axis min/max gives %v (a transform that flips one axis must still yield min <= max)", m.Num["FN1.X"], m.Num["FN1.Y"], m.Num["FN2.X"], m.Num["FN2.Y"], k, v, w)
					return false
				}
			}
			return true
		})
		reportK4(c, f, "transformed envelope", undec, problem, fmt.Sprintf("per-axis min/max of the two transformed corners, in all %d models", models))
	}
}

// ---------------------------------------------------------------------------
// C10.sortless: the comparator of sort.Slice reads the slice being sorted
// ---------------------------------------------------------------------------

func init() {
	register(&Rule{
		ID:    "C10.sortless",
		Props: []string{"C10", "C01", "C13"},
		Doc:   "the comparison function handed to sort.Slice / sort.SliceStable indexes the slice that is being sorted: a less(i, j) that reads only some other slice (a sibling list that sort.Slice does not permute) compares stale positions, so the resulting order depends on the order the elements arrived in — for lists filled from a map, on the iteration order of the map",
		Floor: 5,
		Run:   runC10SortLess,
	})
}

func runC10SortLess(c *Ctx) {
	n := 0
	for _, f := range c.P.Funcs {
		if !c.P.InRepo(f) {
			continue
		}
		eachCall(f, func(ci ssa.CallInstruction) {
			name := calleeName(ci)
			if name != "sort.Slice" && name != "sort.SliceStable" {
				return
			}
			args := ci.Common().Args
			if len(args) != 2 {
				return
			}
			sorted := args[0]
			if mi, ok := sorted.(*ssa.MakeInterface); ok {
				sorted = mi.X
			}
			less := closureOf(args[1])
			if less == nil || len(less.Params) != 2 {
				return
			}
			n++
			sortedPath, _ := accessPath(sorted)
			// the variable a value is loaded from: a local cell, also when seen from a function literal that captured it
			cellOf := func(v ssa.Value) ssa.Value {
				ld, ok := v.(*ssa.UnOp)
				if !ok || ld.Op != token.MUL {
					return nil
				}
				addr := ld.X
				for i := 0; i < 4; i++ {
					fv, ok := addr.(*ssa.FreeVar)
					if !ok {
						break
					}
					fn := fv.Parent()
					mc, ok := makeClosureOf(fn).(*ssa.MakeClosure)
					if !ok {
						return nil
					}
					var bind ssa.Value
					for k, x := range fn.FreeVars {
						if x == fv && k < len(mc.Bindings) {
							bind = mc.Bindings[k]
						}
					}
					if bind == nil {
						return nil
					}
					addr = bind
				}
				if al, ok := addr.(*ssa.Alloc); ok {
					return al
				}
				return nil
			}
			sortedCell := cellOf(sorted)
			isIdx := func(v ssa.Value) bool {
				return computedFrom(v, func(x ssa.Value) bool { return x == ssa.Value(less.Params[0]) || x == ssa.Value(less.Params[1]) })
			}
			var bases []string
			readsSorted := false
			note := func(base ssa.Value, idx ssa.Value) {
				if !isIdx(idx) {
					return
				}
				bs, _ := accessPath(base)
				bases = append(bases, bs)
				if bs == sortedPath || computedFrom(base, func(x ssa.Value) bool { return x == sorted }) {
					readsSorted = true
				}
				if bc := cellOf(base); bc != nil && bc == sortedCell {
					readsSorted = true
				}
			}
			usesIndexes := false
			var scan func(g *ssa.Function)
			scan = func(g *ssa.Function) {
				eachInstr(g, func(in ssa.Instruction) {
					switch x := in.(type) {
					case *ssa.IndexAddr:
						note(x.X, x.Index)
					case *ssa.Index:
						note(x.X, x.Index)
					case ssa.CallInstruction:
						// the indexes handed to an accessor or helper (seq.GetXY(i), lessAt(xs, i, j)): not judged
						for _, a := range x.Common().Args {
							if isIntegerT(a.Type()) && isIdx(a) {
								usesIndexes = true
							}
						}
					}
				})
				for _, a := range g.AnonFuncs {
					scan(a)
				}
			}
			scan(less)
			construct := "comparator of " + name + "(" + trunc(sortedPath) + ")"
			switch {
			case readsSorted:
				c.OK(ci.Pos(), FuncName(f), construct, "indexes the slice being sorted")
			case len(bases) == 0:
				if usesIndexes {
					c.Triv(ci.Pos(), FuncName(f), construct, "the indexes are handed to accessors / helpers, not used on a slice directly")
				} else {
					c.Triv(ci.Pos(), FuncName(f), construct, "does not index any slice")
				}
			default:
				c.Bad(ci.Pos(), FuncName(f), construct, "the comparison function indexes "+strings.Join(bases, ", ")+" and never the slice being sorted ("+sortedPath+"): sort.Slice permutes only its argument, so positions in the other list go stale after the first swap and the final order depends on the order of arrival")
			}
		})
	}
	if n < 5 {
		c.Errorf("only %d sort.Slice calls found", n)
	}
}

// ---------------------------------------------------------------------------
// C14.signedcompare: a signed area is compared for its sign only
// ---------------------------------------------------------------------------

func init() {
	register(&Rule{
		ID:    "C14.signedcompare",
		Props: []string{"C14", "C03", "C17"},
		Doc:   "the sign of a ring's signed area is its winding direction, not a size: a value of signedAreaOfLinearRing that has not passed through math.Abs is ordered (<, <=, >, >=) only against zero — ordering two signed areas against each other (\"the smaller ring is the inner one\") gives an answer that flips with the winding direction of the input",
		Floor: 1,
		Run:   runC14SignedCompare,
	})
}

func runC14SignedCompare(c *Ctx) {
	n := 0
	var isSignedD func(v ssa.Value, d int) bool
	isSigned := func(v ssa.Value) bool { return isSignedD(v, 0) }
	isSignedD = func(v ssa.Value, d int) bool {
		return computedFrom(v, func(x ssa.Value) bool {
			call, ok := x.(*ssa.Call)
			if !ok {
				return false
			}
			if calleeName(call) == "geom.signedAreaOfLinearRing" {
				return true
			}
			// a helper (introduced since the baseline) that hands a signed area back
			if h := staticCallee(call); h != nil && isNewHelper(h) && d < 2 && isFloat(call.Type()) {
				for _, r := range returnsOf(h) {
					if len(r.Results) == 1 && isSignedD(r.Results[0], d+1) {
						return true
					}
				}
			}
			return false
		}, func(x ssa.Value) bool {
			// |x|, x*x and comparisons lose the sign
			if call, ok := x.(*ssa.Call); ok {
				nm := calleeName(call)
				return nm == "math.Abs" || nm == "geom.(Polygon).Area" || nm == "geom.(MultiPolygon).Area"
			}
			if bo, ok := x.(*ssa.BinOp); ok && bo.Op == token.MUL && (bo.X == bo.Y || sameValue(bo.X, bo.Y)) {
				return true
			}
			return !isFloat(x.Type())
		})
	}
	isZero := func(v ssa.Value) bool {
		cst, ok := v.(*ssa.Const)
		if !ok || cst.Value == nil {
			return false
		}
		f, ok := constantFloat(cst)
		return ok && f == 0
	}
	for _, f := range c.P.Funcs {
		if pkgOf(f) != "geom" {
			continue
		}
		eachInstr(f, func(in ssa.Instruction) {
			bo, ok := in.(*ssa.BinOp)
			if !ok || !isFloat(bo.X.Type()) {
				return
			}
			switch bo.Op {
			case token.LSS, token.LEQ, token.GTR, token.GEQ:
			default:
				return
			}
			sx, sy := isSigned(bo.X), isSigned(bo.Y)
			if !sx && !sy {
				return
			}
			n++
			construct := "ordering of a signed ring area"
			switch {
			case (sx && isZero(bo.Y)) || (sy && isZero(bo.X)):
				c.OK(bo.Pos(), FuncName(f), construct, "compared with zero: a test of the winding direction")
			default:
				xs, _ := accessPath(bo.X)
				ys, _ := accessPath(bo.Y)
				c.Bad(bo.Pos(), FuncName(f), construct, "a signed area ("+trunc(xs)+" "+bo.Op.String()+" "+trunc(ys)+") is ordered against something other than zero without math.Abs: the outcome flips with the winding direction of the ring")
			}
		})
	}
	if n < 1 {
		c.Errorf("no ordering comparison of a signed ring area found (expected IsCW / IsCCW / forceOrientation)")
	}
}

// ---------------------------------------------------------------------------
// C18.measures: ExactEquals decides on coordinates, not on derived measures
// ---------------------------------------------------------------------------

func init() {
	register(&Rule{
		ID:    "C18.measures",
		Props: []string{"C18"},
		Doc:   "ExactEquals is decided by comparing control points: no method of exactEqualsComparator (nor a function literal or helper of one) consults a derived floating-point measure of its operands — Area, Length, Centroid, Distance, Envelope — to accept or reject a pair: a measure accumulated in ring order differs in the last bits between a ring and its rotation or reversal (and overflows for large ordinates), so a pre-rejection on `a.Area() != b.Area()` makes equal geometries unequal",
		Floor: 0,
		Run:   runC18Measures,
	})
}

func runC18Measures(c *Ctx) {
	banned := map[string]bool{"Area": true, "Length": true, "Centroid": true, "Distance": true, "Envelope": true, "signedAreaOfLinearRing": true}
	n := 0
	seen := map[*ssa.Function]bool{}
	var fs []*ssa.Function
	for _, m := range c.P.methodsOf("geom", "exactEqualsComparator") {
		for _, g := range withNewHelpers(m) {
			if !seen[g] {
				seen[g] = true
				fs = append(fs, g)
			}
			for _, a := range allAnon(g) {
				if !seen[a] {
					seen[a] = true
					fs = append(fs, a)
				}
			}
		}
	}
	for _, f := range fs {
		n++
		eachCall(f, func(ci ssa.CallInstruction) {
			cal := staticCallee(ci)
			if cal == nil || pkgOf(cal) != "geom" || !banned[cal.Name()] {
				return
			}
			// Sequence.Length() is a count, not a measure
			if cal.Signature.Recv() != nil && namedName(cal.Signature.Recv().Type()) == "Sequence" {
				return
			}
			if !isFloat(cal.Signature.Results().At(0).Type()) && cal.Name() != "Envelope" && cal.Name() != "Centroid" {
				return
			}
			c.Bad(ci.Pos(), FuncName(f), "derived measure "+cal.Name()+"() consulted", "the structural comparison consults "+FuncName(cal)+": a floating-point measure depends on the order in which the control points are accumulated, so geometries that are equal up to ring rotation / member order can be told apart by it (and large ordinates overflow it)")
		})
	}
	c.Triv(token.NoPos, "-", "summary", fmt.Sprintf("%d functions of the structural comparison examined", n))
}
