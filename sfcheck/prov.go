package main

import (
	"go/token"
	"go/types"

	"golang.org/x/tools/go/ssa"
)

// K2: value provenance. A pointer-like value (pointer, slice, map, or a struct
// carrying those) points into memory regions identified by their base:
// a fresh allocation made in the function, a parameter, a global, or unknown.

type baseKind int

const (
	bkFresh baseKind = iota
	bkParam
	bkGlobal
	bkUnknown
)

type base struct {
	kind  baseKind
	param *ssa.Parameter
	what  string
}

type provInfo struct {
	bases     map[base]bool
	protected string // first protected type/field met on the way from the base ("" if none)
}

func (p *provInfo) add(o *provInfo) {
	for b := range o.bases {
		p.bases[b] = true
	}
	if p.protected == "" {
		p.protected = o.protected
	}
}

func (p *provInfo) onlyFresh() bool {
	for b := range p.bases {
		if b.kind != bkFresh {
			return false
		}
	}
	return true
}

func (p *provInfo) nonFreshDesc() string {
	for b := range p.bases {
		switch b.kind {
		case bkParam:
			return "parameter " + b.param.Name()
		case bkGlobal:
			return "global " + b.what
		case bkUnknown:
			return "memory of unknown origin (" + b.what + ")"
		}
	}
	return ""
}

// protectedTypes: values of these types are immutable once constructed.
var protectedTypes = map[string]bool{
	"geom.Sequence": true, "geom.LineString": true, "geom.Polygon": true, "geom.MultiPoint": true,
	"geom.MultiLineString": true, "geom.MultiPolygon": true, "geom.GeometryCollection": true,
	"geom.Geometry": true, "geom.Point": true, "geom.Envelope": true, "geom.NullGeometry": true,
	"rtree.RTree": true, "rtree.node": true, "rtree.entry": true,
}

func protectedName(t types.Type) string {
	t = deref(t)
	n, ok := t.(*types.Named)
	if !ok || n.Obj().Pkg() == nil {
		return ""
	}
	s := n.Obj().Pkg().Name() + "." + n.Obj().Name()
	if protectedTypes[s] {
		return s
	}
	return ""
}

func hasPointers(t types.Type) bool {
	switch u := t.Underlying().(type) {
	case *types.Basic:
		return u.Kind() == types.UnsafePointer || u.Kind() == types.String && false
	case *types.Pointer, *types.Slice, *types.Map, *types.Chan, *types.Signature, *types.Interface:
		return true
	case *types.Struct:
		for i := 0; i < u.NumFields(); i++ {
			if hasPointers(u.Field(i).Type()) {
				return true
			}
		}
		return false
	case *types.Array:
		return hasPointers(u.Elem())
	case *types.Tuple:
		for i := 0; i < u.Len(); i++ {
			if hasPointers(u.At(i).Type()) {
				return true
			}
		}
	}
	return false
}

type provEnv struct {
	p        *Program
	memo     map[ssa.Value]*provInfo
	visiting map[ssa.Value]bool
	fresh    map[*ssa.Function]bool // returnsFresh summaries
	// retParams: for a function whose returned pointerful values are rooted only
	// in fresh memory and in its own parameters, the indices of those parameters
	// (append-style helpers return their destination argument, not their source)
	retParams  map[*ssa.Function]map[int]bool
	cellStores map[ssa.Value][]ssa.Value
}

func newProvEnv(p *Program) *provEnv {
	e := &provEnv{p: p, memo: map[ssa.Value]*provInfo{}, visiting: map[ssa.Value]bool{}, fresh: map[*ssa.Function]bool{}, cellStores: map[ssa.Value][]ssa.Value{}, retParams: map[*ssa.Function]map[int]bool{}}
	e.computeFresh()
	e.computeRetParams()
	return e
}

func newInfo() *provInfo { return &provInfo{bases: map[base]bool{}} }

func freshInfo() *provInfo {
	i := newInfo()
	i.bases[base{kind: bkFresh}] = true
	return i
}

// storesInto lists the values stored anywhere into the local cell (Alloc or
// captured FreeVar), including stores made by closures that capture it and
// stores into sub-addresses (fields/elements).
func (e *provEnv) storesInto(cell ssa.Value) []ssa.Value {
	if s, ok := e.cellStores[cell]; ok {
		return s
	}
	e.cellStores[cell] = nil
	var out []ssa.Value
	seen := map[ssa.Value]bool{}
	var visit func(addr ssa.Value)
	visit = func(addr ssa.Value) {
		if seen[addr] {
			return
		}
		seen[addr] = true
		refs := addr.Referrers()
		if refs == nil {
			return
		}
		for _, r := range *refs {
			switch x := r.(type) {
			case *ssa.Store:
				if x.Addr == addr {
					out = append(out, x.Val)
				}
			case *ssa.FieldAddr:
				if x.X == addr {
					visit(x)
				}
			case *ssa.IndexAddr:
				if x.X == addr {
					visit(x)
				}
			case *ssa.MakeClosure:
				fn := x.Fn.(*ssa.Function)
				for i, b := range x.Bindings {
					if b == addr {
						visit(fn.FreeVars[i])
					}
				}
			}
		}
	}
	visit(cell)
	// a FreeVar: also the stores made in the parent to the bound cell
	if fv, ok := cell.(*ssa.FreeVar); ok {
		fn := fv.Parent()
		if par := fn.Parent(); par != nil {
			idx := -1
			for i, f2 := range fn.FreeVars {
				if f2 == fv {
					idx = i
				}
			}
			eachInstr(par, func(in ssa.Instruction) {
				if mc, ok := in.(*ssa.MakeClosure); ok && mc.Fn == fn && idx >= 0 {
					out = append(out, e.storesInto(mc.Bindings[idx])...)
				}
			})
		}
	}
	e.cellStores[cell] = out
	return out
}

// localRoot: addr is (a sub-address of) a local cell; returns the cell.
func localRoot(addr ssa.Value) ssa.Value {
	for i := 0; i < 12; i++ {
		switch x := addr.(type) {
		case *ssa.Alloc:
			return x
		case *ssa.FreeVar:
			return x
		case *ssa.FieldAddr:
			addr = x.X
		case *ssa.IndexAddr:
			// only for arrays addressed in place (pointer to array)
			if _, isPtr := x.X.Type().Underlying().(*types.Pointer); isPtr {
				addr = x.X
			} else {
				return nil
			}
		default:
			return nil
		}
	}
	return nil
}

func (e *provEnv) of(v ssa.Value) *provInfo {
	if v == nil {
		return newInfo()
	}
	if i, ok := e.memo[v]; ok {
		return i
	}
	if e.visiting[v] {
		return newInfo()
	}
	e.visiting[v] = true
	i := e.compute(v)
	delete(e.visiting, v)
	e.memo[v] = i
	return i
}

func (e *provEnv) withProt(i *provInfo, t types.Type, field string) *provInfo {
	o := newInfo()
	o.add(i)
	if o.protected == "" {
		if pn := protectedName(t); pn != "" {
			o.protected = pn
			if field != "" {
				o.protected += "." + field
			}
		}
	}
	return o
}

func (e *provEnv) compute(v ssa.Value) *provInfo {
	switch x := v.(type) {
	case *ssa.Parameter:
		i := newInfo()
		i.bases[base{kind: bkParam, param: x}] = true
		return e.withProt(i, x.Type(), "")
	case *ssa.FreeVar, *ssa.Alloc:
		return freshInfo() // as an address: a local cell
	case *ssa.Global:
		i := newInfo()
		i.bases[base{kind: bkGlobal, what: x.Name()}] = true
		return i
	case *ssa.Const, *ssa.Function, *ssa.Builtin:
		return newInfo()
	case *ssa.MakeSlice:
		i := freshInfo()
		// a fresh slice OF SLICES holds what is stored into its elements: dst[k] = append(nil, src[k]...) makes
		// dst share src's inner slices
		if st, ok := x.Type().Underlying().(*types.Slice); ok {
			if _, inner := st.Elem().Underlying().(*types.Slice); inner && x.Referrers() != nil {
				for _, r := range *x.Referrers() {
					ia, ok := r.(*ssa.IndexAddr)
					if !ok || ia.Referrers() == nil {
						continue
					}
					for _, rr := range *ia.Referrers() {
						if stv, ok := rr.(*ssa.Store); ok && stv.Addr == ssa.Value(ia) {
							i.add(e.of(stv.Val))
						}
					}
				}
			}
		}
		return i
	case *ssa.MakeMap, *ssa.MakeChan, *ssa.MakeClosure:
		return freshInfo()
	case *ssa.FieldAddr:
		return e.withProt(e.of(x.X), x.X.Type(), fieldName(x.X.Type(), x.Field))
	case *ssa.Field:
		return e.withProt(e.of(x.X), x.X.Type(), fieldName(x.X.Type(), x.Field))
	case *ssa.IndexAddr:
		return e.of(x.X)
	case *ssa.Index:
		return e.of(x.X)
	case *ssa.Slice:
		return e.of(x.X)
	case *ssa.Lookup:
		return e.of(x.X)
	case *ssa.Phi:
		i := newInfo()
		for _, ed := range x.Edges {
			i.add(e.of(ed))
		}
		return i
	case *ssa.ChangeType:
		return e.of(x.X)
	case *ssa.Convert:
		return e.of(x.X)
	case *ssa.ChangeInterface:
		return e.of(x.X)
	case *ssa.MakeInterface:
		return e.of(x.X)
	case *ssa.TypeAssert:
		return e.withProt(e.of(x.X), x.AssertedType, "")
	case *ssa.SliceToArrayPointer:
		return e.of(x.X)
	case *ssa.Extract:
		switch t := x.Tuple.(type) {
		case *ssa.Next:
			if r, ok := t.Iter.(*ssa.Range); ok {
				return e.of(r.X)
			}
		case *ssa.Call:
			return e.of(t)
		case *ssa.TypeAssert:
			return e.of(t)
		case *ssa.Lookup:
			return e.of(t)
		case *ssa.UnOp:
			return e.of(t)
		}
		i := newInfo()
		i.bases[base{kind: bkUnknown, what: "extract"}] = true
		return i
	case *ssa.UnOp:
		if x.Op != token.MUL {
			return newInfo()
		}
		if !hasPointers(x.Type()) {
			return newInfo()
		}
		if cell := localRoot(x.X); cell != nil {
			// a field read straight off a local struct whose address stays in this function: only what
			// was stored into that field (or the whole struct) can be read back
			if fa, ok := x.X.(*ssa.FieldAddr); ok && fa.X == cell {
				if al, isAlloc := cell.(*ssa.Alloc); isAlloc {
					if vals, ok := fieldStores(al, fa.Field, x); ok {
						i := newInfo()
						for _, sv := range vals {
							if hasPointers(sv.Type()) {
								i.add(e.of(sv))
							}
						}
						return e.withProt(i, fa.X.Type(), fieldName(fa.X.Type(), fa.Field))
					}
				}
			}
			i := newInfo()
			for _, sv := range e.storesInto(cell) {
				if hasPointers(sv.Type()) {
					i.add(e.of(sv))
				}
			}
			// selecting a field of the stored struct value
			if fa, ok := x.X.(*ssa.FieldAddr); ok {
				return e.withProt(i, fa.X.Type(), fieldName(fa.X.Type(), fa.Field))
			}
			return e.withProt(i, x.Type(), "")
		}
		// memory reachable from wherever the address points
		return e.withProt(e.of(x.X), x.Type(), "")
	case *ssa.BinOp:
		return newInfo()
	case *ssa.Call:
		if !hasPointers(x.Type()) {
			return newInfo()
		}
		if b, ok := x.Call.Value.(*ssa.Builtin); ok {
			switch b.Name() {
			case "append":
				i := newInfo()
				i.add(e.of(x.Call.Args[0]))
				i.bases[base{kind: bkFresh}] = true
				// appending elements that themselves hold pointers (slices of slices) copies the pointers:
				// the result's contents then alias the source's elements
				// (only for elements that ARE slices: geometry values also hold pointers, but to storage
				// that is immutable by the library's convention, and copying them is the accepted copy)
				if st, ok := x.Type().Underlying().(*types.Slice); ok && len(x.Call.Args) > 1 {
					if _, inner := st.Elem().Underlying().(*types.Slice); inner {
						i.add(e.of(x.Call.Args[1]))
					}
				}
				return i
			case "min", "max", "len", "cap":
				return newInfo()
			}
			i := newInfo()
			for _, a := range x.Call.Args {
				i.add(e.of(a))
			}
			return i
		}
		if cal := staticCallee(x); cal != nil {
			if cal.Blocks != nil && e.p.InRepo(cal) {
				if e.fresh[cal] {
					return freshInfo()
				}
				if rp, ok := e.retParams[cal]; ok && len(cal.FreeVars) == 0 {
					i := freshInfo()
					for idx, a := range x.Call.Args {
						if rp[idx] {
							i.add(e.of(a))
						}
					}
					return i
				}
				i := newInfo()
				for _, a := range x.Call.Args {
					if hasPointers(a.Type()) && mayAliasTypes(x.Type(), a.Type()) {
						i.add(e.of(a))
					}
				}
				// closures: captured variables may also be returned
				if len(cal.FreeVars) > 0 {
					i.bases[base{kind: bkUnknown, what: "closure result"}] = true
				}
				if len(i.bases) == 0 {
					// no pointerful argument and not proven fresh: e.g. returns a global
					i.bases[base{kind: bkUnknown, what: "result of " + FuncName(cal)}] = true
				}
				return i
			}
			// external function
			switch extName(cal) {
			case "unsafe.Slice", "unsafe.SliceData", "unsafe.String", "unsafe.StringData":
				return e.of(x.Call.Args[0])
			case "container/heap.Pop":
				i := newInfo()
				i.bases[base{kind: bkUnknown, what: "heap.Pop"}] = true
				return i
			}
			return freshInfo()
		}
		i := newInfo()
		i.bases[base{kind: bkUnknown, what: "dynamic call"}] = true
		return i
	}
	i := newInfo()
	i.bases[base{kind: bkUnknown, what: v.Name()}] = true
	return i
}

// computeFresh: least fixpoint of "every pointerful value f returns is fresh".
func (e *provEnv) computeFresh() {
	for changed := true; changed; {
		changed = false
		for _, f := range e.p.Funcs {
			if e.fresh[f] || f.Signature.Results().Len() == 0 {
				continue
			}
			ok := true
			e.memo = map[ssa.Value]*provInfo{}
			for _, r := range returnsOf(f) {
				for _, rv := range r.Results {
					if !hasPointers(rv.Type()) {
						continue
					}
					if !e.of(rv).onlyFresh() {
						ok = false
					}
				}
			}
			if len(returnsOf(f)) == 0 {
				ok = false
			}
			if ok {
				e.fresh[f] = true
				changed = true
			}
		}
	}
	e.memo = map[ssa.Value]*provInfo{}
}

// computeRetParams: summaries "the result is rooted in fresh memory and in
// parameters I only", grown from no summaries (a function without a summary is
// treated as returning memory of any pointerful argument).
func (e *provEnv) computeRetParams() {
	failed := map[*ssa.Function]bool{}
	// callees whose summary is still pending: a function is summarised only after them (otherwise the
	// conservative "may alias any pointerful argument" stands in for the callee and is frozen into the summary,
	// which made the result depend on the iteration order)
	pending := func(f *ssa.Function, strict bool) bool {
		if !strict {
			return false
		}
		wait := false
		eachCall(f, func(ci ssa.CallInstruction) {
			cal := staticCallee(ci)
			if cal == nil || cal == f || cal.Blocks == nil || !e.p.InRepo(cal) || cal.Signature.Results().Len() == 0 {
				return
			}
			if _, done := e.retParams[cal]; done || e.fresh[cal] || failed[cal] {
				return
			}
			pointerful := false
			for i := 0; i < cal.Signature.Results().Len(); i++ {
				if hasPointers(cal.Signature.Results().At(i).Type()) {
					pointerful = true
				}
			}
			if pointerful {
				wait = true
			}
		})
		return wait
	}
	for _, strict := range []bool{true, false} {
		for changed := true; changed; {
			changed = false
			for _, f := range e.p.Funcs {
				if _, done := e.retParams[f]; done || failed[f] || e.fresh[f] || f.Signature.Results().Len() == 0 || f.Blocks == nil {
					continue
				}
				if pending(f, strict) {
					continue
				}
				e.memo = map[ssa.Value]*provInfo{}
				set := map[int]bool{}
				ok := len(returnsOf(f)) > 0
				for _, r := range returnsOf(f) {
					for _, rv := range r.Results {
						if !hasPointers(rv.Type()) {
							continue
						}
						for b := range e.of(rv).bases {
							switch b.kind {
							case bkFresh:
							case bkParam:
								idx := paramIndex(f, b.param)
								if idx < 0 {
									ok = false
								}
								set[idx] = true
							default:
								ok = false
							}
						}
					}
				}
				if ok {
					e.retParams[f] = set
				} else if strict {
					failed[f] = true
				} else {
					continue
				}
				changed = true
			}
		}
		if strict {
			// functions that failed only because of a cycle get a second, non-strict chance
			failed = map[*ssa.Function]bool{}
		}
	}
	e.memo = map[ssa.Value]*provInfo{}
}

// protectedTarget: the memory cell addressed by (or the backing store of) v
// belongs to a protected object: walking the address expression back towards
// its base meets a field selection on a protected struct type.
func protectedTarget(v ssa.Value) string {
	seen := map[ssa.Value]bool{}
	var rec func(v ssa.Value, d int) string
	rec = func(v ssa.Value, d int) string {
		if v == nil || d > 14 || seen[v] {
			return ""
		}
		seen[v] = true
		switch x := v.(type) {
		case *ssa.FieldAddr:
			if pn := protectedName(x.X.Type()); pn != "" {
				return pn + "." + fieldName(x.X.Type(), x.Field)
			}
			return rec(x.X, d+1)
		case *ssa.Field:
			if pn := protectedName(x.X.Type()); pn != "" {
				return pn + "." + fieldName(x.X.Type(), x.Field)
			}
			return rec(x.X, d+1)
		case *ssa.IndexAddr:
			return rec(x.X, d+1)
		case *ssa.Index:
			return rec(x.X, d+1)
		case *ssa.Slice:
			return rec(x.X, d+1)
		case *ssa.UnOp:
			if x.Op == token.MUL {
				if cell := localRoot(x.X); cell != nil {
					// content of a local variable: what was stored into it
					if _, isFA := x.X.(*ssa.FieldAddr); isFA {
						if r := rec(x.X, d+1); r != "" {
							return r
						}
					}
					refs := cell.Referrers()
					if refs != nil {
						for _, r := range *refs {
							if st, ok := r.(*ssa.Store); ok && st.Addr == cell {
								if pr := rec(st.Val, d+1); pr != "" {
									return pr
								}
							}
						}
					}
					return ""
				}
				return rec(x.X, d+1)
			}
		case *ssa.Phi:
			for _, e := range x.Edges {
				if r := rec(e, d+1); r != "" {
					return r
				}
			}
		case *ssa.ChangeType:
			return rec(x.X, d+1)
		case *ssa.Convert:
			return rec(x.X, d+1)
		case *ssa.MakeInterface:
			return rec(x.X, d+1)
		case *ssa.TypeAssert:
			if pn := protectedName(x.AssertedType); pn != "" {
				return pn
			}
			return rec(x.X, d+1)
		case *ssa.Parameter:
			// a pointer to a protected object written through directly (*p = ...)
			if _, isPtr := x.Type().Underlying().(*types.Pointer); isPtr {
				return protectedName(x.Type())
			}
		case *ssa.Extract:
			if n, ok := x.Tuple.(*ssa.Next); ok {
				if r, ok := n.Iter.(*ssa.Range); ok {
					return rec(r.X, d+1)
				}
			}
			if ta, ok := x.Tuple.(*ssa.TypeAssert); ok {
				return rec(ta, d+1)
			}
		}
		return ""
	}
	return rec(v, 0)
}

// cellTypes: the heap cell kinds reachable from a value of type t.
func cellTypes(t types.Type, out map[string]bool, depth int) {
	if depth > 6 {
		return
	}
	if n, ok := t.(*types.Named); ok && n.Obj().Pkg() != nil && n.Obj().Pkg().Name() == "geom" && n.Obj().Name() == "Geometry" {
		// the tagged pointer of Geometry points to one of the seven concrete types
		for _, tn := range []string{"GeometryCollection", "Point", "LineString", "Polygon", "MultiPoint", "MultiLineString", "MultiPolygon"} {
			if o := n.Obj().Pkg().Scope().Lookup(tn); o != nil {
				k := "*" + types.TypeString(o.Type(), nil)
				if !out[k] {
					out[k] = true
					cellTypes(o.Type(), out, depth+1)
				}
			}
		}
		return
	}
	switch u := t.Underlying().(type) {
	case *types.Pointer:
		k := "*" + types.TypeString(u.Elem(), nil)
		if out[k] {
			return
		}
		out[k] = true
		cellTypes(u.Elem(), out, depth+1)
	case *types.Slice:
		k := "[]" + types.TypeString(u.Elem(), nil)
		if out[k] {
			return
		}
		out[k] = true
		cellTypes(u.Elem(), out, depth+1)
	case *types.Map:
		out["map"+types.TypeString(u, nil)] = true
		cellTypes(u.Elem(), out, depth+1)
	case *types.Struct:
		for i := 0; i < u.NumFields(); i++ {
			cellTypes(u.Field(i).Type(), out, depth+1)
		}
	case *types.Array:
		cellTypes(u.Elem(), out, depth+1)
	case *types.Interface, *types.Signature:
		out["*any*"] = true
	case *types.Basic:
		if u.Kind() == types.UnsafePointer {
			out["*any*"] = true
		}
	case *types.Tuple:
		for i := 0; i < u.Len(); i++ {
			cellTypes(u.At(i).Type(), out, depth+1)
		}
	}
}

func mayAliasTypes(a, b types.Type) bool {
	ca, cb := map[string]bool{}, map[string]bool{}
	cellTypes(a, ca, 0)
	cellTypes(b, cb, 0)
	if ca["*any*"] && len(cb) > 0 || cb["*any*"] && len(ca) > 0 {
		return true
	}
	for k := range ca {
		if cb[k] {
			return true
		}
	}
	return false
}

// containerKey: the heap cell kind ("*T" / "[]T" / map) that the address or
// slice value v lives in, found by walking back over field/index selections.
func containerKey(v ssa.Value) string {
	for i := 0; i < 16; i++ {
		switch x := v.(type) {
		case *ssa.FieldAddr:
			v = x.X
			continue
		case *ssa.IndexAddr:
			v = x.X
			continue
		}
		break
	}
	switch u := v.Type().Underlying().(type) {
	case *types.Pointer:
		return "*" + types.TypeString(u.Elem(), nil)
	case *types.Slice:
		return "[]" + types.TypeString(u.Elem(), nil)
	case *types.Map:
		return "map" + types.TypeString(u, nil)
	}
	return ""
}

// filterBases drops parameter bases whose type cannot reach a heap cell of
// the kind being written.
func filterBases(info *provInfo, target ssa.Value) *provInfo {
	key := containerKey(target)
	if key == "" {
		return info
	}
	out := &provInfo{bases: map[base]bool{}, protected: info.protected}
	for b := range info.bases {
		if b.kind == bkParam {
			ct := map[string]bool{}
			cellTypes(b.param.Type(), ct, 0)
			if !ct[key] && !ct["*any*"] {
				continue
			}
		}
		out.bases[b] = true
	}
	return out
}

// fieldStores: the values stored into field `field` of the local struct cell —
// directly, into its sub-addresses, or as part of a whole-struct store — when
// the cell's address is used for nothing but field/element addressing, loads
// and stores (so nothing else can write it). ok is false otherwise.
func fieldStores(al *ssa.Alloc, field int, at ssa.Instruction) (out []ssa.Value, ok bool) {
	ok = true
	var wholeStores, directFieldStores []*ssa.Store
	before := func(a, b ssa.Instruction) bool {
		if a.Block() == b.Block() {
			return instrIndex(a) < instrIndex(b)
		}
		return a.Block().Dominates(b.Block())
	}
	defer func() {
		// a later assignment of the field itself replaces what an earlier whole-struct copy put there
		for _, fs := range directFieldStores {
			if !before(fs, at) {
				continue
			}
			all := len(wholeStores) > 0
			for _, w := range wholeStores {
				if !before(w, fs) {
					all = false
				}
			}
			if all {
				var kept []ssa.Value
				for _, v := range out {
					isWhole := false
					for _, w := range wholeStores {
						if w.Val == v {
							isWhole = true
						}
					}
					if !isWhole {
						kept = append(kept, v)
					}
				}
				out = kept
				return
			}
		}
	}()
	var sub func(addr ssa.Value, collect bool)
	sub = func(addr ssa.Value, collect bool) {
		refs := addr.Referrers()
		if refs == nil {
			return
		}
		for _, r := range *refs {
			switch x := r.(type) {
			case *ssa.Store:
				if x.Addr == addr {
					if collect {
						out = append(out, x.Val)
					}
				} else {
					ok = false // the address itself is stored somewhere
				}
			case *ssa.UnOp:
				// a load
			case *ssa.FieldAddr:
				sub(x, collect)
			case *ssa.IndexAddr:
				sub(x, collect)
			case *ssa.DebugRef:
			default:
				ok = false
			}
		}
	}
	refs := al.Referrers()
	if refs == nil {
		return nil, false
	}
	for _, r := range *refs {
		switch x := r.(type) {
		case *ssa.Store:
			if x.Addr == ssa.Value(al) {
				// a named result is re-stored with its own value at a return (*x = *x): not a new definition
				if ld, isLd := x.Val.(*ssa.UnOp); isLd && ld.Op == token.MUL && ld.X == ssa.Value(al) {
					continue
				}
				out = append(out, x.Val) // whole-struct store: may carry the field
				wholeStores = append(wholeStores, x)
			} else {
				ok = false
			}
		case *ssa.UnOp:
		case *ssa.FieldAddr:
			if x.Field == field {
				for _, rr := range *x.Referrers() {
					if st, isSt := rr.(*ssa.Store); isSt && st.Addr == ssa.Value(x) {
						directFieldStores = append(directFieldStores, st)
					}
				}
			}
			sub(x, x.Field == field)
		case *ssa.DebugRef:
		default:
			ok = false
		}
	}
	return out, ok
}
